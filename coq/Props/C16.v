(* Props/C16.v — every output format renders the diagnostics faithfully, one
   per line.  Only statements; every proof is [exact <lemma>]. *)
From AL Require Import Base.Str Out.Render Out.RenderProofs Out.Matcher Out.MatcherProofs Out.Messages Out.MessagesProofs.
From Coq Require Import ZArith.
From AL Require Gen.GenFormats Out.FormatArgs.

(* the header is file:line:col: message [kind], and PrettyPrint's pieces make up exactly it *)
Theorem C16_header_format : forall e,
  concat (header_writes e) = error_string e ++ [NL] /\
  error_string e = e_file e ++ b ":" ++ decz (e_line e) ++ b ":" ++ decz (e_col e) ++ b ": "
                   ++ e_msg e ++ b " [" ++ e_kind e ++ b "]".
Proof. exact header_format. Qed.
Print Assumptions C16_header_format.

(* -oneline: a diagnostic without line break in its fields yields exactly one line, its header *)
Theorem C16_oneline_one_line : forall rw sw e, err_no_nl e ->
  exists out, pretty_print rw sw e [] = Ok out /\ lines_go [] out = [error_string e].
Proof. exact oneline_one_line. Qed.
Print Assumptions C16_oneline_one_line.

(* -oneline output = the headers of the diagnostics, same order, same count *)
Theorem C16_render_preserves_order_count : forall rw sw es src, Forall err_no_nl es ->
  exists out, print_errors rw sw true es src = Ok out /\ lines_go [] out = map error_string es.
Proof. exact render_preserves_order_count. Qed.
Print Assumptions C16_render_preserves_order_count.

(* default mode and -oneline: per diagnostic, in order, header then snippet block *)
Theorem C16_render_shape : forall rw sw (ol : bool) es src,
  exists blocks,
    Forall2 (fun e blk => snippet_block rw sw e (if ol then @nil ascii else src) = Ok blk) es blocks /\
    print_errors rw sw ol es src =
      Ok (concat (map (fun p => error_string (fst p) ++ [NL] ++ snd p) (combine es blocks))).
Proof. exact render_shape. Qed.
Print Assumptions C16_render_shape.

(* rendering never panics, whatever line, column and source (and whatever the width library answers) *)
Theorem C16_snippet_no_panic : forall rw sw e src,
  pretty_print rw sw e src <> Panic /\ template_fields rw sw e src <> Panic.
Proof. exact snippet_no_panic. Qed.
Print Assumptions C16_snippet_no_panic.

Theorem C16_print_errors_no_panic : forall rw sw ol es src, print_errors rw sw ol es src <> Panic.
Proof. exact print_errors_no_panic. Qed.
Print Assumptions C16_print_errors_no_panic.

(* a snippet, when shown, is the referenced source line ... *)
Theorem C16_snippet_spec : forall rw sw e src blk,
  snippet_block rw sw e src = Ok blk -> blk <> [] ->
  exists line ind,
    (1 <= e_line e)%Z /\
    nth_error (scan_lines src) (Z.to_nat (e_line e - 1)) = Some line /\
    get_indicator rw sw line (e_col e) = Ok ind /\
    let lnum := decz (e_line e) ++ b " | " in
    let indent := repeat " "%char (length lnum - 2) in
    blk = indent ++ b "|" ++ [NL] ++ lnum ++ line ++ [NL] ++ indent ++ b "| " ++ ind ++ [NL].
Proof. exact snippet_spec. Qed.
Print Assumptions C16_snippet_spec.

(* ... with the caret under the reported column *)
Theorem C16_indicator_caret : forall rw (sw : bytes -> nat) line col,
  (1 <= col)%Z -> (col - 1 <= Z.of_nat (length line))%Z ->
  sw (firstn (Z.to_nat (col - 1)) line) = Z.to_nat (col - 1) ->
  exists uw, get_indicator rw sw line col = Ok (repeat " "%char (Z.to_nat (col - 1)) ++ ["^"%char] ++ repeat "~"%char uw).
Proof. exact indicator_caret. Qed.
Print Assumptions C16_indicator_caret.

(* the shipped problem-matcher pattern parses the header back to the same file,
   line, column, message and kind — when the file name has no ':' and the
   message no " [" (and no field a line feed) *)
Theorem C16_matcher_roundtrip : forall e,
  file_ok (e_file e) -> msg_ok (e_msg e) -> kind_ok (e_kind e) ->
  (0 <= e_line e)%Z -> (0 <= e_col e)%Z ->
  matcher (error_string e) = Some (e_file e, decz (e_line e), decz (e_col e), e_msg e, e_kind e).
Proof. exact matcher_roundtrip. Qed.
Print Assumptions C16_matcher_roundtrip.

(* the full statement (any one-line message) is false: known finding matcher-space-bracket *)
Theorem C16_matcher_roundtrip_full_refuted : exists e,
  file_ok (e_file e) /\ e_msg e <> [] /\ no_nl (e_msg e) /\ kind_ok (e_kind e) /\
  (0 <= e_line e)%Z /\ (0 <= e_col e)%Z /\
  matcher (error_string e) <> Some (e_file e, decz (e_line e), decz (e_col e), e_msg e, e_kind e).
Proof. exact matcher_roundtrip_full_refuted. Qed.
Print Assumptions C16_matcher_roundtrip_full_refuted.

(* %q (strconv.Quote) never emits a line feed *)
Theorem C16_quote_no_nl : forall ip s, no_nl (quote ip s).
Proof. exact quote_no_nl. Qed.
Print Assumptions C16_quote_no_nl.

(* a message formatted from one-line literals, %q of arbitrary text, %d and
   %s/%v of one-line values is one line (partial: that the %s/%v arguments of
   the real format sites are one-line is established by the harness, not proved) *)
Theorem C16_messages_single_line_partial : forall ip ps,
  Forall piece_safe ps -> no_nl (sprintf ip ps).
Proof. exact messages_single_line. Qed.
Print Assumptions C16_messages_single_line_partial.

(* what the diagnostics print without quoting: every %s / %v verb of every diagnostic format of
   the source (re-listed on every run, Gen/GenFormats.v) prints a value built by a quoting
   function, a fixed word, a position, a number, a library error text, or something that belongs
   to the person running actionlint — never a string taken from the workflow as it is *)
Theorem C16_unquoted_arguments_are_known : forall a, In a GenFormats.format_args ->
  exists c, In (a, c) FormatArgs.allowed.
Proof. exact FormatArgs.format_args_known. Qed.
Print Assumptions C16_unquoted_arguments_are_known.

(* the text of a library's error (cron parser, YAML decoder, OS) goes into a message through
   oneLine (error.go; model Out/OneLine.v over code points, tied to the function by the
   cases_oneline stream): nothing a consumer reads as the end of a line is left - LF, CR, NEL,
   LS, PS - a text without them is unchanged, and everything else is kept in order *)
From AL Require Out.OneLine.
Theorem C16_library_text_has_no_line_break : forall s,
  forallb (fun c => negb (OneLine.is_break c)) (OneLine.one_line s) = true.
Proof. exact OneLine.one_line_no_break. Qed.
Print Assumptions C16_library_text_has_no_line_break.

Theorem C16_library_text_unchanged_without_breaks : forall s,
  forallb (fun c => negb (OneLine.is_break c)) s = true -> OneLine.one_line s = s.
Proof. exact OneLine.one_line_id. Qed.
Print Assumptions C16_library_text_unchanged_without_breaks.

Theorem C16_library_text_kept : forall s,
  filter (fun c => negb (N.eqb c OneLine.SP)) (OneLine.one_line s)
  = filter (fun c => negb (OneLine.is_break c) && negb (N.eqb c OneLine.SP)) s.
Proof. exact OneLine.one_line_keeps_text. Qed.
Print Assumptions C16_library_text_kept.

(* flattening is idempotent (a text flattened by one layer and again by the next), never makes the
   text longer, and distributes over concatenation unless the cut falls inside a CR LF pair (the
   hypothesis is needed: witness below) *)
Theorem C16_library_text_flatten_idempotent : forall s, OneLine.one_line (OneLine.one_line s) = OneLine.one_line s.
Proof. exact OneLine.one_line_idem. Qed.
Print Assumptions C16_library_text_flatten_idempotent.

Theorem C16_library_text_never_longer : forall s, (length (OneLine.one_line s) <= length s)%nat.
Proof. exact OneLine.one_line_length. Qed.
Print Assumptions C16_library_text_never_longer.

Theorem C16_library_text_concatenation : forall a b,
  (forall a', a = a' ++ [OneLine.CR] -> forall b', b = OneLine.LF :: b' -> False) ->
  OneLine.one_line (a ++ b) = OneLine.one_line a ++ OneLine.one_line b.
Proof. exact OneLine.one_line_app. Qed.
Print Assumptions C16_library_text_concatenation.

Theorem C16_library_text_concatenation_cut_refuted :
  exists a b, OneLine.one_line (a ++ b) <> OneLine.one_line a ++ OneLine.one_line b.
Proof. exact OneLine.one_line_app_cut_refuted. Qed.
Print Assumptions C16_library_text_concatenation_cut_refuted.

(* before 040a767 only LF was replaced: `cron: "@x\ry"` put a CR into the message *)
Theorem C16_library_text_old_refuted : exists s, existsb OneLine.is_break (OneLine.one_line_old s) = true.
Proof. exact OneLine.one_line_old_refuted. Qed.
Print Assumptions C16_library_text_old_refuted.
