(* Props/C07.v — diagnostics point at the exact source position.
   Only statements; every proof is [exact <lemma>].  Models: Expr/PosModel.v
   (scanner positions, position-only lexer), Expr/Template.v (checkExprsIn,
   convertExprLineColToPos, the call sites, globErrors, posAt/errorAt). *)
From AL Require Import Base.Str Expr.Ast Expr.PosModel Expr.Template Expr.TemplateProofs.
From Coq Require Import Sorted.

(* token_col_is_offset: with neither a line break nor a non-ASCII character in
   the source, the scanner position of byte offset o is line 1, column o + 1 *)
Theorem C07_token_col_is_offset : forall s o, pos_plain s = true -> o <= String.length s ->
  pos_at s o = mkSpos o 1 (S o).
Proof. exact pos_at_plain. Qed.
Print Assumptions C07_token_col_is_offset.

(* the lexer's bookkeeping: every token start and the first lexing error carry
   the scanner position of their own byte offset, inside the source *)
Theorem C07_lex_token_pos : forall src,
  match pos_lex_all src with
  | LAOk toks after => Forall (fun t => spos_consistent src (fst t)) toks /\ after <= String.length src
  | LAErr toks e => Forall (fun t => spos_consistent src (fst t)) toks /\ spos_consistent src e
  | LAFuel => True
  end.
Proof. exact pos_lex_all_consistent. Qed.
Print Assumptions C07_lex_token_pos.

(* errorAtExpr reports a token of the (sub-)expression — its first one, Ast.etok *)
Theorem C07_error_at_expr : forall src e,
  Forall (fun t => spos_consistent src (spos_of_tpos t)) (expr_toks e) ->
  spos_consistent src (error_at_expr e).
Proof. exact error_at_expr_consistent. Qed.
Print Assumptions C07_error_at_expr.

(* loop invariant of checkExprsIn, termination included *)
Theorem C07_template_offset_inv : forall sem text line col quoted,
  let o := check_exprs_in sem text line col quoted in
  Forall (fun c => snd c = pos_skip (fst c) text /\ 3 <= fst c) (lo_calls o) /\
  StronglySorted (fun a b => fst a + 3 <= fst b) (lo_calls o) /\
  lo_fuel o = false.
Proof. exact template_offset_inv. Qed.
Print Assumptions C07_template_offset_inv.

(* expr_diag_col: one-line ASCII scalar at (line, col), quoted or not; a
   diagnostic whose token starts at byte offset o of the scalar text (first
   component of the pair) is reported at exactly (line, col + quoted + o) —
   whatever the checker blames (lexer, parser, semantic), after any number of
   earlier placeholders and any filler *)
Theorem C07_expr_diag_col : forall sem text line col quoted,
  sem_consistent sem -> pos_plain text = true ->
  Forall (fun d => snd d = (line, qcol col quoted + fst d))
         (lo_diags (check_exprs_in sem text line col quoted)).
Proof. exact check_exprs_in_exact. Qed.
Print Assumptions C07_expr_diag_col.

(* the instance evaluated by the correspondence check satisfies the hypothesis *)
Theorem C07_pos_sem_consistent : forall os tb, sem_consistent (pos_sem os tb).
Proof. exact pos_sem_consistent. Qed.
Print Assumptions C07_pos_sem_consistent.

(* checkString / checkScriptString: expression diagnostics as above, template
   type diagnostics at the "${{" (offset off - 3) of their placeholder *)
Theorem C07_check_string_exact : forall sem y,
  sem_consistent sem -> pos_plain (ys_val y) = true ->
  exists ds tds, check_string sem y = map snd ds ++ tds /\
    expr_diags_exact (ys_line y) (ys_col y) (ys_quoted y) ds /\
    Forall (fun p => exists off, 3 <= off /\ p = (ys_line y, qcol (ys_col y) (ys_quoted y) + (off - 3))) tds.
Proof. exact check_string_exact. Qed.
Print Assumptions C07_check_string_exact.

(* matrix values (checkRawYAMLString).  Full statement (every scalar, quoted or
   not): NOT true of the code — the quoted flag is not passed at this call
   site (finding #7a; its repair needs a new struct field, which breaks an
   unkeyed literal in the project's tests, so it is recorded, not applied).
   Proved: exact for plain (unquoted) values; column = col + o in general;
   refuted for quoted values by a witness; exact for every scalar with the
   repair. *)
Theorem C07_matrix_diag_col_partial : forall sem y,
  sem_consistent sem -> pos_plain (ys_val y) = true -> ys_quoted y = false ->
  exists ds, check_raw_yaml_string sem y = map snd ds /\
             expr_diags_exact (ys_line y) (ys_col y) (ys_quoted y) ds.
Proof. exact check_raw_yaml_string_exact_partial. Qed.
Print Assumptions C07_matrix_diag_col_partial.

Theorem C07_matrix_diag_col_unquoted_formula : forall sem y,
  sem_consistent sem -> pos_plain (ys_val y) = true ->
  exists ds, check_raw_yaml_string sem y = map snd ds /\
             expr_diags_exact (ys_line y) (ys_col y) false ds.
Proof. exact check_raw_yaml_string_cols. Qed.
Print Assumptions C07_matrix_diag_col_unquoted_formula.

Theorem C07_matrix_diag_col_quoted_refuted :
  exists sem y o, sem_consistent sem /\ pos_plain (ys_val y) = true /\ ys_quoted y = true /\
    check_raw_yaml_string sem y = [(ys_line y, qcol (ys_col y) (ys_quoted y) + o - 1)] /\
    check_raw_yaml_string_repaired sem y = [(ys_line y, qcol (ys_col y) (ys_quoted y) + o)].
Proof. exact check_raw_yaml_string_quoted_refuted. Qed.
Print Assumptions C07_matrix_diag_col_quoted_refuted.

Theorem C07_matrix_diag_col_repaired : forall sem y,
  sem_consistent sem -> pos_plain (ys_val y) = true ->
  exists ds, check_raw_yaml_string_repaired sem y = map snd ds /\
             expr_diags_exact (ys_line y) (ys_col y) (ys_quoted y) ds.
Proof. exact check_raw_yaml_string_repaired_exact. Qed.
Print Assumptions C07_matrix_diag_col_repaired.

(* if: without ${{ }} (checkIfCondition), after repo_patches/pos/01 *)
Theorem C07_if_diag_col : forall sem y,
  sem_consistent sem -> pos_plain (ys_val y) = true -> contains_expr (ys_val y) = false ->
  exists es, check_if_condition sem y = map (fun e => template_conv e (ys_line y) (qcol (ys_col y) (ys_quoted y))) es /\
    Forall (fun e => template_conv e (ys_line y) (qcol (ys_col y) (ys_quoted y)) =
                     (ys_line y, qcol (ys_col y) (ys_quoted y) + sp_off e)) es.
Proof. exact check_if_bare_exact. Qed.
Print Assumptions C07_if_diag_col.

Theorem C07_if_diag_col_old_refuted :
  exists y o, pos_plain (ys_val y) = true /\ contains_expr (ys_val y) = false /\
    check_if_condition_old (pos_sem [o] []) y = [(ys_line y, qcol (ys_col y) (ys_quoted y) + o - 1)] /\
    check_if_condition (pos_sem [o] []) y = [(ys_line y, qcol (ys_col y) (ys_quoted y) + o)].
Proof. exact check_if_condition_old_refuted. Qed.
Print Assumptions C07_if_diag_col_old_refuted.

(* glob_diag_col: scalar column (+1 if quoted) + index of the offending
   character (InvalidGlobPattern.Column is 1-based; 0 = no character) *)
Theorem C07_glob_diag_col : forall cols line col quoted,
  Forall2 (fun c p => p = (line, qcol col quoted + (c - 1))) cols (glob_errors cols line col quoted).
Proof. exact glob_errors_exact. Qed.
Print Assumptions C07_glob_diag_col.

(* key_diag_pos / value_diag_pos: the node position is passed through unchanged *)
Theorem C07_key_diag_pos : forall n, key_diag n = n.
Proof. exact key_diag_exact. Qed.
Print Assumptions C07_key_diag_pos.

Theorem C07_value_diag_pos : forall n, value_diag n = n.
Proof. exact value_diag_exact. Qed.
Print Assumptions C07_value_diag_pos.

(* shift_cols / shift_lines: moving the scalar k columns to the right / k lines
   down moves every report by exactly k — for every text and every checker *)
Theorem C07_shift_cols : forall sem y k,
  check_string sem (ystr_shift 0 k y) = map (shift_pos 0 k) (check_string sem y).
Proof. exact (fun sem y k => check_string_shift sem y 0 k). Qed.
Print Assumptions C07_shift_cols.

Theorem C07_shift_lines : forall sem y k,
  check_string sem (ystr_shift k 0 y) = map (shift_pos k 0) (check_string sem y).
Proof. exact (fun sem y k => check_string_shift sem y k 0). Qed.
Print Assumptions C07_shift_lines.

Theorem C07_shift_if : forall sem y dl dc,
  check_if_condition sem (ystr_shift dl dc y) = map (shift_pos dl dc) (check_if_condition sem y).
Proof. exact check_if_condition_shift. Qed.
Print Assumptions C07_shift_if.

Theorem C07_shift_matrix : forall sem y dl dc,
  check_raw_yaml_string sem (ystr_shift dl dc y) = map (shift_pos dl dc) (check_raw_yaml_string sem y).
Proof. exact check_raw_yaml_string_shift. Qed.
Print Assumptions C07_shift_matrix.

Theorem C07_shift_one_expression : forall sem y dl dc,
  check_one_expression sem (ystr_shift dl dc y) = map (shift_pos dl dc) (check_one_expression sem y).
Proof. exact check_one_expression_shift. Qed.
Print Assumptions C07_shift_one_expression.

Theorem C07_shift_glob : forall cols line col quoted dl dc,
  glob_errors cols (line + dl) (col + dc) quoted = map (shift_pos dl dc) (glob_errors cols line col quoted).
Proof. exact glob_errors_shift. Qed.
Print Assumptions C07_shift_glob.

(* k more characters of one-line ASCII text in front of the token, inside the
   scalar, move the report by exactly k columns *)
Theorem C07_shift_cols_inner : forall sem sem' text text' line col quoted d d' k,
  sem_consistent sem -> sem_consistent sem' -> pos_plain text = true -> pos_plain text' = true ->
  In d (lo_diags (check_exprs_in sem text line col quoted)) ->
  In d' (lo_diags (check_exprs_in sem' text' line col quoted)) ->
  fst d' = fst d + k -> snd d' = shift_pos 0 k (snd d).
Proof. exact expr_diag_inner_shift. Qed.
Print Assumptions C07_shift_cols_inner.

(* diag_pos_bounds *)
Theorem C07_diag_pos_bounds : forall sem text line col quoted,
  sem_consistent sem -> 1 <= line -> 1 <= col ->
  Forall (fun d => 1 <= fst (snd d) /\ 1 <= snd (snd d) /\ line <= fst (snd d) <= line + pos_count_nl text)
         (lo_diags (check_exprs_in sem text line col quoted)).
Proof. exact check_exprs_in_bounds. Qed.
Print Assumptions C07_diag_pos_bounds.

Theorem C07_diag_pos_bounds_one_line : forall sem text line col quoted nlines,
  sem_consistent sem -> pos_plain text = true -> 1 <= line <= nlines -> 1 <= col ->
  Forall (fun d => 1 <= fst (snd d) <= nlines /\ 1 <= snd (snd d))
         (lo_diags (check_exprs_in sem text line col quoted)).
Proof. exact diag_bounds_one_line. Qed.
Print Assumptions C07_diag_pos_bounds_one_line.

Theorem C07_glob_pos_bounds : forall cols line col quoted, 1 <= line -> 1 <= col ->
  Forall (fun p => fst p = line /\ 1 <= snd p) (glob_errors cols line col quoted).
Proof. exact glob_errors_bounds. Qed.
Print Assumptions C07_glob_pos_bounds.

(* the bound line <= nlines does not hold without the one-line hypothesis:
   decoded line breaks inside a placeholder are added to the scalar's line
   (known finding C07-line-beyond-file-escaped-newlines) *)
Theorem C07_diag_line_bound_refuted :
  exists text line col nlines, line <= nlines /\
    exists d, In d (check_string (pos_sem [String.length text - 4] []) (mkYstr text true line col)) /\
              nlines < fst d.
Proof. exact diag_line_bound_refuted. Qed.
Print Assumptions C07_diag_line_bound_refuted.
