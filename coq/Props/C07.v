(* Props/C07.v — diagnostics point at the exact source position. *)
From AL Require Import Base.Str Expr.PosModel Expr.Template.
