(* Props/C02.v — output is a deterministic function of the inputs: the part
   that is logic.  Map iteration order = an arbitrary permutation of an
   association list; goroutine completion order = an arbitrary order of task
   indices.  Only statements; every proof is [exact <lemma>]. *)
From AL Require Import Base.AList Base.StrOrder Out.StableSort Out.Determinism.
From AL Require Graph.Dfs Graph.Needs Graph.NeedsProofs Graph.NeedsOrder.
From AL Require Gen.GenAmbient Out.Ambient Gen.GenMapRange Out.MapRange Expr.Types.

(* the final sort.Stable by position is a function of the per-position
   sub-sequences only: every re-ordering that keeps same-position diagnostics
   in their relative order is erased *)
Theorem C02_final_sort_unique : forall l l' : list diag,
  (forall p, with_key dg_pos pos_leb p l = with_key dg_pos pos_leb p l') -> final l = final l'.
Proof. exact final_unique. Qed.
Print Assumptions C02_final_sort_unique.

Theorem C02_final_sort_stable : forall (l : list diag) p,
  with_key dg_pos pos_leb p (final l) = with_key dg_pos pos_leb p l.
Proof. exact (ssort_stable dg_pos pos_leb pos_leb_total pos_leb_trans). Qed.
Print Assumptions C02_final_sort_stable.

Theorem C02_final_sort_perm : forall l : list diag, Permutation l (final l).
Proof. exact (ssort_perm dg_pos pos_leb). Qed.
Print Assumptions C02_final_sort_perm.

(* the comparison matters: through one packed key (line shifted by k bits, or-ed with the column)
   two different positions of one line collide for every k, and with k = 10 two lists that the
   real comparison sorts alike - one diagnostic per position - come out in different orders *)
Theorem C02_packed_key_collides : forall k, exists p q : posn, p <> q /\ packed_key k p = packed_key k q.
Proof. exact packed_key_collides. Qed.
Print Assumptions C02_packed_key_collides.

Theorem C02_final_sort_packed_key_refuted :
  exists (l l' : list diag), Permutation l l' /\ NoDup (map dg_pos l) /\
    final l = final l' /\ final_packed 10 l <> final_packed 10 l'.
Proof. exact final_packed_refuted. Qed.
Print Assumptions C02_final_sort_packed_key_refuted.

(* a site that ranges over a map directly, different entries reporting at
   different positions, is deterministic after the final sort *)
Theorem C02_site_distinct_positions : forall (K V : Type) (emit : K -> V -> list diag) (m m' : list (K * V)),
  Permutation m m' -> NoDup (map fst m) ->
  (forall kv1 kv2 d1 d2, In kv1 m -> In kv2 m -> kv1 <> kv2 ->
     In d1 (emit (fst kv1) (snd kv1)) -> In d2 (emit (fst kv2) (snd kv2)) -> dg_pos d1 <> dg_pos d2) ->
  final (site_range emit m) = final (site_range emit m').
Proof. exact (@site_range_det_distinct). Qed.
Print Assumptions C02_site_distinct_positions.

(* ... and one that visits the sorted keys is deterministic even when all its
   diagnostics share one position *)
Theorem C02_site_sorted_keys : forall (K V : Type) (kleb : K -> K -> bool),
  (forall a b, kleb a b = true \/ kleb b a = true) ->
  (forall a b c, kleb a b = true -> kleb b c = true -> kleb a c = true) ->
  (forall a b, kleb a b = true -> kleb b a = true -> a = b) ->
  forall (emit : K -> V -> list diag) (m m' : list (K * V)),
  Permutation m m' -> NoDup (map fst m) -> site_sorted kleb emit m = site_sorted kleb emit m'.
Proof. exact (@site_sorted_det). Qed.
Print Assumptions C02_site_sorted_keys.

(* ranging directly with one shared position is NOT deterministic: the shape
   six sites had before the fix: commits *)
Theorem C02_same_position_unsorted_refuted :
  exists (emit : string -> unit -> list diag) (m m' : list (string * unit)),
    Permutation m m' /\ NoDup (map fst m) /\
    final (site_range emit m) <> final (site_range emit m').
Proof. exact site_range_same_pos_refuted. Qed.
Print Assumptions C02_same_position_unsorted_refuted.

(* the concrete sites, as the code is after the fixes *)
Theorem C02_format_placeholders : forall callpos msg h h',
  Permutation h h' -> NoDup (map fst h) -> format_unused callpos msg h = format_unused callpos msg h'.
Proof. exact format_unused_det. Qed.
Print Assumptions C02_format_placeholders.

Theorem C02_missing_required_inputs : forall usespos msg supplied d d',
  Permutation d d' -> NoDup (map fst d) ->
  missing_required usespos msg supplied d = missing_required usespos msg supplied d'.
Proof. exact missing_required_det. Qed.
Print Assumptions C02_missing_required_inputs.

Theorem C02_unknown_inputs : forall msg declared g g',
  Permutation g g' -> NoDup (map fst g) -> NoDup (map snd g) ->
  final (unknown_inputs msg declared g) = final (unknown_inputs msg declared g').
Proof. exact unknown_inputs_det. Qed.
Print Assumptions C02_unknown_inputs.

(* jobs, needs-graph roots and registered runner labels are visited in source order *)
Theorem C02_visit_by_position : forall (V : Type) (m m' : list (posn * V)),
  Permutation m m' -> NoDup (map fst m) -> by_position m = by_position m'.
Proof. exact (@by_position_det). Qed.
Print Assumptions C02_visit_by_position.

Theorem C02_runner_label_conflict : forall disjoint c c',
  Permutation c c' -> NoDup (map fst c) -> first_conflict disjoint c = first_conflict disjoint c'.
Proof. exact first_conflict_det. Qed.
Print Assumptions C02_runner_label_conflict.

(* rule_job_needs.go, on the model of the whole rule (Graph/Needs.v): the
   cycle search starts from the nodes in position order, so the edge found,
   the reconstructed cycle and its rendering are the same for every iteration
   order of rule.nodes; the "does not exist" diagnostics, emitted in map
   order, coincide after the final sort *)
Theorem C02_needs_cycle_search_order_indep : forall m ord ord',
  NeedsOrder.distinct_pos m -> Permutation ord (keys m) -> Permutation ord' (keys m) ->
  Needs.detect_needs m ord = Needs.detect_needs m ord'.
Proof. exact NeedsOrder.detect_needs_order_indep. Qed.
Print Assumptions C02_needs_cycle_search_order_indep.

Theorem C02_needs_rule_order_indep : forall jobs ord ord',
  NeedsOrder.distinct_pos (Needs.table jobs) ->
  Permutation ord (keys (Needs.table jobs)) -> Permutation ord' (keys (Needs.table jobs)) ->
  exists ds ds', Needs.run jobs ord = Dfs.Done ds /\ Needs.run jobs ord' = Dfs.Done ds' /\
    Permutation ds ds' /\
    filter NeedsProofs.is_cycle_diag ds = filter NeedsProofs.is_cycle_diag ds' /\
    NeedsOrder.final_needs ds = NeedsOrder.final_needs ds'.
Proof. exact NeedsOrder.run_order_indep. Qed.
Print Assumptions C02_needs_rule_order_indep.

(* LintFiles: results are assembled by slot, independent of completion order *)
Theorem C02_multi_file_order_indep : forall (A : Type) (results : list A) (order : list nat),
  (forall i, i < length results -> In i order) -> assemble results order = map Some results.
Proof. exact (@multi_file_order_indep). Qed.
Print Assumptions C02_multi_file_order_indep.

(* the rules read nothing but their inputs: every place of the package's source (re-listed from
   the .go files on every run, Gen/GenAmbient.v) that reads the clock, the environment, the
   process, the machine or a random source is one of the known places, whose value goes to the
   verbose log (elapsed time), is the default of an option (working directory) or sizes the
   process pool — never into a diagnostic *)
Theorem C02_ambient_reads_are_known : forall s,
  In s GenAmbient.ambient_sites -> exists k, In (s, k) Ambient.allowed.
Proof. exact Ambient.ambient_sites_known. Qed.
Print Assumptions C02_ambient_reads_are_known.

(* "all map-iteration orders": every `for ... range <map>` loop of the package's source
   (re-listed on every run with go/types, Gen/GenMapRange.v) is one of the loops that were read
   and classified — keys sorted first, an order-independent computation, one report per entry at
   positions of its own, the element type of a merged object — so no loop outside the ones the
   theorems above speak about can bring the visiting order into the output *)
Theorem C02_map_range_loops_are_known : forall s,
  In s GenMapRange.map_range_sites -> exists c, In (s, c) MapRange.allowed.
Proof. exact MapRange.map_range_sites_known. Qed.
Print Assumptions C02_map_range_loops_are_known.

(* class Pure: a fold whose step commutes gives the same value for every visiting order *)
Theorem C02_commuting_fold_order_indep : forall (A B : Type) (f : B -> A -> B),
  (forall b x y, f (f b x) y = f (f b y) x) ->
  forall l l', Permutation l l' -> forall b, fold_left f l b = fold_left f l' b.
Proof. exact (@MapRange.fold_comm_perm). Qed.
Print Assumptions C02_commuting_fold_order_indep.

(* class FoldMerge: the element type of a merged object, folded from string (every element type
   of the built-in tables), does not depend on the order of the new properties; from an
   arbitrary start it would (Merge is not associative) *)
Theorem C02_merged_element_type_order_indep : forall xs ys,
  Permutation xs ys -> fold_left Types.merge xs Types.TStr = fold_left Types.merge ys Types.TStr.
Proof. exact MapRange.fold_merge_str_perm. Qed.
Print Assumptions C02_merged_element_type_order_indep.

Theorem C02_merged_element_type_general_refuted :
  exists xs ys, Permutation xs ys /\ fold_left Types.merge xs Types.TNum <> fold_left Types.merge ys Types.TNum.
Proof. exact MapRange.fold_merge_order_matters. Qed.
Print Assumptions C02_merged_element_type_general_refuted.

(* a run in which several files end in a fatal error: every goroutine records its error in its
   own slot and the slots are scanned in the order of the arguments when all have finished - so
   the error that is returned does not depend on the order in which the goroutines finish
   (Out/FatalOrder.v; tied to Linter.LintFiles by the multi-fatal runs of the harness) *)
From AL Require Out.FatalOrder.
From Coq Require Import Permutation.
Theorem C02_fatal_error_schedule_independent : forall (E : Type) (rs : list (option E)) s1 s2,
  Permutation s1 (seq 0 (length rs)) -> Permutation s2 (seq 0 (length rs)) ->
  FatalOrder.result_new rs s1 = FatalOrder.result_new rs s2.
Proof. exact (@FatalOrder.result_new_schedule_independent). Qed.
Print Assumptions C02_fatal_error_schedule_independent.

Theorem C02_fatal_error_is_first_in_argument_order : forall (E : Type) (rs : list (option E)) sched,
  Permutation sched (seq 0 (length rs)) -> FatalOrder.result_new rs sched = FatalOrder.first_error rs.
Proof. exact (@FatalOrder.result_new_is_first_in_argument_order). Qed.
Print Assumptions C02_fatal_error_is_first_in_argument_order.

(* before ec824d0 the error of the goroutine that failed first was returned *)
Theorem C02_fatal_error_old_refuted : exists (rs : list (option nat)) s1 s2,
  Permutation s1 (seq 0 (length rs)) /\ Permutation s2 (seq 0 (length rs)) /\
  FatalOrder.result_old rs s1 <> FatalOrder.result_old rs s2.
Proof. exact FatalOrder.result_old_refuted. Qed.
Print Assumptions C02_fatal_error_old_refuted.
