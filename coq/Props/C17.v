(* Props/C17.v — filter patterns are validated exactly by the documented glob
   syntax.  Only statements; every proof is [exact <lemma>]. *)
From Coq Require Import List NArith.
From AL Require Import Glob.Glob Glob.GlobSpec Glob.GlobFuel Glob.GlobProofs.
Import ListNotations.

(* glob_exact: ValidateRefGlob / ValidatePathGlob (as repaired by
   repo_patches/glob) report nothing iff the pattern is valid by the documented
   syntax.  Excluded: patterns starting with U+FEFF (known finding
   C17-leading-bom, witness C17_glob_exact_bom_refuted). *)
Theorem C17_glob_exact : forall isRef pat, no_bom pat ->
  (validate_mode isRef pat = Some [] <-> valid isRef pat).
Proof. exact glob_exact. Qed.
Print Assumptions C17_glob_exact.

(* glob_fuel: validation terminates for every string — the fuel the wrappers
   supply (length + 1) is never exhausted, in either mode *)
Theorem C17_glob_fuel : forall isRef pat, exists ds, validate_mode isRef pat = Some ds.
Proof. exact validate_mode_total. Qed.
Print Assumptions C17_glob_fuel.

(* rule_glob.go: a diagnostic with column col >= 1 is placed col-1 characters
   after the first character of the scalar (one further when quoted) *)
Theorem C17_glob_diag_col : forall posCol quoted col,
  glob_error_col posCol quoted col = (posCol + (if quoted then 1 else 0) + (col - 1))%nat.
Proof. exact glob_error_col_spec. Qed.
Print Assumptions C17_glob_diag_col.
