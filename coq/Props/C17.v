(* Props/C17.v — filter patterns are validated exactly by the documented glob
   syntax.  Only statements; every proof is [exact <lemma>]. *)
From Coq Require Import List NArith.
From AL Require Import Glob.Glob Glob.GlobSpec Glob.GlobFuel.
Import ListNotations.

(* glob_fuel: validation terminates for every string — the fuel the wrappers
   supply (length + 1) is never exhausted, in either mode *)
Theorem C17_glob_fuel : forall isRef pat, exists ds, validate_mode isRef pat = Some ds.
Proof. exact validate_mode_total. Qed.
Print Assumptions C17_glob_fuel.

(* rule_glob.go: a diagnostic with column col >= 1 is placed col-1 characters
   after the first character of the scalar (one further when quoted) *)
Theorem C17_glob_diag_col : forall posCol quoted col,
  glob_error_col posCol quoted col = (posCol + (if quoted then 1 else 0) + (col - 1))%nat.
Proof. exact glob_error_col_spec. Qed.
Print Assumptions C17_glob_diag_col.
