(* Props/C17.v — filter patterns are validated exactly by the documented glob
   syntax.  Only statements; every proof is [exact <lemma>]. *)
From Coq Require Import List NArith.
From AL Require Import Glob.Glob Glob.GlobSpec Glob.GlobFuel Glob.GlobProofs Glob.GlobCols Glob.GlobOld.
Import ListNotations.

(* glob_exact: ValidateRefGlob / ValidatePathGlob (as repaired by
   repo_patches/glob) report nothing iff the pattern is valid by the documented
   syntax.  Excluded: patterns starting with U+FEFF (known finding
   C17-leading-bom, witness C17_glob_exact_bom_refuted). *)
Theorem C17_glob_exact : forall isRef pat, no_bom pat ->
  (validate_mode isRef pat = Some [] <-> valid isRef pat).
Proof. exact glob_exact. Qed.
Print Assumptions C17_glob_exact.

Theorem C17_glob_exact_bom_refuted :
  exists isRef pat, valid isRef pat /\ validate_mode isRef pat <> Some [].
Proof. exact glob_exact_bom_refuted. Qed.
Print Assumptions C17_glob_exact_bom_refuted.

(* the hypotheses of C17_glob_exact are satisfiable by a non-trivial pattern
   ("v[0-9]+.*"), which is valid and accepted *)
Theorem C17_glob_exact_example : valid true [118; 91; 48; 45; 57; 93; 43; 46; 42]%N /\
  validate_ref [118; 91; 48; 45; 57; 93; 43; 46; 42]%N = Some [] /\
  no_bom [118; 91; 48; 45; 57; 93; 43; 46; 42]%N.
Proof. exact valid_example. Qed.
Print Assumptions C17_glob_exact_example.

(* ref_implies_path: every pattern accepted as a ref filter is accepted as a
   path filter (via the spec: valid true pat -> valid false pat) *)
Theorem C17_ref_implies_path : forall pat, no_bom pat ->
  validate_ref pat = Some [] -> validate_path pat = Some [].
Proof. exact ref_implies_path. Qed.
Print Assumptions C17_ref_implies_path.

Theorem C17_valid_ref_path : forall pat, valid true pat -> valid false pat.
Proof. exact valid_ref_path. Qed.
Print Assumptions C17_valid_ref_path.

(* glob_cols: every reported column lies inside the pattern (0 <= col <=
   length); when the message names a character and col >= 1, that character is
   the one at the column; column 0 only for the empty pattern, a leading space
   of a path, after a line break — or a scan error (NUL / invalid UTF-8), whose
   column is the known finding C17-scanerr-column. *)
Theorem C17_glob_cols : forall isRef pat ds d,
  validate_mode isRef pat = Some ds -> In d ds ->
  (d_col d <= length pat)%nat /\
  (forall c, d_named d = NameChar c -> (1 <= d_col d)%nat ->
     nth_error (runes pat) (d_col d - 1) = Some c) /\
  (d_col d = 0%nat ->
     d_cls d = EmptyPat \/ d_cls d = PathLead \/ d_cls d = ScanErr \/ In 10%N (runes pat)).
Proof. exact glob_cols. Qed.
Print Assumptions C17_glob_cols.

Theorem C17_path_trail_col : forall pat, hd_is pat 32 = false -> last_is pat 32 = true ->
  validate_path pat = Some [mkDiag PathTrail (length pat) NoName] /\
  nth_error pat (length pat - 1) = Some 32%N.
Proof. exact path_trail_col. Qed.
Print Assumptions C17_path_trail_col.

Theorem C17_scanerr_col_refuted :
  exists pat ds d, validate_ref pat = Some ds /\ In d ds /\ d_cls d = ScanErr /\
    d_col d = 1%nat /\ nth_error pat 0 = Some 97%N /\ nth_error pat 1 = Some 0%N.
Proof. exact scanerr_col_refuted. Qed.
Print Assumptions C17_scanerr_col_refuted.

(* glob_fuel: validation terminates for every string — the fuel the wrappers
   supply (length + 1) is never exhausted, in either mode *)
Theorem C17_glob_fuel : forall isRef pat, exists ds, validate_mode isRef pat = Some ds.
Proof. exact validate_mode_total. Qed.
Print Assumptions C17_glob_fuel.

(* rule_glob.go: a diagnostic with column col >= 1 is placed col-1 characters
   after the first character of the scalar (one further when quoted) *)
Theorem C17_glob_diag_col : forall posCol quoted col,
  glob_error_col posCol quoted col = (posCol + (if quoted then 1 else 0) + (col - 1))%nat.
Proof. exact glob_error_col_spec. Qed.
Print Assumptions C17_glob_diag_col.

(* The defects of the unrepaired validator (model Glob/GlobOld.v), one witness
   each; repaired by repo_patches/glob/01..04 and modelled repaired above. *)
Theorem C17_esc_name_old_refuted :
  Old.validate_ref [92; 91]%N = Some [mkDiag RefChar 2 (NameChar 65533)] /\
  Old.validate_ref [92; 91; 97]%N = Some [mkDiag RefChar 2 (NameChar 97)] /\
  validate_ref [92; 91; 97]%N = Some [mkDiag RefChar 2 (NameChar 91)].
Proof. exact esc_name_old_refuted. Qed.
Print Assumptions C17_esc_name_old_refuted.

Theorem C17_set_chars_old_refuted :
  Old.validate_ref [91; 97; 10; 98; 93]%N = Some [] /\ Old.validate_path [91; 97; 10; 98; 93]%N = Some [] /\
  ~ valid true [91; 97; 10; 98; 93]%N /\ ~ valid false [91; 97; 10; 98; 93]%N /\
  Old.validate_ref [91; 32; 97; 98; 93]%N = Some [] /\ ~ valid true [91; 32; 97; 98; 93]%N /\
  Old.validate_ref [91; 126; 97; 93]%N = Some [] /\ ~ valid true [91; 126; 97; 93]%N.
Proof. exact set_chars_old_refuted. Qed.
Print Assumptions C17_set_chars_old_refuted.

Theorem C17_trail_col_old_refuted :
  Old.validate_path [233; 32]%N = Some [mkDiag PathTrail 3 NoName] /\ length [233; 32]%N = 2%nat /\
  validate_path [233; 32]%N = Some [mkDiag PathTrail 2 NoName].
Proof. exact trail_col_old_refuted. Qed.
Print Assumptions C17_trail_col_old_refuted.

Theorem C17_neg_slash_old_refuted :
  Old.validate_ref [33; 47; 97]%N = Some [] /\ ~ valid true [33; 47; 97]%N /\
  validate_ref [33; 47; 97]%N = Some [mkDiag RefLead 2 (NameChar 47)].
Proof. exact neg_slash_old_refuted. Qed.
Print Assumptions C17_neg_slash_old_refuted.
