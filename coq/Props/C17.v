(* Props/C17.v — filter patterns are validated exactly by the documented glob
   syntax.  Only statements; every proof is [exact <lemma>]. *)
From Coq Require Import List NArith.
From AL Require Import Glob.Glob Glob.GlobSpec Glob.GlobFuel Glob.GlobProofs.
Import ListNotations.

(* glob_exact: ValidateRefGlob / ValidatePathGlob (as repaired by
   repo_patches/glob) report nothing iff the pattern is valid by the documented
   syntax.  Excluded: patterns starting with U+FEFF (known finding
   C17-leading-bom, witness C17_glob_exact_bom_refuted). *)
Theorem C17_glob_exact : forall isRef pat, no_bom pat ->
  (validate_mode isRef pat = Some [] <-> valid isRef pat).
Proof. exact glob_exact. Qed.
Print Assumptions C17_glob_exact.

Theorem C17_glob_exact_bom_refuted :
  exists isRef pat, valid isRef pat /\ validate_mode isRef pat <> Some [].
Proof. exact glob_exact_bom_refuted. Qed.
Print Assumptions C17_glob_exact_bom_refuted.

(* the hypotheses of C17_glob_exact are satisfiable by a non-trivial pattern
   ("v[0-9]+.*"), which is valid and accepted *)
Theorem C17_glob_exact_example : valid true [118; 91; 48; 45; 57; 93; 43; 46; 42]%N /\
  validate_ref [118; 91; 48; 45; 57; 93; 43; 46; 42]%N = Some [] /\
  no_bom [118; 91; 48; 45; 57; 93; 43; 46; 42]%N.
Proof. exact valid_example. Qed.
Print Assumptions C17_glob_exact_example.

(* ref_implies_path: every pattern accepted as a ref filter is accepted as a
   path filter (via the spec: valid true pat -> valid false pat) *)
Theorem C17_ref_implies_path : forall pat, no_bom pat ->
  validate_ref pat = Some [] -> validate_path pat = Some [].
Proof. exact ref_implies_path. Qed.
Print Assumptions C17_ref_implies_path.

Theorem C17_valid_ref_path : forall pat, valid true pat -> valid false pat.
Proof. exact valid_ref_path. Qed.
Print Assumptions C17_valid_ref_path.

(* glob_fuel: validation terminates for every string — the fuel the wrappers
   supply (length + 1) is never exhausted, in either mode *)
Theorem C17_glob_fuel : forall isRef pat, exists ds, validate_mode isRef pat = Some ds.
Proof. exact validate_mode_total. Qed.
Print Assumptions C17_glob_fuel.

(* rule_glob.go: a diagnostic with column col >= 1 is placed col-1 characters
   after the first character of the scalar (one further when quoted) *)
Theorem C17_glob_diag_col : forall posCol quoted col,
  glob_error_col posCol quoted col = (posCol + (if quoted then 1 else 0) + (col - 1))%nat.
Proof. exact glob_error_col_spec. Qed.
Print Assumptions C17_glob_diag_col.
