(* Props/C11.v — script-injection detection is complete and precise.
   Only statements; every proof is [exact <lemma>]. *)
From AL Require Import Expr.Untrusted Expr.UntrustedSpec Expr.UntrustedProofs Gen.GenUntrusted.

Theorem C11_non_script_silent : forall fixed roots funcs e, check_untrusted fixed roots funcs false e = [].
Proof. exact non_script_silent. Qed.
Print Assumptions C11_non_script_silent.
