(* Props/C11.v — script-injection detection is complete and precise.
   Only statements; every proof is [exact <lemma>].
   Model: Expr/Untrusted.v ([reported true] = UntrustedInputChecker with
   repo_patches/untrusted applied, [events] = callbacks issued by
   ExprSemanticsChecker.check).  Specification: Expr/UntrustedSpec.v. *)
From AL Require Import Expr.Untrusted Expr.UntrustedSpec Expr.UntrustedProofs Expr.UntrustedFindings Gen.GenUntrusted.
From Coq Require Import Permutation.

(* For every untrusted-input tree, every table of defined functions and every
   expression tree of the shape the parser produces: the errors the automaton
   emits when driven by the traversal of the semantic checker are exactly the
   reports the property demands — same number, same order, each at the same
   token with the same paths (up to the order sortedQuotes later imposes). *)
Theorem C11_untrusted_exact : forall roots funcs e, parser_normal e ->
  reports_equiv (reported true roots (events funcs e)) (spec_paths roots (known funcs) e).
Proof. exact untrusted_exact. Qed.
Print Assumptions C11_untrusted_exact.

(* … in particular for the tree and function table of /repo (regenerated on every run) *)
Theorem C11_untrusted_exact_builtin : forall e, parser_normal e ->
  reports_equiv (check_untrusted true tree funcs true e) (spec_paths tree (known funcs) e).
Proof. exact untrusted_exact_builtin. Qed.
Print Assumptions C11_untrusted_exact_builtin.

(* the same for the generic visitor of expr_ast.go (every node gets its callbacks, all
   arguments are visited), which actionlint's own tests use to drive the checker *)
Theorem C11_visit_exact : forall roots e, parser_normal e ->
  reports_equiv (reported true roots (visit_events e)) (spec_paths roots (fun _ => true) e).
Proof. exact visit_exact. Qed.
Print Assumptions C11_visit_exact.

(* every report sits at the token of the variable a maximal access chain starts at,
   and names exactly the documented inputs that chain reads *)
Theorem C11_untrusted_positions : forall roots funcs e, parser_normal e ->
  forall r, In r (reported true roots (events funcs e)) ->
  exists x ch n, In x (subterms e) /\ chain_of x = Some ch /\ root_var x = Some (etok x, n) /\
                 fst r = Some (etok x) /\ Permutation (snd r) (reads roots ch) /\ reads roots ch <> [].
Proof. exact untrusted_positions. Qed.
Print Assumptions C11_untrusted_positions.

(* a call of contains/startsWith/endsWith (any letter case) reports nothing … *)
Theorem C11_safe_calls_silent : forall roots funcs p c args, is_safe_call c = true ->
  reported true roots (events funcs (ECall p c args)) = [].
Proof. exact safe_calls_silent. Qed.
Print Assumptions C11_safe_calls_silent.

(* … and what is written inside such calls never changes the result of the surrounding expression *)
Theorem C11_safe_calls_opaque : forall roots funcs e,
  reported true roots (events funcs (erase_safe e)) = reported true roots (events funcs e).
Proof. exact safe_calls_opaque. Qed.
Print Assumptions C11_safe_calls_opaque.

(* letter case of variable, property, function names and ['name'] literals is irrelevant *)
Theorem C11_untrusted_recase : forall roots funcs e e', recase e e' ->
  reported true roots (events funcs (pnorm e)) = reported true roots (events funcs (pnorm e')).
Proof. exact untrusted_recase. Qed.
Print Assumptions C11_untrusted_recase.

(* outside script positions (checkString: checkUntrusted = false) nothing is ever reported *)
Theorem C11_non_script_silent : forall fixed roots funcs e, check_untrusted fixed roots funcs false e = [].
Proof. exact non_script_silent. Qed.
Print Assumptions C11_non_script_silent.

(* Check() leaves the checker in its initial state: no leak into the next expression *)
Theorem C11_state_clean_after_check : forall roots funcs e,
  let s := do_end (run true roots (events funcs e) st_init) in
  s_chain s = chain_reset /\ s_safe s = 0.
Proof. exact state_clean_after_check. Qed.
Print Assumptions C11_state_clean_after_check.

(* the automaton as it was before the repairs violates the property (findings) *)
Theorem C11_untrusted_exact_old_refuted :
  exists e, parser_normal e /\ ~ reports_equiv (reported false tree (events funcs e)) (spec_paths tree (known funcs) e).
Proof. exact untrusted_exact_old_refuted. Qed.
Print Assumptions C11_untrusted_exact_old_refuted.

Theorem C11_title_case_old_refuted :
  parser_normal w_title_case /\
  demanded w_title_case = [(P 0 1 1, [["github"; "event"; "issue"; "title"]])] /\
  old_reports w_title_case = [] /\
  new_reports w_title_case = [(Some (P 0 1 1), [["github"; "event"; "issue"; "title"]])].
Proof. exact title_case_old_refuted. Qed.
Print Assumptions C11_title_case_old_refuted.

Theorem C11_safe_index_old_refuted :
  parser_normal w_safe_index /\
  demanded w_safe_index = [(P 19 1 20, [["github"; "event"; "issue"; "title"]])] /\
  old_reports w_safe_index = [] /\
  new_reports w_safe_index = [(Some (P 19 1 20), [["github"; "event"; "issue"; "title"]])].
Proof. exact safe_index_old_refuted. Qed.
Print Assumptions C11_safe_index_old_refuted.

Theorem C11_safe_deref_old_refuted :
  parser_normal w_safe_deref /\
  demanded w_safe_deref = [] /\
  old_reports w_safe_deref = [(Some (P 0 1 1), [["github"; "event"; "issue"; "title"]])] /\
  new_reports w_safe_deref = [].
Proof. exact safe_deref_old_refuted. Qed.
Print Assumptions C11_safe_deref_old_refuted.

Theorem C11_star_literal_old_refuted :
  parser_normal w_star_literal /\
  demanded w_star_literal = [] /\
  old_reports w_star_literal = [(Some (P 0 1 1), [["github"; "event"; "commits"; "*"; "message"]])] /\
  new_reports w_star_literal = [].
Proof. exact star_literal_old_refuted. Qed.
Print Assumptions C11_star_literal_old_refuted.

(* ---- several placeholders in one script: the scan of checkExprsIn stops at the
   first placeholder that drew a diagnostic, so a second offending placeholder
   of the same script is not reported (known finding
   C11-later-placeholder-not-checked: the project's expected output
   testdata/err/context_availability.out pins the behaviour); with the loop
   continued both are *)
From AL Require Expr.Template Expr.TemplateStop.

Theorem C11_later_placeholder_refuted :
  let o := Template.check_exprs_in TemplateStop.sem_always_err "${{x}} ${{x}}" 7 10 false in
  Template.lo_diags o = [(3, (7, 13))] /\ List.length (Template.lo_calls o) = 1 /\ Template.lo_ts o = None.
Proof. exact TemplateStop.later_placeholder_unchecked. Qed.
Print Assumptions C11_later_placeholder_refuted.

Theorem C11_later_placeholder_repaired :
  TemplateStop.template_loop_cont TemplateStop.sem_always_err 14 "${{x}} ${{x}}" 0 7 10 false = [(3, (7, 13)); (10, (7, 20))].
Proof. exact TemplateStop.later_placeholder_checked_when_continued. Qed.
Print Assumptions C11_later_placeholder_repaired.
