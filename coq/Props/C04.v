(* Props/C04.v — the expression parser accepts exactly the documented grammar.
   Only statements; every proof is [exact <lemma>].

   [int_lit] / [float_ok] (which INT / FLOAT literal texts strconv admits, and
   the INT value) are universally quantified: the theorems hold for any
   behaviour of strconv.  The model of /repo instantiates them with
   Token.int32_lit and the harness-supplied float oracle. *)
From AL Require Import Expr.Parser Expr.Grammar Expr.ParserProofs.

(* parser level, over token lists *)
Theorem C04_parse_sound : forall int_lit float_ok ts e,
  parse_toks int_lit float_ok ts = POk e -> derives int_lit float_ok ts e.
Proof. exact parse_sound. Qed.
Print Assumptions C04_parse_sound.

Theorem C04_parse_complete : forall int_lit float_ok ts e,
  derives int_lit float_ok ts e -> parse_toks int_lit float_ok ts = POk e.
Proof. exact parse_complete. Qed.
Print Assumptions C04_parse_complete.

Theorem C04_derives_unique : forall int_lit float_ok ts e e',
  derives int_lit float_ok ts e -> derives int_lit float_ok ts e' -> e = e'.
Proof. exact derives_unique. Qed.
Print Assumptions C04_derives_unique.

(* without grouping tokens the tree is stratified: no `||` below `&&`, no
   logical operator below a comparison, no binary operator below `!` *)
Theorem C04_precedence_shape : forall int_lit float_ok ts e,
  flat ts -> parse_toks int_lit float_ok ts = POk e -> s_or e.
Proof. exact precedence_shape. Qed.
Print Assumptions C04_precedence_shape.

(* a token list is either accepted with a tree it derives, or rejected with
   exactly one diagnostic located at one of its tokens or at the End token;
   never both, never out of fuel, no panic on tokens the lexer can produce *)
Theorem C04_reject_one_error : forall int_lit float_ok ts,
  Forall (fun t => tk_kind t = TString -> unquote (tk_val t) <> None) ts ->
  (exists e, parse_toks int_lit float_ok ts = POk e /\ derives int_lit float_ok ts e) \/
  (exists d, parse_toks int_lit float_ok ts = PErr d /\ err_in d ts /\
             forall e, ~ derives int_lit float_ok ts e).
Proof. exact reject_one_error. Qed.
Print Assumptions C04_reject_one_error.

Theorem C04_parse_fuel_suffices : forall int_lit float_ok ts, parse_toks int_lit float_ok ts <> PFuel.
Proof. exact parse_no_fuel. Qed.
Print Assumptions C04_parse_fuel_suffices.
