(* Props/C04.v — the expression parser accepts exactly the documented grammar.
   Only statements; every proof is [exact <lemma>].

   [int_lit] / [float_ok] (which INT / FLOAT literal texts strconv admits, and
   the INT value) are universally quantified: the theorems hold for any
   behaviour of strconv.  The model of /repo instantiates them with
   Token.int32_lit and the harness-supplied float oracle. *)
From AL Require Import Expr.Parser Expr.Grammar Expr.ParserProofs.
From AL Require Import Expr.Lexer Expr.LexerSpec Expr.LexerProofs Expr.ParseSrc Expr.ParseSrcProofs Expr.ParseLazy Expr.LexWs Expr.ParsePrec.

(* parser level, over token lists *)
Theorem C04_parse_sound : forall int_lit float_ok ts e,
  parse_toks int_lit float_ok ts = POk e -> derives int_lit float_ok ts e.
Proof. exact parse_sound. Qed.
Print Assumptions C04_parse_sound.

Theorem C04_parse_complete : forall int_lit float_ok ts e,
  derives int_lit float_ok ts e -> parse_toks int_lit float_ok ts = POk e.
Proof. exact parse_complete. Qed.
Print Assumptions C04_parse_complete.

Theorem C04_derives_unique : forall int_lit float_ok ts e e',
  derives int_lit float_ok ts e -> derives int_lit float_ok ts e' -> e = e'.
Proof. exact derives_unique. Qed.
Print Assumptions C04_derives_unique.

(* without grouping tokens the tree is stratified: no `||` below `&&`, no
   logical operator below a comparison, no binary operator below `!` *)
Theorem C04_precedence_shape : forall int_lit float_ok ts e,
  flat ts -> parse_toks int_lit float_ok ts = POk e -> s_or e.
Proof. exact precedence_shape. Qed.
Print Assumptions C04_precedence_shape.

(* a token list is either accepted with a tree it derives, or rejected with
   exactly one diagnostic located at one of its tokens or at the End token;
   never both, never out of fuel, no panic on tokens the lexer can produce *)
Theorem C04_reject_one_error : forall int_lit float_ok ts,
  Forall (fun t => tk_kind t = TString -> unquote (tk_val t) <> None) ts ->
  (exists e, parse_toks int_lit float_ok ts = POk e /\ derives int_lit float_ok ts e) \/
  (exists d, parse_toks int_lit float_ok ts = PErr d /\ err_in d ts /\
             forall e, ~ derives int_lit float_ok ts e).
Proof. exact reject_one_error. Qed.
Print Assumptions C04_reject_one_error.

Theorem C04_parse_fuel_suffices : forall int_lit float_ok ts, parse_toks int_lit float_ok ts <> PFuel.
Proof. exact parse_no_fuel. Qed.
Print Assumptions C04_parse_fuel_suffices.

(* lexer level: the token stream of ExprLexer is exactly the tokenisation the
   declarative token specification gives (strict = the implemented number
   forms; plus = true after repo_patches/lexparse/01-fix) *)
Theorem C04_lex_sound : forall plus src ts e a,
  lex_all plus src = (ts, FEnd e a) -> tokenises true plus pos0 src ts e a.
Proof. exact lex_sound. Qed.
Print Assumptions C04_lex_sound.

Theorem C04_lex_complete : forall plus src ts e a,
  tokenises true plus pos0 src ts e a -> lex_all plus src = (ts, FEnd e a).
Proof. exact lex_complete. Qed.
Print Assumptions C04_lex_complete.

(* every token (also those before a lexical error) is the slice of the source
   at its offset and a lexeme of its kind *)
Theorem C04_lex_offsets : forall plus src ts f,
  lex_all plus src = (ts, f) -> Forall (tok_ok plus src) ts.
Proof. exact lex_offsets. Qed.
Print Assumptions C04_lex_offsets.

Theorem C04_lex_fuel_suffices : forall plus src ts f, lex_all plus src = (ts, f) -> f <> FFuel.
Proof. exact lex_all_no_fuel. Qed.
Print Assumptions C04_lex_fuel_suffices.

(* what the implementation tokenises is tokenised the same way by the documented
   forms (JSON numbers + 0x hex) ... *)
Theorem C04_lex_within_documented : forall plus p src ts e a,
  tokenises true plus p src ts e a -> tokenises false true p src ts e a.
Proof. exact tokenises_documented. Qed.
Print Assumptions C04_lex_within_documented.

(* ... but not conversely: known findings (exponent / hex digits with a leading
   zero), and the defect repaired by the fix ('+' in the exponent) *)
Theorem C04_lex_complete_documented_refuted :
  exists src ts e a, tokenises false true pos0 src ts e a /\
                     forall ts' e' a', lex_all true src <> (ts', FEnd e' a').
Proof. exact lex_complete_documented_refuted. Qed.
Print Assumptions C04_lex_complete_documented_refuted.

Theorem C04_lex_complete_documented_refuted_hex :
  exists src ts e a, tokenises false true pos0 src ts e a /\
                     forall ts' e' a', lex_all true src <> (ts', FEnd e' a').
Proof. exact lex_complete_documented_refuted_hex. Qed.
Print Assumptions C04_lex_complete_documented_refuted_hex.

Theorem C04_lex_prefix_rejects_plus :
  (exists ts e a, lex_all true "1e+5}}" = (ts, FEnd e a)) /\
  (forall ts e a, lex_all false "1e+5}}" <> (ts, FEnd e a)).
Proof. exact lex_prefix_rejects_plus. Qed.
Print Assumptions C04_lex_prefix_rejects_plus.

Theorem C04_parse_complete_documented_refuted :
  exists ts e, derives int_lit_unbounded (fun _ => true) ts e /\
               forall e', parse_toks int32_lit (fun _ => true) ts <> POk e'.
Proof. exact parse_complete_documented_refuted. Qed.
Print Assumptions C04_parse_complete_documented_refuted.

(* source level: text is accepted iff it tokenises into a sentence; otherwise
   exactly one diagnostic, positioned within the text; no fuel exhaustion, no panic *)
Theorem C04_src_accept_iff : forall plus int_lit float_ok src e,
  parse_src plus int_lit float_ok src = OAccept e <->
  exists ts ep a, tokenises true plus pos0 src ts ep a /\ derives int_lit float_ok ts e.
Proof. exact src_accept_iff. Qed.
Print Assumptions C04_src_accept_iff.

Theorem C04_src_outcome : forall plus int_lit float_ok src,
  (exists e, parse_src plus int_lit float_ok src = OAccept e) \/
  (exists le, parse_src plus int_lit float_ok src = OLexErr le /\ within src (le_pos le)) \/
  (exists c p, parse_src plus int_lit float_ok src = OParseErr c p /\ within src p).
Proof. exact src_outcome. Qed.
Print Assumptions C04_src_outcome.

(* the parser as the code has it — one token of look-ahead, pulling tokens from
   the lexer on demand, Err() preferring the lexer's error, Parse() counting the
   remaining tokens — computes exactly parse_src, so the source-level theorems
   speak about the faithful model *)
Theorem C04_parse_lazy_eq : forall plus int_lit float_ok src,
  parse_lazy plus int_lit float_ok src = parse_src plus int_lit float_ok src.
Proof. exact parse_lazy_eq. Qed.
Print Assumptions C04_parse_lazy_eq.

(* whitespace between tokens is irrelevant: same lexemes, different runs of
   whitespace (each lexeme delimited in both texts) -> same kinds and values *)
Theorem C04_lex_ws_irrelevant : forall plus src1 src2,
  ws_variant true plus src1 src2 ->
  exists ts1 e1 a1 ts2 e2 a2,
    lex_all plus src1 = (ts1, FEnd e1 a1) /\ lex_all plus src2 = (ts2, FEnd e2 a2) /\
    map kv ts1 = map kv ts2.
Proof. exact lex_ws_irrelevant. Qed.
Print Assumptions C04_lex_ws_irrelevant.

(* line and column as well: a token's position is the one reached by scanning
   the text in front of it (adv_str: byte offset, line feeds, characters since
   the last line feed) — for C07 *)
Theorem C04_lex_positions : forall plus src ts f,
  lex_all plus src = (ts, f) -> Forall (tok_pos_ok src) ts.
Proof. exact lex_positions. Qed.
Print Assumptions C04_lex_positions.

(* precedence for every accepted token list, grouping included.  [tops 0 ts] are
   the kinds of the tokens of ts not enclosed in ( ) or [ ]:  an unenclosed `||`
   makes `||` the root; else an unenclosed `&&` makes `&&` the root; else an
   unenclosed comparison operator makes a comparison the root; and the operand of
   `!` never contains an unenclosed binary operator *)
Theorem C04_root_or : forall int_lit float_ok ts e,
  parse_toks int_lit float_ok ts = POk e -> In TOr (tops 0 ts) -> exists l r, e = ELog LOr l r.
Proof. exact parse_root_or. Qed.
Print Assumptions C04_root_or.

Theorem C04_root_and : forall int_lit float_ok ts e,
  parse_toks int_lit float_ok ts = POk e -> ~ In TOr (tops 0 ts) -> In TAnd (tops 0 ts) ->
  exists l r, e = ELog LAnd l r.
Proof. exact parse_root_and. Qed.
Print Assumptions C04_root_and.

Theorem C04_root_cmp : forall int_lit float_ok ts e k op,
  parse_toks int_lit float_ok ts = POk e -> ~ In TOr (tops 0 ts) -> ~ In TAnd (tops 0 ts) ->
  In k (tops 0 ts) -> cmp_of_kind k = Some op -> exists op' l r, e = ECmp op' l r.
Proof. exact parse_root_cmp. Qed.
Print Assumptions C04_root_cmp.

Theorem C04_not_binds_tightest : forall int_lit float_ok ts e,
  d_pre int_lit float_ok ts e -> free f_pre ts.
Proof. exact not_binds_tightest. Qed.
Print Assumptions C04_not_binds_tightest.
