(* Props/C09.v — jobs, steps and expressions are checked independently (no
   state leaks).  Only statements; every proof is [exact <lemma>].

   [linter k] is the product of the seven stateful passes of actionlint
   (RuleShellName, RuleRunnerLabel, RuleJobNeeds, RuleID, RuleExpression,
   RuleShellcheck, RulePyflakes) over the visitor events; [k : checks] bundles
   the stateless checking functions, which are arbitrary.  [pure_checks k] is
   the one thing demanded of them: checking the expressions of a step hands the
   shared matrix type back unchanged — proved for the modelled checker of the
   current code by C09_expr_check_pure and refuted for the code before the fix. *)
From AL Require Import Base.Str Base.AList Wf.RulesState Wf.StateExpr Wf.StateProofs.
From AL Require Gen.GenRuleFields Wf.RuleFields.

(* --- job_state_reset: after JobPre j . steps . JobPost j the per-job fields are
   back at their initial values, from EVERY start state *)
Theorem C09_job_state_reset_expression :
  forall HX JX SX MX diag MT OT CT IT ST DT JT
    (f1 : jobT JX SX MX -> CT) (f2 : stepT SX -> OT) (f3 : wfT HX JX SX MX -> IT) (f4 : wfT HX JX SX MX -> ST)
    (f5 : wfT HX JX SX MX -> DT) (f6 : wfT HX JX SX MX -> JT) (f7 : wfT HX JX SX MX -> list diag)
    (f8 : exst HX JX SX MX MT OT CT IT ST DT JT -> wfT HX JX SX MX -> list diag)
    (f9 : exst HX JX SX MX MT OT CT IT ST DT JT -> jobT JX SX MX -> MX -> MT * list diag)
    (f10 : exst HX JX SX MX MT OT CT IT ST DT JT -> jobT JX SX MX -> list diag * option MT)
    (f11 : exst HX JX SX MX MT OT CT IT ST DT JT -> stepT SX -> list diag * option MT)
    (f12 : exst HX JX SX MX MT OT CT IT ST DT JT -> jobT JX SX MX -> list diag * option MT)
    (s : st (r_expression f1 f2 f3 f4 f5 f6 f7 f8 f9 f10 f11 f12)) (j : jobT JX SX MX),
  let s' := fst (run (r_expression f1 f2 f3 f4 f5 f6 f7 f8 f9 f10 f11 f12) s (job_events j)) in
  (x_matrix s', x_steps s', x_needs s') = (None, None, None).
Proof. exact (@expression_reset_any). Qed.
Print Assumptions C09_job_state_reset_expression.

Theorem C09_job_state_reset_shellname :
  forall HX JX SX MX diag (f1 : platform -> wfT HX JX SX MX -> list diag) (f2 : platform -> jobT JX SX MX -> list diag)
    (f3 : platform -> stepT SX -> list diag) (s : st (r_shellname f1 f2 f3)) (j : jobT JX SX MX),
  fst (run (r_shellname f1 f2 f3) s (job_events j)) = PAny.
Proof. exact (@shellname_reset_any). Qed.
Print Assumptions C09_job_state_reset_shellname.

Theorem C09_job_state_reset_shellcheck :
  forall HX JX SX MX diag (f : string -> stepT SX -> list diag)
    (s : st (r_shellcheck (HX:=HX) (JX:=JX) (MX:=MX) (diag:=diag) f)) (j : jobT JX SX MX),
  let s' := fst (run (r_shellcheck f) s (job_events j)) in sc_job s' = "" /\ sc_runner s' = "".
Proof. exact (@shellcheck_reset_any). Qed.
Print Assumptions C09_job_state_reset_shellcheck.

Theorem C09_job_state_reset_pyflakes :
  forall HX JX SX MX diag (f : stepT SX -> list diag)
    (s : st (r_pyflakes (HX:=HX) (JX:=JX) (MX:=MX) (diag:=diag) f)) (j : jobT JX SX MX),
  py_job (fst (run (r_pyflakes f) s (job_events j))) = PyUnspec.
Proof. exact (@pyflakes_reset_any). Qed.
Print Assumptions C09_job_state_reset_pyflakes.

Theorem C09_job_state_reset_id :
  forall HX JX SX MX diag (f1 : jobT JX SX MX -> list diag) (f2 : stepT SX -> list diag)
    (f3 : stepT SX -> stepT SX -> list diag) (s : st (r_id (HX:=HX) f1 f2 f3)) (j : jobT JX SX MX),
  fst (run (r_id f1 f2 f3) s (job_events j)) = None.
Proof. exact (@id_reset_any). Qed.
Print Assumptions C09_job_state_reset_id.

(* RuleRunnerLabel.compats is nil between any two callbacks, for every event sequence *)
Theorem C09_runnerlabel_compats_nil :
  forall HX JX SX MX diag (f1 f2 : jobT JX SX MX -> list diag) (es : list (event HX JX SX MX)),
  fst (run (r_runnerlabel f1 f2) (init (r_runnerlabel f1 f2)) es) = None.
Proof. exact (@runnerlabel_compats_nil). Qed.
Print Assumptions C09_runnerlabel_compats_nil.

(* RuleJobNeeds.nodes, the one field that accumulates over jobs: what
   VisitWorkflowPost finds for a job is that job's own entry, whatever the
   other jobs and the visiting order *)
Theorem C09_jobneeds_nodes :
  forall HX JX SX MX diag (f1 : jobT JX SX MX -> list diag) (f2 : jobT JX SX MX -> jobT JX SX MX -> list diag)
    (f3 : jnst JX SX MX -> list diag) (js : list (jobT JX SX MX))
    (s : st (r_jobneeds (HX:=HX) f1 f2 f3)) (j : jobT JX SX MX),
  NoDup (map (@jkey _ _ _) js) -> In j js -> jkey j <> "" ->
  lookup (jkey j) (fst (run (r_jobneeds f1 f2 f3) s (flat_map job_events js))) = Some (dedup_needs [] (j_needs j), j).
Proof. exact (@jobneeds_nodes_lookup). Qed.
Print Assumptions C09_jobneeds_nodes.

(* the variant of VisitJobPost without `rule.matrixTy = nil` violates the reset:
   the next job (which has no matrix) is checked with the previous job's matrix type *)
Theorem C09_matrix_noclear_refuted :
  x_matrix (fst (run noclear_rule (init noclear_rule) (job_events noclear_job))) <> None
  /\ x_matrix (fst (run noclear_rule (init noclear_rule) (job_events noclear_job ++ [JobPre plain_job]))) = Some tt.
Proof. exact matrix_noclear_refuted. Qed.
Print Assumptions C09_matrix_noclear_refuted.

(* --- job_diags_local: in every workflow (any jobs before and after, any visiting
   history) a job gets, event by event, the diagnostics it gets as the first job
   visited after VisitWorkflowPre *)
Theorem C09_job_diags_local :
  forall HX JX SX MX diag MT OT CT IT ST DT JT (k : checks HX JX SX MX diag MT OT CT IT ST DT JT),
  pure_checks k -> forall w : wfT HX JX SX MX,
  NoDup (map (@jkey _ _ _) (w_jobs w)) ->
  lint_jobs (linter k) w = map (fun j => (j, job_result (linter k) w j)) (w_jobs w).
Proof. exact (@linter_job_diags_local). Qed.
Print Assumptions C09_job_diags_local.

(* ... and of the other jobs of the workflow only the declarations of the jobs it
   needs matter (their output names / called workflow) *)
Theorem C09_job_diags_needs_only :
  forall HX JX SX MX diag MT OT CT IT ST DT JT (k : checks HX JX SX MX diag MT OT CT IT ST DT JT),
  pure_checks k -> forall (w : wfT HX JX SX MX) js js' j,
  needs_agree (needed_decl k) js js' j ->
  job_result (linter k) (with_jobs w js) j = job_result (linter k) (with_jobs w js') j.
Proof. exact (@linter_job_needs_only). Qed.
Print Assumptions C09_job_diags_needs_only.

(* jobs_perm: every visiting order of the same jobs yields the same per-job diagnostics *)
Theorem C09_jobs_perm :
  forall HX JX SX MX diag MT OT CT IT ST DT JT (k : checks HX JX SX MX diag MT OT CT IT ST DT JT),
  pure_checks k -> forall (w : wfT HX JX SX MX) js js',
  Permutation js js' -> NoDup (map (@jkey _ _ _) js) ->
  Permutation (lint_jobs (linter k) (with_jobs w js)) (lint_jobs (linter k) (with_jobs w js')).
Proof. exact (@linter_jobs_perm). Qed.
Print Assumptions C09_jobs_perm.

(* jobs_add_remove: a job nobody needs can be added or removed anywhere; the
   per-event diagnostics of all other jobs stay the same *)
Theorem C09_jobs_add_remove :
  forall HX JX SX MX diag MT OT CT IT ST DT JT (k : checks HX JX SX MX diag MT OT CT IT ST DT JT),
  pure_checks k -> forall (w : wfT HX JX SX MX) js1 js2 j0,
  NoDup (map (@jkey _ _ _) (js1 ++ j0 :: js2)) ->
  (forall j, In j (js1 ++ js2) -> ~ In (jkey j0) (map lower (j_needs j))) ->
  exists g dk,
    lint_jobs (linter k) (with_jobs w (js1 ++ j0 :: js2)) = map g js1 ++ (j0, dk) :: map g js2 /\
    lint_jobs (linter k) (with_jobs w (js1 ++ js2)) = map g js1 ++ map g js2.
Proof. exact (@linter_jobs_add_remove). Qed.
Print Assumptions C09_jobs_add_remove.

(* the diagnostics of a whole visit are those of VisitWorkflowPre, the job blocks, VisitWorkflowPost *)
Theorem C09_visit_diags :
  forall HX JX SX MX diag MT OT CT IT ST DT JT (k : checks HX JX SX MX diag MT OT CT IT ST DT JT),
  pure_checks k -> forall w : wfT HX JX SX MX,
  snd (run (linter k) (init (linter k)) (visit w)) =
  snd (step (linter k) (init (linter k)) (WfPre w)) :: concat (map snd (lint_jobs (linter k) w)) ++
  [snd (step (linter k) (fst (run (linter k) (after_wfpre (linter k) w) (flat_map job_events (w_jobs w)))) (WfPost w))].
Proof. exact (@linter_visit_diags). Qed.
Print Assumptions C09_visit_diags.

(* --- step_diags_local: a step's diagnostics are a function of the state its job
   set up and the earlier steps that carry an id; earlier steps without id can be
   added, removed or reordered freely (later steps trivially never matter) *)
Theorem C09_step_diags_local :
  forall HX JX SX MX diag MT OT CT IT ST DT JT (k : checks HX JX SX MX diag MT OT CT IT ST DT JT),
  pure_checks k -> forall (s : st (linter k)) (a b : list (stepT SX)) (x : stepT SX),
  Forall (fun y => s_id y = None) b ->
  snd (step (linter k) (fst (run (linter k) s (map (@StepE _ _ _ _) (a ++ b)))) (StepE x)) =
  snd (step (linter k) (fst (run (linter k) s (map (@StepE _ _ _ _) a))) (StepE x)).
Proof. exact (@linter_step_noid_irrelevant). Qed.
Print Assumptions C09_step_diags_local.

(* ... and of an id-carrying step RuleExpression keeps only its id and the outputs type of its action *)
Theorem C09_step_trace_expression :
  forall HX JX SX MX diag MT OT CT IT ST DT JT
    (f1 : jobT JX SX MX -> CT) (f2 : stepT SX -> OT) (f3 : wfT HX JX SX MX -> IT) (f4 : wfT HX JX SX MX -> ST)
    (f5 : wfT HX JX SX MX -> DT) (f6 : wfT HX JX SX MX -> JT) (f7 : wfT HX JX SX MX -> list diag)
    (f8 : exst HX JX SX MX MT OT CT IT ST DT JT -> wfT HX JX SX MX -> list diag)
    (f9 : exst HX JX SX MX MT OT CT IT ST DT JT -> jobT JX SX MX -> MX -> MT * list diag)
    (f10 : exst HX JX SX MX MT OT CT IT ST DT JT -> jobT JX SX MX -> list diag * option MT)
    (f11 : exst HX JX SX MX MT OT CT IT ST DT JT -> stepT SX -> list diag * option MT)
    (f12 : exst HX JX SX MX MT OT CT IT ST DT JT -> jobT JX SX MX -> list diag * option MT),
  (forall e x, snd (f11 e x) = x_matrix e) ->
  forall (s : st (r_expression f1 f2 f3 f4 f5 f6 f7 f8 f9 f10 f11 f12)) (x y : stepT SX),
  s_id x = s_id y -> f2 x = f2 y ->
  fst (step (r_expression f1 f2 f3 f4 f5 f6 f7 f8 f9 f10 f11 f12) s (StepE x)) =
  fst (step (r_expression f1 f2 f3 f4 f5 f6 f7 f8 f9 f10 f11 f12) s (StepE y)).
Proof. exact (@expression_step_trace). Qed.
Print Assumptions C09_step_trace_expression.

(* RuleID never writes into its nil map: inside a job block it is allocated *)
Theorem C09_id_seen_allocated :
  forall HX JX SX MX diag (f1 : jobT JX SX MX -> list diag) (f2 : stepT SX -> list diag)
    (f3 : stepT SX -> stepT SX -> list diag) (s : st (r_id (HX:=HX) f1 f2 f3)) (j : jobT JX SX MX) (pre : list (stepT SX)),
  fst (run (r_id f1 f2 f3) (fst (step (r_id f1 f2 f3) s (JobPre j))) (map (@StepE _ _ _ _) pre)) <> None.
Proof. exact (@id_seen_allocated_in_job). Qed.
Print Assumptions C09_id_seen_allocated.

(* --- expr_check_pure: checking an expression returns the type environment
   (including every shared type value reachable from it) unchanged *)
Theorem C09_expr_check_pure : forall e env, snd (check_new env e) = env.
Proof. exact check_new_pure. Qed.
Print Assumptions C09_expr_check_pure.

Theorem C09_later_expr_unaffected : forall env e1 e2,
  check_new (snd (check_new env e1)) e2 = check_new env e2.
Proof. exact later_expr_unaffected. Qed.
Print Assumptions C09_later_expr_unaffected.

(* every placeholder of a string / step / job gets the verdict it gets alone *)
Theorem C09_check_seq_indep : forall es env,
  fst (check_seq false env es) = map (fun e => fst (check_new env e)) es.
Proof. exact check_seq_indep. Qed.
Print Assumptions C09_check_seq_indep.

(* the code before the fix (checkArrayDeref: ty.Deref = true; return ty) *)
Theorem C09_expr_check_pure_old_refuted : exists env e, snd (check_old env e) <> env.
Proof. exact check_old_not_pure. Qed.
Print Assumptions C09_expr_check_pure_old_refuted.

Theorem C09_later_expr_old_refuted : exists env e1 e2,
  snd (fst (check_old (snd (check_old env e1)) e2)) <> snd (fst (check_old env e2)).
Proof. exact check_old_leaks. Qed.
Print Assumptions C09_later_expr_old_refuted.

(* the hypothesis [pure_checks] is what the modelled checker provides: the
   expression checks of a step, performed placeholder by placeholder on the
   shared matrix type, hand it back unchanged — and did not before the fix *)
Theorem C09_step_check_pure :
  forall HX JX SX MX OT CT IT ST DT JT (exprs_of : stepT SX -> list sexpr)
    (e : exst HX JX SX MX ty OT CT IT ST DT JT) (x : stepT SX),
  snd (step_check exprs_of false e x) = x_matrix e.
Proof. exact (@step_check_pure). Qed.
Print Assumptions C09_step_check_pure.

Theorem C09_step_check_old_refuted :
  exists (e : exst unit unit unit unit ty unit unit unit unit unit unit) (x : stepT unit),
    snd (step_check (fun _ => [leak_e1]) true e x) <> x_matrix e.
Proof. exact step_check_old_refuted. Qed.
Print Assumptions C09_step_check_old_refuted.

(* what a rule could carry from one job into the next is the fields of its struct: every field of
   every Rule* type of the source (re-listed on every run, Gen/GenRuleFields.v) is a known one —
   set at construction, the collected diagnostics, a lock, or a component of the transition
   system above (observed by the probe after every callback) *)
Theorem C09_rule_fields_are_known : forall x, In x GenRuleFields.rule_fields ->
  exists c, In (fst (fst x), snd (fst x), c) RuleFields.allowed.
Proof. exact RuleFields.rule_fields_known. Qed.
Print Assumptions C09_rule_fields_are_known.
