(* Props/C18.v — job dependency checks are exact for every "needs" graph.
   Only statements; every proof is [exact <lemma>].

   [run jobs ord] is the model of RuleJobNeeds on the jobs of one workflow;
   [ord] is the iteration order of the Go map rule.nodes (a permutation of the
   keys of the node table [table jobs]); every theorem holds for every [ord].
   [wf_jobs] is what parse.go guarantees about w.Jobs (ids distinct
   case-insensitively, not empty). *)
From AL Require Import Base.Str Base.AList Out.StableSort Graph.Dfs Graph.DfsProofs Graph.Needs Graph.NeedsProofs Graph.NeedsOrder.

(* ---- termination: the fuel the wrapper supplies is enough for the DFS, the
   reconstruction and the printing loop, and the printing loop never
   dereferences nil — for every graph (resolved or not) and every order *)
Theorem C18_needs_fuel : forall jobs ord,
  Permutation ord (keys (table jobs)) -> exists ds, run jobs ord = Done ds.
Proof. exact run_total. Qed.
Print Assumptions C18_needs_fuel.

(* graph-level form: the search itself, for any finite graph over any vertex type *)
Theorem C18_detect_spec : forall (V : Type) (eqb : V -> V -> bool) (succ : V -> list V)
  (before : V -> V -> bool) (vs ord : list V),
  (forall a b, reflect (a = b) (eqb a b)) ->
  (forall v w, In v vs -> In w (succ v) -> In w vs) ->
  (forall a b, before a b = true -> before b a = false) ->
  (forall y s n, before y s = false -> before n s = true -> before y n = false) ->
  (forall v, In v ord <-> In v vs) ->
  match detect eqb succ before (S (length vs)) ord with
  | Done None => forall u, In u vs -> ~ path succ u u
  | Done (Some (start, c)) =>
      is_cycle succ vs c /\ hd start c = start /\ forall y, In y c -> before y start = false
  | _ => False
  end.
Proof. exact (fun V eqb succ before vs ord H1 H2 H3 H4 H5 => detect_spec eqb succ before H1 vs H2 H3 H4 ord H5). Qed.
Print Assumptions C18_detect_spec.

(* ---- unresolved references: a (job, reference) pair is reported iff the
   lower-cased reference is the id of no job (case-insensitive comparison);
   the diagnostic carries the position and the id of the referring job *)
Theorem C18_unresolved_exact : forall jobs ord ds,
  wf_jobs jobs -> Permutation ord (keys (table jobs)) -> run jobs ord = Done ds ->
  forall p id dep, In (DMissing p id dep) ds <->
    exists j, In j jobs /\ p = j_pos j /\ id = lower (j_id j) /\ dep <> EmptyString /\
      (exists q v, In (q, v) (j_needs j) /\ lower v = dep) /\
      ~ (exists j', In j' jobs /\ lower (j_id j') = dep).
Proof. exact unresolved_exact_jobs. Qed.
Print Assumptions C18_unresolved_exact.

(* the same over an arbitrary node table *)
Theorem C18_unresolved_exact_table : forall m ord ds,
  NoDupKeys m -> Permutation ord (keys m) -> workflow_post m ord = Done ds ->
  forall p id dep, In (DMissing p id dep) ds <->
    exists nd, In (id, nd) m /\ p = n_pos nd /\ In dep (n_needs nd) /\ has m dep = false.
Proof. exact unresolved_exact. Qed.
Print Assumptions C18_unresolved_exact_table.

(* ---- soundness: a cyclic-dependency diagnostic prints a closed walk
   x -> ... -> x of length >= 1 along "needs" edges between existing jobs
   (self loop: x -> x), reported at the position of its first job *)
Theorem C18_cycle_sound : forall jobs ord ds p c,
  Permutation ord (keys (table jobs)) -> run jobs ord = Done ds -> In (DCycle p c) ds ->
  real_cycle (table jobs) c /\ p = pos_of (table jobs) (hd EmptyString c).
Proof. exact cycle_sound_jobs. Qed.
Print Assumptions C18_cycle_sound.

(* the printed cycle starts at the smallest position among its jobs *)
Theorem C18_cycle_start_min : forall jobs ord ds p c,
  Permutation ord (keys (table jobs)) -> run jobs ord = Done ds -> In (DCycle p c) ds ->
  forall y, In y c -> is_before (pos_of (table jobs) y) p = false.
Proof. exact cycle_start_min_jobs. Qed.
Print Assumptions C18_cycle_start_min.

(* ---- completeness: all references resolve and the graph has a cycle =>
   a cyclic-dependency diagnostic is produced *)
Theorem C18_cycle_complete : forall jobs ord ds,
  Permutation ord (keys (table jobs)) -> all_resolved (table jobs) -> has_cycle (table jobs) ->
  run jobs ord = Done ds -> exists p c, In (DCycle p c) ds.
Proof. exact cycle_complete_jobs. Qed.
Print Assumptions C18_cycle_complete.

(* ---- acyclic graphs get neither a cyclic nor an unresolved diagnostic *)
Theorem C18_acyclic_none : forall jobs ord ds,
  Permutation ord (keys (table jobs)) -> all_resolved (table jobs) -> ~ has_cycle (table jobs) ->
  run jobs ord = Done ds -> forall d, In d ds -> is_cycle_diag d = false /\ is_missing_diag d = false.
Proof. exact acyclic_none_jobs. Qed.
Print Assumptions C18_acyclic_none.

(* ---- never more than one cyclic-dependency diagnostic (with completeness:
   exactly one) *)
Theorem C18_at_most_one : forall jobs ord ds,
  run jobs ord = Done ds -> length (filter is_cycle_diag ds) <= 1.
Proof. exact at_most_one. Qed.
Print Assumptions C18_at_most_one.

(* ---- which cycle is printed does not depend on the iteration order of the
   Go map of nodes: for two orders the cyclic diagnostic is the same, the other
   diagnostics are a permutation of each other and equal after the final
   stable sort by position ([distinct_pos]: the jobs are distinct keys of one
   YAML mapping) *)
Theorem C18_order_independent : forall jobs ord ord',
  distinct_pos (table jobs) ->
  Permutation ord (keys (table jobs)) -> Permutation ord' (keys (table jobs)) ->
  exists ds ds', run jobs ord = Done ds /\ run jobs ord' = Done ds' /\
    Permutation ds ds' /\
    filter is_cycle_diag ds = filter is_cycle_diag ds' /\
    final_needs ds = final_needs ds'.
Proof. exact run_order_indep. Qed.
Print Assumptions C18_order_independent.

Theorem C18_order_independent_example :
  distinct_pos (table ex_cycle3) /\
  run ex_cycle3 (keys (table ex_cycle3)) = run ex_cycle3 (rev (keys (table ex_cycle3))) /\
  exists p c, run ex_cycle3 (keys (table ex_cycle3)) = Done [DCycle p c].
Proof. exact run_order_indep_example. Qed.
Print Assumptions C18_order_independent_example.

(* the printed walk really is a cycle of the graph in the sense of [has_cycle] *)
Theorem C18_real_cycle_has_cycle : forall m c, real_cycle m c -> has_cycle m.
Proof. exact real_cycle_has_cycle. Qed.
Print Assumptions C18_real_cycle_has_cycle.

(* ---- non-vacuity: a 3-cycle written in mixed case, a self loop, a DAG,
   a dangling + duplicate + case-variant reference *)
Theorem C18_ex_cycle3 :
  run ex_cycle3 ["c"; "a"; "b"] = Done [DCycle (3, 3)%N ["a"; "b"; "c"; "a"]] /\
  wf_jobs ex_cycle3 /\ all_resolved (table ex_cycle3) /\ has_cycle (table ex_cycle3).
Proof. exact (conj ex_cycle3_run ex_cycle3_hyps). Qed.
Print Assumptions C18_ex_cycle3.

Theorem C18_ex_self :
  run ex_self ["a"; "b"] = Done [DCycle (7, 3)%N ["b"; "b"]] /\
  all_resolved (table ex_self) /\ has_cycle (table ex_self).
Proof. exact (conj ex_self_run ex_self_hyps). Qed.
Print Assumptions C18_ex_self.

Theorem C18_ex_dag :
  run ex_dag ["b"; "c"; "a"] = Done [] /\ all_resolved (table ex_dag) /\ ~ has_cycle (table ex_dag).
Proof. exact (conj ex_dag_run ex_dag_hyps). Qed.
Print Assumptions C18_ex_dag.

Theorem C18_ex_missing :
  run [mkjob "A" 3 ["b"; "X"; "B"]; mkjob "b" 7 []] ["b"; "a"]
  = Done [DDupNeed (4, 13)%N "B"; DMissing (3, 3)%N "a" "x"].
Proof. exact ex_missing_run. Qed.
Print Assumptions C18_ex_missing.
