(* Props/C18.v — job dependency checks are exact for every "needs" graph.
   Only statements; every proof is [exact <lemma>]. *)
From AL Require Import Base.Str Base.AList Graph.Dfs Graph.Needs Graph.NeedsProofs.

(* exactly-one part 1: never more than one cyclic-dependency diagnostic *)
Theorem C18_at_most_one : forall jobs ord ds,
  run jobs ord = Done ds -> length (filter is_cycle_diag ds) <= 1.
Proof. exact at_most_one. Qed.
Print Assumptions C18_at_most_one.
