(* Props/C19.v — matrix duplicate and exclude checks are exact and
   order-insensitive.  Only statements; every proof is [exact <lemma>]. *)
From AL Require Import Matrix.RawYaml Matrix.MatrixRule Matrix.EqualsProofs Matrix.MatrixProofs Matrix.ExcludeProofs Matrix.PermProofs.

(* Equals decides structural equality (mappings as finite maps). *)
Theorem C19_equals_exact : forall a, ywf a -> forall b, ywf b -> (equals a b = true <-> yeq a b).
Proof. exact equals_exact. Qed.
Print Assumptions C19_equals_exact.

Theorem C19_equals_sym : forall a b, ywf a -> ywf b -> equals a b = equals b a.
Proof. exact equals_sym. Qed.
Print Assumptions C19_equals_sym.

(* ... and does not depend on the order in which members are stored/written *)
Theorem C19_equals_perm : forall p q m1 m1' m2 m2',
  Permutation m1 m1' -> Permutation m2 m2' -> ywf (YObj p m1) -> ywf (YObj q m2) ->
  equals (YObj p m1) (YObj q m2) = equals (YObj p m1') (YObj q m2').
Proof. exact equals_perm. Qed.
Print Assumptions C19_equals_perm.

(* a row value is flagged iff it is structurally equal to an earlier value *)
Theorem C19_dup_exact : forall vs, Forall ywf vs -> forall i v, nth_error vs i = Some v ->
  (nth i (dup_flags [] vs) false = true <->
   exists j u, j < i /\ nth_error vs j = Some u /\ yeq u v).
Proof. exact dup_exact. Qed.
Print Assumptions C19_dup_exact.

(* the diagnostics of checkDuplicateInRow are exactly the flagged values *)
Theorem C19_dup_diags : forall seen vs,
  map d_pos (dup_scan seen vs) = map ypos (select (dup_flags seen vs) vs).
Proof. exact dup_scan_flags. Qed.
Print Assumptions C19_dup_diags.

Theorem C19_dup_expr_silent : forall r, r_vals r = None -> check_dup_row r = [].
Proof. exact dup_expr_silent. Qed.
Print Assumptions C19_dup_expr_silent.

(* containment used by exclude *)
Theorem C19_subset_spec : forall v sub, subset v sub = true <-> ysubset v sub.
Proof. exact subset_spec. Qed.
Print Assumptions C19_subset_spec.

(* verdict for one exclude entry *)
Theorem C19_exclude_entry_exact : forall ign rows k a,
  assign_verdict ign rows k a (check_assign ign rows (k, a)).
Proof. exact check_assign_exact. Qed.
Print Assumptions C19_exclude_entry_exact.

Theorem C19_exclude_entry_functional : forall ign rows k a d1 d2,
  assign_verdict ign rows k a d1 -> assign_verdict ign rows k a d2 -> d1 = d2.
Proof. exact assign_verdict_functional. Qed.
Print Assumptions C19_exclude_entry_functional.

(* the candidates an exclude entry is matched against are exactly the literal
   row values plus the values assigned by include entries (up to structural
   equality); keys whose row is an expression are ignored; a key has
   candidates iff a row or an include entry defines it *)
Theorem C19_candidates_spec : forall m, matrix_wf m ->
  let (rows, ign) := candidates m in
  (forall k, In k ign <-> exists r, lookup k (m_rows m) = Some r /\ r_expr r = true) /\
  (forall k, ~ In k ign ->
     (lookup k rows = None <->
      (match lookup k (m_rows m) with Some _ => False | None => True end) /\ assigned k (include_assigns m) = []) /\
     (forall v, In v (row_of rows k) -> In v (source_values m k)) /\
     (forall u, In u (source_values m k) -> exists v, In v (row_of rows k) /\ yeq v u)).
Proof. exact candidates_spec. Qed.
Print Assumptions C19_candidates_spec.

(* an exclude entry is accepted iff some source value of its key contains it *)
Theorem C19_exclude_verdict_sources : forall m, matrix_wf m ->
  let (rows, ign) := candidates m in
  forall k a, ~ In k ign ->
    (existsb (fun v => subset v a) (row_of rows k) = true <->
     exists u, In u (source_values m k) /\ ysubset u a).
Proof. exact exclude_verdict_sources. Qed.
Print Assumptions C19_exclude_verdict_sources.

(* the order in which the rows map is visited does not matter *)
Theorem C19_rows_order_irrelevant : forall m rs', Permutation (m_rows m) rs' -> NoDupKeys (m_rows m) ->
  Permutation (check_matrix m) (check_matrix (with_rows m rs')).
Proof. exact check_matrix_rows_perm. Qed.
Print Assumptions C19_rows_order_irrelevant.

Theorem C19_exclude_rows_order_irrelevant : forall m rs', Permutation (m_rows m) rs' -> NoDupKeys (m_rows m) ->
  check_exclude (with_rows m rs') = check_exclude m.
Proof. exact check_exclude_rows_perm. Qed.
Print Assumptions C19_exclude_rows_order_irrelevant.

(* ... nor does the order in which the assignments of an include entry are visited *)
Theorem C19_include_assign_order_irrelevant : forall m ce cs',
  m_include m = Some {| cs_expr := ce; cs_list := cs' |} -> forall cs,
  Forall2 comb_perm cs cs' ->
  check_exclude (with_include m (Some {| cs_expr := ce; cs_list := cs |})) = check_exclude m.
Proof. exact check_exclude_include_perm. Qed.
Print Assumptions C19_include_assign_order_irrelevant.

(* "rows or entries built from expressions are never reported": a value counts as built from an
   expression iff a `${{` is followed - anywhere after it - by `}}` (ContainsExpression after the
   repair of the round-7 defect); before it the first `}}` of the whole text had to come after
   the first `${{`, so `c }} ${{ github.ref }}` was compared like a literal *)
From AL Require Base.Str.
Theorem C19_placeholder_recognised : forall s,
  Str.contains_expr s = true <-> exists i j, String.index 0 "${{" s = Some i /\ String.index i "}}" s = Some j.
Proof. exact Str.contains_expr_spec. Qed.
Print Assumptions C19_placeholder_recognised.

Theorem C19_placeholder_after_closing_braces_old_refuted :
  exists s, Str.contains_expr s = true /\ Str.contains_expr_old s = false.
Proof. exact Str.contains_expr_old_refuted. Qed.
Print Assumptions C19_placeholder_after_closing_braces_old_refuted.
