(* Props/C05.v — references to steps/needs/matrix/inputs/secrets/jobs resolve
   by scope.  [resolve t path = VUndefined] is the semantic checker's
   "property is not defined in object type" verdict for ctx.path when the
   context has scope type t.  Only statements; every proof is [exact <lemma>]. *)
From AL Require Import Base.Str Base.AList Wf.Scope Wf.ScopeProofs.

(* a step sees the ids of earlier steps of its job only (k = index of the
   step); job outputs and environment see all (k = number of steps); nothing
   is reported when an earlier id is built from an expression *)
Theorem C05_steps_scope : forall steps k id,
  resolve (steps_scope steps k) [id] = VUndefined <->
  ~ In id (map lower (ids_of (firstn k steps))) /\
  existsb contains_expr (ids_of (firstn k steps)) = false.
Proof. exact steps_scope_spec. Qed.
Print Assumptions C05_steps_scope.

Theorem C05_steps_scope_total : forall steps k id, resolve (steps_scope steps k) [id] <> VNotObject.
Proof. exact steps_scope_total. Qed.
Print Assumptions C05_steps_scope_total.

(* needs sees exactly the directly needed, existing jobs other than the job itself
   (compared case-insensitively) *)
Theorem C05_needs_scope : forall jobs job n,
  resolve (needs_scope jobs job) [n] = VUndefined <->
  ~ (In n (map lower (j_needs job)) /\ n <> lower (j_rawid job) /\ find_job jobs n <> None).
Proof. exact needs_scope_spec. Qed.
Print Assumptions C05_needs_scope.

Theorem C05_needs_entry : forall jobs job n t rest,
  lookup n (fold_left (add_need jobs job) (j_needs job) []) = Some t ->
  exists j, find_job jobs n = Some j /\
            resolve (needs_scope jobs job) (n :: rest) = resolve (needs_entry j) rest.
Proof. exact needs_scope_entry. Qed.
Print Assumptions C05_needs_entry.

(* ... and exactly their declared outputs *)
Theorem C05_needs_outputs : forall (j : jobS) o, j_call j = None ->
  (resolve (needs_entry j) ["outputs"; o] = VUndefined <-> ~ In o (j_outputs j)).
Proof. exact needs_outputs_spec. Qed.
Print Assumptions C05_needs_outputs.

(* matrix sees exactly the row keys plus the include keys; expressions in the
   defining section switch reporting off *)
Theorem C05_matrix_scope : forall m k,
  resolve (matrix_scope m) [k] = VUndefined <->
  mx_expr m = false /\ incl_has_expr (mx_include m) = false /\
  ~ In k (mx_rows m) /\ ~ In k (incl_keys (mx_include m)).
Proof. exact matrix_scope_spec. Qed.
Print Assumptions C05_matrix_scope.

Theorem C05_inputs_scope : forall c d k,
  resolve (inputs_scope c d) [k] = VUndefined <->
  ~ (In k (match c with Some a => a | None => [] end) \/ In k (match d with Some b => b | None => [] end)).
Proof. exact inputs_scope_spec. Qed.
Print Assumptions C05_inputs_scope.

Theorem C05_secrets_scope : forall declared k,
  resolve (secrets_scope declared) [k] = VUndefined <->
  exists names, declared = Some names /\ ~ In k auto_secrets /\ ~ In k names.
Proof. exact secrets_scope_spec. Qed.
Print Assumptions C05_secrets_scope.

Theorem C05_jobs_scope : forall jobs n o,
  resolve (jobs_scope jobs) [n; "outputs"; o] = VUndefined <->
  match find_job jobs n with
  | None => True
  | Some j => j_call j = None /\ ~ In o (j_outputs j)
  end.
Proof. exact jobs_scope_spec. Qed.
Print Assumptions C05_jobs_scope.

(* ---- every position from which a reference can be made: the semantic checker
   skips no sub-expression.  A reference to a name that is not in scope
   (receiver, index, operand of ! or of a comparison, either side of && / ||
   in both narrowing modes — the condition of `c && a || b` included —,
   argument of a defined function) is reported wherever it stands; only the
   arguments of an undefined function are not visited. *)
From AL Require Expr.Types Expr.Sema Expr.SemaVisit.

Theorem C05_reference_reported_wherever_it_stands :
  forall (mg : Types.ty -> Types.ty -> Types.ty) (fa : bool) (E : Sema.env) e nw p name,
  SemaVisit.reach E e (Ast.EVar p name) -> AList.lookup name (Sema.e_vars E) = None ->
  In (Sema.mkdiag p Sema.DUndefVar) (snd (Sema.chk mg fa E nw e)).
Proof. exact SemaVisit.undefined_var_reported. Qed.
Print Assumptions C05_reference_reported_wherever_it_stands.

Theorem C05_reference_position_example :
  let E := {| Sema.e_vars := []; Sema.e_funcs := []; Sema.e_avail := []; Sema.e_spavail := []; Sema.e_special := []; Sema.e_config := None; Sema.e_json := [] |} in
  snd (Sema.check E (Ast.ECall (Ast.Build_tpos 1 1 1) "nosuch" [Ast.EVar (Ast.Build_tpos 1 8 8) "zzz"])) = [Sema.mkdiag (Ast.Build_tpos 1 1 1) Sema.DUndefFunc].
Proof. exact SemaVisit.undefined_function_hides_arguments. Qed.
Print Assumptions C05_reference_position_example.

(* --- references from the default of a workflow_call input ------------------
   the rule checks the defaults in declaration order against the inputs declared
   so far (Wf/InputDefaults.v, tied to the linter by the cases_defaults stream) *)
From AL Require Wf.InputDefaults.

(* what the code does: reported iff no input declared strictly earlier has the name *)
Theorem C05_input_default_reported_iff_not_declared_earlier :
  forall (inputs : list InputDefaults.decl) i r,
  i < List.length inputs -> In r (snd (nth i inputs (""%string, []))) ->
  exists row, nth_error (InputDefaults.visit [] inputs) i = Some row /\
    forall j, nth_error (snd (nth i inputs (""%string, []))) j = Some r ->
      nth_error row j = Some (negb (InputDefaults.mem r (firstn i (InputDefaults.names inputs)))).
Proof. exact InputDefaults.visit_reports_iff_not_declared_earlier. Qed.
Print Assumptions C05_input_default_reported_iff_not_declared_earlier.

(* no false negative there: an undeclared name is always reported *)
Theorem C05_input_default_undeclared_reported : forall inputs,
  Forall2 (fun row d => forall j r, nth_error (snd d) j = Some r ->
                          InputDefaults.mem r (InputDefaults.names inputs) = false -> nth_error row j = Some true)
          (InputDefaults.visit [] inputs) inputs.
Proof. exact InputDefaults.visit_undeclared_reported. Qed.
Print Assumptions C05_input_default_undeclared_reported.

(* against the property (inputs sees exactly the declared names) the code is
   refuted: `first: {default: ${{ inputs.second }}}` with `second` declared after
   it is reported - the recorded finding; the loop that registers all inputs
   before it checks the defaults is the property *)
Theorem C05_input_default_declared_reported_refuted :
  exists inputs i j r, InputDefaults.mem r (InputDefaults.names inputs) = true /\
    nth_error (snd (nth i inputs (""%string, []))) j = Some r /\
    exists row, nth_error (InputDefaults.visit [] inputs) i = Some row /\ nth_error row j = Some true.
Proof. exact InputDefaults.visit_declared_reported_refuted. Qed.
Print Assumptions C05_input_default_declared_reported_refuted.

Theorem C05_input_default_repaired : forall inputs,
  Forall2 (fun row d => forall j r, nth_error (snd d) j = Some r ->
                          nth_error row j = Some (negb (InputDefaults.mem r (InputDefaults.names inputs))))
          (InputDefaults.visit_repaired inputs) inputs.
Proof. exact InputDefaults.visit_repaired_spec. Qed.
Print Assumptions C05_input_default_repaired.

(* the deviation is confined to forward and self references: when every default refers to an
   input declared before it (or to nothing that is declared) the loop of the code and the
   repaired loop report the same *)
Theorem C05_input_default_agrees_when_backward : forall inputs,
  InputDefaults.backward_only inputs -> InputDefaults.visit [] inputs = InputDefaults.visit_repaired inputs.
Proof. exact InputDefaults.visit_agrees_when_backward. Qed.
Print Assumptions C05_input_default_agrees_when_backward.
