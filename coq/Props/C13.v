(* Props/C13.v — placeholder, replaced below *)
From AL Require Import Wf.YNode Wf.Mapping Wf.Sections.
Theorem C13_placeholder : True. Proof. exact I. Qed.
Print Assumptions C13_placeholder.
