(* Props/C13.v — unknown, duplicate and missing keys are reported in every
   section.  Only statements; every proof is [exact <lemma>] (Wf/ParseProofs.v).

   [run_section s init post n] is parseMapping + the key switch of section [s]
   + the checks after the loop, on the YAML node [n]; every section parser of the
   model (Wf/Sections.v) is such an instance.  The theorems quantify over the
   section [s] (handlers of the accepted keys = parsers of their values, initial
   state, post-loop checks), hence hold for any behaviour of value parsing. *)
From AL Require Import Base.Str Wf.YNode Wf.Mapping Wf.Sections Wf.SyntaxSpec Wf.ParseProofs Gen.GenParseKeys.

(* a key outside the key set of a closed section, at its first occurrence, is
   reported at that key *)
Theorem C13_unknown_key_reported :
  forall St (s : section St) init post n i k v,
  sec_closed s = true ->
  is_map n = true ->
  nth_error (pairs (ych n)) i = Some (k, v) ->
  ~ In (key_id (sc_cs s) k) (sec_keys s) ->
  (forall j k' v', j < i -> nth_error (pairs (ych n)) j = Some (k', v') ->
                   key_id (sc_cs s) k' <> key_id (sc_cs s) k) ->
  In (D (DUnexpected (key_name k)) (ypos k)) (run_section s init post n).
Proof. exact (@unknown_key_reported_gen). Qed.
Print Assumptions C13_unknown_key_reported.

(* schedule items: a key other than cron is reported at the item *)
Theorem C13_unknown_key_reported_schedule :
  forall c i k v,
  is_map c = true ->
  nth_error (pairs (ych c)) i = Some (k, v) ->
  key_id true k <> "cron" ->
  (forall j k' v', j < i -> nth_error (pairs (ych c)) j = Some (k', v') -> key_id true k' <> key_id true k) ->
  In (at_node DScheduleItem c) (parse_schedule_item c).
Proof. exact schedule_item_unknown_reported. Qed.
Print Assumptions C13_unknown_key_reported_schedule.

(* a repetition — [key_id] lower-cases the key when the section is
   case-insensitive ([sc_cs s = false]) — is reported at the repetition *)
Theorem C13_dup_key_reported :
  forall St (s : section St) init post n i j k v k' v',
  is_map n = true ->
  nth_error (pairs (ych n)) j = Some (k', v') ->
  nth_error (pairs (ych n)) i = Some (k, v) ->
  j < i ->
  key_id (sc_cs s) k' = key_id (sc_cs s) k ->
  exists p, In (D (DDuplicate (key_name k) p) (ypos k)) (run_section s init post n).
Proof. exact (@dup_key_reported_gen). Qed.
Print Assumptions C13_dup_key_reported.

(* missing mandatory keys *)
Theorem C13_missing_on_reported : forall doc root rest,
  ych doc = root :: rest -> no_key true root ["on"] ->
  In (at_node (DMissing MOn) (fix_doc_pos doc)) (parse_workflow doc).
Proof. exact missing_on_reported. Qed.
Print Assumptions C13_missing_on_reported.

Theorem C13_missing_jobs_reported : forall doc root rest,
  ych doc = root :: rest -> no_key true root ["jobs"] ->
  In (at_node (DMissing MJobs) (fix_doc_pos doc)) (parse_workflow doc).
Proof. exact missing_jobs_reported. Qed.
Print Assumptions C13_missing_jobs_reported.

Theorem C13_missing_runs_on_reported : forall id,
  no_key true (kv_val id) ["runs-on"; "uses"] ->
  In (D (DMissing MRunsOn) (kv_pos id)) (parse_job id).
Proof. exact missing_runs_on_reported. Qed.
Print Assumptions C13_missing_runs_on_reported.

Theorem C13_missing_steps_reported : forall id,
  no_key true (kv_val id) ["steps"; "uses"] ->
  In (D (DMissing MSteps) (kv_pos id)) (parse_job id).
Proof. exact missing_steps_reported. Qed.
Print Assumptions C13_missing_steps_reported.

Theorem C13_missing_run_uses_reported : forall n,
  no_key true n ["run"; "uses"] ->
  exists m, In m [MStepExec; MStepUses; MStepRun] /\ In (at_node (DMissing m) n) (parse_step n).
Proof. exact missing_step_exec_reported. Qed.
Print Assumptions C13_missing_run_uses_reported.

Theorem C13_missing_step_exec_reported : forall n,
  no_key true n ["uses"; "with"; "run"; "shell"] ->
  In (at_node (DMissing MStepExec) n) (parse_step n).
Proof. exact missing_step_any_reported. Qed.
Print Assumptions C13_missing_step_exec_reported.

Theorem C13_missing_input_type_reported : forall name,
  no_key true (kv_val name) ["type"] ->
  In (D (DMissing MInputType) (kv_pos name)) (parse_call_input name).
Proof. exact missing_input_type_reported. Qed.
Print Assumptions C13_missing_input_type_reported.

Theorem C13_missing_output_value_reported : forall name,
  no_key true (kv_val name) ["value"] ->
  In (D (DMissing MOutputValue) (kv_pos name)) (parse_call_output name).
Proof. exact missing_output_value_reported. Qed.
Print Assumptions C13_missing_output_value_reported.

Theorem C13_missing_group_reported : forall p n,
  is_scalar n = false -> no_key true n ["group"] ->
  In (D (DMissing MGroup) p) (parse_concurrency p n).
Proof. exact missing_group_reported. Qed.
Print Assumptions C13_missing_group_reported.

Theorem C13_missing_environment_name_reported : forall p n,
  is_scalar n = false -> no_key true n ["name"] ->
  In (D (DMissing MEnvName) p) (parse_environment p n).
Proof. exact missing_env_name_reported. Qed.
Print Assumptions C13_missing_environment_name_reported.

Theorem C13_missing_credentials_reported : forall key,
  (no_key true (kv_val key) ["username"] \/ no_key true (kv_val key) ["password"]) ->
  In (D (DMissing MCredentials) (kv_pos key)) (parse_credentials key).
Proof. exact missing_credentials_reported. Qed.
Print Assumptions C13_missing_credentials_reported.

Theorem C13_missing_defaults_run_reported : forall n,
  no_key true n ["run"] ->
  In (at_node (DMissing MDefaultsRun) n) (parse_defaults n).
Proof. exact missing_defaults_run_reported. Qed.
Print Assumptions C13_missing_defaults_run_reported.

(* siblings unaffected: inserting a foreign key at any index of a non-empty
   mapping adds exactly one diagnostic (at the key); all other diagnostics of the
   section — those of the sibling keys, of the mapping and of the post-loop
   checks — are unchanged, as ordered lists *)
Theorem C13_siblings_unaffected_foreign :
  forall St (s : section St) init post n i k v,
  sec_closed s = true ->
  is_map n = true ->
  pairs (ych n) <> [] ->
  clean_key k ->
  ~ In (key_id (sc_cs s) k) (sec_keys s) ->
  (forall k' v', In (k', v') (pairs (ych n)) -> key_id (sc_cs s) k' <> key_id (sc_cs s) k) ->
  exists l1 l2,
    run_section s init post n = l1 ++ l2 /\
    run_section s init post (insert_pair n i k v) = l1 ++ D (DUnexpected (key_name k)) (ypos k) :: l2.
Proof. exact (@foreign_insert_siblings_gen). Qed.
Print Assumptions C13_siblings_unaffected_foreign.

(* ... and so does a repetition inserted anywhere after an occurrence of the key *)
Theorem C13_siblings_unaffected_duplicate :
  forall St (s : section St) init post n i k v,
  is_map n = true ->
  clean_key k ->
  (exists j k' v', j < i /\ nth_error (pairs (ych n)) j = Some (k', v') /\
                   key_id (sc_cs s) k' = key_id (sc_cs s) k) ->
  exists l1 l2 p,
    run_section s init post n = l1 ++ l2 /\
    run_section s init post (insert_pair n i k v) = l1 ++ D (DDuplicate (key_name k) p) (ypos k) :: l2.
Proof. exact (@dup_insert_siblings_gen). Qed.
Print Assumptions C13_siblings_unaffected_duplicate.

(* the tables of the model equal the documented key sets (Wf/SyntaxSpec.v):
   function, keys (as sets), closed, allowEmpty, caseSensitive — per key switch *)
Theorem C13_section_tables_spec : forallb2 doc_match documented_sections model_sites = true.
Proof. exact section_tables_spec_thm. Qed.
Print Assumptions C13_section_tables_spec.

(* ... and equal what parse.go says on this run (Gen/GenParseKeys.v): case labels,
   whether the default branch calls unexpectedKey, literal allowEmpty /
   caseSensitive of the parseMapping call *)
Theorem C13_parse_keys_match_model : forallb2 gen_match gen_sites model_sites = true.
Proof. exact parse_keys_match_model_thm. Qed.
Print Assumptions C13_parse_keys_match_model.

Theorem C13_parse_mapping_flags_match_model :
  forallb2 gen_mapping_match gen_mappings_calls model_mappings = true.
Proof. exact parse_mapping_flags_match_model_thm. Qed.
Print Assumptions C13_parse_mapping_flags_match_model.
