(* Props/C12.v — context and special-function availability follows GitHub's
   table exactly.  Only statements; every proof is [exact <lemma>]. *)
From AL Require Wf.AvailOld.
From AL Require Import Wf.Avail Wf.AvailProofs Wf.SpecAvailability.
From AL Require Import Gen.GenAvailability Gen.GenRouteSites.

(* the table the code returns, regenerated from the working tree on every run,
   is GitHub's documentation table (both in canonical form, as finite maps) *)
Theorem C12_gen_avail_eq_spec : GenAvailability.table = SpecAvailability.table.
Proof. exact gen_avail_eq_spec. Qed.
Print Assumptions C12_gen_avail_eq_spec.

(* a key that is absent from the table (and the empty key) allows nothing *)
Theorem C12_gen_unknown_none : GenAvailability.unknown = ([], []) /\ GenAvailability.empty_key = ([], []).
Proof. exact gen_unknown_none. Qed.
Print Assumptions C12_gen_unknown_none.

Theorem C12_lookup_unlisted : forall t k, ~ In k (map fst t) -> lookup t k = ([], []).
Proof. exact lookup_unlisted. Qed.
Print Assumptions C12_lookup_unlisted.

(* SpecialFunctionNames = the functions of the table's third column, each with its keys *)
Theorem C12_gen_special_eq_spec : GenAvailability.special_rows = spec_special_rows SpecAvailability.table.
Proof. exact gen_special_eq_spec. Qed.
Print Assumptions C12_gen_special_eq_spec.

(* the narrowing modes of the traversal neither skip nor repeat a node *)
Theorem C12_traversal_complete : forall vars funcs specials ctxs sps sigok e m,
  chk vars funcs specials ctxs sps sigok m e = visit vars funcs specials ctxs sps sigok e.
Proof. exact chk_eq_visit. Qed.
Print Assumptions C12_traversal_complete.

(* every occurrence of a defined variable, at any depth, in any letter case:
   reported as not allowed iff its lower-cased name is not in the list *)
Theorem C12_avail_verdict : forall vars funcs specials ctxs sps sigok e,
  calls_known funcs e -> forall p n, In (p, n) (variables e) -> In (lower n) vars ->
  (In (mk_diag p DCtx n) (check vars funcs specials ctxs sps sigok e) <-> ~ In (lower n) ctxs).
Proof. exact avail_verdict. Qed.
Print Assumptions C12_avail_verdict.

(* Appendix B: reported = as not allowed or as undefined (`jobs` outside workflow_call outputs) *)
Theorem C12_reported_verdict : forall vars funcs specials ctxs sps sigok e,
  calls_known funcs e -> forall p n, In (p, n) (variables e) ->
  (var_reported (check vars funcs specials ctxs sps sigok e) p n <-> ~ (In (lower n) vars /\ In (lower n) ctxs)).
Proof. exact reported_verdict. Qed.
Print Assumptions C12_reported_verdict.

(* no such diagnostic without an occurrence *)
Theorem C12_var_diag_is_occurrence : forall vars funcs specials ctxs sps sigok e p k n,
  In (mk_diag p k n) (check vars funcs specials ctxs sps sigok e) -> k = DCtx \/ k = DUndefVar ->
  In (p, n) (variables e).
Proof. exact var_diag_is_occurrence. Qed.
Print Assumptions C12_var_diag_is_occurrence.

(* every call of a special function whose arguments are accepted *)
Theorem C12_special_verdict : forall vars funcs specials ctxs sps sigok e,
  calls_known funcs e -> forall p c, In (p, c) (calls e) -> In (lower c) specials -> sigok p = true ->
  (In (mk_diag p DFn c) (check vars funcs specials ctxs sps sigok e) <-> ~ In (lower c) sps).
Proof. exact special_verdict. Qed.
Print Assumptions C12_special_verdict.

(* from the repair on (checkSpecialFunctionAvailability runs before the overloads are tried) the
   verdict does not depend on whether the arguments of the call are accepted: the code is the
   model with [sigok] = always true, which is what the executable entry point [check_at] uses *)
Theorem C12_special_verdict_whatever_the_arguments : forall vars funcs specials ctxs sps e,
  calls_known funcs e -> forall p c, In (p, c) (calls e) -> In (lower c) specials ->
  (In (mk_diag p DFn c) (check vars funcs specials ctxs sps (fun _ => true) e) <-> ~ In (lower c) sps).
Proof. exact AvailOld.special_verdict_whatever_the_arguments. Qed.
Print Assumptions C12_special_verdict_whatever_the_arguments.

(* before it the availability of a special function was only looked at when an overload accepted
   the call: `always(1)` at `name:` drew the arity diagnostic alone *)
Theorem C12_special_unaccepted_call_old_refuted :
  exists vars funcs specials ctxs sps sigok e p c,
    calls_known funcs e /\ In (p, c) (calls e) /\ In (lower c) specials /\ ~ In (lower c) sps /\
    ~ In (mk_diag p DFn c) (check vars funcs specials ctxs sps sigok e).
Proof. exact AvailOld.special_unaccepted_call_old_refuted. Qed.
Print Assumptions C12_special_unaccepted_call_old_refuted.

Theorem C12_non_special_never : forall vars funcs specials ctxs sps sigok e p c,
  ~ In (lower c) specials -> ~ In (mk_diag p DFn c) (check vars funcs specials ctxs sps sigok e).
Proof. exact non_special_never. Qed.
Print Assumptions C12_non_special_never.

(* the verdicts do not depend on the letter case of any name *)
Theorem C12_avail_recase : forall vars funcs specials ctxs sps sigok e e',
  fold_case e = fold_case e' ->
  map verdict (check vars funcs specials ctxs sps sigok e) = map verdict (check vars funcs specials ctxs sps sigok e').
Proof. exact avail_recase. Qed.
Print Assumptions C12_avail_recase.

(* the call sites of rule_expression.go, extracted on every run, are the modelled ones
   (the three booleans: which of the anticipated repairs of the C03-defect sites are present) *)
Theorem C12_route_sites_match_model : exists req_in req_sec inc_elem,
  forall s, In s GenRouteSites.sites <-> In s (model_sites req_in req_sec inc_elem).
Proof. exact route_sites_match_model. Qed.
Print Assumptions C12_route_sites_match_model.

Theorem C12_route_key_stmts_match_model : GenRouteSites.key_stmts = model_key_stmts.
Proof. exact route_key_stmts_match_model. Qed.
Print Assumptions C12_route_key_stmts_match_model.

(* every path from a site with a literal key to WorkflowKeyAvailability resolves, has a
   canonical path, and the key that arrives lists exactly what the longest listed key
   that is a prefix of the canonical path lists *)
Theorem C12_routing_key_spec : forall ol, In ol (leaves GenRouteSites.sites) ->
  exists l path, ol = Some l /\ canon_of l = Some path /\
    eff_avail GenAvailability.table (l_key l) = spec_avail GenAvailability.table path.
Proof. exact routing_key_spec. Qed.
Print Assumptions C12_routing_key_spec.

(* composition: at every routed site, a context / special function is reported
   as not allowed iff GitHub's table does not list it for the site's position *)
Theorem C12_main : forall ol, In ol (leaves GenRouteSites.sites) ->
  exists l path, ol = Some l /\ canon_of l = Some path /\
  forall root_fn e, calls_known GenAvailability.func_names e ->
    (forall p n, In (p, n) (variables e) -> In (lower n) (vars_at root_fn) ->
       (In (mk_diag p DCtx n) (check_at GenAvailability.table (l_key l) root_fn e) <->
        ~ In (lower n) (fst (spec_avail SpecAvailability.table path)))) /\
    (forall p c, In (p, c) (calls e) -> In (lower c) special_names ->
       (In (mk_diag p DFn c) (check_at GenAvailability.table (l_key l) root_fn e) <->
        ~ In (lower c) (snd (spec_avail SpecAvailability.table path)))).
Proof. exact avail_main. Qed.
Print Assumptions C12_main.

(* ---- the verdict does not depend on where inside the value the name occurs:
   a context that is not available at the key is reported at every position of
   an expression the checker visits (Expr/SemaVisit.v: every sub-expression
   except the arguments of an undefined function) *)
From AL Require Base.AList Expr.Types Expr.Sema Expr.SemaVisit.

Theorem C12_unavailable_context_reported_at_every_position :
  forall (mg : Types.ty -> Types.ty -> Types.ty) (fa : bool) (E : Sema.env) e nw p name t,
  SemaVisit.reach E e (Ast.EVar p name) -> AList.lookup name (Sema.e_vars E) = Some t ->
  Sema.mem (Str.lower name) (Sema.e_avail E) = false ->
  In (Sema.mkdiag p Sema.DCtxNotAllowed) (snd (Sema.chk mg fa E nw e)).
Proof. exact SemaVisit.unavailable_context_reported. Qed.
Print Assumptions C12_unavailable_context_reported_at_every_position.
