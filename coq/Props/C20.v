(* Props/C20.v — shellcheck/pyflakes integration loses nothing and bounds
   concurrency.  Only statements; every proof is [exact <lemma>]. *)
From AL Require Import Base.Str Proc.Sanitize Proc.ShellSel Proc.ExecOutcome Proc.ProcModel Proc.ProcProofs Proc.ProcOnce Proc.ProcExamples.
From Coq Require Import ZArith Permutation.
From AL Require Gen.GenSyncSites Proc.SyncSites.

(* ---- placeholder replacement (sanitizeExpressionsInScript) ---- *)

Theorem C20_sanitize_len : forall s, String.length (sanitize s) = String.length s.
Proof. exact sanitize_len. Qed.
Print Assumptions C20_sanitize_len.

(* a byte of the sanitized script is the byte of the original at the same
   offset, or a placeholder underscore *)
Theorem C20_sanitize_outside_id : forall s i,
  String.get i (sanitize s) = String.get i s \/ String.get i (sanitize s) = Some us.
Proof. exact sanitize_outside_id. Qed.
Print Assumptions C20_sanitize_outside_id.

(* no line break is added or moved; one disappears only inside a placeholder *)
Theorem C20_sanitize_lines : forall s i,
  (String.get i (sanitize s) = Some nl -> String.get i s = Some nl) /\
  (String.get i s = Some nl ->
   String.get i (sanitize s) = Some nl \/ String.get i (sanitize s) = Some us).
Proof. exact sanitize_lines. Qed.
Print Assumptions C20_sanitize_lines.

Theorem C20_sanitize_no_placeholder : forall s, ~ has_placeholder (sanitize s).
Proof. exact sanitize_no_placeholder. Qed.
Print Assumptions C20_sanitize_no_placeholder.

(* ---- which scripts go to which tool ---- *)

(* the visitors (state set in Pre, reset in Post callbacks) request exactly
   the invocations of the declarative specification: per run step one
   shellcheck invocation iff the effective shell (step > job default >
   workflow default > runner default) is bash/sh, one pyflakes invocation iff
   the first given of step / job default / workflow default is python *)
Theorem C20_exactly_once_per_run_step : forall w, invocations w = invocations_spec w.
Proof. exact invocations_exact. Qed.
Print Assumptions C20_exactly_once_per_run_step.

Theorem C20_shell_selection_spec : forall w j s,
  get_shell_name (sc_in_job w j) (ms_shell s) = step_shell_spec w j s.
Proof. exact get_shell_name_spec. Qed.
Print Assumptions C20_shell_selection_spec.

Theorem C20_sc_shell_spec : forall shell sh,
  sc_sh shell = Some sh <->
  (sh = "bash" /\ (shell = "bash" \/ pfx "bash " shell = true)) \/
  (sh = "sh" /\ (shell = "sh" \/ pfx "sh " shell = true)).
Proof. exact sc_sh_spec. Qed.
Print Assumptions C20_sc_shell_spec.

(* ---- classification of a tool run and of its output ---- *)

Theorem C20_exec_outcome_spec : forall r,
  (is_xerr (exec_outcome r) = true <->
     r = OSPipeErr \/ r = OSWriteErr \/ r = OSStartErr \/
     (exists code out, r = OSExit code out /\ ((code < 0)%Z \/ ((code > 0)%Z /\ out = "")))) /\
  (forall o, exec_outcome r = XOut o -> exists code, r = OSExit code o /\ (code >= 0)%Z).
Proof. exact exec_outcome_spec. Qed.
Print Assumptions C20_exec_outcome_spec.

Theorem C20_shellcheck_parse_spec : forall f p x js,
  (sc_callback f p x js = CErr <-> is_xerr x = true \/ js = JBad) /\
  (forall l, is_xerr x = false -> js = JList l ->
     exists ds, sc_callback f p x js = CDiags ds /\ length ds = length l /\
       forall k i, nth_error l k = Some i ->
         exists d, nth_error ds k = Some d /\ d_pos d = p /\ d_file d = f /\ d_rule d = SC /\ d = sc_diag f p i).
Proof. exact shellcheck_parse_spec. Qed.
Print Assumptions C20_shellcheck_parse_spec.

Theorem C20_pyflakes_parse_spec : forall ms,
  Forall no_nl ms ->
  py_messages (concat_s (map py_line ms)) = Some (map strip_cr ms) /\
  (forall m, no_nl m -> py_messages (concat_s (map py_line ms) ++ stdin_tag ++ m) = None).
Proof. exact pyflakes_parse_spec. Qed.
Print Assumptions C20_pyflakes_parse_spec.

Theorem C20_failure_patterns_fatal : forall f i js,
  (forall r, r = OSStartErr \/ r = OSPipeErr \/ r = OSWriteErr -> callback f i r js = CErr) /\
  (forall code out, (code < 0)%Z -> callback f i (OSExit code out) js = CErr) /\
  (forall code, (code > 0)%Z -> callback f i (OSExit code "") js = CErr) /\
  (forall code out, i_rule i = SC -> callback f i (OSExit code out) JBad = CErr).
Proof. exact failure_patterns_fatal. Qed.
Print Assumptions C20_failure_patterns_fatal.

(* ---- the protocol: transition system ProcModel, all interleavings ---- *)

(* in every reachable state at most [cap] invocations hold a semaphore slot
   (a tool process runs only while its invocation holds one) *)
Theorem C20_running_bounded : forall cap wfs tr st,
  exec cap wfs tr = Some st -> running st <= cap.
Proof. exact running_bounded. Qed.
Print Assumptions C20_running_bounded.

(* when Lint* has returned every invocation ever started is done *)
Theorem C20_all_collected : forall cap wfs tr st fatal,
  exec cap wfs tr = Some st -> s_main st = MReturned fatal ->
  forall x, In x (s_tasks st) -> t_phase x = PDone.
Proof. exact all_collected. Qed.
Print Assumptions C20_all_collected.

(* no wg.Add after the start of wg.Wait ("proc.wait() must be called after eg.Wait()") *)
Theorem C20_wg_add_before_wait : forall cap wfs pre post st,
  exec cap wfs (pre ++ EPwEnter :: post) = Some st -> forall f i, ~ In (ESpawn f i) post.
Proof. exact wg_add_before_wait. Qed.
Print Assumptions C20_wg_add_before_wait.

(* on return: fatal error iff some invocation failed; otherwise the
   diagnostics are exactly the issues of all invocations, each once, each at
   the run: position of its step *)
Theorem C20_no_lost_output : forall cap wfs tr st fatal,
  exec cap wfs tr = Some st -> s_main st = MReturned fatal ->
  (fatal = true <-> exists x, In x (s_tasks st) /\ t_cb x = CErr) /\
  (fatal = false -> Permutation (returned_diags st) (flat_map (fun x => cb_diags (t_cb x)) (s_tasks st))) /\
  (forall x d, In x (s_tasks st) -> In d (cb_diags (t_cb x)) ->
     d_pos d = i_pos (t_inv x) /\ d_file d = t_file x /\ d_rule d = i_rule (t_inv x)).
Proof. exact no_lost_output. Qed.
Print Assumptions C20_no_lost_output.

(* on return, for every file, the invocations that were spawned are (as a
   multiset) exactly those the specification demands for its run steps:
   every applicable script was passed exactly once, nothing else was *)
Theorem C20_exactly_once_on_return : forall cap wfs tr st fatal,
  exec cap wfs tr = Some st -> s_main st = MReturned fatal ->
  forall f w, nth_error wfs f = Some w -> Permutation (spawned_for f st) (invocations_spec w).
Proof. exact exactly_once_on_return. Qed.
Print Assumptions C20_exactly_once_on_return.

(* LintFiles as found (return before proc.wait() on the fatal-error path)
   violates all_collected; kept as documentation of the repaired defect *)
Theorem C20_all_collected_old_refuted :
  exists cap wfs tr st x,
    exec_old cap wfs tr = Some st /\ s_main st = MReturned true /\
    In x (s_tasks st) /\ t_phase x <> PDone.
Proof. exact all_collected_old_refuted. Qed.
Print Assumptions C20_all_collected_old_refuted.

(* the synchronisation operations of the source (re-listed on every run, Gen/GenSyncSites.v) are
   exactly the ones the transition system was written from, in the same order, and in every
   function each acquisition (Lock, RLock, Acquire, Add) has its release *)
Theorem C20_sync_operations_as_modelled : GenSyncSites.sync_sites = SyncSites.expected.
Proof. exact SyncSites.sync_sites_as_modelled. Qed.
Print Assumptions C20_sync_operations_as_modelled.

Theorem C20_sync_operations_balanced : SyncSites.balanced GenSyncSites.sync_sites = true.
Proof. exact SyncSites.sync_sites_balanced. Qed.
Print Assumptions C20_sync_operations_balanced.

(* the text of an external tool (a pyflakes line, shellcheck's message and level) is put into a
   message through oneLine (error.go; byte-level model [one_line_s], K on pyflakes output): no LF
   and no CR is left in it *)
From AL Require Proc.OneLineS.
Theorem C20_tool_text_has_no_line_feed : forall s, OneLineS.no_lfcr (ExecOutcome.one_line_s s) = true.
Proof. exact OneLineS.one_line_s_no_lfcr. Qed.
Print Assumptions C20_tool_text_has_no_line_feed.
