(* Props/C15.v — ignore patterns are an exact filter; results do not depend
   on the cwd.  Only statements; every proof is [exact <lemma>]. *)
From AL Require Import Base.Str Out.Paths Out.PathsProofs Out.Filter Out.FilterProofs Multi.Project Out.MultiRoot.
From Coq Require Import Permutation.

(* The output of filterErrors is exactly the unfiltered list minus the
   diagnostics whose message matches a pattern, in unchanged order ([filter]
   keeps a sub-list in order); for every regexp / glob library behaviour. *)
Theorem C15_filter_exact : forall (pat msg : Type) (matches : pat -> msg -> bool) cli cfgs es,
  filter_errors pat msg matches cli cfgs es
  = filter (fun e => negb (ignored pat msg matches cli cfgs e)) es.
Proof. exact filter_exact. Qed.
Print Assumptions C15_filter_exact.

(* "applicable pattern": a -ignore pattern, or a pattern of a `paths` entry
   whose glob matches the path handed to PathConfigs *)
Theorem C15_ignored_spec : forall (pat msg glob : Type) (matches : pat -> msg -> bool)
    (glob_match : glob -> string -> bool) cli paths p e,
  ignored pat msg matches cli (path_configs pat glob glob_match paths p) e = true <->
  (exists r, In r cli /\ matches r (d_msg e) = true) \/
  (exists c r, applicable pat glob glob_match paths p c /\ In r c /\ matches r (d_msg e) = true).
Proof. exact ignored_spec. Qed.
Print Assumptions C15_ignored_spec.

(* CLI and config patterns compose as a union; map iteration order of
   Config.Paths and the order of the flags are irrelevant *)
Theorem C15_filter_order_independent : forall (pat msg : Type) (matches : pat -> msg -> bool)
    cli cli' cfgs cfgs' es,
  Permutation cli cli' -> Permutation cfgs cfgs' ->
  filter_errors pat msg matches cli cfgs es = filter_errors pat msg matches cli' cfgs' es.
Proof. exact filter_order_independent. Qed.
Print Assumptions C15_filter_order_independent.

(* filtering commutes with the stable position sort that follows it in check() *)
Theorem C15_filter_sort_commute : forall (pat msg : Type) (matches : pat -> msg -> bool) cli cfgs es,
  sort_d msg (filter_errors pat msg matches cli cfgs es)
  = filter_errors pat msg matches cli cfgs (sort_d msg es).
Proof. exact filter_sort_commute. Qed.
Print Assumptions C15_filter_sort_commute.

(* what check() returns for a file = the sorted unfiltered list minus the ignored ones *)
Theorem C15_check_tail_exact : forall (pat msg glob : Type) (matches : pat -> msg -> bool)
    (glob_match : glob -> string -> bool) cli paths p es,
  check_tail pat msg glob matches glob_match cli paths p es =
  filter (fun e => negb (ignored pat msg matches cli (path_configs pat glob glob_match paths p) e))
         (sort_d msg es).
Proof. exact check_tail_exact. Qed.
Print Assumptions C15_check_tail_exact.

(* the string matched against the `paths` globs is the path relative to the
   repository root, whatever the working directory and the spelling *)
Theorem C15_path_applicability : forall cwd root arg suffix,
  clean_abs cwd -> clean_abs root ->
  abs_path cwd arg = mkPath true (p_comps root ++ suffix) ->
  cfg_path cwd root arg = mkPath false suffix.
Proof. exact path_applicability. Qed.
Print Assumptions C15_path_applicability.

Theorem C15_cfg_path_cwd_independent : forall cwd1 cwd2 root arg1 arg2 suffix,
  clean_abs cwd1 -> clean_abs cwd2 -> clean_abs root ->
  abs_path cwd1 arg1 = mkPath true (p_comps root ++ suffix) ->
  abs_path cwd2 arg2 = mkPath true (p_comps root ++ suffix) ->
  cfg_path cwd1 root arg1 = cfg_path cwd2 root arg2.
Proof. exact cfg_path_cwd_independent. Qed.
Print Assumptions C15_cfg_path_cwd_independent.

(* documentation of the defect of the pinned tree: the path was cwd-relative *)
Theorem C15_path_applicability_old_refuted : exists cwd root arg suffix,
  clean_abs cwd /\ clean_abs root /\
  abs_path cwd arg = mkPath true (p_comps root ++ suffix) /\
  cfg_path_old cwd root arg <> mkPath false suffix.
Proof. exact path_applicability_old_refuted. Qed.
Print Assumptions C15_path_applicability_old_refuted.

(* ---- several repositories in one run (side by side or nested): the
   configuration consulted for a file is that of the NEAREST enclosing
   repository root, whatever was resolved before it ... *)
Theorem C15_multi_repo_nearest : forall (pat glob : Type) (rs : list (repo pat glob)) history cwd arg,
  match project_of pat glob rs (known_after (roots pat glob rs) history) cwd arg with
  | Some r => nearest_root (roots pat glob rs) (p_comps (abs_path cwd arg)) r
  | None => forall r, is_root (roots pat glob rs) r = true -> is_prefix r (p_comps (abs_path cwd arg)) = false
  end.
Proof. exact project_of_nearest. Qed.
Print Assumptions C15_multi_repo_nearest.

(* ... every file of a multi-file run gets exactly the result it gets alone
   (any order of the arguments, any cache contents) ... *)
Theorem C15_multi_repo_each_alone : forall (pat msg glob : Type) (matches : pat -> msg -> bool)
    (glob_match : glob -> string -> bool) rs known cli cwd files i arg es,
  nth_error files i = Some (arg, es) ->
  nth_error (check_files pat msg glob matches glob_match rs known cli cwd files) i
  = Some (check_file pat msg glob matches glob_match rs [] cli cwd arg es).
Proof. exact check_files_each_alone. Qed.
Print Assumptions C15_multi_repo_each_alone.

(* ... and its result is the unfiltered list minus what a -ignore pattern or a
   pattern of an entry of THAT repository's configuration matches, the entry's
   glob being matched against the path below THAT root *)
Theorem C15_multi_repo_filter_exact : forall (pat msg glob : Type) (matches : pat -> msg -> bool)
    (glob_match : glob -> string -> bool) rs known cli cwd arg es r paths suffix,
  clean_abs cwd -> names r ->
  project_of pat glob rs known cwd arg = Some r ->
  repo_lookup pat glob rs r = Some (Some paths) ->
  abs_path cwd arg = mkPath true (r ++ suffix) ->
  check_file pat msg glob matches glob_match rs known cli cwd arg es =
  filter (fun e => negb (ignored pat msg matches cli
                           (path_configs pat glob glob_match paths (show_path (mkPath false suffix))) e))
         (sort_d msg es).
Proof. exact multi_filter_exact. Qed.
Print Assumptions C15_multi_repo_filter_exact.

Theorem C15_multi_repo_example :
  let rs : list (repo nat nat) :=
    [(["w"; "repo"], Some [(1, [7])]); (["w"; "repo"; "nested"; "inner"], Some [(1, [8])])] in
  let gm := fun (g : nat) (p : string) => String.eqb p ".github/workflows/e.yml" in
  let es := [mkDiag 3%N 1%N 7; mkDiag 4%N 1%N 8] in
  let cwd := mkPath true ["w"] in
  check_file nat nat nat Nat.eqb gm rs [["w"; "repo"]] [] cwd
             (mkPath false ["repo"; "nested"; "inner"; ".github"; "workflows"; "e.yml"]) es
  = [mkDiag 3%N 1%N 7] /\
  check_file nat nat nat Nat.eqb gm rs [] [] cwd
             (mkPath false ["repo"; ".github"; "workflows"; "e.yml"]) es
  = [mkDiag 4%N 1%N 8].
Proof. exact multi_root_example. Qed.
Print Assumptions C15_multi_repo_example.

Theorem C15_exit_status_spec : forall fo ver lo,
  let s := main_status fo ver lo in
  (s = 2%N <-> fo = FlagError) /\
  (s = 3%N <-> fo = FlagOk /\ ver = false /\ lo = LintFatal) /\
  (s = 1%N <-> fo = FlagOk /\ ver = false /\ exists n, lo = LintDone (S n)) /\
  (s = 0%N <-> fo = FlagHelp \/ (fo = FlagOk /\ (ver = true \/ lo = LintDone 0))).
Proof. exact exit_status_spec. Qed.
Print Assumptions C15_exit_status_spec.

Theorem C15_exit_status_run : forall n,
  (main_status FlagOk false (LintDone n) = 1%N <-> n >= 1) /\
  (main_status FlagOk false (LintDone n) = 0%N <-> n = 0).
Proof. exact exit_status_run. Qed.
Print Assumptions C15_exit_status_run.
