(* Props/C14.v — calls are checked exactly against the callee's declared interface.
   Only statements; every proof is [exact <lemma>].  Interfaces are association
   lists with lower-cased keys (Go maps), call sites are lists of names in any
   letter case; [wf_names l] = no name twice modulo case. *)
From AL Require Import Base.AList Wf.Calls Wf.CallsProofs Wf.CallsObs Wf.CallsPopular Gen.GenPopular.
From AL Require Wf.RequiredExpr.

(* ---- unknown inputs / secrets *)

(* step: an input given at `with:` is reported iff the action does not declare it;
   the two keys parse.go diverts (`args`, `entrypoint`) are never reported — see
   C14_unknown_reserved_refuted *)
Theorem C14_unknown_input_iff : forall m names n,
  wf_names names ->
  (In (UnknownInput, n) (check_action m (parse_with names)) <->
   In n names /\ lookup (lower n) (am_inputs m) = None /\ ~ reserved_id (lower n)).
Proof. exact unknown_input_iff. Qed.
Print Assumptions C14_unknown_input_iff.

Theorem C14_unknown_reserved_refuted :
  exists m names n, In n names /\ lookup (lower n) (am_inputs m) = None /\
                    ~ In (UnknownInput, n) (check_action m (parse_with names)).
Proof. exact unknown_reserved_refuted. Qed.
Print Assumptions C14_unknown_reserved_refuted.

(* workflow call *)
Theorem C14_wf_unknown_input_iff : forall m with_ sec n,
  wf_names (map fst with_) ->
  (In (UnknownInput, n) (check_workflow_call m (parse_wcall with_ sec)) <->
   In n (map fst with_) /\ lookup (lower n) (wm_inputs m) = None).
Proof. exact wf_unknown_input_iff. Qed.
Print Assumptions C14_wf_unknown_input_iff.

Theorem C14_unknown_secret_iff : forall m with_ sec n,
  (forall ss, sec = SecMap ss -> wf_names ss) ->
  (In (UnknownSecret, n) (check_workflow_call m (parse_wcall with_ sec)) <->
   exists ss, sec = SecMap ss /\ In n ss /\ lookup (lower n) (wm_secrets m) = None).
Proof. exact wf_unknown_secret_iff. Qed.
Print Assumptions C14_unknown_secret_iff.

(* ---- missing required inputs / secrets *)

(* against the interface as the implementation holds it *)
Theorem C14_missing_input_iff : forall m names nm,
  In (MissingInput, nm) (check_action m (parse_with names)) <->
  exists id i, In (id, i) (am_inputs m) /\ ai_name i = nm /\ ai_required i = true /\ ~ In id (map lower names).
Proof. exact missing_input_iff. Qed.
Print Assumptions C14_missing_input_iff.

(* the code before repo_patches/calls/01-fix: `with: args:` did not supply a required input "args" *)
Theorem C14_missing_input_old_refuted :
  exists m names, In "args" (map lower names) /\ In (MissingInput, "args") (check_action_old m (parse_with names)).
Proof. exact missing_input_old_refuted. Qed.
Print Assumptions C14_missing_input_old_refuted.

(* local action, in terms of its action.yml: required: true, no (non-null) default, not supplied *)
Theorem C14_missing_required_action_iff : forall ins outs m names nm,
  local_meta ins outs = Some m ->
  (In (MissingInput, nm) (check_action m (parse_with names)) <->
   exists d, In (nm, d) ins /\ ad_required d = Some true /\ no_default (ad_default d) = true /\
             ~ In (lower nm) (map lower names)).
Proof. exact missing_required_action_iff. Qed.
Print Assumptions C14_missing_required_action_iff.

(* reusable workflow, in terms of its on.workflow_call.inputs, for both ways the interface is obtained *)
Theorem C14_missing_required_wf_iff : forall ast ins secs outs with_ sec nm,
  NoDup (map (fun kd => lower (fst kd)) ins) ->
  (In (MissingInput, nm) (check_workflow_call (wf_meta ast ins secs outs) (parse_wcall with_ sec)) <->
   exists d, In (nm, d) ins /\ wd_required d = Some true /\ no_default (wd_default d) = true /\
             ~ In (lower nm) (map lower (map fst with_))).
Proof. exact missing_required_wf_iff. Qed.
Print Assumptions C14_missing_required_wf_iff.

Theorem C14_missing_secret_iff : forall m with_ sec nm,
  In (MissingSecret, nm) (check_workflow_call m (parse_wcall with_ sec)) <->
  sec <> SecInherit /\
  exists id s, In (id, s) (wm_secrets m) /\ ws_name s = nm /\ ws_required s = true /\
               ~ In id (map lower (secret_names sec)).
Proof. exact wf_missing_secret_iff. Qed.
Print Assumptions C14_missing_secret_iff.

Theorem C14_inherit_silent : forall m with_ c n,
  In (c, n) (check_workflow_call m (parse_wcall with_ SecInherit)) -> c = MissingInput \/ c = UnknownInput.
Proof. exact wf_inherit_silent. Qed.
Print Assumptions C14_inherit_silent.

(* ---- the three derivations of `required` *)

Theorem C14_derive_required_action : forall ds,
  (forall m, derive_action_inputs ds = Some m -> m = map ainput_of ds /\ NoDup (map (fun kd => lower (fst kd)) ds)) /\
  (NoDup (map (fun kd => lower (fst kd)) ds) -> derive_action_inputs ds = Some (map ainput_of ds)).
Proof. exact derive_required_action. Qed.
Print Assumptions C14_derive_required_action.

Theorem C14_derive_required_wf_file : forall ds,
  NoDup (map (fun kd => lower (fst kd)) ds) -> derive_wf_inputs_file ds = map winput_of ds.
Proof. exact derive_required_wf_file. Qed.
Print Assumptions C14_derive_required_wf_file.

Theorem C14_derive_required_wf_ast : forall ds,
  NoDup (map (fun kd => lower (fst kd)) ds) -> derive_wf_inputs_ast (parse_wc_inputs ds) = map winput_of ds.
Proof. exact derive_required_wf_ast. Qed.
Print Assumptions C14_derive_required_wf_ast.

(* the interface of a reusable workflow is the same whether decoded from its file or taken from its AST *)
Theorem C14_interface_agree : forall ins secs outs,
  NoDup (map (fun kd => lower (fst kd)) ins) -> NoDup (map (fun kd => lower (fst kd)) secs) -> wf_names outs ->
  wf_meta true ins secs outs = wf_meta false ins secs outs.
Proof. exact interface_agree. Qed.
Print Assumptions C14_interface_agree.

Theorem C14_interface_agree_old_refuted :
  exists ds, NoDup (map (fun kd : string * wdecl => lower (fst kd)) ds) /\
             derive_wf_inputs_file ds <> derive_wf_inputs_ast (parse_wc_inputs_old ds).
Proof. exact interface_agree_old_refuted. Qed.
Print Assumptions C14_interface_agree_old_refuted.

(* `required:` as written (absent, boolean, one placeholder, anything else): a callee whose values
   the workflow parser accepts can be read from its file, is read as its syntax tree reads it,
   and so both derivations give one interface; a value the decoder rejects is one the parser
   reports.  Before fix 776e2a6 a placeholder made the file unreadable. *)
Theorem C14_required_as_written_readable : forall ds,
  RequiredExpr.all_accepted ds = true -> RequiredExpr.decode_inputs ds = Some (RequiredExpr.ast_inputs ds).
Proof. exact RequiredExpr.decode_accepts. Qed.
Print Assumptions C14_required_as_written_readable.

Theorem C14_required_unreadable_is_reported : forall ds,
  RequiredExpr.decode_inputs ds = None -> RequiredExpr.all_accepted ds = false.
Proof. exact RequiredExpr.decode_rejects. Qed.
Print Assumptions C14_required_unreadable_is_reported.

Theorem C14_interface_agree_as_written : forall ins secs outs ins' secs',
  RequiredExpr.all_accepted ins = true -> RequiredExpr.all_accepted_s secs = true ->
  NoDup (map (fun kd => lower (fst kd)) ins) -> NoDup (map (fun kr => lower (fst kr)) secs) -> wf_names outs ->
  RequiredExpr.decode_inputs ins = Some ins' -> RequiredExpr.decode_secrets secs = Some secs' ->
  wf_meta false ins' secs' outs = wf_meta true (RequiredExpr.ast_inputs ins) (RequiredExpr.ast_secrets secs) outs.
Proof. exact RequiredExpr.interface_agree_written. Qed.
Print Assumptions C14_interface_agree_as_written.

Theorem C14_required_placeholder_old_refuted :
  exists ds, RequiredExpr.all_accepted ds = true /\ RequiredExpr.decode_inputs_old ds = None /\
             RequiredExpr.decode_inputs ds = Some (RequiredExpr.ast_inputs ds).
Proof. exact RequiredExpr.decode_old_refuted. Qed.
Print Assumptions C14_required_placeholder_old_refuted.

(* ---- outputs *)

Theorem C14_outputs_type_spec : forall table uses local,
  action_outputs_type table (Some uses) local =
  match step_callee table uses local with
  | None => if negb (String.prefix "./" uses) && String.prefix "actions/github-script@" uses then OLoose else OMap
  | Some m =>
      if negb (String.prefix "./" uses) && String.prefix "actions/github-script@" uses then OLoose
      else if am_skip_outputs m then OLoose
      else OStrict (map (fun kv => lower (fst kv)) (am_outputs m))
  end.
Proof. exact outputs_type_spec. Qed.
Print Assumptions C14_outputs_type_spec.

Theorem C14_undefined_output_iff : forall table uses local prop,
  deref_reported (action_outputs_type table (Some uses) local) prop = true <->
  exists m, step_callee table uses local = Some m /\ am_skip_outputs m = false /\
            (String.prefix "./" uses = true \/ String.prefix "actions/github-script@" uses = false) /\
            ~ In (lower prop) (map (fun kv => lower (fst kv)) (am_outputs m)).
Proof. exact undefined_output_iff. Qed.
Print Assumptions C14_undefined_output_iff.

Theorem C14_undefined_output_local_iff : forall ins outs m prop,
  local_meta ins outs = Some m ->
  (deref_reported (action_outputs_type [] (Some "./act") (Some m)) prop = true <->
   ~ In (lower prop) (map lower outs)).
Proof. exact undefined_output_local_iff. Qed.
Print Assumptions C14_undefined_output_local_iff.

Theorem C14_undefined_wf_output_iff : forall ast ins secs outs prop,
  wf_names outs ->
  (deref_reported (workflow_outputs_type (Some (wf_meta ast ins secs outs))) prop = true <->
   ~ In (lower prop) (map lower outs)).
Proof. exact undefined_wf_output_decl_iff. Qed.
Print Assumptions C14_undefined_wf_output_iff.

(* ---- typed inputs of reusable workflows *)

Theorem C14_typed_input_iff : forall m with_ sec nm,
  wf_names (map fst with_) ->
  (In (TypeMismatch, nm) (check_workflow_call_types (Some m) (parse_wcall with_ sec)) <->
   exists n v mi, In (n, v) with_ /\ lookup (lower n) (wm_inputs m) = Some mi /\ wi_name mi = nm /\
                  calls_assignable (wi_type mi) (value_type v) = false).
Proof. exact typed_input_iff. Qed.
Print Assumptions C14_typed_input_iff.

Theorem C14_assignable_table :
  map (fun d => map (calls_assignable d) [CAny; CNull; CBool; CNumber; CString; COther]) [DAny; DBool; DNumber; DString]
  = [[true; true; true; true; true; true];
     [true; true; true; true; true; true];
     [true; false; false; true; false; false];
     [true; false; false; true; true; false]].
Proof. exact calls_assignable_table. Qed.
Print Assumptions C14_assignable_table.

(* ---- letter case never changes a verdict (feeds C08) *)

Theorem C14_calls_recase_call : forall m names names' c n,
  wf_names names -> map lower names = map lower names' ->
  In (c, n) (check_action m (parse_with names)) ->
  exists n', lower n' = lower n /\ In (c, n') (check_action m (parse_with names')).
Proof. exact calls_recase_call. Qed.
Print Assumptions C14_calls_recase_call.

Theorem C14_calls_recase_def : forall m m' e c n,
  same_modulo_case m m' ->
  In (c, n) (check_action m e) ->
  exists n', lower n' = lower n /\ In (c, n') (check_action m' e).
Proof. exact calls_recase_def. Qed.
Print Assumptions C14_calls_recase_def.

Theorem C14_recased_decls_same : forall ins ins' outs outs' m m',
  map (fun kd => (lower (fst kd), snd kd)) ins = map (fun kd => (lower (fst kd), snd kd)) ins' ->
  local_meta ins outs = Some m -> local_meta ins' outs' = Some m' -> same_modulo_case m m'.
Proof. exact recased_decls_same. Qed.
Print Assumptions C14_recased_decls_same.

Theorem C14_calls_recase_wf_call : forall m with_ with_' sec c n,
  wf_names (map fst with_) -> map lower_key with_ = map lower_key with_' ->
  In (c, n) (check_workflow_call m (parse_wcall with_ sec) ++ check_workflow_call_types (Some m) (parse_wcall with_ sec)) ->
  exists n', lower n' = lower n /\
    In (c, n') (check_workflow_call m (parse_wcall with_' sec) ++ check_workflow_call_types (Some m) (parse_wcall with_' sec)).
Proof. exact calls_recase_wf_call. Qed.
Print Assumptions C14_calls_recase_wf_call.

Theorem C14_calls_recase_wf_secrets : forall m with_ ss ss' c n,
  wf_names ss -> map lower ss = map lower ss' ->
  In (c, n) (check_workflow_call m (parse_wcall with_ (SecMap ss))) ->
  exists n', lower n' = lower n /\ In (c, n') (check_workflow_call m (parse_wcall with_ (SecMap ss'))).
Proof. exact calls_recase_wf_secrets. Qed.
Print Assumptions C14_calls_recase_wf_secrets.

Theorem C14_calls_recase_output : forall t r r', lower r = lower r' -> deref_reported t r = deref_reported t r'.
Proof. exact calls_recase_output. Qed.
Print Assumptions C14_calls_recase_output.

(* ---- instances over the whole bundled data set (Gen/GenPopular.v) *)

Theorem C14_popular_keys_lower :
  all_specs (fun _ m => forallb (fun kv => String.eqb (fst kv) (lower (ai_name (snd kv)))) (am_inputs m)
                        && forallb (fun kv => String.eqb (fst kv) (lower (snd kv))) (am_outputs m)) = true.
Proof. exact popular_keys_lower. Qed.
Print Assumptions C14_popular_keys_lower.

Theorem C14_popular_required_exact :
  all_specs (fun s m =>
    diags_eqb (check_step_inputs popular_table gen_outdated s None (parse_with []))
              (if am_skip_inputs m then [] else map (fun n => (MissingInput, n)) (required_names m))) = true.
Proof. exact popular_required_exact. Qed.
Print Assumptions C14_popular_required_exact.

Theorem C14_popular_all_supplied_quiet :
  all_specs (fun s m =>
    diags_eqb (check_step_inputs popular_table gen_outdated s None (parse_with (names_of m))) []
    && diags_eqb (check_step_inputs popular_table gen_outdated s None (parse_with (map upper (names_of m)))) []) = true.
Proof. exact popular_all_supplied_quiet. Qed.
Print Assumptions C14_popular_all_supplied_quiet.

Theorem C14_popular_extra_reported :
  all_specs (fun s m =>
    diags_eqb (check_step_inputs popular_table gen_outdated s None (parse_with (names_of m ++ ["Zz-Extra"])))
              (if am_skip_inputs m then [] else [(UnknownInput, "Zz-Extra")])) = true.
Proof. exact popular_extra_reported. Qed.
Print Assumptions C14_popular_extra_reported.

Theorem C14_popular_outputs :
  all_specs (fun s m =>
    let t := action_outputs_type popular_table (Some s) None in
    forallb (fun kv => negb (deref_reported t (upper (snd kv)))) (am_outputs m)
    && Bool.eqb (deref_reported t "zz_undeclared")
                (negb (am_skip_outputs m) && negb (String.prefix "actions/github-script@" s))) = true.
Proof. exact popular_outputs. Qed.
Print Assumptions C14_popular_outputs.

Theorem C14_popular_missing_iff : forall s m names nm,
  In (s, m) popular_table -> am_skip_inputs m = false ->
  (In (MissingInput, nm) (check_step_inputs popular_table gen_outdated s None (parse_with names)) <->
   exists id i, In (id, i) (am_inputs m) /\ ai_name i = nm /\ ai_required i = true /\ ~ In id (map lower names)).
Proof. exact popular_missing_iff. Qed.
Print Assumptions C14_popular_missing_iff.
