(* Props/C14.v — placeholder, replaced below *)
From AL Require Import Wf.Calls Wf.CallsObs.
Theorem C14_placeholder : True. Proof. exact I. Qed.
Print Assumptions C14_placeholder.
