(* Props/C08.v — names are matched case-insensitively everywhere.
   Only statements; every proof is [exact <lemma>].

   [same_fold s s']     the two spellings are equal after ASCII lower-casing;
   [recase_rel e e']    same expression tree up to the ASCII case of its name occurrences:
                        variable names, property names of `.name`, function names, string
                        literals used as an index; keywords (true/false/null), numbers and every
                        other string literal are identical (Expr/Recase.v);
   [parser_fold e]      the tree the semantic checker receives (expr_parser.go lower-cases
                        variable and property names; callees and literals are folded by the
                        checker at each use);
   [check E e]          ExprSemanticsChecker.Check (Expr/Sema.v), result type and diagnostics
                        (token position + class; a class carries the types its message names
                        and never a spelling, so "modulo the echoed spelling" is plain equality);
   [jrecase v v']       same JSON value up to the ASCII case of object keys. *)
From AL Require Import Base.Str Base.AList Expr.Types Expr.Sema Expr.Recase Expr.RecaseProofs.
From AL Require Expr.Untrusted Expr.UntrustedSpec Expr.UntrustedProofs.
From AL Require Wf.Avail Wf.AvailProofs.
From AL Require Wf.Scope Wf.ScopeProofs.
From AL Require Wf.YNode Wf.Mapping Wf.Sections Wf.ParseProofs Wf.RecaseMapping.
From AL Require Graph.Dfs Graph.Needs Graph.NeedsProofs.
From Coq Require Import Permutation.

(* ---- check_recase_expr: for every environment and every expression, another spelling of the
   names gives the same result type and the same list of diagnostics ------------------------ *)
Theorem C08_check_recase_expr : forall E e e', recase_rel e e' ->
  check E (parser_fold e) = check E (parser_fold e').
Proof. exact check_recase_expr. Qed.
Print Assumptions C08_check_recase_expr.

(* the same in every mode of the checker (narrowing of the left operand of && / ||), and for
   every Merge / object-filtering variant of the model *)
Theorem C08_check_recase_expr_gen : forall mg fa E nw e e', recase_rel e e' ->
  chk mg fa E nw (parser_fold e) = chk mg fa E nw (parser_fold e').
Proof. exact check_recase_expr_gen. Qed.
Print Assumptions C08_check_recase_expr_gen.

(* as an observable: type and (position, class) list *)
Theorem C08_sema_obs_recase : forall E e e', recase_rel e e' -> sema_obs E e = sema_obs E e'.
Proof. exact sema_obs_recase. Qed.
Print Assumptions C08_sema_obs_recase.

(* the relation is an equivalence containing "upper-case every name"; it fixes keywords and
   ordinary string literals, and those do matter to the checker *)
Theorem C08_recase_rel_refl : forall e, recase_rel e e.
Proof. exact recase_rel_refl. Qed.
Print Assumptions C08_recase_rel_refl.
Theorem C08_recase_rel_sym : forall e e', recase_rel e e' -> recase_rel e' e.
Proof. exact recase_rel_sym. Qed.
Print Assumptions C08_recase_rel_sym.
Theorem C08_recase_rel_upper : forall e, recase_rel e (upper_names e).
Proof. exact recase_rel_upper. Qed.
Print Assumptions C08_recase_rel_upper.
Theorem C08_same_fold_chars : forall s s', same_fold s s' <->
  Forall2 (fun c c' => lower_ascii c = lower_ascii c') (list_ascii_of_string s) (list_ascii_of_string s').
Proof. exact same_fold_chars. Qed.
Print Assumptions C08_same_fold_chars.
Theorem C08_keywords_and_literals_fixed : forall e',
  (forall p, recase_rel (ENull p) e' -> e' = ENull p) /\
  (forall p b, recase_rel (EBool p b) e' -> e' = EBool p b) /\
  (forall p s, recase_rel (EStr p s) e' -> e' = EStr p s).
Proof. exact recase_rel_keywords. Qed.
Print Assumptions C08_keywords_and_literals_fixed.
Theorem C08_literal_content_matters :
  snd (check env0 (ECall P0 "format" [EStr P0 "{0}"; EInt P0 1])) = [] /\
  snd (check env0 (ECall P0 "format" [EStr P0 "{1}"; EInt P0 1])) <> [].
Proof. exact literal_content_matters. Qed.
Print Assumptions C08_literal_content_matters.

(* defect #8 (repaired by repo_patches/case/01): with the index literal looked up as written,
   github['event_name'] is accepted and github['EVENT_NAME'] reported *)
Theorem C08_index_literal_old_refuted : exists E o p s s',
  recase_rel (EIndex o (EStr p s)) (EIndex o (EStr p s')) /\
  snd (chk_index_old E o (EStr p s)) = [] /\
  snd (chk_index_old E o (EStr p s')) <> [] /\
  snd (check E (EIndex o (EStr p s))) = [] /\ snd (check E (EIndex o (EStr p s'))) = [].
Proof. exact index_literal_old_refuted. Qed.
Print Assumptions C08_index_literal_old_refuted.

(* ---- json_keys_recase: typeOfJSONValue does not depend on the case of object keys (as long as
   no two keys of one object differ in case only — such keys are merged, in sorted key order) -- *)
Theorem C08_json_keys_recase : forall v v', jrecase v v' -> jkeys_fold_distinct v ->
  type_of_json v = type_of_json v'.
Proof. exact json_keys_recase. Qed.
Print Assumptions C08_json_keys_recase.

(* defect #9 (repaired by repo_patches/case/02): with the keys kept as written the types differ,
   and `.foo` on fromJSON('{"Foo": 1}') is an undefined property *)
Theorem C08_json_keys_old_refuted : exists v v',
  jrecase v v' /\ jkeys_fold_distinct v /\ type_of_json_old v <> type_of_json_old v' /\
  let e := EDeref (ECall P0 "fromJSON" [EStr P0 "{""Foo"": 1}"]) "foo" in
  snd (chk merge true env0 None e) = [] /\
  deref_node env0 (ECall P0 "fromJSON" [EStr P0 "{""Foo"": 1}"]) "foo" (type_of_json_old (JObj [("Foo", JNum)])) =
    (TAny, [mkdiag P0 (DPropUndef (TObj [("Foo", TNum)] None))]).
Proof. exact json_keys_old_refuted. Qed.
Print Assumptions C08_json_keys_old_refuted.

(* ---- env_recase: every definition site stores the lower-cased name, every lookup site folds
   the name it looks up.  Re-exports of what the models of the other properties prove. --------- *)

(* the untrusted-input checker hooked into check (C11), in the vocabulary of this file ... *)
Theorem C08_untrusted_recase : forall roots funcs e e', recase_rel e e' ->
  Untrusted.reported true roots (Untrusted.events funcs (parser_fold e)) =
  Untrusted.reported true roots (Untrusted.events funcs (parser_fold e')).
Proof. exact untrusted_recase_rel. Qed.
Print Assumptions C08_untrusted_recase.
(* ... and as C11 states it (its relation also lets ordinary string literals change their case) *)
Theorem C08_C11_untrusted_recase : forall roots funcs e e', UntrustedSpec.recase e e' ->
  Untrusted.reported true roots (Untrusted.events funcs (UntrustedSpec.pnorm e)) =
  Untrusted.reported true roots (Untrusted.events funcs (UntrustedSpec.pnorm e')).
Proof. exact UntrustedProofs.untrusted_recase. Qed.
Print Assumptions C08_C11_untrusted_recase.

(* context / special-function availability (C12): the verdicts depend on the folded tree only *)
Theorem C08_C12_avail_recase : forall vars funcs specials ctxs sps sigok e e',
  Avail.fold_case e = Avail.fold_case e' ->
  map Avail.verdict (Avail.check vars funcs specials ctxs sps sigok e) =
  map Avail.verdict (Avail.check vars funcs specials ctxs sps sigok e').
Proof. exact AvailProofs.avail_recase. Qed.
Print Assumptions C08_C12_avail_recase.

(* scope construction (C05): step ids and `needs:` entries enter the `steps` / `needs` context
   types lower-cased — a (lower-case, parser-folded) name resolves iff it is the lower-casing of
   a defining spelling *)
Theorem C08_C05_steps_scope_folds_ids : forall steps k id,
  Scope.resolve (Scope.steps_scope steps k) [id] = Scope.VUndefined <->
  ~ In id (map lower (ScopeProofs.ids_of (firstn k steps))) /\
  existsb contains_expr (ScopeProofs.ids_of (firstn k steps)) = false.
Proof. exact ScopeProofs.steps_scope_spec. Qed.
Print Assumptions C08_C05_steps_scope_folds_ids.
Theorem C08_C05_needs_scope_folds_ids : forall jobs job n,
  Scope.resolve (Scope.needs_scope jobs job) [n] = Scope.VUndefined <->
  ~ (In n (map lower (Scope.j_needs job)) /\ n <> lower (Scope.j_rawid job) /\ Scope.find_job jobs n <> None).
Proof. exact ScopeProofs.needs_scope_spec. Qed.
Print Assumptions C08_C05_needs_scope_folds_ids.

(* YAML mappings (C13): in a case-insensitive section ([sc_cs s = false]: key_id = lower-cased
   key) a key that repeats an earlier one in another case is reported as a duplicate *)
Theorem C08_C13_dup_key_folded :
  forall St (s : Mapping.section St) init post n i j k v k' v',
  YNode.is_map n = true ->
  nth_error (YNode.pairs (YNode.ych n)) j = Some (k', v') ->
  nth_error (YNode.pairs (YNode.ych n)) i = Some (k, v) ->
  j < i ->
  Mapping.key_id (Mapping.sc_cs s) k' = Mapping.key_id (Mapping.sc_cs s) k ->
  exists p, In (Mapping.D (Mapping.DDuplicate (Mapping.key_name k) p) (YNode.ypos k)) (Mapping.run_section s init post n).
Proof. exact (@ParseProofs.dup_key_reported_gen). Qed.
Print Assumptions C08_C13_dup_key_folded.
(* parse_mapping_recase (L1): in a case-insensitive mapping, two spellings of the keys give the
   same entry ids (what every later lookup uses), the same diagnostics up to the key name echoed
   by the duplicate-key message, and the same entries up to the name kept for messages *)
Theorem C08_parse_mapping_recase : forall ps ps', RecaseMapping.pairs_recase ps ps' -> forall seen,
  map RecaseMapping.fold_diag (fst (Mapping.pm_loop false ps seen)) =
    map RecaseMapping.fold_diag (fst (Mapping.pm_loop false ps' seen)) /\
  map RecaseMapping.fold_kv (snd (Mapping.pm_loop false ps seen)) =
    map RecaseMapping.fold_kv (snd (Mapping.pm_loop false ps' seen)) /\
  map Mapping.kv_id (snd (Mapping.pm_loop false ps seen)) = map Mapping.kv_id (snd (Mapping.pm_loop false ps' seen)).
Proof. exact RecaseMapping.pm_loop_recase. Qed.
Print Assumptions C08_parse_mapping_recase.
Theorem C08_scalar_key_recase : forall tag v v' l c, lower v = lower v' ->
  RecaseMapping.key_recase (YNode.Y YNode.KScalar tag v l c []) (YNode.Y YNode.KScalar tag v' l c []).
Proof. exact RecaseMapping.scalar_key_recase. Qed.
Print Assumptions C08_scalar_key_recase.
Theorem C08_C13_key_id_folds : forall k, Mapping.key_id false k = lower (Mapping.key_name k).
Proof. exact (fun k => eq_refl). Qed.
Print Assumptions C08_C13_key_id_folds.

(* `needs:` graph (C18): a reference is unresolved iff its lower-casing is the lower-cased id of
   no job *)
Theorem C08_C18_unresolved_folded : forall jobs ord ds,
  NeedsProofs.wf_jobs jobs -> Permutation ord (keys (Needs.table jobs)) -> Needs.run jobs ord = Dfs.Done ds ->
  forall p id dep, In (Needs.DMissing p id dep) ds <->
    exists j, In j jobs /\ p = Needs.j_pos j /\ id = lower (Needs.j_id j) /\ dep <> EmptyString /\
      (exists q v, In (q, v) (Needs.j_needs j) /\ lower v = dep) /\
      ~ (exists j', In j' jobs /\ lower (Needs.j_id j') = dep).
Proof. exact NeedsProofs.unresolved_exact_jobs. Qed.
Print Assumptions C08_C18_unresolved_folded.

(* calls (C14): the letter case of input / secret / output names at the call
   site or in the callee's declaration never changes a verdict, only the
   spelling echoed in the message.  ([Require] without [Import]: names clash
   with Expr.Sema.) *)
From AL Require Wf.Calls Wf.CallsProofs.

Theorem C08_C14_calls_recase_call : forall m names names' c n,
  CallsProofs.wf_names names -> map lower names = map lower names' ->
  In (c, n) (Calls.check_action m (Calls.parse_with names)) ->
  exists n', lower n' = lower n /\ In (c, n') (Calls.check_action m (Calls.parse_with names')).
Proof. exact CallsProofs.calls_recase_call. Qed.
Print Assumptions C08_C14_calls_recase_call.

Theorem C08_C14_calls_recase_def : forall m m' e c n,
  CallsProofs.same_modulo_case m m' ->
  In (c, n) (Calls.check_action m e) ->
  exists n', lower n' = lower n /\ In (c, n') (Calls.check_action m' e).
Proof. exact CallsProofs.calls_recase_def. Qed.
Print Assumptions C08_C14_calls_recase_def.

Theorem C08_C14_calls_recase_wf_secrets : forall m with_ ss ss' c n,
  CallsProofs.wf_names ss -> map lower ss = map lower ss' ->
  In (c, n) (Calls.check_workflow_call m (Calls.parse_wcall with_ (Calls.SecMap ss))) ->
  exists n', lower n' = lower n /\ In (c, n') (Calls.check_workflow_call m (Calls.parse_wcall with_ (Calls.SecMap ss'))).
Proof. exact CallsProofs.calls_recase_wf_secrets. Qed.
Print Assumptions C08_C14_calls_recase_wf_secrets.

Theorem C08_C14_calls_recase_output : forall t r r', lower r = lower r' ->
  Calls.deref_reported t r = Calls.deref_reported t r'.
Proof. exact CallsProofs.calls_recase_output. Qed.
Print Assumptions C08_C14_calls_recase_output.
