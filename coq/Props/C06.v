(* Props/C06.v — unknown (`any`) types never cause a diagnostic.
   Only statements; every proof is [exact <lemma>].
   [looser t t'] (Expr/Types.v): t' is t with type occurrences replaced by any
   and closed objects opened; [env_looser] lifts it to environments (variables,
   function results; availability, configuration and the JSON oracle equal). *)
From AL Require Import Expr.MatrixTy Expr.MatrixTyProofs Expr.Types Expr.TypesProofs Expr.Sema Expr.SemaProofs Expr.SemaObs Expr.SemaGenFacts Gen.GenFuncs.

(* looser is a preorder with any on top *)
Theorem C06_looser_any : forall t, looser t TAny.
Proof. exact looser_any_r. Qed.
Print Assumptions C06_looser_any.
Theorem C06_looser_refl : forall t, looser t t.
Proof. exact looser_refl. Qed.
Print Assumptions C06_looser_refl.
Theorem C06_looser_trans : forall a b c, looser a b -> looser b c -> looser a c.
Proof. exact looser_trans. Qed.
Print Assumptions C06_looser_trans.

(* AnyType is assignable to everything; a looser argument stays assignable *)
Theorem C06_assignable_any : forall p, assignable p TAny = true.
Proof. exact assignable_any_r. Qed.
Print Assumptions C06_assignable_any.
Theorem C06_assignable_mono : forall p a a', looser a a' -> assignable p a = true -> assignable p a' = true.
Proof. exact assignable_mono. Qed.
Print Assumptions C06_assignable_mono.

(* Merge is monotone in both arguments (repaired code); the code before the repair is not *)
Theorem C06_merge_mono : forall a a' b b', looser a a' -> looser b b' -> looser (merge a b) (merge a' b').
Proof. exact merge_mono. Qed.
Print Assumptions C06_merge_mono.
Theorem C06_merge_old_refuted : exists a a' b, looser a a' /\ ~ looser (merge_old a b) (merge_old a' b).
Proof. exact merge_old_not_mono. Qed.
Print Assumptions C06_merge_old_refuted.

(* comparison operands *)
Theorem C06_compare_operands_mono : forall op l l' r r', looser l l' -> looser r r' ->
  compare_ok op l r = true -> compare_ok op l' r' = true.
Proof. exact compare_ok_mono. Qed.
Print Assumptions C06_compare_operands_mono.

(* overload resolution: with looser arguments some candidate is still chosen *)
Theorem C06_funcall_mono : forall cpos sigs sigs', sigs_looser sigs sigs' -> forall args args' s,
  args_looser args args' -> resolve cpos sigs args = inl s ->
  In s sigs /\ exists s0 s', In s0 sigs /\ sig_looser s0 s' /\ resolve cpos sigs' args' = inl s'.
Proof. exact resolve_mono. Qed.
Print Assumptions C06_funcall_mono.

(* per node kind: accepted under the precise child types => accepted under looser ones *)
Theorem C06_deref_mono : forall E E', env_looser E E' -> forall recv prop t t' u,
  looser t t' -> deref_node E recv prop t = (u, []) ->
  exists u', deref_node E' recv prop t' = (u', []) /\ looser u u'.
Proof. exact deref_local_mono. Qed.
Print Assumptions C06_deref_mono.
Theorem C06_filter_mono : forall pos t t' u,
  looser t t' -> arrderef_node true pos t = (u, []) ->
  exists u', arrderef_node true pos t' = (u', []) /\ looser u u'.
Proof. exact arrderef_local_mono. Qed.
Print Assumptions C06_filter_mono.
Theorem C06_filter_mono_old_refuted : exists t t' pos u,
  looser t t' /\ arrderef_node false pos t = (u, []) /\ snd (arrderef_node false pos t') <> [].
Proof. exact filter_mono_old_refuted. Qed.
Print Assumptions C06_filter_mono_old_refuted.
Theorem C06_index_mono : forall operand index ti ti' t t' u,
  looser ti ti' -> looser t t' -> index_node operand index ti t = (u, []) ->
  exists u', index_node operand index ti' t' = (u', []) /\ looser u u'.
Proof. exact index_local_mono. Qed.
Print Assumptions C06_index_mono.

(* main theorem: every node kind, narrowing, calls with overload resolution *)
Theorem C06_accept_mono : forall E E', env_looser E E' -> funcs_coherent (e_funcs E) ->
  forall e t, check E e = (t, []) -> exists t', check E' e = (t', []) /\ looser t t'.
Proof. exact accept_mono. Qed.
Print Assumptions C06_accept_mono.

(* … and for every environment over the regenerated built-in function table *)
Theorem C06_builtin_coherent : funcs_coherent builtin_funcs.
Proof. exact builtin_funcs_coherent. Qed.
Print Assumptions C06_builtin_coherent.
Theorem C06_accept_mono_builtin : forall E E' e t,
  e_funcs E = builtin_funcs -> env_looser E E' ->
  check E e = (t, []) -> exists t', check E' e = (t', []) /\ looser t t'.
Proof. exact accept_mono_builtin. Qed.
Print Assumptions C06_accept_mono_builtin.
Theorem C06_case_env_builtin : forall c, e_funcs (case_env c) = builtin_funcs.
Proof. exact case_env_funcs. Qed.
Print Assumptions C06_case_env_builtin.

(* the statement is false of the code before the two repairs *)
Theorem C06_accept_mono_old_refuted_filter : exists E E' e t,
  env_looser E E' /\ check_old E e = (t, []) /\ snd (check_old E' e) <> [].
Proof. exact accept_mono_old_refuted_filter. Qed.
Print Assumptions C06_accept_mono_old_refuted_filter.
Theorem C06_accept_mono_old_refuted_merge : exists E E' e t,
  env_looser E E' /\ chk merge_old true E None e = (t, []) /\ snd (chk merge_old true E' None e) <> [].
Proof. exact accept_mono_old_refuted_merge. Qed.
Print Assumptions C06_accept_mono_old_refuted_merge.

(* no diagnostic names `any` as the type that is the reason of the error
   ([blamed]: the operand type(s) the message prints as offending) *)
Theorem C06_any_never_blamed : forall E e d, In d (snd (check E e)) -> ~ In TAny (blamed (d_kind d)).
Proof. exact any_never_blamed. Qed.
Print Assumptions C06_any_never_blamed.

(* the rule-level checks applied to the result type of an accepted expression *)
Theorem C06_template_type_check_mono : forall t t', looser t t' -> template_ok t = true -> template_ok t' = true.
Proof. exact template_type_check_mono. Qed.
Print Assumptions C06_template_type_check_mono.
Theorem C06_typed_input_check_mono : forall d t t', looser t t' -> typed_input_ok d t = true -> typed_input_ok d t' = true.
Proof. exact typed_input_check_mono. Qed.
Print Assumptions C06_typed_input_check_mono.

(* the type of the `matrix` context built from a literal strategy.matrix is
   monotone: typing any value / row / include entry less precisely (any for a
   specific type, ...) yields a looser matrix type, hence by C06_accept_mono
   every expression over `matrix` accepted before is still accepted.  (An
   include element or include expression of OBJECT type replaced by a
   non-object changes the key set; that step is outside the key-wise relation
   and is covered by the end-to-end oracle only: see keeps_obj.) *)
Theorem C06_matrix_ty_mono : forall m m', mtx_looser m m' -> looser (matrix_ty m) (matrix_ty m').
Proof. exact matrix_ty_mono. Qed.
Print Assumptions C06_matrix_ty_mono.

(* an include element whose type is unknown (the step [C06_matrix_ty_mono] excludes by
   [keeps_obj]: the SET of known keys changes): from the repair of the round-8 defect on the
   matrix is then the open object without known keys, so every chain below `matrix` is accepted *)
Theorem C06_include_element_of_unknown_type_opens_the_matrix : forall rows cs,
  existsb comb_unknown cs = true ->
  matrix_ty {| mt_rows := rows; mt_incl := MInclList cs |} = TObj [] (Some TAny).
Proof. exact matrix_ty_unknown_element. Qed.
Print Assumptions C06_include_element_of_unknown_type_opens_the_matrix.

(* before it the known keys kept their precise types: `matrix.os.x` was accepted with the element
   typed {os: {x: number}} and reported with the element typed any *)
Theorem C06_include_element_of_unknown_type_old_refuted :
  exists rows t,
    matrix_ty_old {| mt_rows := rows; mt_incl := MInclList [MCombExpr (Some t)] |}
      = TObj [("os"%string, TAny)] None /\
    matrix_ty_old {| mt_rows := rows; mt_incl := MInclList [MCombExpr (Some TAny)] |}
      = TObj [("os"%string, TStr)] (Some TAny) /\
    matrix_ty {| mt_rows := rows; mt_incl := MInclList [MCombExpr (Some TAny)] |} = TObj [] (Some TAny).
Proof. exact matrix_ty_old_unknown_element_refuted. Qed.
Print Assumptions C06_include_element_of_unknown_type_old_refuted.

Theorem C06_raw_value_ty_mono : forall v v', rawv_looser v v' -> looser (raw_ty v) (raw_ty v').
Proof. exact raw_ty_mono. Qed.
Print Assumptions C06_raw_value_ty_mono.
