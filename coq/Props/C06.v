(* Props/C06.v — unknown (`any`) types never cause a diagnostic.
   Only statements; every proof is [exact <lemma>]. *)
From AL Require Import Expr.Types Expr.TypesProofs.

Theorem C06_assignable_any : forall p, assignable p TAny = true.
Proof. exact assignable_any_r. Qed.
Print Assumptions C06_assignable_any.
