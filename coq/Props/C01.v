(* Props/C01.v — no input makes actionlint panic, crash or hang: the part of
   the property that lives in the scalar / value layer of parse.go and in
   Command.Main's exit status.  Only statements; every proof is
   [exact <lemma>].  (The no-panic theorems of the lexer, parser, semantic
   checker, untrusted-input checker, glob validator, needs checker, section
   parser and snippet renderer live with their models — C04, C06, C11, C17,
   C18, C13, C16 — and are aggregated here by the integrator.) *)
From AL Require Import Base.Str Wf.Scalars Wf.ScalarsProofs Wf.ScalarExit.
From Coq Require Import ZArith.
From AL Require Gen.GenPanicSites Wf.PanicSites Wf.CronGuard.

(* every value parser at once: for every well-formed node, none of them
   panics ([np m] is [forall s, m <> Panic s]); the single statements follow *)
Theorem C01_scalar_parsers_no_panic : forall n, wf_node n -> all_scalar_parsers_safe n.
Proof. exact scalar_parsers_no_panic. Qed.
Print Assumptions C01_scalar_parsers_no_panic.

Theorem C01_scalar_parsers_no_panic_old_refuted :
  exists n, wf_node n /\ ~ (forall s, parse_timeout_minutes_old n <> Panic s).
Proof. exact scalar_parsers_no_panic_old_refuted. Qed.
Print Assumptions C01_scalar_parsers_no_panic_old_refuted.

(* hypotheses satisfiable by a non-trivial node: a sequence holding a scalar,
   an alias and the NaN scalar *)
Theorem C01_wf_node_example : wf_node example_seq.
Proof. exact example_seq_wf. Qed.
Print Assumptions C01_wf_node_example.

(* scalar_parsers_no_panic: for every well-formed node — every kind, every
   tag, any text, any result of strconv.Atoi / strconv.ParseFloat — no value
   parser panics *)
Theorem C01_parse_string_no_panic : forall n ae, wf_node n -> forall s, parse_string n ae <> Panic s.
Proof. exact scalar_parse_string_no_panic. Qed.
Print Assumptions C01_parse_string_no_panic.

Theorem C01_check_string_no_panic : forall n ae, wf_node n -> forall s, check_string n ae <> Panic s.
Proof. exact scalar_check_string_no_panic. Qed.
Print Assumptions C01_check_string_no_panic.

Theorem C01_check_sequence_no_panic : forall n ae, wf_node n -> forall s, check_sequence n ae <> Panic s.
Proof. exact scalar_check_sequence_no_panic. Qed.
Print Assumptions C01_check_sequence_no_panic.

Theorem C01_parse_expression_no_panic : forall n s, parse_expression n <> Panic s.
Proof. exact parse_expression_np. Qed.
Print Assumptions C01_parse_expression_no_panic.

Theorem C01_may_parse_expression_no_panic : forall n s, may_parse_expression n <> Panic s.
Proof. exact may_parse_expression_np. Qed.
Print Assumptions C01_may_parse_expression_no_panic.

Theorem C01_parse_string_sequence_no_panic :
  forall n ae aee, wf_node n -> forall s, parse_string_sequence n ae aee <> Panic s.
Proof. exact parse_string_sequence_np. Qed.
Print Assumptions C01_parse_string_sequence_no_panic.

Theorem C01_parse_string_or_string_sequence_no_panic :
  forall n ae aee, wf_node n -> forall s, parse_string_or_string_sequence n ae aee <> Panic s.
Proof. exact parse_string_or_string_sequence_np. Qed.
Print Assumptions C01_parse_string_or_string_sequence_no_panic.

Theorem C01_parse_bool_no_panic : forall n, wf_node n -> forall s, parse_bool n <> Panic s.
Proof. exact scalar_parse_bool_no_panic. Qed.
Print Assumptions C01_parse_bool_no_panic.

Theorem C01_parse_int_no_panic : forall n, wf_node n -> forall s, parse_int n <> Panic s.
Proof. exact scalar_parse_int_no_panic. Qed.
Print Assumptions C01_parse_int_no_panic.

Theorem C01_parse_float_no_panic : forall n, wf_node n -> forall s, parse_float n <> Panic s.
Proof. exact scalar_parse_float_no_panic. Qed.
Print Assumptions C01_parse_float_no_panic.

Theorem C01_parse_max_parallel_no_panic : forall n, wf_node n -> forall s, parse_max_parallel n <> Panic s.
Proof. exact scalar_parse_max_parallel_no_panic. Qed.
Print Assumptions C01_parse_max_parallel_no_panic.

Theorem C01_parse_timeout_minutes_no_panic : forall n, wf_node n -> forall s, parse_timeout_minutes n <> Panic s.
Proof. exact scalar_parse_timeout_minutes_no_panic. Qed.
Print Assumptions C01_parse_timeout_minutes_no_panic.

(* nodeKindName returns a name exactly for yaml.v3's five kinds *)
Theorem C01_node_kind_name_total : forall k, wf_kind k <-> exists s, node_kind_name k = Ok s.
Proof. exact node_kind_name_total. Qed.
Print Assumptions C01_node_kind_name_total.

(* handleYAMLError on a non-nil error, for any regexp / Atoi behaviour; Parse
   calls it only with a non-nil error; one diagnostic per library message *)
Theorem C01_handle_yaml_error_no_panic : forall e, e <> None -> forall s, handle_yaml_error e <> Panic s.
Proof. exact handle_yaml_error_np. Qed.
Print Assumptions C01_handle_yaml_error_no_panic.

Theorem C01_parse_entry_no_panic :
  forall e k, (forall s, k <> Panic s) -> forall s, parse_entry e k <> Panic s.
Proof. exact parse_entry_np. Qed.
Print Assumptions C01_parse_entry_no_panic.

Theorem C01_handle_yaml_error_count : forall e ds,
  handle_yaml_error (Some e) = Ok ds ->
  length ds = match e with YTypeError msgs => length msgs | YOther _ => 1 end.
Proof. exact handle_yaml_error_count. Qed.
Print Assumptions C01_handle_yaml_error_count.

(* defect #1 (fixed): the float parser before the fix panics, exactly when
   the library accepts the text as NaN; the fix changes nothing else *)
Theorem C01_parse_float_old_refuted : exists n s, wf_node n /\ parse_float_old n = Panic s.
Proof. exact parse_float_old_refuted. Qed.
Print Assumptions C01_parse_float_old_refuted.

Theorem C01_parse_float_old_panic_iff : forall n, wf_kind (n_kind n) ->
  ((exists s, parse_float_old n = Panic s) <->
   (float_guard n = false /\ tag_is n "!!str" = false /\
    pf_err (n_pfloat n) = None /\ pf_val (n_pfloat n) = FNaN)).
Proof. exact parse_float_old_panic_iff. Qed.
Print Assumptions C01_parse_float_old_panic_iff.

Theorem C01_parse_float_fix_conservative : forall n,
  (forall s, parse_float_old n <> Panic s) -> parse_float n = parse_float_old n.
Proof. exact parse_float_fix_conservative. Qed.
Print Assumptions C01_parse_float_fix_conservative.

(* malformed values are turned into diagnostics: a nil result always comes
   with at least one diagnostic *)
Theorem C01_nil_result_is_reported : forall n d,
  (parse_bool n = Ok (None, d) -> d <> []) /\
  (parse_int n = Ok (None, d) -> d <> []) /\
  (parse_float n = Ok (None, d) -> d <> []) /\
  (parse_max_parallel n = Ok (None, d) -> d <> []) /\
  (parse_timeout_minutes n = Ok (None, d) -> d <> []).
Proof. exact scalar_nil_result_is_reported. Qed.
Print Assumptions C01_nil_result_is_reported.

(* bounded output: a scalar parser emits at most one diagnostic, at the node;
   a sequence parser at most max(1, #children), at the node or a child *)
Theorem C01_scalar_diags_bounded : forall n,
  local1 n (parse_string n true) /\ local1 n (parse_string n false) /\ local1 n (parse_bool n) /\
  local1 n (parse_int n) /\ local1 n (parse_float n) /\
  local1 n (parse_max_parallel n) /\ local1 n (parse_timeout_minutes n).
Proof. exact scalar_diags_bounded. Qed.
Print Assumptions C01_scalar_diags_bounded.

Theorem C01_sequence_diags_bounded : forall n ae aee r d,
  parse_string_or_string_sequence n ae aee = Ok (r, d) ->
  Forall (near_node n) d /\ length d <= Nat.max 1 (length (n_content n)).
Proof. exact parse_string_or_string_sequence_diags. Qed.
Print Assumptions C01_sequence_diags_bounded.

(* Command.Main's exit status is one of 0/1/2/3; 3 iff a lint run ended with
   a fatal error; 1 iff it completed with diagnostics; 2 iff the flags were bad *)
Theorem C01_exit_status_total : forall fl v f n, In (exit_status fl v f n) [0; 1; 2; 3]%N.
Proof. exact exit_status_total. Qed.
Print Assumptions C01_exit_status_total.

Theorem C01_exit_status_3 : forall fl v f n,
  exit_status fl v f n = 3%N <-> (fl = FlagsOk /\ v = false /\ f = true).
Proof. exact exit_status_3. Qed.
Print Assumptions C01_exit_status_3.

Theorem C01_exit_status_1 : forall fl v f n,
  exit_status fl v f n = 1%N <-> (fl = FlagsOk /\ v = false /\ f = false /\ 0 < n).
Proof. exact exit_status_1. Qed.
Print Assumptions C01_exit_status_1.

Theorem C01_exit_status_2 : forall fl v f n, exit_status fl v f n = 2%N <-> fl = FlagsBad.
Proof. exact exit_status_2. Qed.
Print Assumptions C01_exit_status_2.

(* ------------------------------------------------------------------------ *)
(* Aggregation: no panic / termination facts of the other modelled parts of
   the linter, re-stated here so that C01 lists every component whose
   totality is proved ([Require] without [Import]: the areas reuse names).
   In these models partial Go operations are explicit outcomes (Panic, fuel
   exhaustion, an error value): the theorems say those outcomes never occur. *)
From AL Require Expr.Parser Expr.ParserProofs Expr.Lexer Expr.LexerProofs Expr.ParseSrc Expr.ParseSrcProofs.
From AL Require Glob.Glob Glob.GlobFuel.
From AL Require Graph.Dfs Graph.Needs Graph.NeedsProofs.
From AL Require Out.Render Out.RenderProofs.
From AL Require Expr.Template Expr.TemplateProofs.
From Coq Require Import Sorted Permutation.

(* expression lexer: the fuel supplied (length of the text + 2) always suffices *)
Theorem C01_lexer_terminates : forall plus src ts f, Lexer.lex_all plus src = (ts, f) -> f <> Lexer.FFuel.
Proof. exact LexerProofs.lex_all_no_fuel. Qed.
Print Assumptions C01_lexer_terminates.

(* expression parser: never out of fuel, for any strconv behaviour *)
Theorem C01_parser_terminates : forall int_lit float_ok ts, Parser.parse_toks int_lit float_ok ts <> Parser.PFuel.
Proof. exact ParserProofs.parse_no_fuel. Qed.
Print Assumptions C01_parser_terminates.

(* text inside ${{ }} / if: every text is accepted or yields exactly one
   lexer or parser diagnostic inside the text: no other outcome (panic, hang) *)
Theorem C01_expression_text_outcome : forall plus int_lit float_ok src,
  (exists e, ParseSrc.parse_src plus int_lit float_ok src = ParseSrc.OAccept e) \/
  (exists le, ParseSrc.parse_src plus int_lit float_ok src = ParseSrc.OLexErr le /\ ParseSrcProofs.within src (Lexer.le_pos le)) \/
  (exists c p, ParseSrc.parse_src plus int_lit float_ok src = ParseSrc.OParseErr c p /\ ParseSrcProofs.within src p).
Proof. exact ParseSrcProofs.src_outcome. Qed.
Print Assumptions C01_expression_text_outcome.

(* the placeholder loop of a scalar (checkExprsIn) terminates: each iteration
   consumes at least 3 bytes and the fuel never runs out *)
Theorem C01_template_loop_terminates : forall sem text line col quoted,
  Template.lo_fuel (Template.check_exprs_in sem text line col quoted) = false.
Proof. exact (fun sem text line col quoted => proj2 (proj2 (TemplateProofs.template_offset_inv sem text line col quoted))). Qed.
Print Assumptions C01_template_loop_terminates.

(* filter-pattern validation returns a diagnostic list for every string *)
Theorem C01_glob_total : forall isRef pat, exists ds, Glob.validate_mode isRef pat = Some ds.
Proof. exact GlobFuel.validate_mode_total. Qed.
Print Assumptions C01_glob_total.

(* the needs rule (DFS, cycle reconstruction, printing loop) terminates without
   nil dereference for every job list and every iteration order *)
Theorem C01_needs_total : forall jobs ord,
  Permutation ord (AList.keys (Needs.table jobs)) -> exists ds, Needs.run jobs ord = Dfs.Done ds.
Proof. exact NeedsProofs.run_total. Qed.
Print Assumptions C01_needs_total.

(* rendering never panics whatever positions the diagnostics carry *)
Theorem C01_rendering_no_panic : forall rw sw ol es src, Render.print_errors rw sw ol es src <> Render.Panic.
Proof. exact RenderProofs.print_errors_no_panic. Qed.
Print Assumptions C01_rendering_no_panic.

Theorem C01_snippet_no_panic : forall rw sw e src,
  Render.pretty_print rw sw e src <> Render.Panic /\ Render.template_fields rw sw e src <> Render.Panic.
Proof. exact RenderProofs.snippet_no_panic. Qed.
Print Assumptions C01_snippet_no_panic.

(* the places that can panic by construction: every explicit panic(...) call, every type assertion
   without the comma-ok form and every goroutine start of the source (re-listed on every run,
   Gen/GenPanicSites.v) is a known one — the default branch of a switch over a closed set, an
   assertion on an entry of the built-in variable table, the two errgroup.Go calls *)
Theorem C01_panic_sites_are_known : forall s, In s GenPanicSites.panic_sites ->
  exists c, In (s, c) PanicSites.allowed.
Proof. exact PanicSites.panic_sites_known. Qed.
Print Assumptions C01_panic_sites_are_known.

(* on.schedule[].cron: a time zone prefix with nothing after it makes the cron library slice out
   of range; the rule reports such a spec itself, hands every other spec on, and nothing that it
   hands on can take that path (the pinned tree: refuted by "TZ=UTC") *)
Theorem C01_cron_spec_never_panics : forall s, CronGuard.check_cron s <> CronGuard.CronPanic.
Proof. exact CronGuard.check_cron_no_panic. Qed.
Print Assumptions C01_cron_spec_never_panics.

Theorem C01_cron_library_call_safe : forall s,
  CronGuard.check_cron s = CronGuard.CronToLibrary -> CronGuard.lib_panics s = false.
Proof. exact CronGuard.check_cron_library_safe. Qed.
Print Assumptions C01_cron_library_call_safe.

Theorem C01_cron_old_refuted : exists s, CronGuard.check_cron_old s = CronGuard.CronPanic.
Proof. exact CronGuard.check_cron_old_refuted. Qed.
Print Assumptions C01_cron_old_refuted.
