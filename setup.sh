#!/bin/bash
# setup_cmd: builds the framework from files on disk only (offline).
set -e
cd "$(dirname "$0")"
export GOFLAGS=-mod=mod GOPROXY=off GOSUMDB=off GOTOOLCHAIN=local
mkdir -p build/bin evidence replays
cp /repo/go.sum harness/go.sum
(cd harness && go build -tags verif -o ../build/bin/ ./cmd/...)
tools/mkcoqproject.sh
(cd coq && timeout 3000 make -j16)
echo setup done
