#!/bin/bash
# Regenerates coq/_CoqProject from the files present (so that parallel work on
# different areas never conflicts on it) and the Makefile when the list changed.
cd "$(dirname "$0")/../coq"
{
 echo "-R . AL"
 echo "-arg -w -arg -notation-overridden,-deprecated-hint-without-locality,-deprecated-instance-without-locality,-deprecated-hint-rewrite-without-locality"
 find . -name '*.v' -not -path './cases/*' | sed 's|^\./||' | LC_ALL=C sort
} > _CoqProject.new
if ! cmp -s _CoqProject.new _CoqProject 2>/dev/null || [ ! -f Makefile ]; then
  mv _CoqProject.new _CoqProject
  coq_makefile -f _CoqProject -o Makefile >/dev/null
else
  rm -f _CoqProject.new
fi
