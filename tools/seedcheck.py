#!/usr/bin/env python3
"""Confirm a seeded change and run the checks against it.

  tools/seedcheck.py --name C19-a --diff change1.diff --demo demo1_test.go --test TestSeeded1 \
                     --props C19 [--meta meta1.txt] [--tier quick]

1. in a scratch worktree of /repo (under /tmp, removed afterwards): the change applies, the
   project builds, the pinned test-suite still passes, the demonstration test FAILS with the
   change and PASSES without it;
2. applies the change to /repo itself, runs `./check <P> <tier>` for each listed property,
   and undoes it straight afterwards (git checkout -- . ; untracked demo removed);
3. keeps the change under /verif/seeded/<name>/ (patch.diff, demo, meta.json) when step 1 holds.
"""
import argparse, json, os, shutil, subprocess, sys, time

ROOT = os.path.dirname(os.path.dirname(os.path.abspath(__file__)))
ENV = dict(os.environ, GOFLAGS='-mod=mod', GOPROXY='off', GOSUMDB='off', GOTOOLCHAIN='local')


def sh(cmd, cwd=None, timeout=3000):
    p = subprocess.run(cmd, cwd=cwd, env=ENV, stdout=subprocess.PIPE, stderr=subprocess.STDOUT, text=True, errors='replace', timeout=timeout)
    return p.returncode, p.stdout


def main():
    ap = argparse.ArgumentParser()
    ap.add_argument('--name', required=True)
    ap.add_argument('--diff', required=True)
    ap.add_argument('--demo', required=True)
    ap.add_argument('--test', required=True)
    ap.add_argument('--props', required=True)
    ap.add_argument('--meta')
    ap.add_argument('--tier', default='quick')
    ap.add_argument('--needs', default='')
    a = ap.parse_args()
    props = a.props.split(',')
    wt = '/tmp/seedcheck-%s-%d' % (a.name, os.getpid())
    res = {'name': a.name, 'breaks_property': props[0], 'checked_properties': props, 'ran': []}
    sh(['git', '-C', '/repo', 'worktree', 'add', '-q', '--detach', wt, 'HEAD'])
    try:
        demo_dst = os.path.join(wt, os.path.basename(a.demo))
        shutil.copyfile(a.demo, demo_dst)
        rc0, out0 = sh(['go', 'test', '-vet=off', '-count=1', '-run', '^' + a.test + '$', '.'], cwd=wt)
        res['demo_passes_without_change'] = rc0 == 0
        res['ran'].append('clean tree: go test -run %s . -> rc %d' % (a.test, rc0))
        rc, out = sh(['git', 'apply', os.path.abspath(a.diff)], cwd=wt)
        res['applies'] = rc == 0
        if rc != 0:
            print('does not apply:', out)
        rcb, outb = sh(['go', 'build', './...'], cwd=wt)
        res['builds'] = rcb == 0
        rc1, out1 = sh(['go', 'test', '-vet=off', '-count=1', '-run', '^' + a.test + '$', '.'], cwd=wt)
        res['demo_fails_with_change'] = rc1 != 0
        res['ran'].append('changed tree: go test -run %s . -> rc %d' % (a.test, rc1))
        os.remove(demo_dst)
        rct, outt = sh([os.path.join(ROOT, 'tools', 'baseline.sh'), wt])
        res['suite_passes_with_change'] = rct == 0
        res['ran'].append('changed tree: tools/baseline.sh -> ' + outt.strip().split('\n')[0])
    finally:
        sh(['git', '-C', '/repo', 'worktree', 'remove', '--force', wt])
    ok = all(res.get(k) for k in ('applies', 'builds', 'demo_passes_without_change', 'demo_fails_with_change', 'suite_passes_with_change'))
    res['confirmed'] = ok
    print(json.dumps({k: v for k, v in res.items() if k != 'ran'}, indent=1))
    if not ok:
        print('NOT CONFIRMED: the change is not kept')
        sys.exit(2)
    # run the checks against /repo with the change applied
    st = sh(['git', '-C', '/repo', 'status', '--porcelain'])[1].strip()
    if st:
        print('/repo is not clean, refusing:', st)
        sys.exit(3)
    rc, out = sh(['git', '-C', '/repo', 'apply', os.path.abspath(a.diff)])
    results = {}
    try:
        for p in props:
            t0 = time.time()
            rcp, outp = sh([os.path.join(ROOT, 'check'), p, a.tier], cwd=ROOT)
            tail = [l for l in outp.strip().split('\n') if l.startswith('VIOLATION') or l.startswith(p + ' ')]
            results[p] = {'exit': rcp, 'caught': rcp != 0 and any(l.startswith('VIOLATION') for l in tail),
                          'lines': tail[-3:], 'wall_s': round(time.time() - t0, 1)}
            rp = os.path.join(ROOT, 'replays', p)
            if rcp != 0 and os.path.isdir(rp):
                for f in sorted(os.listdir(rp))[:1]:
                    try:
                        j = json.load(open(os.path.join(rp, f)))
                        results[p]['replay_what'] = str(j.get('what') or j.get('broken'))[:400]
                    except Exception:
                        pass
            res['ran'].append('/repo with change: ./check %s %s -> exit %d' % (p, a.tier, rcp))
    finally:
        sh(['git', '-C', '/repo', 'checkout', '--', '.'])
        sh(['git', '-C', '/repo', 'clean', '-fdq'])
    res['check_results'] = results
    res['caught_by'] = [p for p, r in results.items() if r['caught']]
    res['needs_to_manifest'] = a.needs
    if a.meta and os.path.exists(a.meta):
        res['author_notes'] = open(a.meta, errors='replace').read()[:3000]
    d = os.path.join(ROOT, 'seeded', a.name)
    os.makedirs(d, exist_ok=True)
    for src, dst in ((a.diff, os.path.join(d, 'patch.diff')), (a.demo, os.path.join(d, os.path.basename(a.demo)))):
        if os.path.abspath(src) != os.path.abspath(dst):
            shutil.copyfile(src, dst)
    old = {}
    mp = os.path.join(d, 'meta.json')
    if os.path.exists(mp):
        try:
            old = json.load(open(mp))
        except Exception:
            old = {}
    for k in ('author_notes', 'needs_to_manifest'):
        if not res.get(k) and old.get(k):
            res[k] = old[k]
    if old.get('check_results') and old.get('caught_by') != res.get('caught_by'):
        res['history'] = old.get('history', []) + [{'caught_by': old.get('caught_by'), 'note': 'result before the checks were strengthened'}]
    json.dump(res, open(os.path.join(d, 'meta.json'), 'w'), indent=1)
    print(json.dumps(results, indent=1))
    print('kept under', d, '; caught by', res['caught_by'] or 'NONE')


if __name__ == '__main__':
    main()
