#!/bin/bash
# Runs the repository's pinned test suite with the verif guard OFF and compares
# the set of passing tests with /root/.vp/BASELINE.json (stable_pass).
# usage: baseline.sh [repo_dir]
REPO=${1:-/repo}
export GOFLAGS=-mod=mod GOPROXY=off GOSUMDB=off GOTOOLCHAIN=local
OUT=$(mktemp /var/tmp/verif-baseline.XXXXXX)
(cd "$REPO" && go test -mod=mod -json -vet=off -count=1 -timeout 25m ./... > "$OUT" 2>/dev/null)
python3 - "$OUT" <<'PY'
import json,sys
passed=set()
for l in open(sys.argv[1]):
    try: e=json.loads(l)
    except Exception: continue
    if e.get('Action')=='pass' and e.get('Test'):
        passed.add(e['Package']+'::'+e['Test'])
base=set(json.load(open('/root/.vp/BASELINE.json'))['stable_pass'])
missing=sorted(base-passed)
print('baseline tests: %d, passing now: %d, missing: %d'%(len(base),len(base&passed),len(missing)))
for m in missing[:40]: print('  MISSING',m)
sys.exit(1 if missing else 0)
PY
rc=$?
rm -f "$OUT"
exit $rc
