HOOK_COMMITS = []
NOTES = "Every check: builds the Go harness against /repo's working tree (tag verif), rebuilds the Coq targets it needs (full .vo), compiles the property file capturing Print Assumptions, evaluates the correspondence cases with vm_compute, runs the property oracle on the implementation, applies known_findings.json. See DESIGN.md."
CHECKS = {
 'C19': {
  'text': "Coq theorems over the model of RawYAML*.Equals, isYAMLValueSubset and RuleMatrix (coq/Matrix): Equals decides structural equality with mappings as finite maps, is symmetric and independent of member order; a row value is flagged iff an earlier value of the row is structurally equal; subset decides the declarative containment relation; the verdict for every exclude entry is the unique one the property demands. Unbounded (all values, all nesting depths, all rows). The model is tied to the code by evaluating it with vm_compute on the Matrix ASTs the real parser produced for generated workflows and comparing with RuleMatrix's diagnostics (kind, position, cited position); the property itself is also evaluated on the implementation by a reference written from the property text.",
  'note': "Trusted: Coq kernel; the hand-written model (correspondence-checked, not proved equal to the Go code); harness generators/dumper; Go map iteration is modelled as an association list in an arbitrary order. Not modelled: yaml.v3, parse.go (the model starts from the Matrix AST).",
  'technique': "machine-checked proof in Coq (structural induction over nested YAML values) + vm_compute correspondence against the Go implementation",
 },
}
