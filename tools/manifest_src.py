import subprocess
def _hook_commits():
    try:
        out = subprocess.run(['git', '-C', '/repo', 'log', '--format=%h %s'], capture_output=True, text=True).stdout
        return [l.split()[0] for l in out.split('\n') if l[8:].startswith('hook:') or ' hook:' in l[:16]]
    except Exception:
        return []
HOOK_COMMITS = _hook_commits()
NOTES = "Every check: builds the Go harness against /repo's working tree (tag verif), rebuilds the Coq targets it needs (full .vo), compiles the property file capturing Print Assumptions, evaluates the correspondence cases with vm_compute, runs the property oracle on the implementation, applies known_findings.json. See DESIGN.md."
