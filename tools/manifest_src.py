HOOK_COMMITS = []
NOTES = "Every check: builds the Go harness against /repo's working tree (tag verif), rebuilds the Coq targets it needs (full .vo), compiles the property file capturing Print Assumptions, evaluates the correspondence cases with vm_compute, runs the property oracle on the implementation, applies known_findings.json. See DESIGN.md."
