#!/usr/bin/env python3
"""tools/reseed.py <name> [extra props] — re-run tools/seedcheck.py for a change already kept
under seeded/<name>/ (after a check was strengthened); the earlier result goes to meta.json's history."""
import glob, json, os, re, subprocess, sys, tempfile
root = os.path.dirname(os.path.dirname(os.path.abspath(__file__)))
name, extra = sys.argv[1], sys.argv[2:]
d = os.path.join(root, 'seeded', name)
m = json.load(open(os.path.join(d, 'meta.json')))
demo = sorted(glob.glob(os.path.join(d, '*_test.go')))[0]
t = re.search(r'func (TestSeeded\w*)\(', open(demo).read()).group(1)
props = [m['breaks_property']] + [p for p in extra if p != m['breaks_property']]
with tempfile.TemporaryDirectory() as td:
    # seedcheck copies its inputs into seeded/<name>/: hand it copies
    diff = os.path.join(td, 'patch.diff'); open(diff, 'w').write(open(os.path.join(d, 'patch.diff')).read())
    dm = os.path.join(td, os.path.basename(demo)); open(dm, 'w').write(open(demo).read())
    meta = os.path.join(td, 'meta.txt'); open(meta, 'w').write(m.get('author_notes', ''))
    p = subprocess.run([sys.executable, os.path.join(root, 'tools', 'seedcheck.py'), '--name', name, '--diff', diff, '--demo', dm, '--test', t,
                        '--props', ','.join(props), '--meta', meta, '--needs', m.get('needs_to_manifest', '')],
                       stdout=subprocess.PIPE, stderr=subprocess.STDOUT, text=True)
lines = [l.strip() for l in p.stdout.split('\n') if re.search(r'caught by|NOT CONFIRMED|replay_what|does not apply|refusing', l)]
print(name, '|', ' | '.join(lines)[:400])
