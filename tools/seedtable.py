#!/usr/bin/env python3
"""tools/seedtable.py — rewrites the table of DESIGN.md section 0.4 (between the markers
<!-- seeded-table:begin --> and <!-- seeded-table:end -->) from seeded/*/meta.json."""
import glob, json, os, re
root = os.path.dirname(os.path.dirname(os.path.abspath(__file__)))
rows = []
for f in sorted(glob.glob(os.path.join(root, 'seeded', '*', 'meta.json'))):
    m = json.load(open(f))
    needs = ' '.join((m.get('needs_to_manifest') or '').split())
    needs = re.sub(r'^(manifest|needs to manifest|needs|trigger)\s*:\s*', '', needs, flags=re.I)[:170].replace('|', '\\|')
    hist = m.get('history') or []
    own = m.get('breaks_property')
    caught = m.get('caught_by') or []
    note = ''
    if hist and own in caught and not any(own in (h.get('caught_by') or []) for h in hist):
        note = 'strengthened'
    rows.append('| %s | %s | %s | %s | %s |' % (m['name'], own, needs, ', '.join(caught) or 'none', note))
table = '| id | breaks | needs to manifest | caught by | |\n|---|---|---|---|---|\n' + '\n'.join(rows) + '\n'
p = os.path.join(root, 'DESIGN.md')
s = open(p).read()
b, e = '<!-- seeded-table:begin -->\n', '<!-- seeded-table:end -->\n'
i, j = s.index(b) + len(b), s.index(e)
open(p, 'w').write(s[:i] + table + s[j:])
print(len(rows), 'seeded changes;', sum(1 for r in rows if '| none |' in r), 'caught by none;',
      sum(1 for r in rows if r.endswith('strengthened |')), 'needed a strengthened check')
