#!/usr/bin/env python3
"""tools/seedbatch.py <PROP> <outdir> <tag> [extra props] — runs tools/seedcheck.py for every
changeN.diff/demoN_test.go/metaN.txt triple in <outdir>, naming them <PROP>-<tag><N>."""
import os, re, subprocess, sys, json
prop, out, tag = sys.argv[1], sys.argv[2], sys.argv[3]
extra = sys.argv[4:] if len(sys.argv) > 4 else []
root = os.path.dirname(os.path.dirname(os.path.abspath(__file__)))
for n in range(1, 6):
    d = os.path.join(out, 'change%d.diff' % n)
    if not os.path.exists(d):
        continue
    demo = os.path.join(out, 'demo%d_test.go' % n)
    meta = os.path.join(out, 'meta%d.txt' % n)
    test = 'TestSeeded%d' % n
    src = open(demo).read() if os.path.exists(demo) else ''
    m = re.search(r'func (TestSeeded\w*)\(', src)
    if m:
        test = m.group(1)
    needs = ''
    if os.path.exists(meta):
        txt = open(meta, errors='replace').read()
        mm = re.search(r'(?i)(needs|manifest|trigger|only (?:shows|when))[^\n]*\n?[^\n]*', txt)
        needs = ' '.join((mm.group(0) if mm else txt[:300]).split())[:300]
    name = '%s-%s%d' % (prop, tag, n)
    cmd = [sys.executable, os.path.join(root, 'tools', 'seedcheck.py'), '--name', name, '--diff', d, '--demo', demo,
           '--test', test, '--props', ','.join([prop] + extra), '--meta', meta, '--needs', needs]
    p = subprocess.run(cmd, stdout=subprocess.PIPE, stderr=subprocess.STDOUT, text=True)
    lines = [l for l in p.stdout.split('\n') if re.search(r'"confirmed"|caught by|NOT CONFIRMED|replay_what|does not apply|refusing', l)]
    print(name, '|', ' | '.join(l.strip() for l in lines))
