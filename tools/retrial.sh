#!/bin/bash
# tools/retrial.sh <scratch-repo> <verif-worktree> P...
# Re-runs the CURRENT quick check of every property P against every seeded change of P kept under
# seeded/ (all rounds), without the confirmation steps of tools/seedcheck.py (no demo, no baseline
# suite): the patch is applied to <scratch-repo> (a git worktree of /repo at its HEAD, outside /repo
# and /verif), the check of <verif-worktree> (a worktree of /verif, so that builds do not collide
# with checks running in /verif) is pointed at it through VERIF_REPO, and the patch is undone.
# Use after a generator, an oracle or an ignore pattern of a harness was changed: a change that was
# caught before and is "ok" now is a regression of the check (round 8 found three such for C10).
# Patches written against an older tree may not apply any more (APPLY-FAILED / BUILD-FAILED).
export GOFLAGS=-mod=mod GOPROXY=off GOSUMDB=off GOTOOLCHAIN=local
SCRATCH=$1; WT=$2; shift 2
ROOT=$(cd "$(dirname "$0")/.." && pwd)
for P in "$@"; do
  for d in "$ROOT"/seeded/$P-*; do
    n=$(basename "$d")
    cd "$SCRATCH" && git checkout -q -- . && git clean -fdq . 2>/dev/null
    if ! git apply "$d/patch.diff" 2>/dev/null; then
      if ! git apply -C1 "$d/patch.diff" 2>/dev/null; then echo "$n | APPLY-FAILED"; continue; fi
    fi
    if ! go build ./... 2>/dev/null; then echo "$n | BUILD-FAILED"; git checkout -q -- .; continue; fi
    cd "$WT" && r=$(VERIF_REPO="$SCRATCH" ./check $P quick 2>&1 | grep -v "^KNOWN" | tail -1 | cut -c1-60)
    echo "$n | $r"
    cd "$SCRATCH" && git checkout -q -- .; git -C "$WT" checkout -q -- coq/Gen evidence 2>/dev/null
  done
done
echo RETRIAL-DONE
