#!/usr/bin/env python3
"""Regenerates /verif/MANIFEST.json from tools/manifest_src.py (the per-property
claims) so that the file always validates and not_applicable stays current."""
import json, os, sys
ROOT = os.path.dirname(os.path.dirname(os.path.abspath(__file__)))
sys.path.insert(0, ROOT)
import importlib
from tools.manifest_src import HOOK_COMMITS, NOTES
CHECKS = {}
for f in sorted(os.listdir(os.path.join(ROOT, 'props'))):
    if f.startswith('C') and f.endswith('.py'):
        mod = importlib.import_module('props.' + f[:-3])
        if getattr(mod, 'MANIFEST', None):
            CHECKS[f[:-3]] = mod.MANIFEST
props = [json.loads(l)['id'] for l in open(os.path.join(ROOT, 'properties.jsonl'))]
checks = []
for pid in props:
    if pid not in CHECKS:
        continue
    c = CHECKS[pid]
    checks.append({
        'property_id': pid,
        'quick_cmd': './check %s quick' % pid,
        'thorough_cmd': './check %s thorough' % pid,
        'evidence_file': '/verif/evidence/%s.json' % pid,
        'replay_cmd_template': './check %s --replay {path}' % pid,
        'engine': 'coq-proof+correspondence',
        'level_claimed': {'category': c.get('category', 'proof'), 'text': c['text'], 'design_ref': c.get('design_ref', 'DESIGN.md section 6, ' + pid)},
        'level_note': c['note'],
        'technique': c['technique'],
    })
m = {
    'version': 1,
    'setup_cmd': './setup.sh',
    'hooks': {'guard': 'verif', 'enable': 'go build -tags verif (harness module /verif/harness, replace github.com/rhysd/actionlint => /repo)',
              'baseline_off_cmd': '/verif/tools/baseline.sh', 'source_commits': HOOK_COMMITS, 'add_only': False},
    'engines': [{'name': 'coq-proof+correspondence', 'path': '/verif/check', 'serves_properties': [c['property_id'] for c in checks],
                 'kind_free_text': 'Coq 8.16 theorems over hand-written Gallina models (coq/), tied to /repo by a correspondence check (Go harness built from the working tree with -tags verif; the model evaluated by vm_compute on the same inputs) and by data tables regenerated from /repo (coq/Gen)'}],
    'checks': checks,
    'notes': NOTES,
    'not_applicable': [{'property_id': p, 'reason': 'check not built yet in this session (work in progress; the property is in scope of the technique and will be claimed)'} for p in props if p not in CHECKS],
}
json.dump(m, open(os.path.join(ROOT, 'MANIFEST.json'), 'w'), indent=1)
print('checks:', len(checks), 'not_applicable:', len(m['not_applicable']))
