package main

// Expression-level part of the C08 harness: name occurrences of an expression
// (found on the token stream, independently of the parser), running
// ExprSemanticsChecker.Check, and dumping the tree *as written* (names taken
// from the tokens, not from the nodes: the model applies parser_fold itself).
// sematypes.go and semagen.go are copies of harness/cmd/c06/{types,gen}.go
// (environment and expression generators of the shared Sema model).

import (
	"encoding/json"
	"fmt"
	"strings"

	"github.com/rhysd/actionlint"

	"verifharness/hx"
)

// ---- name occurrences on the token stream ---------------------------------------

type occKind int

const (
	occVar      occKind = iota // context / variable name
	occProp                    // property name after '.'
	occFunc                    // function name
	occIndexLit                // string literal used as an index: x['Name']
	occJSONKey                 // key of a JSON literal passed to fromJSON
	// not name occurrences (negative stream)
	occKeyword // true / false / null
	occString  // any other string literal (content)
	// workflow level
	occYAML // name occurrence in YAML (definition or use site); kind detail in occ.what
)

var occKindNames = map[occKind]string{occVar: "context-name", occProp: "property-name", occFunc: "function-name", occIndexLit: "index-literal",
	occJSONKey: "json-key", occKeyword: "keyword", occString: "string-literal", occYAML: "yaml"}

// occ is a byte range [start, end) of some text whose letters may be re-cased
type occ struct {
	start, end int
	kind       occKind
	what       string // finer classification (yaml occurrences: which name kind, def/use)
}

func (o occ) positive() bool { return o.kind != occKeyword && o.kind != occString }

func isKeyChar(c byte) bool {
	return c == '_' || c == '-' || '0' <= c && c <= '9' || 'a' <= c && c <= 'z' || 'A' <= c && c <= 'Z'
}

// jsonKeyOccs: byte ranges (relative to text) of the object keys of a JSON text: a string
// followed by ':'.  Only keys made of [A-Za-z0-9_-] are returned.
func jsonKeyOccs(text string) [][2]int {
	var out [][2]int
	for i := 0; i < len(text); i++ {
		if text[i] != '"' {
			continue
		}
		j := i + 1
		for j < len(text) && text[j] != '"' {
			if text[j] == '\\' {
				j++
			}
			j++
		}
		if j >= len(text) {
			break
		}
		k := j + 1
		for k < len(text) && (text[k] == ' ' || text[k] == '\t' || text[k] == '\n') {
			k++
		}
		if k < len(text) && text[k] == ':' && j > i+1 {
			ok := true
			for _, c := range []byte(text[i+1 : j]) {
				if !isKeyChar(c) {
					ok = false
				}
			}
			if ok {
				out = append(out, [2]int{i + 1, j})
			}
		}
		i = j
	}
	return out
}

// exprOccs: occurrences inside one expression source (without the closing "}}").
func exprOccs(src string) ([]occ, error) {
	toks, _, err := actionlint.LexExpression(src + "}}")
	if err != nil {
		return nil, fmt.Errorf("%s", err.Message)
	}
	var out []occ
	for i, t := range toks {
		switch t.Kind {
		case actionlint.TokenKindIdent:
			o := occ{start: t.Offset, end: t.Offset + len(t.Value)}
			switch {
			case i > 0 && toks[i-1].Kind == actionlint.TokenKindDot:
				o.kind = occProp
			case i+1 < len(toks) && toks[i+1].Kind == actionlint.TokenKindLeftParen:
				o.kind = occFunc
			case t.Value == "true" || t.Value == "false" || t.Value == "null":
				o.kind = occKeyword
			default:
				o.kind = occVar
			}
			out = append(out, o)
		case actionlint.TokenKindString:
			// token value includes the quotes
			s, e := t.Offset+1, t.Offset+len(t.Value)-1
			if i > 0 && toks[i-1].Kind == actionlint.TokenKindLeftBracket && i+1 < len(toks) && toks[i+1].Kind == actionlint.TokenKindRightBracket {
				out = append(out, occ{start: s, end: e, kind: occIndexLit})
				continue
			}
			isJSON := i >= 2 && toks[i-1].Kind == actionlint.TokenKindLeftParen && toks[i-2].Kind == actionlint.TokenKindIdent && strings.EqualFold(toks[i-2].Value, "fromjson")
			body := src[s:e]
			if isJSON && !strings.Contains(body, "'") {
				keys := jsonKeyOccs(body)
				prev := 0
				for _, k := range keys {
					if k[0] > prev {
						out = append(out, occ{start: s + prev, end: s + k[0], kind: occString})
					}
					out = append(out, occ{start: s + k[0], end: s + k[1], kind: occJSONKey})
					prev = k[1]
				}
				if prev < len(body) {
					out = append(out, occ{start: s + prev, end: e, kind: occString})
				}
				continue
			}
			out = append(out, occ{start: s, end: e, kind: occString})
		}
	}
	return out, nil
}

// hasLetters: re-casing can change something
func hasLetters(s string) bool {
	for i := 0; i < len(s); i++ {
		c := s[i]
		if 'a' <= c && c <= 'z' || 'A' <= c && c <= 'Z' {
			return true
		}
	}
	return false
}

// recaseBytes: mode 0 upper, 1 lower, 2 mixed (random per letter, at least one letter flipped)
func recaseBytes(r *hx.Rng, s string, mode int) string {
	switch mode {
	case 0:
		return asciiUpper(s)
	case 1:
		return asciiLower(s)
	}
	b := []byte(s)
	var letters []int
	for i, c := range b {
		if 'a' <= c && c <= 'z' || 'A' <= c && c <= 'Z' {
			letters = append(letters, i)
		}
	}
	if len(letters) == 0 {
		return s
	}
	force := letters[r.Intn(len(letters))]
	for _, i := range letters {
		if i == force || r.Chance(1, 2) {
			b[i] ^= 0x20
		}
	}
	return string(b)
}

func asciiUpper(s string) string {
	b := []byte(s)
	for i, c := range b {
		if 'a' <= c && c <= 'z' {
			b[i] = c - 32
		}
	}
	return string(b)
}

func asciiLower(s string) string {
	b := []byte(s)
	for i, c := range b {
		if 'A' <= c && c <= 'Z' {
			b[i] = c + 32
		}
	}
	return string(b)
}

// jsonDupKeys: some object of the JSON text has two identical keys (then re-casing a key has
// merged two entries of the document: not a re-casing of the same document)
func jsonDupKeys(text string) bool {
	dec := json.NewDecoder(strings.NewReader(text))
	type frame struct {
		obj  bool
		keys map[string]bool
		key  bool // next string token is a key
	}
	var st []*frame
	for {
		tok, err := dec.Token()
		if err != nil {
			return false
		}
		top := func() *frame {
			if len(st) == 0 {
				return nil
			}
			return st[len(st)-1]
		}
		switch v := tok.(type) {
		case json.Delim:
			switch v {
			case '{':
				if f := top(); f != nil && f.obj {
					f.key = true
				}
				st = append(st, &frame{obj: true, keys: map[string]bool{}, key: true})
			case '[':
				if f := top(); f != nil && f.obj {
					f.key = true
				}
				st = append(st, &frame{})
			default:
				st = st[:len(st)-1]
			}
		case string:
			if f := top(); f != nil && f.obj {
				if f.key {
					if f.keys[v] {
						return true
					}
					f.keys[v] = true
					f.key = false
				} else {
					f.key = true
				}
			}
		default:
			if f := top(); f != nil && f.obj {
				f.key = true
			}
		}
	}
}

// ---- running the checker -----------------------------------------------------------

var classTable = []struct {
	code int
	sub  string
}{
	{1, "undefined variable "},
	{2, " is not allowed here. "},
	{5, "as element of filtered array"},
	{4, "is not defined in object type"},
	{6, "receiver of object dereference "},
	{7, "property filtered by "},
	{8, "elements of object at receiver of object filtering"},
	{9, "cannot be filtered by object filtering"},
	{10, "receiver of object filtering `.*` must be"},
	{11, "index access of array must be type of number"},
	{12, "property access of object must be type of string"},
	{13, "index access operand must be type of object or array"},
	{14, "number of arguments is wrong"},
	{15, "argument of function call is not assignable"},
	{16, "undefined function "},
	{17, "type of operand of ! operator"},
	{18, "value cannot be compared to"},
	{19, "does not contain placeholder"},
	{20, "contains placeholder"},
	{21, "broken JSON string is passed to fromJSON()"},
	{22, "must not start with the GITHUB_ prefix"},
	{23, "can only contain alphabets, decimal numbers"},
	{24, "no configuration variable is allowed"},
	{25, "undefined configuration variable"},
}

func classOf(msg string) int {
	if strings.HasPrefix(msg, "calling function ") && strings.Contains(msg, " is not allowed here. ") {
		return 3
	}
	if strings.HasPrefix(msg, "format string ") {
		if strings.Contains(msg, "does not contain placeholder") {
			return 19
		}
		return 20
	}
	for _, c := range classTable {
		if strings.Contains(msg, c.sub) {
			return c.code
		}
	}
	return 0
}

type diag struct{ Line, Col, Class int }

type result struct {
	ty      *T
	diags   []diag
	msgs    []string
	tainted bool
}

var allContexts []string
var allSpecial []string

func runImpl(env *genv, node actionlint.ExprNode) result {
	var cfg []string
	if env.HasCfg {
		cfg = append([]string{}, env.Config...)
	}
	c := actionlint.NewExprSemanticsChecker(false, cfg)
	c.SetContextAvailability(allContexts)
	c.SetSpecialFunctionAvailability(allSpecial)
	built := map[string]*actionlint.ObjectType{}
	used := map[string]*T{}
	for _, s := range slotNames {
		t, ok := env.Slots[s]
		if !ok {
			continue
		}
		o := t.toALObj()
		built[s], used[s] = o, t
		switch s {
		case "matrix":
			c.UpdateMatrix(o)
		case "steps":
			c.UpdateSteps(o)
		case "needs":
			c.UpdateNeeds(o)
		case "secrets":
			c.UpdateSecrets(o)
		case "inputs":
			c.UpdateInputs(o)
		case "dispatch":
			c.UpdateDispatchInputs(o)
		case "jobs":
			c.UpdateJobs(o)
		}
	}
	ty, errs := c.Check(node)
	r := result{ty: fromAL(ty)}
	for _, e := range errs {
		r.diags = append(r.diags, diag{e.Line, e.Column, classOf(e.Message)})
		r.msgs = append(r.msgs, e.Message)
	}
	for s, o := range built {
		if !sameDeref(used[s], o) {
			r.tainted = true
		}
	}
	return r
}

func parse(src string) (actionlint.ExprNode, error) {
	p := actionlint.NewExprParser()
	n, err := p.Parse(actionlint.NewExprLexer(src + "}}"))
	if err != nil {
		return nil, err
	}
	return n, nil
}

func effective(env *genv) map[string]*T {
	vars := map[string]*T{}
	for k, v := range actionlint.BuiltinGlobalVariableTypes {
		vars[k] = fromAL(v)
	}
	for s, t := range env.Slots {
		switch s {
		case "dispatch":
			if _, ok := env.Slots["inputs"]; !ok {
				vars["inputs"] = t
			}
		case "secrets":
			c := strictObj("github_token", tStr, "actions_step_debug", tStr, "actions_runner_debug", tStr)
			for i, k := range t.Keys {
				if c.prop(k) == nil {
					c.Keys = append(c.Keys, k)
					c.Vals = append(c.Vals, t.Vals[i])
				}
			}
			c.sortProps()
			vars[s] = c
		default:
			vars[s] = t
		}
	}
	return vars
}

// ---- dumping to Coq: the tree as written ------------------------------------------------

func coqTok(t *actionlint.Token) string {
	return fmt.Sprintf("(P %d %d %d)", t.Offset, t.Line, t.Column)
}

// rawProps: the property identifiers (tokens after '.') of src in source order
func rawProps(src string) []string {
	toks, _, _ := actionlint.LexExpression(src + "}}")
	var out []string
	for i, t := range toks {
		if t.Kind == actionlint.TokenKindIdent && i > 0 && toks[i-1].Kind == actionlint.TokenKindDot {
			out = append(out, t.Value)
		}
	}
	return out
}

// coqExprRaw dumps the parsed tree with variable names from their tokens and property names
// from the token stream (props is consumed in source order: receiver first, then the property).
// It fails (ok=false) when the real parser's names are not the lower-casing of the raw ones.
type rawDumper struct {
	props []string
	ok    bool
	why   string
}

func (d *rawDumper) expr(n actionlint.ExprNode) string {
	switch n := n.(type) {
	case *actionlint.VariableNode:
		raw := n.Token().Value
		if asciiLower(raw) != n.Name {
			d.ok, d.why = false, fmt.Sprintf("VariableNode.Name %q is not the lower-casing of the token %q", n.Name, raw)
		}
		return "(EVar " + coqTok(n.Token()) + " " + hx.CoqStr(raw) + ")"
	case *actionlint.NullNode:
		return "(ENull " + coqTok(n.Token()) + ")"
	case *actionlint.BoolNode:
		return "(EBool " + coqTok(n.Token()) + " " + hx.CoqBool(n.Value) + ")"
	case *actionlint.IntNode:
		return fmt.Sprintf("(EInt %s (%d))", coqTok(n.Token()), n.Value)
	case *actionlint.FloatNode:
		return "(EFloat " + coqTok(n.Token()) + " " + hx.CoqStr(n.Token().Value) + ")"
	case *actionlint.StringNode:
		return "(EStr " + coqTok(n.Token()) + " " + hx.CoqStr(n.Value) + ")"
	case *actionlint.ObjectDerefNode:
		recv := d.expr(n.Receiver)
		raw := n.Property
		if len(d.props) == 0 {
			d.ok, d.why = false, "more property dereferences in the tree than `.name` tokens in the source"
		} else {
			raw, d.props = d.props[0], d.props[1:]
			if asciiLower(raw) != n.Property {
				d.ok, d.why = false, fmt.Sprintf("ObjectDerefNode.Property %q is not the lower-casing of the token %q", n.Property, raw)
			}
		}
		return "(EDeref " + recv + " " + hx.CoqStr(raw) + ")"
	case *actionlint.ArrayDerefNode:
		return "(EArrDeref " + d.expr(n.Receiver) + ")"
	case *actionlint.IndexAccessNode:
		o := d.expr(n.Operand)
		return "(EIndex " + o + " " + d.expr(n.Index) + ")"
	case *actionlint.NotOpNode:
		return "(ENot " + coqTok(n.Token()) + " " + d.expr(n.Operand) + ")"
	case *actionlint.CompareOpNode:
		op := map[actionlint.CompareOpNodeKind]string{actionlint.CompareOpNodeKindLess: "CLess", actionlint.CompareOpNodeKindLessEq: "CLessEq",
			actionlint.CompareOpNodeKindGreater: "CGreater", actionlint.CompareOpNodeKindGreaterEq: "CGreaterEq",
			actionlint.CompareOpNodeKindEq: "CEq", actionlint.CompareOpNodeKindNotEq: "CNotEq"}[n.Kind]
		l := d.expr(n.Left)
		return "(ECmp " + op + " " + l + " " + d.expr(n.Right) + ")"
	case *actionlint.LogicalOpNode:
		op := "LAnd"
		if n.Kind == actionlint.LogicalOpNodeKindOr {
			op = "LOr"
		}
		l := d.expr(n.Left)
		return "(ELog " + op + " " + l + " " + d.expr(n.Right) + ")"
	case *actionlint.FuncCallNode:
		as := make([]string, len(n.Args))
		for i, a := range n.Args {
			as[i] = d.expr(a)
		}
		return "(ECall " + coqTok(n.Token()) + " " + hx.CoqStr(n.Callee) + " " + hx.CoqList(as) + ")"
	}
	panic(fmt.Sprintf("unknown node %T", n))
}

func coqExprRaw(src string, n actionlint.ExprNode) (string, bool, string) {
	d := &rawDumper{props: rawProps(src), ok: true}
	s := d.expr(n)
	if d.ok && len(d.props) != 0 {
		d.ok, d.why = false, "fewer property dereferences in the tree than `.name` tokens in the source"
	}
	return s, d.ok, d.why
}

func coqJSON(v interface{}) string {
	switch v := v.(type) {
	case nil:
		return "JNull"
	case bool:
		return "JBool"
	case float64:
		return "JNum"
	case string:
		return "JStr"
	case []interface{}:
		es := make([]string, len(v))
		for i, e := range v {
			es[i] = coqJSON(e)
		}
		return "(JArr " + hx.CoqList(es) + ")"
	case map[string]interface{}:
		var es []string
		for _, k := range hx.SortedKeys(v) {
			es = append(es, "("+hx.CoqStr(k)+","+coqJSON(v[k])+")")
		}
		return "(JObj " + hx.CoqList(es) + ")"
	}
	panic("json")
}

// jsonOracle: the behaviour of encoding/json on every literal first argument of fromJSON in the trees
func jsonOracle(ns ...actionlint.ExprNode) string {
	seen := map[string]bool{}
	var out []string
	for _, n := range ns {
		actionlint.VisitExprNode(n, func(node, _ actionlint.ExprNode, entering bool) {
			if !entering {
				return
			}
			c, ok := node.(*actionlint.FuncCallNode)
			if !ok || strings.ToLower(c.Callee) != "fromjson" || len(c.Args) == 0 {
				return
			}
			lit, ok := c.Args[0].(*actionlint.StringNode)
			if !ok || seen[lit.Value] {
				return
			}
			seen[lit.Value] = true
			var v interface{}
			err := json.Unmarshal([]byte(lit.Value), &v)
			r := ""
			if err == nil {
				r = "(JOk " + coqJSON(v) + ")"
			} else if _, ok := err.(*json.SyntaxError); ok {
				r = "JSyntaxErr"
			} else {
				r = "JOtherErr"
			}
			out = append(out, "("+hx.CoqStr(lit.Value)+","+r+")")
		})
	}
	return hx.CoqList(out)
}

func coqUpdates(env *genv) string {
	var us []string
	for _, s := range slotNames {
		t, ok := env.Slots[s]
		if !ok {
			continue
		}
		us = append(us, "(U"+strings.ToUpper(s[:1])+s[1:]+" "+t.coq()+")")
	}
	return hx.CoqList(us)
}

func coqCfg(env *genv) string {
	if !env.HasCfg {
		return "None"
	}
	cs := make([]string, len(env.Config))
	for i, c := range env.Config {
		cs[i] = hx.CoqStr(c)
	}
	return "(Some " + hx.CoqList(cs) + ")"
}
