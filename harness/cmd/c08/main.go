// Command c08: property oracle and correspondence harness for property C08
// (names are matched case-insensitively everywhere).
//
// Stream W (the property verbatim, on the real linter): generated workflows
// that use every name kind the property lists — context, property and function
// names, index literals, keys of JSON literals passed to fromJSON (in
// expressions); step and job ids incl. `needs:` lists, input / secret / output /
// matrix / env / service keys, `with:` keys of a bundled popular action, of a
// local action and of a local reusable workflow, the definition sites inside the
// local action's action.yml and the reusable workflow file (in YAML) — x all
// single-occurrence re-casings and random subsets (definition and use sites
// independently; upper / lower / mixed).  Original and variant are linted
// through actionlint.NewLinter + Lint; the multiset of (line, col, kind,
// lower-cased message) must be identical.  A separate negative stream re-cases
// the keywords true/false/null and ordinary string literals, where the verdict
// may change; the harness measures that it does.
//
// Stream E (model side of K): generated (environment, expression) pairs of the
// shared semantic-checker model x re-casings of the expression's name
// occurrences and JSON keys; both spellings are checked by
// ExprSemanticsChecker.Check (must agree: oracle) and dumped as written for the
// Coq model (Expr/RecaseObs.v run_c08).
package main

import (
	"encoding/json"
	"flag"
	"fmt"
	"io"
	"os"
	"path/filepath"
	"regexp"
	"sort"
	"strings"

	"github.com/rhysd/actionlint"

	"verifharness/hx"
)

// ---- documents with marked occurrences -----------------------------------------------

const (
	fWorkflow = iota
	fAction
	fReusable
	nFiles
)

var fileNames = [nFiles]string{".github/workflows/w.yml", ".github/actions/my/action.yml", ".github/workflows/reusable.yml"}

type docOcc struct {
	occ
	file int
}

type doc struct {
	text [nFiles][]byte
	occs []docOcc
	r    *hx.Rng
}

func (d *doc) w(f int, s string) { d.text[f] = append(d.text[f], s...) }

// n: a name occurrence in YAML (what = name kind + def/use)
func (d *doc) n(f int, what, s string) {
	st := len(d.text[f])
	d.text[f] = append(d.text[f], s...)
	d.occs = append(d.occs, docOcc{occ{st, st + len(s), occYAML, what}, f})
}

// e: an expression placeholder ${{ src }}; its occurrences are found on the token stream
func (d *doc) e(f int, src string) {
	d.w(f, "${{ ")
	d.bare(f, src)
	d.w(f, " }}")
}

// bare: expression text without ${{ }} (an `if:` condition)
func (d *doc) bare(f int, src string) {
	if strings.HasPrefix(src, "!") { // a plain YAML scalar must not start with '!'
		d.w(f, "true && ")
	}
	st := len(d.text[f])
	os_, err := exprOccs(src)
	if err != nil {
		panic("generator produced an expression that does not lex: " + src + ": " + err.Error())
	}
	d.text[f] = append(d.text[f], src...)
	for _, o := range os_ {
		o.start += st
		o.end += st
		d.occs = append(d.occs, docOcc{o, f})
	}
}

// ---- workflow generator ------------------------------------------------------------------

var jobPool = []string{"build", "test", "lint", "deploy", "pack-it", "e2e_run"}
var stepPool = []string{"pack", "setup", "cache", "meta", "get_ver", "s-1"}
var keyPool = []string{"os", "node", "ver", "target", "level", "who", "flavor", "extra", "dry-run", "a_b"}
var outPool = []string{"artifact", "version", "digest", "res", "out-1", "sha_x"}
var envPool = []string{"FOO", "TOP", "bar_baz", "Mixed_Case", "NODE_ENV"}
var secPool = []string{"token", "deploy_key", "NPM_TOKEN", "pass"}

type wgen struct {
	d *doc
	r *hx.Rng
	// names in scope for expression building
	dispatchIn, callIn, callSec []string
	topEnv                      []string
	jobs                        []string
	jobOut                      map[string][]string
}

func (g *wgen) pick(pool []string, n int) []string { return pickSome(g.r, pool, n) }

// an expression that uses names visible at a step of job j (steps = ids of earlier steps with their outputs)
func (g *wgen) stepExpr(j string, needs []string, matrix []string, steps map[string][]string, stepIDs []string, envs []string) string {
	r := g.r
	var cands []string
	add := func(s string) { cands = append(cands, s) }
	add("github.event_name")
	add("github['event_name']")
	add("github.event.pull_request.head.sha")
	add("runner.os == 'Linux'")
	add("job.status")
	add("strategy.fail-fast")
	add("strategy['job-index']")
	add("format('{0}-{1}', github.ref, runner['arch'])")
	add("startsWith(github.ref, 'refs/tags/') && true")
	add("contains(github.event.head_commit.message, 'skip') == false")
	add("toJSON(github) != null")
	add("hashFiles('**/go.sum')")
	add("format('{0} {2}', github.ref)")
	add("fromJSON('[1,')")
	add("join(github.event.*.name, ',')")
	// untrusted inputs reached through index literals (reported in script positions only)
	add("github.event['pull_request'].title")
	add("github.event.pull_request['title']")
	add("github['head_ref']")
	add("github.event.issue.body")
	// (no space after ':' — the expressions are written into plain YAML scalars)
	add("fromJSON('{\"Foo\":{\"Bar\":1},\"baz\":[true,null]}').foo.bar")
	add("fromJSON('{\"Foo\":1,\"b\":\"x\"}')['FOO']")
	add("fromJSON('{\"include\":[{\"Os\":\"l\"}]}').include[0].os")
	add("fromJSON('{\"A\":1}').nosuch")
	add("fromJSON('{\"Ab\":{\"x\":1},\"aB\":{\"y\":true}}').ab.y")
	add("vars.some_var")
	for _, m := range matrix {
		add("matrix." + m)
		add("matrix['" + m + "']")
		if m == "cfg_obj" {
			add("matrix.cfg_obj.image")
			add("matrix.cfg_obj['tag_x']")
			add("matrix.cfg_obj.nosuch_prop")
			add("matrix.cfg_obj.image")
		}
	}
	add("matrix.nosuch_key")
	for _, id := range stepIDs {
		add("steps." + id + ".outcome")
		add("steps." + id + ".conclusion == 'success'")
		for _, o := range steps[id] {
			add("steps." + id + ".outputs." + o)
			add("steps['" + id + "'].outputs['" + o + "']")
		}
		add("steps." + id + ".outputs.nosuch_output")
	}
	add("steps.nosuch_step.outputs.x")
	for _, n := range needs {
		add("needs." + n + ".result")
		for _, o := range g.jobOut[n] {
			add("needs." + n + ".outputs." + o)
		}
		add("needs." + n + ".outputs.nosuch_out")
	}
	add("needs.nosuch_job.result")
	for _, i := range g.dispatchIn {
		add("inputs." + i)
		add("github.event.inputs." + i)
	}
	for _, i := range g.callIn {
		add("inputs." + i)
	}
	add("inputs.nosuch_input")
	for _, s := range g.callSec {
		add("secrets." + s)
	}
	add("secrets.GITHUB_TOKEN")
	add("secrets.nosuch_secret")
	for _, e := range append(append([]string{}, g.topEnv...), envs...) {
		add("env." + e)
	}
	add("nosuch_context.x")
	add("nosuchfunc(1)")
	add("github.nosuch_prop")
	add("contains(1)")
	e := r.Pick(cands)
	if r.Chance(1, 4) {
		e = e + " || " + r.Pick(cands)
	}
	if r.Chance(1, 8) {
		e = "!(" + e + ")"
	}
	return e
}

func (g *wgen) gen() {
	d, r := g.d, g.r
	g.jobOut = map[string][]string{}
	// ---- local action
	actIn := g.pick(keyPool, 2+r.Intn(2))
	actReq := actIn[0]
	// inputs named like the special `with:` keys args / entrypoint (required: the step supplies them
	// through those keys, which are not ordinary inputs)
	special := map[string]bool{}
	for _, k := range []string{"args", "entrypoint"} {
		if r.Chance(1, 3) {
			actIn = append(actIn, k)
			special[k] = true
		}
	}
	actOut := g.pick(outPool, 1+r.Intn(2))
	d.w(fAction, "name: my\ndescription: local action\ninputs:\n")
	for _, k := range actIn {
		d.w(fAction, "  ")
		d.n(fAction, "local-action-input:def", k)
		if k == actReq || special[k] {
			d.w(fAction, ":\n    description: d\n    required: true\n")
		} else {
			d.w(fAction, ":\n    description: d\n    required: false\n    default: x\n")
		}
	}
	d.w(fAction, "outputs:\n")
	for _, k := range actOut {
		d.w(fAction, "  ")
		d.n(fAction, "local-action-output:def", k)
		d.w(fAction, ":\n    description: d\n    value: v\n")
	}
	d.w(fAction, "runs:\n  using: composite\n  steps:\n    - run: echo\n      shell: bash\n")
	// ---- reusable workflow
	ruIn := g.pick(keyPool, 1+r.Intn(2))
	ruSec := g.pick(secPool, 1+r.Intn(2))
	ruOut := g.pick(outPool, 1+r.Intn(2))
	d.w(fReusable, "on:\n  workflow_call:\n    inputs:\n")
	for i, k := range ruIn {
		d.w(fReusable, "      ")
		d.n(fReusable, "reusable-input:def", k)
		if i == 0 {
			d.w(fReusable, ":\n        type: string\n        required: true\n")
		} else if r.Chance(1, 2) {
			d.w(fReusable, ":\n") // declared by its key only
		} else {
			d.w(fReusable, ":\n        type: number\n        required: false\n")
		}
	}
	d.w(fReusable, "    secrets:\n")
	for i, k := range ruSec {
		d.w(fReusable, "      ")
		d.n(fReusable, "reusable-secret:def", k)
		if i == 0 {
			d.w(fReusable, ":\n        required: true\n")
		} else if r.Chance(1, 2) {
			d.w(fReusable, ":\n")
		} else {
			d.w(fReusable, ":\n        required: false\n")
		}
	}
	d.w(fReusable, "    outputs:\n")
	for _, k := range ruOut {
		d.w(fReusable, "      ")
		d.n(fReusable, "reusable-output:def", k)
		d.w(fReusable, ":\n        value: v\n")
	}
	d.w(fReusable, "jobs:\n  j:\n    runs-on: ubuntu-latest\n    steps:\n      - run: echo\n")

	// ---- the workflow
	f := fWorkflow
	d.w(f, "name: generated\non:\n  push:\n")
	if r.Chance(2, 3) {
		g.dispatchIn = g.pick(keyPool, 1+r.Intn(2))
		d.w(f, "  workflow_dispatch:\n    inputs:\n")
		for _, k := range g.dispatchIn {
			d.w(f, "      ")
			d.n(f, "dispatch-input:def", k)
			d.w(f, ":\n        description: d\n        type: string\n        default: x\n")
		}
	}
	nJobs := 2 + r.Intn(2)
	g.jobs = g.pick(jobPool, nJobs)
	for _, j := range g.jobs {
		g.jobOut[j] = g.pick(outPool, 1+r.Intn(2))
	}
	hasCall := r.Chance(2, 3)
	if hasCall {
		g.callIn = g.pick(keyPool, 1+r.Intn(2))
		g.callSec = g.pick(secPool, 1+r.Intn(2))
		d.w(f, "  workflow_call:\n    inputs:\n")
		for _, k := range g.callIn {
			d.w(f, "      ")
			d.n(f, "call-input:def", k)
			d.w(f, ":\n        type: string\n        required: false\n")
		}
		d.w(f, "    secrets:\n")
		for _, k := range g.callSec {
			d.w(f, "      ")
			d.n(f, "call-secret:def", k)
			d.w(f, ":\n        required: false\n")
		}
		d.w(f, "    outputs:\n")
		for i, k := range g.pick(outPool, 1+r.Intn(2)) {
			d.w(f, "      ")
			d.n(f, "call-output:def", k)
			d.w(f, ":\n        value: ")
			j := g.jobs[i%len(g.jobs)]
			o := g.jobOut[j][0]
			if r.Chance(1, 5) {
				o = "nosuch_out"
			}
			d.e(f, "jobs."+j+".outputs."+o)
			d.w(f, "\n")
		}
	}
	if r.Chance(2, 3) {
		g.topEnv = g.pick(envPool, 1+r.Intn(2))
		d.w(f, "env:\n")
		for _, k := range g.topEnv {
			d.w(f, "  ")
			d.n(f, "env-key:def", k)
			d.w(f, ": a\n")
		}
	}
	d.w(f, "jobs:\n")
	for ji, j := range g.jobs {
		d.w(f, "  ")
		d.n(f, "job-id:def", j)
		d.w(f, ":\n")
		var needs []string
		if ji > 0 {
			needs = g.pick(g.jobs[:ji], 1+r.Intn(ji))
			if r.Chance(1, 6) {
				needs = append(needs, j) // a job that needs itself (reported as a cycle; `needs.<itself>` is never defined)
			}
			bogus := r.Chance(1, 6)
			if r.Chance(1, 2) && len(needs) == 1 && !bogus {
				d.w(f, "    needs: ")
				d.n(f, "needs:use", needs[0])
				d.w(f, "\n")
			} else {
				d.w(f, "    needs: [")
				for i, n := range needs {
					if i > 0 {
						d.w(f, ", ")
					}
					d.n(f, "needs:use", n)
				}
				if bogus {
					d.w(f, ", ")
					d.n(f, "needs:use", "nosuch_job")
				}
				if r.Chance(1, 4) {
					// the same job listed twice (a duplicate whatever the letter case of either entry)
					d.w(f, ", ")
					d.n(f, "needs:use", needs[0])
				}
				d.w(f, "]\n")
			}
		}
		d.w(f, "    runs-on: ubuntu-latest\n")
		var matrix []string
		if r.Chance(2, 3) {
			matrix = g.pick(keyPool, 1+r.Intn(2))
			d.w(f, "    strategy:\n      matrix:\n")
			for _, m := range matrix {
				d.w(f, "        ")
				d.n(f, "matrix-key:def", m)
				d.w(f, ": [a, b]\n")
			}
			hasObj := r.Chance(1, 2)
			if hasObj {
				// a row whose values are mappings: their keys are names as well
				d.w(f, "        cfg_obj:\n")
				for _, v := range [][2]string{{"a", "b"}, {"c", "d"}} {
					d.w(f, "          - ")
					d.n(f, "matrix-objkey:def", "image")
					d.w(f, ": "+v[0]+"\n            ")
					d.n(f, "matrix-objkey:def", "tag_x")
					d.w(f, ": "+v[1]+"\n")
				}
			}
			if r.Chance(1, 2) {
				extra := r.Pick(keyPool)
				d.w(f, "        ")
				d.n(f, "matrix-keyword", "include")
				d.w(f, ":\n          - ")
				d.n(f, "matrix-key:def", matrix[0])
				d.w(f, ": a\n            ")
				dup := false
				for _, m := range matrix {
					if m == extra {
						dup = true
					}
				}
				if dup {
					extra = "inc_only"
				}
				d.n(f, "matrix-key:def", extra)
				d.w(f, ": 1\n")
				matrix = append(matrix, extra)
			}
			if r.Chance(1, 3) {
				d.w(f, "        ")
				d.n(f, "matrix-keyword", "exclude")
				d.w(f, ":\n          - ")
				d.n(f, "matrix-key:use", matrix[0])
				d.w(f, ": a\n")
				if r.Chance(1, 3) {
					d.w(f, "            ")
					d.n(f, "matrix-key:use", "nosuch_row")
					d.w(f, ": 1\n")
				}
				if hasObj {
					d.w(f, "          - cfg_obj:\n              ")
					d.n(f, "matrix-objkey:use", "image")
					d.w(f, ": a\n              ")
					d.n(f, "matrix-objkey:use", "tag_x")
					d.w(f, ": b\n")
				}
			} else if hasObj && r.Chance(1, 2) {
				d.w(f, "        ")
				d.n(f, "matrix-keyword", "exclude")
				d.w(f, ":\n          - cfg_obj:\n              ")
				d.n(f, "matrix-objkey:use", "image")
				d.w(f, ": c\n")
			}
			if hasObj {
				matrix = append(matrix, "cfg_obj")
			}
		}
		if r.Chance(1, 3) {
			d.w(f, "    services:\n      ")
			d.n(f, "service-id:def", "redis")
			d.w(f, ":\n        image: redis\n")
		}
		var jenv []string
		if r.Chance(1, 2) {
			jenv = g.pick(envPool, 1)
			d.w(f, "    env:\n      ")
			d.n(f, "env-key:def", jenv[0])
			d.w(f, ": ")
			d.e(f, g.stepExpr(j, needs, matrix, nil, nil, nil))
			d.w(f, "\n")
		}
		if r.Chance(1, 3) {
			d.w(f, "    if: ")
			d.bare(f, g.stepExpr(j, needs, nil, nil, nil, nil))
			d.w(f, "\n")
		}
		// steps
		steps := map[string][]string{}
		var stepIDs []string
		nSteps := 3 + r.Intn(3)
		var stepBuf []func()
		_ = stepBuf
		// outputs: come textually before steps but see all step ids: decide the steps first
		type stepPlan struct {
			kind int
			id   string
		}
		var plan []stepPlan
		twinDone := false
		ids := g.pick(stepPool, 3)
		for si := 0; si < nSteps; si++ {
			p := stepPlan{kind: r.Intn(7)}
			if p.kind == 6 && twinDone {
				p.kind = 3
			}
			if p.kind == 6 {
				twinDone = true
			}
			if r.Chance(1, 2) && len(ids) > 0 {
				p.id, ids = ids[0], ids[1:]
			}
			if si == 0 {
				p.kind = 1 // local action first so that its outputs can be used
				if p.id == "" && len(ids) > 0 {
					p.id, ids = ids[0], ids[1:]
				}
			}
			plan = append(plan, p)
		}
		allOut := map[string][]string{}
		var allIDs []string
		for _, p := range plan {
			if p.id == "" {
				continue
			}
			allIDs = append(allIDs, p.id)
			if p.kind == 1 {
				allOut[p.id] = actOut
			}
			if p.kind == 2 {
				allOut[p.id] = []string{"cache-hit"}
			}
		}
		d.w(f, "    outputs:\n")
		for _, o := range g.jobOut[j] {
			d.w(f, "      ")
			d.n(f, "job-output:def", o)
			d.w(f, ": ")
			d.e(f, g.stepExpr(j, needs, matrix, allOut, allIDs, jenv))
			d.w(f, "\n")
		}
		d.w(f, "    steps:\n")
		for _, p := range plan {
			first := true
			line := func(s string) {
				if first {
					d.w(f, "      - ")
					first = false
				} else {
					d.w(f, "        ")
				}
				d.w(f, s)
			}
			if p.id != "" {
				line("id: ")
				d.n(f, "step-id:def", p.id)
				d.w(f, "\n")
			}
			switch p.kind {
			case 0: // bundled popular action
				line("uses: actions/checkout@v4\n")
				line("with:\n")
				ks := pickSome(r, []string{"fetch-depth", "ref", "token", "path", "submodules"}, 1+r.Intn(2))
				if r.Chance(1, 5) {
					ks = append(ks, "nosuch_input")
				}
				for _, k := range ks {
					d.w(f, "          ")
					d.n(f, "popular-action-input:use", k)
					d.w(f, ": ")
					d.e(f, g.stepExpr(j, needs, matrix, steps, stepIDs, jenv))
					d.w(f, "\n")
				}
			case 1: // local action
				line("uses: ./.github/actions/my\n")
				line("with:\n")
				ks := append([]string{}, actIn[:1+r.Intn(len(actIn))]...)
				if r.Chance(1, 6) {
					ks = ks[1:] // required input missing
				}
				if r.Chance(1, 6) {
					ks = append(ks, "nosuch_input")
				}
				if len(ks) == 0 {
					ks = []string{actIn[len(actIn)-1]}
				}
				for _, k := range actIn {
					has := false
					for _, x := range ks {
						has = has || x == k
					}
					if (k == "args" || k == "entrypoint") && !has && r.Chance(4, 5) {
						ks = append(ks, k)
					}
				}
				for _, k := range ks {
					d.w(f, "          ")
					d.n(f, "local-action-input:use", k)
					d.w(f, ": ")
					d.e(f, g.stepExpr(j, needs, matrix, steps, stepIDs, jenv))
					d.w(f, "\n")
				}
			case 2: // bundled popular actions: setup-node, or cache (which declares outputs)
				if p.id != "" {
					line("uses: actions/cache@v4\n")
					line("with:\n")
					for _, k := range []string{"path", "key"} {
						d.w(f, "          ")
						d.n(f, "popular-action-input:use", k)
						d.w(f, ": k\n")
					}
				} else {
					line("uses: actions/setup-node@v4\n")
					line("with:\n")
					d.w(f, "          ")
					d.n(f, "popular-action-input:use", "node-version")
					d.w(f, ": 20\n")
				}
			case 5: // the script of actions/github-script is checked for untrusted inputs like a run: script
				line("uses: actions/github-script@v7\n")
				line("with:\n")
				d.w(f, "          ")
				d.n(f, "popular-action-input:use", "script")
				d.w(f, ": console.log('")
				d.e(f, r.Pick([]string{"github.event.pull_request.title", "github.head_ref", "github.event.issue.body"}))
				d.w(f, "')\n")
				if r.Chance(1, 2) {
					d.w(f, "          ")
					d.n(f, "popular-action-input:use", "github-token")
					d.w(f, ": ")
					d.e(f, "secrets.GITHUB_TOKEN")
					d.w(f, "\n")
				}
			case 6: // two more steps whose ids are built with a placeholder and are the same id
				if p.id == "" {
					ph := r.Pick([]string{"github.job", "runner.os"})
					for _, pre := range []string{"twin", "twin"} {
						d.w(f, "      - id: ")
						d.n(f, "step-id:def", pre)
						d.w(f, "-")
						d.e(f, ph)
						d.w(f, "\n        run: echo\n")
					}
					first = false
					break
				}
				fallthrough
			default:
				line("run: echo ")
				d.e(f, g.stepExpr(j, needs, matrix, steps, stepIDs, jenv))
				if r.Chance(1, 2) {
					// a script position always worth re-casing: an untrusted input reached through index literals
					d.w(f, " ")
					d.e(f, r.Pick([]string{"github.event['pull_request'].title", "github.event.pull_request['title']", "github['head_ref']", "github.event['comment']['body']",
						// an untrusted input passed to one of the calls that make it harmless, whatever the spelling of the function
						"contains(github.event.pull_request.title, 'x')", "startsWith(github.head_ref, 'a')", "endsWith(github.event.issue.title, 'z')"}))
				}
				d.w(f, "\n")
				if r.Chance(1, 2) {
					line("env:\n")
					d.w(f, "          ")
					k := r.Pick(envPool)
					d.n(f, "env-key:def", k)
					d.w(f, ": ")
					d.e(f, g.stepExpr(j, needs, matrix, steps, stepIDs, append(jenv, k)))
					d.w(f, "\n")
				}
				if r.Chance(1, 3) {
					line("if: ")
					d.bare(f, g.stepExpr(j, needs, matrix, steps, stepIDs, jenv))
					d.w(f, "\n")
				}
			}
			if p.id != "" {
				stepIDs = append(stepIDs, p.id)
				switch p.kind {
				case 1:
					steps[p.id] = actOut
				case 2:
					steps[p.id] = []string{"cache-hit"}
				default:
					steps[p.id] = nil
				}
			}
		}
		if ji == 0 || r.Chance(1, 3) {
			// an untrusted input passed to a call that makes it harmless (contains / startsWith /
			// endsWith in any spelling), next to one that does not (format)
			d.w(f, "      - run: echo ")
			d.e(f, r.Pick([]string{"contains(github.event.pull_request.title, 'x')", "startsWith(github.head_ref, 'a')", "endsWith(github.event.issue.title, 'z')"}))
			d.w(f, " ")
			d.e(f, "format('{0}', github.event.pull_request.body)")
			d.w(f, "\n")
		}
	}
	// a job that calls the local reusable workflow
	if r.Chance(3, 4) {
		d.w(f, "  ")
		d.n(f, "job-id:def", "call_it")
		d.w(f, ":\n    needs: ")
		d.n(f, "needs:use", g.jobs[0])
		d.w(f, "\n    uses: ./.github/workflows/reusable.yml\n    with:\n")
		ks := append([]string{}, ruIn...)
		if r.Chance(1, 6) {
			ks = ks[1:]
		}
		if r.Chance(1, 6) {
			ks = append(ks, "nosuch_input")
		}
		if len(ks) == 0 {
			ks = []string{"nosuch_input"}
		}
		for _, k := range ks {
			d.w(f, "      ")
			d.n(f, "reusable-input:use", k)
			d.w(f, ": ")
			if k == ruIn[0] || k == "nosuch_input" {
				d.e(f, "needs."+g.jobs[0]+".outputs."+g.jobOut[g.jobs[0]][0])
			} else if r.Chance(1, 2) {
				// a value whose type does not fit the declared type of the input (when it has one)
				d.e(f, "github.sha")
			} else {
				d.w(f, "1")
			}
			d.w(f, "\n")
		}
		d.w(f, "    secrets:\n")
		ss := append([]string{}, ruSec...)
		if r.Chance(1, 6) {
			ss = append(ss, "nosuch_secret")
		}
		for _, k := range ss {
			d.w(f, "      ")
			d.n(f, "reusable-secret:use", k)
			d.w(f, ": ")
			d.e(f, "secrets.GITHUB_TOKEN")
			d.w(f, "\n")
		}
		// a job that reads the outputs of the call
		d.w(f, "  ")
		d.n(f, "job-id:def", "after_call")
		d.w(f, ":\n    needs: [")
		d.n(f, "needs:use", "call_it")
		d.w(f, "]\n    runs-on: ubuntu-latest\n    steps:\n      - run: echo ")
		d.e(f, "needs.call_it.outputs."+ruOut[0])
		d.w(f, " ")
		d.e(f, "needs.call_it.outputs.nosuch_out")
		d.w(f, "\n")
	}
}

// ---- linting -------------------------------------------------------------------------------

type lintDiag struct {
	Line, Col int
	Kind, Msg string
}

func lintFiles(root string, text [nFiles][]byte) ([]lintDiag, error) {
	for i, fn := range fileNames {
		p := filepath.Join(root, fn)
		if err := os.WriteFile(p, text[i], 0o644); err != nil {
			return nil, err
		}
	}
	l, err := actionlint.NewLinter(io.Discard, &actionlint.LinterOptions{Shellcheck: "", Pyflakes: ""})
	if err != nil {
		return nil, err
	}
	// the project is given explicitly (project detection wants a .git next to .github/workflows)
	proj, err := actionlint.NewProject(root)
	if err != nil {
		return nil, err
	}
	wf := filepath.Join(root, fileNames[fWorkflow])
	errs, err := l.Lint(wf, text[fWorkflow], proj)
	if err != nil {
		return nil, err
	}
	out := make([]lintDiag, 0, len(errs))
	for _, e := range errs {
		out = append(out, lintDiag{e.Line, e.Column, e.Kind, e.Message})
	}
	// the same workflow once more in a multi-file run in which the called reusable workflow comes
	// first: its interface is then taken from the in-memory AST instead of a re-parse of the file
	l2, err := actionlint.NewLinter(io.Discard, &actionlint.LinterOptions{Shellcheck: "", Pyflakes: ""})
	if err != nil {
		return nil, err
	}
	errs2, err := l2.LintFiles([]string{filepath.Join(root, fileNames[fReusable]), wf}, proj)
	if err != nil {
		return nil, err
	}
	for _, e := range errs2 {
		if strings.HasSuffix(filepath.ToSlash(e.Filepath), "workflows/w.yml") {
			out = append(out, lintDiag{e.Line + 100000, e.Column, e.Kind, e.Message})
		}
	}
	return out, nil
}

// quotedList: a run of two or more quoted items separated by ", " (the lists of names the
// messages echo: "available inputs are ...").  The implementation sorts such lists by the spelling as
// written, so the *order* of the echoed spellings follows their case; the items are sorted again after
// lower-casing (the set of echoed names is compared, their order is not).
var quotedList = regexp.MustCompile(`"[^"]*"(, "[^"]*")+`)

func canonMsg(m string) string {
	return quotedList.ReplaceAllStringFunc(asciiLower(m), func(l string) string {
		items := strings.Split(l, ", ")
		sort.Strings(items)
		return strings.Join(items, ", ")
	})
}

// canon: the observable of the property: multiset of (line, col, kind, lower-cased message)
func canon(ds []lintDiag) []string {
	out := make([]string, len(ds))
	for i, d := range ds {
		out[i] = fmt.Sprintf("%d:%d [%s] %s", d.Line, d.Col, d.Kind, canonMsg(d.Msg))
	}
	sort.Strings(out)
	return out
}

func sameObs(a, b []string) bool {
	if len(a) != len(b) {
		return false
	}
	for i := range a {
		if a[i] != b[i] {
			return false
		}
	}
	return true
}

type change struct {
	Occ  int    `json:"occurrence"`
	File string `json:"file"`
	Kind string `json:"kind"`
	From string `json:"from"`
	To   string `json:"to"`
	Line int    `json:"line"`
	Off  int    `json:"offset"`
}

func applyChanges(d *doc, picks map[int]string) ([nFiles][]byte, []change) {
	var out [nFiles][]byte
	for i := range out {
		out[i] = append([]byte{}, d.text[i]...)
	}
	var cs []change
	idx := make([]int, 0, len(picks))
	for i := range picks {
		idx = append(idx, i)
	}
	sort.Ints(idx)
	for _, i := range idx {
		o := d.occs[i]
		to := picks[i]
		from := string(d.text[o.file][o.start:o.end])
		copy(out[o.file][o.start:o.end], to)
		kind := occKindNames[o.kind]
		if o.what != "" {
			kind = o.what
		}
		cs = append(cs, change{i, fileNames[o.file], kind, from, to, 1 + strings.Count(string(d.text[o.file][:o.start]), "\n"), o.start})
	}
	return out, cs
}

// validVariant: a re-casing must not make two keys of one JSON object identical (that would drop
// an entry of the document, not re-case it)
func jsonStillDistinct(d *doc, text [nFiles][]byte) bool {
	for _, o := range d.occs {
		if o.kind != occJSONKey {
			continue
		}
		// the JSON literal around this key: from the preceding ' to the following '
		t := text[o.file]
		s, e := o.start, o.end
		for s > 0 && t[s-1] != '\'' {
			s--
		}
		for e < len(t) && t[e] != '\'' {
			e++
		}
		if jsonDupKeys(string(t[s:e])) {
			return false
		}
	}
	return true
}

type wfail struct {
	What    string            `json:"what"`
	Key     string            `json:"key"`
	Files   map[string]string `json:"files"`
	Changes []change          `json:"changes"`
	Before  []string          `json:"diagnostics_original"`
	After   []string          `json:"diagnostics_variant"`
}

func filesMap(t [nFiles][]byte) map[string]string {
	m := map[string]string{}
	for i, fn := range fileNames {
		m[fn] = string(t[i])
	}
	return m
}

func diffObs(a, b []string) (onlyA, onlyB []string) {
	ma := map[string]int{}
	for _, x := range a {
		ma[x]++
	}
	for _, x := range b {
		if ma[x] > 0 {
			ma[x]--
		} else {
			onlyB = append(onlyB, x)
		}
	}
	for x, n := range ma {
		for i := 0; i < n; i++ {
			onlyA = append(onlyA, x)
		}
	}
	sort.Strings(onlyA)
	return
}

// shrink: drop changes one by one while the variant still differs
func shrink(root string, d *doc, picks map[int]string, base []string) map[int]string {
	cur := map[int]string{}
	for k, v := range picks {
		cur[k] = v
	}
	keys := make([]int, 0, len(cur))
	for k := range cur {
		keys = append(keys, k)
	}
	sort.Ints(keys)
	for _, k := range keys {
		if len(cur) == 1 {
			break
		}
		v := cur[k]
		delete(cur, k)
		t, _ := applyChanges(d, cur)
		ds, err := lintFiles(root, t)
		if err == nil && !sameObs(canon(ds), base) {
			continue // still failing without k
		}
		cur[k] = v
	}
	return cur
}

func main() {
	seed := flag.Int("seed", 1, "seed")
	nW := flag.Int("n", 1500, "number of positive workflow variants (stream W)")
	nE := flag.Int("ne", 600, "number of expression pairs for the model side of K (stream E)")
	out := flag.String("out", ".", "output directory")
	tier := flag.String("tier", "quick", "quick|thorough")
	replay := flag.String("replay", "", "replay file")
	flag.Parse()
	allContexts = append([]string{"jobs"}, hx.SortedKeys(actionlint.BuiltinGlobalVariableTypes)...)
	allSpecial = hx.SortedKeys(actionlint.SpecialFunctionNames)

	root, err0 := filepath.Abs(filepath.Join(*out, "proj"))
	hx.Must(err0)
	for _, fn := range fileNames {
		hx.Must(os.MkdirAll(filepath.Dir(filepath.Join(root, fn)), 0o755))
	}
	if *replay != "" {
		os.Exit(doReplay(root, *replay))
	}
	r := hx.NewRng(uint64(*seed)*0x2545F4914F6CDD1D + 0x9E3779B9)
	sum := hx.NewSummary("C08")
	sum.Rule = "W: generated workflow (+ local action + local reusable workflow) x re-casings of name occurrences (every single occurrence, random subsets; definition and use sites independently; upper/lower/mixed), original and variant linted through NewLinter+Lint, multiset of (line, col, kind, lower-cased message) must be identical; negative stream: keywords and ordinary string literals re-cased, verdict may change (measured); E: (environment, expression) x re-casings through ExprSemanticsChecker.Check (must agree) and through the Coq model (run_c08); non-trivial = the original has at least one diagnostic; distinct = distinct (name kind, case form) x diagnostic kinds"
	thorough := *tier == "thorough"

	// ------------------------------------------------------------------ stream W
	variants, negVariants, negChanged, nontrivial, workflows := 0, 0, 0, 0, 0
	distinct := map[string]bool{}
	subsetsPer := 15
	if thorough {
		subsetsPer = 60
	}
	for variants < *nW {
		d := &doc{r: r}
		g := &wgen{d: d, r: r}
		g.gen()
		base, err := lintFiles(root, d.text)
		if err != nil {
			fmt.Fprintln(os.Stderr, "lint of the generated workflow failed:", err)
			os.Exit(2)
		}
		workflows++
		baseObs := canon(base)
		for _, x := range base {
			sum.Dist["diag-kind:"+x.Kind]++
			if x.Kind == "syntax-check" && strings.Contains(x.Msg, "could not parse as YAML") {
				fmt.Fprintln(os.Stderr, "generator produced invalid YAML:\n"+string(d.text[fWorkflow]))
				os.Exit(2)
			}
		}
		if len(sum.Samples) < 3 {
			sum.Samples = append(sum.Samples, map[string]interface{}{"files": filesMap(d.text), "diagnostics": baseObs, "occurrences": len(d.occs)})
		}
		var pos, neg []int
		for i, o := range d.occs {
			if !hasLetters(string(d.text[o.file][o.start:o.end])) {
				continue
			}
			if o.positive() {
				pos = append(pos, i)
			} else {
				neg = append(neg, i)
			}
		}
		try := func(picks map[int]string, positive bool, form string) {
			t, cs := applyChanges(d, picks)
			if positive && !jsonStillDistinct(d, t) {
				sum.Dist["skipped:json-keys-became-identical"]++
				return
			}
			ds, err := lintFiles(root, t)
			if err != nil {
				fmt.Fprintln(os.Stderr, "lint failed:", err)
				os.Exit(2)
			}
			obs := canon(ds)
			same := sameObs(obs, baseObs)
			if !positive {
				negVariants++
				if !same {
					negChanged++
					for _, c := range cs {
						sum.Dist["negative-changed:"+c.Kind]++
					}
				}
				return
			}
			variants++
			if len(base) > 0 {
				nontrivial++
			}
			for _, c := range cs {
				sum.Dist["recased:"+c.Kind]++
				distinct[c.Kind+"/"+form] = true
			}
			if !same {
				small := shrink(root, d, picks, baseObs)
				t2, cs2 := applyChanges(d, small)
				ds2, _ := lintFiles(root, t2)
				onlyA, onlyB := diffObs(baseObs, canon(ds2))
				var kinds []string
				for _, c := range cs2 {
					kinds = append(kinds, c.Kind+":"+asciiLower(c.From))
				}
				sort.Strings(kinds)
				what := "re-casing name occurrences changed the diagnostics"
				first := ""
				if len(onlyA) > 0 {
					first = "lost: " + onlyA[0]
				} else if len(onlyB) > 0 {
					first = "new: " + onlyB[0]
				}
				if i := strings.Index(first, "] "); i >= 0 && len(first) > i+60 {
					first = first[:i+60]
				}
				key := "W | " + strings.Join(kinds, ",") + " | " + stripPos(first)
				sum.OracleFails = append(sum.OracleFails, wfail{What: what, Key: key, Files: filesMap(d.text), Changes: cs2, Before: onlyA, After: onlyB})
			}
		}
		// every single occurrence: quick = one random form (+ the other for every 3rd), thorough = all three forms
		for _, i := range pos {
			o := d.occs[i]
			from := string(d.text[o.file][o.start:o.end])
			forms := []int{0, 1, 2}
			if !thorough {
				forms = []int{[]int{0, 2}[r.Intn(2)]}
				if asciiLower(from) != from {
					forms = append(forms, 1)
				}
			}
			for _, m := range forms {
				to := recaseBytes(r, from, m)
				if to == from {
					continue
				}
				try(map[int]string{i: to}, true, []string{"upper", "lower", "mixed"}[m])
			}
		}
		// random subsets
		for s := 0; s < subsetsPer && len(pos) > 0; s++ {
			picks := map[int]string{}
			den := []int{2, 4, 10}[r.Intn(3)]
			for _, i := range pos {
				if !r.Chance(1, den) {
					continue
				}
				o := d.occs[i]
				from := string(d.text[o.file][o.start:o.end])
				to := recaseBytes(r, from, r.Intn(3))
				if to != from {
					picks[i] = to
				}
			}
			if len(picks) > 0 {
				try(picks, true, "subset")
			}
		}
		// negative stream: keywords and ordinary string literals
		for _, i := range neg {
			if !thorough && !r.Chance(1, 2) {
				continue
			}
			o := d.occs[i]
			from := string(d.text[o.file][o.start:o.end])
			to := recaseBytes(r, from, []int{0, 2}[r.Intn(2)])
			if to != from {
				try(map[int]string{i: to}, false, "")
			}
		}
	}
	// keyword look-alikes as matrix values: "the keywords true/false/null stay case-sensitive", so a
	// matrix value spelled TRUE / True / t / F / NULL ... is an ordinary string and must be typed
	// exactly like any other string value (zzz); only the exact lower-case spellings are keywords.
	{
		wfOf := func(v string) [nFiles][]byte {
			var t [nFiles][]byte
			t[fWorkflow] = []byte("on: push\njobs:\n  a:\n    runs-on: ubuntu-latest\n    strategy:\n      matrix:\n        flag: [" + v + "]\n        include:\n          - other: " + v + "\n    steps:\n" +
				"      - run: echo ${{ matrix.flag.prop }} ${{ matrix.other.prop }}\n      - run: echo ${{ startsWith(matrix.flag, 'T') && contains(matrix.other, 'x') }}\n        if: matrix.flag\n")
			t[fAction] = []byte("name: my\ndescription: d\nruns:\n  using: composite\n  steps:\n    - run: echo\n      shell: bash\n")
			t[fReusable] = []byte("on:\n  workflow_call:\njobs:\n  j:\n    runs-on: ubuntu-latest\n    steps:\n      - run: echo\n")
			return t
		}
		refOf := func(n int) string { return strings.Repeat("z", n) }
		refObsOf := func(n int) []string {
			ds, err := lintFiles(root, wfOf(refOf(n)))
			hx.Must(err)
			return canon(ds)
		}
		refObs := refObsOf(3)
		kw := map[string][]string{}
		for _, k := range []string{"true", "false", "null"} {
			ds, err := lintFiles(root, wfOf(k))
			hx.Must(err)
			kw[k] = canon(ds)
		}
		for _, v := range []string{"TRUE", "True", "tRUE", "FALSE", "False", "NULL", "Null", "t", "T", "f", "F", "nil", "yes", "no", "on", "off"} {
			ds, err := lintFiles(root, wfOf(v))
			hx.Must(err)
			sum.Evaluations++
			sum.Dist["W:keyword-lookalike-values"]++
			want := refObsOf(len(v))
			if got := canon(ds); !sameObs(got, want) {
				// replayable like a re-casing: the original has the string value zz..z, the variant the look-alike
				orig := wfOf(refOf(len(v)))
				var chs []change
				text := string(orig[fWorkflow])
				for off := 0; ; {
					i := strings.Index(text[off:], refOf(len(v)))
					if i < 0 {
						break
					}
					chs = append(chs, change{File: fileNames[fWorkflow], Off: off + i, From: refOf(len(v)), To: v, Kind: "keyword-lookalike-value"})
					off += i + len(v)
				}
				sum.OracleFails = append(sum.OracleFails, map[string]interface{}{
					"what": "a matrix value that is not exactly the keyword true/false/null (the keywords are case-sensitive) is not treated like an ordinary string value of the same length",
					"key":  "keyword-lookalike:" + v, "value": v, "files": filesMap(orig), "changes": chs})
			}
		}
		// the same for JSON texts handed to fromJSON: TRUE / False / NULL are not JSON, exactly like zzzz
		jsonOf := func(v string) [nFiles][]byte {
			t := wfOf("x")
			t[fWorkflow] = []byte("on: push\njobs:\n  a:\n    runs-on: ubuntu-latest\n    steps:\n      - run: echo ${{ fromJSON('" + v + "') }}\n      - run: echo ${{ fromJSON('[" + v + "]')[0] }} ${{ fromJSON('{\"k\":" + v + "}').k }}\n")
			return t
		}
		jcanon := func(ds []lintDiag) []string {
			var out []string
			for _, x := range canon(ds) {
				if i := strings.Index(x, "fromjson()"); i >= 0 {
					x = x[:i+len("fromjson()")] // the JSON decoder's own wording names the offending character
				}
				out = append(out, x)
			}
			return out
		}
		for _, v := range []string{"TRUE", "True", "FALSE", "False", "NULL", "Null", "nil", "NaN", "Infinity"} {
			ds, err := lintFiles(root, jsonOf(v))
			hx.Must(err)
			ref, err := lintFiles(root, jsonOf(refOf(len(v))))
			hx.Must(err)
			sum.Evaluations++
			sum.Dist["W:keyword-lookalike-json"]++
			if got, want := jcanon(ds), jcanon(ref); !sameObs(got, want) || len(want) == 0 {
				onlyA, onlyB := diffObs(want, got)
				sum.OracleFails = append(sum.OracleFails, map[string]interface{}{
					"what": "a JSON text that is not exactly true/false/null (JSON keywords are case-sensitive) is not rejected by fromJSON like any other broken JSON text",
					"key":  "keyword-lookalike-json:" + v, "value": v, "files": filesMap(jsonOf(v)), "only_with_zz": onlyA, "only_with_value": onlyB})
			}
		}
		// measured: the exact keywords DO differ from a string value
		for k, o := range kw {
			if !sameObs(o, refObs) {
				sum.Dist["W:keyword-value-differs-from-string:"+k]++
			}
		}
	}
	sum.Dist["W:workflows"] = workflows
	sum.Dist["W:positive-variants"] = variants
	sum.Dist["W:negative-variants"] = negVariants
	sum.Dist["W:negative-variants-verdict-changed"] = negChanged
	sum.Extra["negative_variants"] = negVariants
	sum.Extra["negative_changed"] = negChanged

	// ------------------------------------------------------------------ stream P
	runPairs(root, sum)

	// ------------------------------------------------------------------ stream E
	cases, err := os.Create(filepath.Join(*out, "cases.txt"))
	hx.Must(err)
	defer cases.Close()
	srcs, err := os.Create(filepath.Join(*out, "sources.jsonl"))
	hx.Must(err)
	defer srcs.Close()
	emitted, epairs, tainted, dumpFail := 0, 0, 0, 0
	for emitted < *nE {
		env := genEnv(r)
		g := &egen{r: r, vars: effective(env)}
		g.names = hx.SortedKeys(g.vars)
		for s := range env.Slots {
			if s == "dispatch" {
				s = "inputs"
			}
			g.names = append(g.names, s, s)
		}
		sort.Strings(g.names)
		for j := 0; j < 4 && emitted < *nE; j++ {
			src := g.expr(1 + r.Intn(4))
			node, perr := parse(src)
			if perr != nil {
				continue
			}
			occs, lerr := exprOccs(src)
			if lerr != nil {
				continue
			}
			var pos []int
			for i, o := range occs {
				if o.positive() && hasLetters(src[o.start:o.end]) {
					pos = append(pos, i)
				}
			}
			if len(pos) == 0 {
				continue
			}
			res := runImpl(env, node)
			if res.tainted {
				tainted++
				continue
			}
			// two variants per expression: one single occurrence, one subset
			for v := 0; v < 2 && emitted < *nE; v++ {
				b := []byte(src)
				namesOnly := true
				var changed []string
				for _, i := range pos {
					if v == 0 && i != pos[r.Intn(len(pos))] {
						continue
					}
					if v == 1 && !r.Chance(1, 2) {
						continue
					}
					o := occs[i]
					to := recaseBytes(r, src[o.start:o.end], r.Intn(3))
					if to == src[o.start:o.end] {
						continue
					}
					copy(b[o.start:o.end], to)
					if o.kind == occJSONKey {
						namesOnly = false
					}
					changed = append(changed, occKindNames[o.kind])
				}
				src2 := string(b)
				if src2 == src {
					continue
				}
				// JSON keys must stay distinct inside each literal
				bad := false
				for _, o := range occs {
					if o.kind == occJSONKey {
						s, e := o.start, o.end
						for s > 0 && b[s-1] != '\'' {
							s--
						}
						for e < len(b) && b[e] != '\'' {
							e++
						}
						if jsonDupKeys(string(b[s:e])) {
							bad = true
						}
					}
				}
				if bad {
					continue
				}
				node2, perr2 := parse(src2)
				if perr2 != nil {
					sum.OracleFails = append(sum.OracleFails, map[string]interface{}{"what": "a re-cased expression no longer parses", "key": "E | parse | " + src + " => " + src2, "expr": src, "variant": src2})
					continue
				}
				res2 := runImpl(env, node2)
				if res2.tainted {
					tainted++
					continue
				}
				epairs++
				for _, c := range changed {
					sum.Dist["E:recased:"+c]++
				}
				if len(res.diags) > 0 {
					sum.Dist["E:pairs-with-diagnostics"]++
				}
				lm := func(ms []string) []string {
					o := make([]string, len(ms))
					for i, m := range ms {
						o[i] = asciiLower(m)
					}
					return o
				}
				if fmt.Sprint(res.diags) != fmt.Sprint(res2.diags) || fmt.Sprint(lm(res.msgs)) != fmt.Sprint(lm(res2.msgs)) || asciiLower(res.ty.String()) != asciiLower(res2.ty.String()) {
					sum.OracleFails = append(sum.OracleFails, map[string]interface{}{"what": "ExprSemanticsChecker.Check: re-casing name occurrences of the expression changed the result",
						"key": "E | " + strings.Join(changed, ",") + " | " + src + " => " + src2, "expr": src, "variant": src2, "slots": env.Slots,
						"diagnostics_original": res.msgs, "diagnostics_variant": res2.msgs, "type_original": res.ty.String(), "type_variant": res2.ty.String()})
				}
				e1, ok1, why1 := coqExprRaw(src, node)
				e2, ok2, why2 := coqExprRaw(src2, node2)
				if !ok1 || !ok2 {
					dumpFail++
					sum.OracleFails = append(sum.OracleFails, map[string]interface{}{"what": "the parser does not lower-case exactly variable and property names: " + why1 + why2,
						"key": "E | parser-fold | " + src, "expr": src, "variant": src2})
					continue
				}
				ds := make([]string, len(res.diags))
				for i, x := range res.diags {
					ds[i] = fmt.Sprintf("D %d %d %d", x.Line, x.Col, x.Class)
				}
				fmt.Fprintf(cases, "(RC (KC %s %s %s %s) %s %s %s, %s)\n", coqUpdates(env), coqCfg(env), jsonOracle(node, node2), e1, e2, res.ty.coq(), hx.CoqBool(namesOnly), hx.CoqList(ds))
				bj, _ := json.Marshal(map[string]interface{}{"expr": src, "variant": src2, "slots": env.Slots, "config": env.Config, "has_config": env.HasCfg, "diags": res.diags, "msgs": res.msgs, "type": res.ty.String(), "names_only": namesOnly})
				fmt.Fprintln(srcs, string(bj))
				emitted++
			}
		}
	}
	sum.Dist["E:pairs"] = epairs
	sum.Dist["E:tainted_by_deref_mutation_not_compared"] = tainted
	sum.Evaluations = variants + negVariants + 2*epairs + workflows
	sum.Nontrivial = len(distinct)
	sum.Extra["k_cases"] = emitted
	sum.Extra["positive_variants"] = variants
	sum.Extra["positive_variants_with_diagnostics"] = nontrivial
	if len(sum.OracleFails) > 40 {
		sum.Extra["oracle_failures_total"] = len(sum.OracleFails)
		sum.OracleFails = sum.OracleFails[:40]
	}
	sum.Write(filepath.Join(*out, "summary.json"))
}

// stripPos removes "line:col " from the head of an observable line (keys must not depend on where
// the generator happened to put the construct)
func stripPos(s string) string {
	i := strings.Index(s, " [")
	j := strings.Index(s, ": ")
	if i >= 0 && j >= 0 && j < i {
		return s[:j+2] + s[i+1:]
	}
	return s
}

func doReplay(root, path string) int {
	b, err := os.ReadFile(path)
	hx.Must(err)
	if ok, rc := replayPair(root, b); ok {
		return rc
	}
	var f struct {
		Files   map[string]string `json:"files"`
		Changes []change          `json:"changes"`
		Expr    string            `json:"expr"`
		Variant string            `json:"variant"`
		Slots   map[string]*T     `json:"slots"`
	}
	hx.Must(json.Unmarshal(b, &f))
	if f.Expr != "" {
		env := &genv{Slots: f.Slots}
		rc := 0
		for _, s := range []string{f.Expr, f.Variant} {
			n, err := parse(s)
			if err != nil {
				fmt.Println(s, "=> parse error:", err)
				rc = 1
				continue
			}
			res := runImpl(env, n)
			fmt.Printf("%s\n  type %s\n", s, res.ty.String())
			for _, m := range res.msgs {
				fmt.Println("  ", m)
			}
		}
		return rc
	}
	var orig, vari [nFiles][]byte
	for i, fn := range fileNames {
		orig[i] = []byte(f.Files[fn])
		vari[i] = []byte(f.Files[fn])
	}
	for _, c := range f.Changes {
		for i, fn := range fileNames {
			if fn != c.File {
				continue
			}
			if c.Off+len(c.To) <= len(vari[i]) && string(vari[i][c.Off:c.Off+len(c.From)]) == c.From {
				copy(vari[i][c.Off:], c.To)
			} else {
				fmt.Println("replay file inconsistent: change does not apply:", c)
				return 2
			}
		}
	}
	d0, err := lintFiles(root, orig)
	hx.Must(err)
	d1, err := lintFiles(root, vari)
	hx.Must(err)
	a, bb := canon(d0), canon(d1)
	onlyA, onlyB := diffObs(a, bb)
	fmt.Printf("changes: %+v\n", f.Changes)
	fmt.Println("only in the original:")
	for _, x := range onlyA {
		fmt.Println("  ", x)
	}
	fmt.Println("only in the variant:")
	for _, x := range onlyB {
		fmt.Println("  ", x)
	}
	if sameObs(a, bb) {
		fmt.Println("same diagnostics: the property holds on this input")
		return 0
	}
	fmt.Println("VIOLATION reproduced: the diagnostics differ")
	return 1
}
