package main

// Stream P: pairs of projects that differ in the letter case of ONE definition only, for the
// definition sites the re-casing of stream W does not reach: the `config-variables` list of
// actionlint.yaml (upper, lower and MIXED spellings), and names whose only capital letters are not
// ASCII (Ärger / ärger, Ключ / ключ). Both members are linted and must draw the same diagnostics
// (messages compared after lower-casing, Unicode-wise).

import (
	"encoding/json"
	"fmt"
	"io"
	"os"
	"path/filepath"
	"sort"
	"strings"

	"github.com/rhysd/actionlint"

	"verifharness/hx"
)

type pairMember struct {
	Workflow string `json:"workflow"`
	Config   string `json:"config,omitempty"`
	Action   string `json:"action,omitempty"`
	Reusable string `json:"reusable,omitempty"`
}

type pfail struct {
	What  string     `json:"what"`
	Key   string     `json:"key"`
	PairA pairMember `json:"pair_a"`
	PairB pairMember `json:"pair_b"`
	DiagA []string   `json:"diagnostics_a"`
	DiagB []string   `json:"diagnostics_b"`
}

func lintMember(root string, m pairMember) ([]string, error) {
	cfg := filepath.Join(root, ".github", "actionlint.yaml")
	os.Remove(cfg)
	if m.Config != "" {
		if err := os.WriteFile(cfg, []byte(m.Config), 0o644); err != nil {
			return nil, err
		}
		defer os.Remove(cfg)
	}
	act, reu := m.Action, m.Reusable
	if act == "" {
		act = "name: my\ndescription: d\nruns:\n  using: composite\n  steps:\n    - run: echo\n      shell: bash\n"
	}
	if reu == "" {
		reu = "on:\n  workflow_call:\njobs:\n  a:\n    runs-on: ubuntu-latest\n    steps:\n      - run: echo\n"
	}
	for fn, t := range map[string]string{fileNames[fWorkflow]: m.Workflow, fileNames[fAction]: act, fileNames[fReusable]: reu} {
		if err := os.WriteFile(filepath.Join(root, fn), []byte(t), 0o644); err != nil {
			return nil, err
		}
	}
	l, err := actionlint.NewLinter(io.Discard, &actionlint.LinterOptions{Shellcheck: "", Pyflakes: ""})
	if err != nil {
		return nil, err
	}
	proj, err := actionlint.NewProject(root)
	if err != nil {
		return nil, err
	}
	errs, err := l.Lint(filepath.Join(root, fileNames[fWorkflow]), []byte(m.Workflow), proj)
	if err != nil {
		return nil, err
	}
	var out []string
	for _, e := range errs {
		msg := quotedList.ReplaceAllStringFunc(strings.ToLower(e.Message), func(l string) string {
			items := strings.Split(l, ", ")
			sort.Strings(items)
			return strings.Join(items, ", ")
		})
		out = append(out, fmt.Sprintf("%d:%d [%s] %s", e.Line, e.Column, e.Kind, msg))
	}
	sort.Strings(out)
	return out, nil
}

type pairCase struct {
	name string
	a, b pairMember
}

func pairCases() []pairCase {
	var cs []pairCase
	hdr := "on: push\njobs:\n  a:\n    runs-on: ubuntu-latest\n    steps:\n"
	// config-variables: the spelling of the definition x the spelling of the use
	for _, def := range [][2]string{{"DEPLOY_ENV", "Deploy_Env"}, {"deploy_env", "deployEnv_X"}, {"Deploy_Env", "dEPLOY_eNV"}, {"API_URL", "Api_Url"}} {
		for _, use := range []string{"DEPLOY_ENV", "deploy_env", "Deploy_Env", "API_URL", "api_url", "Api_Url", "nosuch_var"} {
			wf := hdr + "      - run: echo ${{ vars." + use + " }}\n      - run: echo ${{ vars['" + use + "'] }}\n"
			cfg := func(n string) string {
				return "config-variables:\n  - OTHER\n  - " + n + "\n  - zz_last\n"
			}
			lo := strings.ToLower(def[1])
			cs = append(cs, pairCase{"config-variable:" + def[1] + ":" + use, pairMember{Workflow: wf, Config: cfg(strings.ToLower(def[0]))}, pairMember{Workflow: wf, Config: cfg(def[0])}},
				pairCase{"config-variable:" + def[1] + ":" + use, pairMember{Workflow: wf, Config: cfg(lo)}, pairMember{Workflow: wf, Config: cfg(def[1])}})
		}
	}
	// names whose only capital letter is not ASCII
	for _, nm := range [][2]string{{"ärger", "Ärger"}, {"ключ", "Ключ"}, {"élan-vital", "Élan-vital"}, {"x_ñu", "x_Ñu"}} {
		lo, up := nm[0], nm[1]
		sites := map[string]func(def, use string) pairMember{
			"dispatch-input": func(def, use string) pairMember {
				return pairMember{Workflow: "on:\n  workflow_dispatch:\n    inputs:\n      " + def + ":\n        type: string\njobs:\n  a:\n    runs-on: ubuntu-latest\n    steps:\n      - run: echo ${{ inputs['" + use + "'] }} ${{ github.event.inputs['" + use + "'] }}\n"}
			},
			"matrix-key": func(def, use string) pairMember {
				return pairMember{Workflow: "on: push\njobs:\n  a:\n    runs-on: ubuntu-latest\n    strategy:\n      matrix:\n        " + def + ": [1, 2]\n        include:\n          - " + use + ": 3\n    steps:\n      - run: echo ${{ matrix['" + use + "'] }}\n"}
			},
			"matrix-nested-key": func(def, use string) pairMember {
				return pairMember{Workflow: "on: push\njobs:\n  a:\n    runs-on: ubuntu-latest\n    strategy:\n      matrix:\n        cfg:\n          - {" + def + ": 1}\n    steps:\n      - run: echo ${{ matrix.cfg['" + use + "'] }}\n"}
			},
			"job-output": func(def, use string) pairMember {
				return pairMember{Workflow: "on: push\njobs:\n  a:\n    runs-on: ubuntu-latest\n    outputs:\n      " + def + ": x\n    steps:\n      - run: echo\n  b:\n    needs: a\n    runs-on: ubuntu-latest\n    steps:\n      - run: echo ${{ needs.a.outputs['" + use + "'] }}\n"}
			},
			"duplicate-env-key": func(def, use string) pairMember {
				return pairMember{Workflow: hdr + "      - run: echo\n        env:\n          " + def + ": a\n          " + use + ": b\n"}
			},
			"duplicate-with-key": func(def, use string) pairMember {
				return pairMember{Workflow: hdr + "      - uses: ./.github/actions/my\n        with:\n          " + def + ": a\n          " + use + ": b\n",
					Action: "name: my\ndescription: d\ninputs:\n  " + def + ":\n    description: d\nruns:\n  using: composite\n  steps:\n    - run: echo\n      shell: bash\n"}
			},
			"local-action-input": func(def, use string) pairMember {
				return pairMember{Workflow: hdr + "      - uses: ./.github/actions/my\n        with:\n          " + use + ": a\n",
					Action: "name: my\ndescription: d\ninputs:\n  " + def + ":\n    description: d\n    required: true\nruns:\n  using: composite\n  steps:\n    - run: echo\n      shell: bash\n"}
			},
			"reusable-workflow-input": func(def, use string) pairMember {
				return pairMember{Workflow: "on: push\njobs:\n  c:\n    uses: ./.github/workflows/reusable.yml\n    with:\n      " + use + ": a\n    secrets:\n      " + use + ": b\n",
					Reusable: "on:\n  workflow_call:\n    inputs:\n      " + def + ":\n        type: string\n        required: true\n    secrets:\n      " + def + ":\n        required: true\njobs:\n  a:\n    runs-on: ubuntu-latest\n    steps:\n      - run: echo ${{ inputs['" + use + "'] }}\n"}
			},
		}
		for _, sn := range hx.SortedKeys(sites) {
			f := sites[sn]
			// the definition re-cased (use fixed), the use re-cased (definition fixed)
			cs = append(cs, pairCase{sn + ":def:" + lo, f(lo, lo), f(up, lo)}, pairCase{sn + ":use:" + lo, f(lo, lo), f(lo, up)}, pairCase{sn + ":def-capital:" + lo, f(up, up), f(lo, up)})
		}
	}
	// ids whose first letter is the last of the alphabet; special functions in other letter cases at a
	// key where they are not allowed; the syntax keywords `args` / `entrypoint` of `with:`
	for _, nm := range [][2]string{{"zip", "Zip"}, {"zeta_1", "ZETA_1"}, {"z", "Z"}, {"a9", "A9"}} {
		lo, up := nm[0], nm[1]
		job := func(def, use string) pairMember {
			return pairMember{Workflow: "on: push\njobs:\n  " + def + ":\n    runs-on: ubuntu-latest\n    outputs:\n      o: x\n    steps:\n      - run: echo\n  other:\n    needs: [" + use + "]\n    runs-on: ubuntu-latest\n    steps:\n      - run: echo ${{ needs." + use + ".outputs.o }}\n"}
		}
		step := func(def, use string) pairMember {
			return pairMember{Workflow: hdr + "      - id: " + def + "\n        run: echo\n      - run: echo ${{ steps." + use + ".outcome }}\n"}
		}
		cs = append(cs, pairCase{"job-id-first-letter:def:" + lo, job(lo, lo), job(up, lo)}, pairCase{"job-id-first-letter:use:" + lo, job(lo, lo), job(lo, up)},
			pairCase{"step-id-first-letter:def:" + lo, step(lo, lo), step(up, lo)}, pairCase{"step-id-first-letter:use:" + lo, step(lo, lo), step(lo, up)})
	}
	// an input / secret of a local reusable workflow declared WITHOUT a body (`name:`), the callee
	// read from its file; ASCII names in several spellings
	for _, nm := range [][2]string{{"null_in", "Null_In"}, {"tok", "TOK"}, {"a-b", "A-b"}} {
		lo, up := nm[0], nm[1]
		f := func(def, use string) pairMember {
			return pairMember{Workflow: "on: push\njobs:\n  c:\n    uses: ./.github/workflows/reusable.yml\n    with:\n      " + use + ": a\n    secrets:\n      " + use + ": b\n",
				Reusable: "on:\n  workflow_call:\n    inputs:\n      " + def + ":\n      other:\n        type: string\n    secrets:\n      " + def + ":\njobs:\n  a:\n    runs-on: ubuntu-latest\n    steps:\n      - run: echo\n"}
		}
		cs = append(cs, pairCase{"reusable-null-body:def:" + lo, f(lo, lo), f(up, lo)}, pairCase{"reusable-null-body:use:" + lo, f(lo, lo), f(lo, up)}, pairCase{"reusable-null-body:both:" + lo, f(lo, lo), f(up, up)})
	}
	for _, fn := range [][2]string{{"always()", "Always()"}, {"success()", "SUCCESS()"}, {"failure()", "failurE()"}, {"cancelled()", "Cancelled()"}, {"hashfiles('x')", "HashFiles('x')"}, {"hashFiles('x')", "HASHFILES('x')"}} {
		at := func(e string) pairMember {
			return pairMember{Workflow: "on: push\nenv:\n  A: ${{ " + e + " }}\njobs:\n  a:\n    runs-on: ubuntu-latest\n    env:\n      B: ${{ " + e + " }}\n    steps:\n      - run: echo ${{ " + e + " }}\n        if: ${{ " + e + " }}\n"}
		}
		cs = append(cs, pairCase{"special-function:" + fn[0], at(fn[0]), at(fn[1])})
	}
	for _, kw := range [][2]string{{"args", "Args"}, {"entrypoint", "ENTRYPOINT"}, {"args", "ARGS"}, {"entrypoint", "entryPoint"}} {
		for _, uses := range []string{"actions/checkout@v4", "docker://alpine:3", "./.github/actions/my"} {
			w := func(k string) pairMember {
				return pairMember{Workflow: hdr + "      - uses: " + uses + "\n        with:\n          " + k + ": x\n"}
			}
			cs = append(cs, pairCase{"with-keyword:" + kw[1] + ":" + uses, w(kw[0]), w(kw[1])})
		}
	}
	return cs
}

func runPairs(root string, sum *hx.Summary) {
	for _, c := range pairCases() {
		da, err1 := lintMember(root, c.a)
		db, err2 := lintMember(root, c.b)
		sum.Evaluations += 2
		sum.Dist["pair:"+strings.SplitN(c.name, ":", 2)[0]]++
		if err1 != nil || err2 != nil {
			sum.OracleFails = append(sum.OracleFails, pfail{What: fmt.Sprintf("fatal error linting a pair member: %v %v", err1, err2), Key: "P | fatal | " + c.name, PairA: c.a, PairB: c.b})
			continue
		}
		if strings.Join(da, "\n") != strings.Join(db, "\n") {
			sum.OracleFails = append(sum.OracleFails, pfail{What: "two projects that differ in the letter case of one name only draw different diagnostics", Key: "P | " + c.name, PairA: c.a, PairB: c.b, DiagA: da, DiagB: db})
		}
	}
}

func replayPair(root string, b []byte) (bool, int) {
	var f pfail
	if json.Unmarshal(b, &f) != nil || f.PairA.Workflow == "" {
		return false, 0
	}
	da, err1 := lintMember(root, f.PairA)
	db, err2 := lintMember(root, f.PairB)
	fmt.Printf("member A:\n%s\nconfig A:\n%s\nmember B:\n%s\nconfig B:\n%s\n", f.PairA.Workflow, f.PairA.Config, f.PairB.Workflow, f.PairB.Config)
	fmt.Println("diagnostics A:", da, err1)
	fmt.Println("diagnostics B:", db, err2)
	if err1 == nil && err2 == nil && strings.Join(da, "\n") == strings.Join(db, "\n") {
		fmt.Println("same diagnostics: the property holds on this input")
		return true, 0
	}
	fmt.Println("VIOLATION reproduced: the diagnostics differ")
	return true, 1
}
