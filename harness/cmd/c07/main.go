// Command c07: correspondence and oracle harness for property C07
// (diagnostics point at the exact source position).
//
// A placement generator builds workflows with exactly one planted construct
// whose true position it knows (it finds a unique marker in the bytes of the
// file it rendered), lints them through actionlint.NewLinter + Lint, and
//   - oracle: compares the reported line:column of the planted diagnostic with
//     the planted truth, re-renders the same placement shifted by k columns /
//     k lines and demands the report moves by exactly k, and checks the
//     line/column bounds on every diagnostic;
//   - correspondence: dumps (site, scalar line, column, quoted, text, token
//     offset) as a Coq term together with the reported positions, for the model
//     coq/Expr/{PosModel,Template}.v; and (K1) dumps expression sources with the
//     real lexer's token (offset, line, column) triples for PosLex;
//   - hypothesis scalar_pos_exact: asserts on every planted scalar that
//     yaml.v3 reports the position of its first character and its source text.
package main

import (
	"encoding/json"
	"flag"
	"fmt"
	"io"
	"os"
	"path/filepath"
	"sort"
	"strings"

	"github.com/rhysd/actionlint"
	"gopkg.in/yaml.v3"

	"verifharness/hx"
)

// ---------------------------------------------------------------- YAML rendering

type ynode struct {
	kind  int // 0 scalar, 1 mapping, 2 sequence
	src   string
	keys  []string
	vals  []*ynode
	flow  bool
	gap   int // extra spaces in front of this node (after "key:" / "- " / "[" / ",")
	above int // comment lines directly above the line this node's key / item starts
}

func sc(s string) *ynode { return &ynode{kind: 0, src: s} }
func mp(kv ...interface{}) *ynode {
	n := &ynode{kind: 1}
	for i := 0; i+1 < len(kv); i += 2 {
		n.keys = append(n.keys, kv[i].(string))
		switch v := kv[i+1].(type) {
		case string:
			n.vals = append(n.vals, sc(v))
		case *ynode:
			n.vals = append(n.vals, v)
		}
	}
	return n
}
func sq(items ...interface{}) *ynode {
	n := &ynode{kind: 2}
	for _, it := range items {
		switch v := it.(type) {
		case string:
			n.vals = append(n.vals, sc(v))
		case *ynode:
			n.vals = append(n.vals, v)
		}
	}
	return n
}
func (n *ynode) get(k string) *ynode {
	for i, kk := range n.keys {
		if kk == k {
			return n.vals[i]
		}
	}
	return nil
}
func (n *ynode) set(k string, v *ynode) {
	for i, kk := range n.keys {
		if kk == k {
			n.vals[i] = v
			return
		}
	}
	n.keys = append(n.keys, k)
	n.vals = append(n.vals, v)
}
func (n *ynode) insertAt(i int, k string, v *ynode) {
	if i > len(n.keys) {
		i = len(n.keys)
	}
	n.keys = append(n.keys[:i], append([]string{k}, n.keys[i:]...)...)
	n.vals = append(n.vals[:i], append([]*ynode{v}, n.vals[i:]...)...)
}

type renderer struct {
	steps  []int // indentation step per depth
	seqInd int   // indentation of "- " relative to the parent key
	b      strings.Builder
}

func (r *renderer) step(d int) int {
	if d < len(r.steps) {
		return r.steps[d]
	}
	return 2
}

func sp(n int) string { return strings.Repeat(" ", n) }

func (r *renderer) flowStr(n *ynode) string {
	switch n.kind {
	case 0:
		return sp(n.gap) + n.src
	case 1:
		parts := []string{}
		for i, k := range n.keys {
			parts = append(parts, k+": "+r.flowStr(n.vals[i]))
		}
		return sp(n.gap) + "{" + strings.Join(parts, ", ") + "}"
	default:
		parts := []string{}
		for _, v := range n.vals {
			parts = append(parts, r.flowStr(v))
		}
		return sp(n.gap) + "[" + strings.Join(parts, ", ") + "]"
	}
}

func (r *renderer) comments(n *ynode, ind int) {
	for i := 0; i < n.above; i++ {
		r.b.WriteString(sp(ind) + "# c\n")
	}
}

// value written after "key:" or "- " (cursor is right after it)
func (r *renderer) value(v *ynode, ind, d int) {
	switch {
	case v.kind == 0:
		r.b.WriteString(" " + sp(v.gap) + v.src + "\n")
	case v.flow:
		r.b.WriteString(" " + r.flowStr(v) + "\n")
	case v.kind == 1:
		r.b.WriteString("\n")
		r.mapping(v, ind+r.step(d+1), d+1, false)
	default:
		r.b.WriteString("\n")
		r.sequence(v, ind+r.seqInd, d+1)
	}
}

func (r *renderer) mapping(n *ynode, ind, d int, firstInline bool) {
	for i, k := range n.keys {
		v := n.vals[i]
		if !(firstInline && i == 0) {
			r.comments(v, ind)
			r.b.WriteString(sp(ind))
		}
		r.b.WriteString(k + ":")
		r.value(v, ind, d)
	}
}

func (r *renderer) sequence(n *ynode, ind, d int) {
	for _, v := range n.vals {
		r.comments(v, ind)
		if v.kind == 1 && !v.flow && len(v.vals) > 0 {
			r.comments(v.vals[0], ind)
		}
		r.b.WriteString(sp(ind) + "-")
		if v.kind == 1 && !v.flow {
			if len(v.vals) > 0 {
				// comments above the item's first key go above the dash
			}
			r.b.WriteString(" ")
			r.mapping(v, ind+2, d, true)
		} else {
			r.value(v, ind, d)
		}
	}
}

// ---------------------------------------------------------------- placements

// Spec is every choice that defines a placement; build(Spec) is deterministic.
type Spec struct {
	ID int `json:"id"`
	// Prop: node properties written before the planted scalar ("&anc " / "!!str "); the scalar itself
	// starts after them
	Prop     string `json:"prop,omitempty"`
	Family   string `json:"family"` // expr, key, dupkey, value, glob, multi
	Kind     string `json:"kind"`   // lexer parser undef type untrusted tmpl key dupkey value glob
	Site     string `json:"site"`
	Style    int    `json:"style"` // 0 plain, 1 single, 2 double
	Flow     bool   `json:"flow"`
	Steps    []int  `json:"steps"`
	SeqInd   int    `json:"seq_ind"`
	Gap      int    `json:"gap"`
	TopLines int    `json:"top_lines"`
	Above    int    `json:"above"`
	Pad      string `json:"pad"`  // filler inserted by the inner column shift, in front of the text
	Text     string `json:"text"` // scalar content as written between the quotes
	Marker   string `json:"marker"`
	Delta    int    `json:"delta"`   // truth = position of Marker + Delta; -1000000: end of the scalar text
	IfBare   bool   `json:"if_bare"` // if: condition without ${{ }}
	TmplOff  int    `json:"tmpl_off"`
	Variant  string `json:"variant"`
	KeyStyle int    `json:"key_style"`
	Last     bool   `json:"last"` // the planted scalar is on the last line of the file
}

const deltaEnd = -1000000

type diag struct {
	Line, Col int
	Kind      string
	Class     int
	Msg       string
}

// Built is a rendered placement with everything the oracle and the model need.
type Built struct {
	Spec                  Spec
	File                  string
	NLines                int
	ScalarLine, ScalarCol int
	Quoted                bool
	Value                 string // yaml.v3's Value of the planted scalar
	TruthLine, TruthCol   int
	TokOff                int // byte offset of the offending token in Value
	Class                 int
	ModelSite             int
	HypOK                 bool
	HypMsg                string
}

const (
	clOther = iota
	clLexer
	clParser
	clUndef
	clType
	clUntrusted
	clTmpl
	clKey
	clDupKey
	clValue
	clGlob
)

var classNames = []string{"other", "lexer", "parser", "undef", "type", "untrusted", "tmpl", "key", "dupkey", "value", "glob"}

func classOf(e *actionlint.Error) int {
	m := e.Message
	has := func(p string) bool { return strings.HasPrefix(m, p) }
	switch e.Kind {
	case "glob":
		return clGlob
	case "expression":
		switch {
		case has("got unexpected "), has("unexpected EOF while lexing"), has("scan error"):
			return clLexer
		case has("unexpected end of input while parsing"), has("unexpected token "), has("parser did not reach end"):
			return clParser
		case has("undefined variable"), has("undefined function"), has("property ") && strings.Contains(m, " is not defined in object type"):
			return clUndef
		case has("receiver of object dereference"), has("number of arguments is wrong"), strings.Contains(m, "argument of function call is not assignable"), has("index access operand must be type of"), strings.Contains(m, "value cannot be compared to"):
			return clType
		case strings.Contains(m, "is potentially untrusted"):
			return clUntrusted
		case has("object, array, and null values should not be evaluated"):
			return clTmpl
		case has("type of expression at "), has("type of input ") && strings.Contains(m, " must be "):
			return clValue
		}
		return clOther
	case "syntax-check":
		switch {
		case has("unexpected key "), has("both \"username\" and \"password\" must be specified"):
			return clKey
		case strings.Contains(m, " event should not be listed in sequence"), has("element of \"schedule\" section must be mapping"):
			return clValue
		case has("key ") && strings.Contains(m, " is duplicated"):
			return clDupKey
		case has("expecting a single ${{...}}"), has("expected scalar node"), has("expecting "):
			return clValue
		}
		return clOther
	case "matrix":
		if has("\"exclude\" section exists but no matrix variation exists") {
			return clKey
		}
	case "runner-label":
		if has("label ") && strings.Contains(m, " is unknown") {
			return clValue
		}
	case "permissions":
		if strings.Contains(m, "is invalid for permission") {
			return clValue
		}
	case "events":
		if has("unknown Webhook event") || has("invalid activity type") {
			return clValue
		}
		if has("both \"") && strings.Contains(m, "filters cannot be used for the same event") {
			return clKey
		}
	}
	return clOther
}

func quote(style int, text string) string {
	switch style {
	case 1:
		return "'" + text + "'"
	case 2:
		return "\"" + text + "\""
	}
	return text
}

func baseDoc() *ynode {
	return mp(
		"on", mp("push", mp("branches", sq("main"), "paths", sq("src/**")), "issues", mp("types", sq("opened"))),
		"run-name", "r",
		"env", mp("TOP", "x"),
		"jobs", mp("test", mp(
			"name", "n",
			"runs-on", "ubuntu-latest",
			"if", "true",
			"env", mp("JE", "x"),
			"strategy", mp("matrix", mp("m", sq("a", "b"))),
			"steps", sq(
				mp("name", "s", "run", "echo", "if", "true", "env", mp("SE", "x")),
				mp("uses", "actions/checkout@v4", "with", mp("ref", "x")),
			),
		)),
	)
}

// model sites (Coq: c07_site)
const (
	siteString = iota
	siteOne
	siteIf
	siteRaw
)

type exprSite struct {
	name     string
	model    int
	script   bool
	oneOnly  bool // the scalar must be exactly one ${{ }}
	flowable bool
}

var exprSites = []exprSite{
	{"run-name", siteString, false, false, false},
	{"top.env", siteString, false, false, true},
	{"job.name", siteString, false, false, false},
	{"job.runs-on", siteString, false, false, false},
	{"job.if", siteIf, false, false, false},
	{"job.env", siteString, false, false, true},
	{"job.timeout-minutes", siteOne, false, true, false},
	{"job.continue-on-error", siteOne, false, true, false},
	{"matrix.value", siteRaw, false, false, true},
	{"matrix.value2", siteRaw, false, false, true},
	{"step.run", siteString, true, false, false},
	{"step.name", siteString, false, false, false},
	{"step.if", siteIf, false, false, false},
	{"step.env", siteString, false, false, true},
	{"step.with", siteString, false, false, true},
	{"step.timeout-minutes", siteOne, false, true, false},
	{"step.flow", siteString, false, false, true},
	// filter values are also visited by the glob rule (which computes columns from the same *Pos)
	{"on.push.paths", siteString, false, false, true},
}

// place puts the scalar source at the site; returns the node that holds it.
func place(doc *ynode, site string, src string, flow bool, gap, above int) *ynode {
	job := doc.get("jobs").get("test")
	step0 := job.get("steps").vals[0]
	step1 := job.get("steps").vals[1]
	v := sc(src)
	v.gap = gap
	setIn := func(m *ynode, container, key string) {
		c := m.get(container)
		c.flow = flow
		if flow {
			c.set(key, v)
			c.above = above
		} else {
			c.set(key, v)
			v.above = above
		}
	}
	switch site {
	case "run-name":
		doc.set("run-name", v)
		v.above = above
	case "top.env":
		setIn(doc, "env", "TOP")
	case "job.name":
		job.set("name", v)
		v.above = above
	case "job.runs-on":
		job.set("runs-on", v)
		v.above = above
	case "job.if":
		job.set("if", v)
		v.above = above
	case "job.env":
		setIn(job, "env", "JE")
	case "job.timeout-minutes":
		job.insertAt(2, "timeout-minutes", v)
		v.above = above
	case "job.continue-on-error":
		job.insertAt(3, "continue-on-error", v)
		v.above = above
	case "matrix.value":
		row := job.get("strategy").get("matrix").get("m")
		row.flow = flow
		row.vals[1] = v
		if flow {
			row.above = above
		} else {
			v.above = above
		}
	case "matrix.value2":
		// nested value of a matrix row: m: [{k: <v>}]
		row := job.get("strategy").get("matrix").get("m")
		inner := mp("k", v)
		inner.flow = flow
		row.vals = []*ynode{inner}
		if !flow {
			inner.above = above
		} else {
			row.above = above
			row.flow = true
		}
	case "step.run":
		step0.set("run", v)
		v.above = above
	case "step.name":
		step0.set("name", v)
		v.above = above
	case "step.if":
		step0.set("if", v)
		v.above = above
	case "step.env":
		setIn(step0, "env", "SE")
	case "step.with":
		setIn(step1, "with", "ref")
	case "step.timeout-minutes":
		step0.set("timeout-minutes", v)
		v.above = above
	case "step.flow":
		// the whole step in flow style: - {run: echo, name: <v>}
		st := mp("run", "echo", "name", v)
		st.flow = true
		st.above = above
		job.get("steps").vals[0] = st
	case "job.permissions":
		job.insertAt(1, "permissions", v)
		v.above = above
	case "matrix.exclude-expr":
		job.get("strategy").get("matrix").set("exclude", v)
		v.above = above
	case "matrix.include-expr":
		job.get("strategy").get("matrix").set("include", v)
		v.above = above
	case "matrix-expr":
		job.get("strategy").set("matrix", v)
		v.above = above
	case "job.env-expr":
		job.set("env", v)
		v.above = above
	case "strategy.fail-fast":
		job.get("strategy").set("fail-fast", v)
		v.above = above
	case "strategy.max-parallel":
		job.get("strategy").set("max-parallel", v)
		v.above = above
	case "on.issues.types":
		t := doc.get("on").get("issues").get("types")
		t.flow = flow
		t.vals = []*ynode{sc("opened"), v}
		if flow {
			t.above = above
		} else {
			v.above = above
		}
	case "call.number-default", "call.boolean-default":
		ty := strings.TrimSuffix(strings.TrimPrefix(site, "call."), "-default")
		doc.get("on").set("workflow_call", mp("inputs", mp("n", mp("type", ty, "default", v))))
		v.above = above
	case "on.schedule-element":
		l := sq(mp("cron", "0 0 * * *"), mp("cron", "0 12 * * *"), v)
		l.flow = flow
		if flow {
			for _, e := range l.vals[:2] {
				e.flow = true
			}
			l.above = above
		} else {
			v.above = above
		}
		doc.get("on").set("schedule", l)
	case "on.seq-schedule", "on.seq-dispatch":
		l := sq("push", "issues", v)
		if site == "on.seq-dispatch" {
			l = sq(v, "push")
		}
		l.flow = flow
		doc.set("on", l)
		if flow {
			l.above = above
		} else {
			v.above = above
		}
	case "on.push.branches", "on.push.tags", "on.push.paths", "on.push.branches-ignore":
		key := strings.TrimPrefix(site, "on.push.")
		push := doc.get("on").get("push")
		if key == "branches-ignore" {
			// branches and branches-ignore are exclusive
			push.keys[0] = "branches-ignore"
			key = "branches-ignore"
		}
		if push.get(key) == nil {
			push.set(key, sq("v1"))
		}
		l := push.get(key)
		l.flow = flow
		l.vals = append(l.vals, v)
		if flow {
			l.above = above
		} else {
			v.above = above
		}
	default:
		panic("unknown site " + site)
	}
	return v
}

var fillerPlain = "abcdefghijklmnopqrstuvwxyz0123456789 ._/=+-"
var fillerQuoted = "abcdefghijklmnopqrstuvwxyz0123456789 ._/=+-:#$%&()*,;<>?@[]^`{|}~!"

func filler(r *hx.Rng, style int, n int, first bool) string {
	var b strings.Builder
	for i := 0; i < n; i++ {
		var c byte
		if style == 0 {
			if i == 0 && first {
				c = fillerPlain[r.Intn(26)]
			} else {
				c = fillerPlain[r.Intn(len(fillerPlain))]
			}
		} else {
			c = fillerQuoted[r.Intn(len(fillerQuoted))]
		}
		b.WriteByte(c)
	}
	s := b.String()
	// never create a placeholder opener/closer, a comment or a mapping indicator by accident
	for _, bad := range []string{"${{", "}}", " #", ": ", "{{"} {
		s = strings.ReplaceAll(s, bad, strings.Repeat("x", len(bad)))
	}
	if style == 0 {
		s = strings.TrimRight(s, ":")
	}
	return s
}

var cleanExprs = []string{"1", "github.sha", "true", "github.run_id", "github.ref", "2 < 3", "github.repository", "!false", "github.event.number"}
var innerFill = []string{"", "true && ", "1 < 2 || ", "github.sha == github.ref && ", "(1) == 1 && "}

type plantExpr struct {
	inner  string // text between ${{ and }}
	marker string
	delta  int
}

func ws(r *hx.Rng) string { return sp(r.Intn(4)) }

// genInner builds the inside of the offending placeholder for a diagnostic kind.
func genInner(r *hx.Rng, kind string, style int, bare bool) (plantExpr, string) {
	lead := sp(1 + r.Intn(3))
	fill := innerFill[r.Intn(len(innerFill))]
	tail := sp(1 + r.Intn(3))
	mk := func(off string, marker string, delta int) plantExpr {
		return plantExpr{lead + fill + off + tail, marker, delta}
	}
	switch kind {
	case "lexer":
		vs := []string{"badchar", "eq", "and", "numalpha", "hex", "frac", "or"}
		if style != 2 {
			vs = append(vs, "dquote")
		}
		if style != 1 && !bare {
			vs = append(vs, "eofstring")
		}
		v := vs[r.Intn(len(vs))]
		switch v {
		case "badchar":
			c := string("?%;~^@"[r.Intn(6)])
			return mk("zzq "+c+" 1", "zzq "+c, 4), v
		case "eq":
			return mk("zzq = 1", "zzq = 1", 5), v
		case "and":
			return mk("zzq & 1", "zzq & 1", 5), v
		case "or":
			return mk("zzq |1", "zzq |1", 5), v
		case "numalpha":
			return mk("17zzq", "17zzq", 2), v
		case "hex":
			return mk("0xzzq", "0xzzq", 2), v
		case "frac":
			return mk("3.zzq", "3.zzq", 2), v
		case "dquote":
			return mk("zzq == \"a\"", "zzq == \"a\"", 7), v
		default: // eofstring: the literal never ends, EOF is at the end of the scalar text
			return plantExpr{lead + fill + "'zzq" + tail, "'zzq", deltaEnd}, v
		}
	case "parser":
		vs := []string{"dot-end", "two", "open-paren", "close-paren", "open-bracket", "comma", "and-end", "call-open", "unexpected-close", "unexpected-comma", "unexpected-op"}
		v := vs[r.Intn(len(vs))]
		w := ws(r)
		switch v {
		case "dot-end":
			return plantExpr{lead + fill + "zzq." + w, "zzq." + w + "}}", 4 + len(w)}, v
		case "two":
			return mk("zzq 2", "zzq 2", 4), v
		case "open-paren":
			return plantExpr{lead + fill + "(zzq" + w, "(zzq" + w + "}}", 4 + len(w)}, v
		case "close-paren":
			return mk("zzq )", "zzq )", 4), v
		case "open-bracket":
			return plantExpr{lead + fill + "zzq[" + w, "zzq[" + w + "}}", 4 + len(w)}, v
		case "comma":
			return mk("zzq , 1", "zzq , 1", 4), v
		case "and-end":
			return plantExpr{lead + fill + "zzq &&" + w, "zzq &&" + w + "}}", 6 + len(w)}, v
		case "unexpected-close":
			// a token that cannot start an operand, with more tokens behind it
			return mk("zzq == ) || 1", "zzq == ) || 1", 7), v
		case "unexpected-comma":
			return mk("zzq(, 1) && true", "zzq(, 1) && true", 4), v
		case "unexpected-op":
			return mk("(zzq && || 2)", "(zzq && || 2)", 8), v
		default:
			return plantExpr{lead + fill + "zzq(1" + w, "zzq(1" + w + "}}", 5 + len(w)}, v
		}
	case "undef":
		vs := []string{"var", "prop", "func", "not", "arg", "cmp", "index"}
		v := vs[r.Intn(len(vs))]
		switch v {
		case "var":
			return mk("zzq", "zzq", 0), v
		case "prop":
			return mk("github.zzq", "github.zzq", 0), v
		case "func":
			return mk("zzq(1)", "zzq(1)", 0), v
		case "not":
			return mk("!zzq", "!zzq", 1), v
		case "arg":
			return mk("toJSON(zzq)", "toJSON(zzq)", 7), v
		case "cmp":
			return mk("1 == zzq.a", "1 == zzq.a", 5), v
		default:
			return mk("github.event[zzq]", "github.event[zzq]", 13), v
		}
	case "type":
		vs := []string{"deref-string", "argcount", "argtype", "restarg2", "restarg3", "index-non-indexable", "index-non-indexable-2", "cmp-notnot", "cmp-not3"}
		v := vs[r.Intn(len(vs))]
		w := ws(r)
		switch v {
		case "cmp-notnot": // a comparison is reported at its left operand's first token: the FIRST of several '!'
			return mk("!"+w+"!github.sha < github", "!"+w+"!github.sha < github", 0), v
		case "cmp-not3":
			return mk("! !"+w+"!github.sha >= github", "! !"+w+"!github.sha >= github", 0), v
		case "index-non-indexable": // reported at the operand, wherever the index stands inside the brackets
			return mk("github.event_name["+w+"0 ]", "github.event_name["+w+"0 ]", 0), v
		case "index-non-indexable-2":
			return mk("runner.os["+w+"github.run_id ]", "runner.os["+w+"github.run_id ]", 0), v
		case "restarg2": // variadic parameter: the offending argument is the 2nd / 3rd one
			return mk("hashFiles(1, github)", "hashFiles(1, github)", 13), v
		case "restarg3":
			return mk("hashFiles(1, 2,  github)", "hashFiles(1, 2,  github)", 17), v
		case "deref-string":
			return mk("github.event_name.zzq", "github.event_name.zzq", 0), v
		case "argcount":
			return mk("contains(17)", "contains(17)", 0), v
		default:
			return mk("startsWith(17, github)", "startsWith(17, github)", 15), v
		}
	case "untrusted":
		vs := []string{"github.event.issue.title", "github.event.pull_request.head.ref", "github.head_ref", "github.event.comment.body"}
		v := vs[r.Intn(len(vs))]
		return mk(v, v, 0), "untrusted"
	case "tmpl":
		vs := []string{"github", "github.event", "null"}
		v := vs[r.Intn(len(vs))]
		return plantExpr{lead + v + tail, "", 0}, "tmpl"
	}
	panic("kind " + kind)
}

func genExprSpec(r *hx.Rng, id int) Spec {
	s := Spec{ID: id, Family: "expr"}
	site := exprSites[r.Intn(len(exprSites))]
	s.Site = site.name
	kinds := []string{"lexer", "parser", "undef", "type", "undef", "lexer", "parser"}
	if site.script {
		kinds = append(kinds, "untrusted", "untrusted", "untrusted")
	}
	if site.model == siteString {
		kinds = append(kinds, "tmpl")
	}
	pool := cleanExprs
	if site.name == "on.push.paths" {
		// no context is available in a filter value: syntax errors only, context-free earlier placeholders
		kinds = []string{"lexer", "parser"}
		pool = []string{"1", "true", "2 < 3", "!false", "(1)"}
	}
	s.Kind = kinds[r.Intn(len(kinds))]
	s.Style = r.Intn(3)
	s.Flow = site.flowable && r.Chance(2, 5)
	if site.name == "step.flow" {
		s.Flow = true
	}
	if s.Flow && s.Style == 0 {
		s.Style = 1 + r.Intn(2) // plain flow scalars cannot hold { } [ ] ,
	}
	genLayout(r, &s)
	bare := site.model == siteIf && r.Chance(1, 2) && s.Kind != "tmpl"
	s.IfBare = bare
	pe, variant := genInner(r, s.Kind, s.Style, bare)
	s.Variant = variant
	if bare {
		// if: condition written without ${{ }}: the scalar is the expression;
		// a plain scalar must not start with an indicator character
		inner := strings.TrimLeft(pe.inner, " ")
		if s.Style == 0 && (strings.HasPrefix(inner, "!") || strings.HasPrefix(inner, "'") || strings.HasPrefix(inner, "(")) {
			inner = "true && " + inner
		}
		if s.Style == 0 {
			inner = strings.TrimRight(inner, " ")
			if strings.HasSuffix(pe.marker, "}}") {
				// the end marker is appended by checkIfCondition: it follows the text directly
				w := strings.TrimSuffix(pe.marker, "}}")
				trimmed := strings.TrimRight(w, " ")
				pe.delta -= len(w) - len(trimmed)
				pe.marker = trimmed + "}}"
			}
		}
		s.Text = inner
		s.Marker, s.Delta = pe.marker, pe.delta
		if strings.HasSuffix(pe.marker, "}}") {
			// the end marker is not in the file: the truth is the end of the text
			s.Marker = strings.TrimSuffix(pe.marker, "}}")
			s.Delta = deltaEnd
		}
		return s
	}
	var b strings.Builder
	if !site.oneOnly {
		nprev := r.Intn(4)
		if site.name == "job.runs-on" {
			// a runs-on value that is exactly one ${{ }} is routed to checkOneExpression-like code
			b.WriteString("r")
		}
		b.WriteString(filler(r, s.Style, r.Intn(9), true))
		for i := 0; i < nprev; i++ {
			b.WriteString("${{" + ws(r) + pool[r.Intn(len(pool))] + ws(r) + "}}")
			b.WriteString(filler(r, s.Style, r.Intn(7), false))
		}
	}
	if s.Style == 0 && site.script && b.Len() == 0 {
		b.WriteString("echo ")
	}
	trail := ""
	if site.oneOnly && s.Style != 0 && r.Chance(1, 2) {
		// a quoted value that is exactly one placeholder may have spaces around it
		b.WriteString(sp(1 + r.Intn(3)))
		trail = sp(r.Intn(3))
	}
	s.TmplOff = b.Len()
	b.WriteString("${{" + pe.inner + "}}" + trail)
	if !site.oneOnly && s.Kind != "lexer" {
		post := filler(r, s.Style, r.Intn(6), false)
		if s.Style == 0 {
			post = strings.TrimRight(post, " ")
		}
		b.WriteString(post)
		if r.Chance(1, 4) {
			b.WriteString(" ${{ 1 }}")
		}
	}
	s.Text = b.String()
	s.Marker, s.Delta = pe.marker, pe.delta
	if s.Kind == "tmpl" {
		s.Marker, s.Delta = "${{"+pe.inner+"}}", 0
	}
	return s
}

func genLayout(r *hx.Rng, s *Spec) {
	s.Steps = make([]int, 8)
	total := 0
	for i := range s.Steps {
		s.Steps[i] = 1 + r.Intn(4)
		if total+s.Steps[i] > 12 {
			s.Steps[i] = 1
		}
		total += s.Steps[i]
	}
	s.SeqInd = []int{0, 2, 1, 3}[r.Intn(4)]
	s.Gap = 0
	if r.Chance(1, 3) {
		s.Gap = r.Intn(4)
	}
	s.TopLines = 0
	if r.Chance(1, 4) {
		s.TopLines = r.Intn(4)
	}
	if r.Chance(1, 5) {
		s.Above = r.Intn(3)
	}
}

var keySites = []string{"top", "job", "step", "strategy", "on.push", "step.with-flow", "job.env-dup", "step.env-dup", "step.with-dup", "top.env-dup",
	// a key that is reported for what its mapping lacks (credentials without a password)
	"container.credentials", "service.credentials",
	// two filters that exclude each other, the flow mapping broken over two lines with the LATER key
	// in a smaller column: the later key is the one reported
	"on.push-exclusive-2lines",
	// a matrix with `exclude` and nothing to exclude from: reported at the `matrix` key
	"matrix.exclude-only"}

func genKeySpec(r *hx.Rng, id int) Spec {
	s := Spec{ID: id, Family: "key"}
	genLayout(r, &s)
	s.Gap = 0
	s.Site = keySites[r.Intn(len(keySites))]
	s.KeyStyle = r.Intn(3)
	s.Kind = "key"
	if strings.HasSuffix(s.Site, "dup") {
		s.Kind = "dupkey"
		s.Family = "dupkey"
	}
	s.Flow = r.Chance(1, 3)
	return s
}

var valueSites = []string{"job.continue-on-error", "job.timeout-minutes", "step.timeout-minutes", "strategy.fail-fast", "strategy.max-parallel", "job.permissions", "job.runs-on", "on.issues.types",
	// a section given as ONE placeholder whose type does not fit (reported at the value)
	"matrix.exclude-expr", "job.env-expr", "matrix-expr",
	// the default of a typed workflow_call input given by a placeholder of another type; an event
	// that cannot be listed in the sequence form of on:
	"call.number-default", "call.boolean-default", "on.seq-schedule", "on.seq-dispatch",
	// an element of on.schedule that is not a mapping with a cron key (reported at the element)
	"on.schedule-element"}

// the ill-typed section values (plain or double-quoted: they contain single quotes)
var sectionExprText = map[string]string{
	"matrix.exclude-expr": "${{ fromJSON('[1, 2]') }}",
	"job.env-expr":        "${{ fromJSON('[3]') }}",
	"matrix-expr":         "${{ fromJSON('4') }}",
}

var fixedValueText = map[string]string{
	"call.number-default":  "${{ github.sha }}",
	"call.boolean-default": "${{ github.ref }}",
	"on.seq-schedule":      "schedule",
	"on.seq-dispatch":      "repository_dispatch",
	"on.schedule-element":  "zzqnotcron",
}

func genValueSpec(r *hx.Rng, id int) Spec {
	s := Spec{ID: id, Family: "value", Kind: "value"}
	genLayout(r, &s)
	s.Site = valueSites[r.Intn(len(valueSites))]
	s.Style = r.Intn(3)
	s.Text = "zzq" + filler(r, 0, r.Intn(4), false)
	s.Text = strings.TrimRight(strings.ReplaceAll(s.Text, " ", "-"), "-.")
	if s.Site == "job.runs-on" {
		s.Text += "-latest"
	}
	s.Flow = s.Site == "on.issues.types" && r.Chance(1, 2)
	if t, ok := sectionExprText[s.Site]; ok {
		s.Text = t
		s.Style = []int{0, 2}[r.Intn(2)]
	}
	if t, ok := fixedValueText[s.Site]; ok {
		s.Text = t
		s.Flow = (strings.HasPrefix(s.Site, "on.seq") || s.Site == "on.schedule-element") && r.Chance(1, 2)
	}
	s.Marker, s.Delta = s.Text, 0
	return s
}

func genGlobSpec(r *hx.Rng, id int) Spec {
	s := Spec{ID: id, Family: "glob", Kind: "glob"}
	genLayout(r, &s)
	sites := []string{"on.push.branches", "on.push.tags", "on.push.paths", "on.push.branches-ignore"}
	s.Site = sites[r.Intn(len(sites))]
	s.Style = r.Intn(3)
	s.Flow = r.Chance(1, 3)
	gf := func(n int) string {
		var b strings.Builder
		for i := 0; i < n; i++ {
			b.WriteByte("abcdefghijklmnopqrstuvwxyz0123456789_-"[r.Intn(38)])
		}
		return b.String()
	}
	pre := "zq" + gf(r.Intn(8))
	if s.Site == "on.push.paths" {
		// path filters: a leading space is the offending character
		s.Style = 1 + r.Intn(2)
		s.Text = " " + pre
		s.Marker, s.Delta = " "+pre, 0
		s.Variant = "path-leading-space"
		return s
	}
	chars := "~^"
	if s.Style != 0 {
		chars = "~^ :"
	}
	c := string(chars[r.Intn(len(chars))])
	post := "w" + gf(r.Intn(4)) + "w"
	if s.Flow && s.Style == 0 {
		pre = strings.NewReplacer(",", "-", "[", "-", "]", "-", "{", "-", "}", "-").Replace(pre)
		post = strings.NewReplacer(",", "-", "[", "-", "]", "-", "{", "-", "}", "-").Replace(post)
	}
	s.Text = pre + c + post
	s.Marker, s.Delta = pre+c+post, len(pre)
	s.Variant = "ref-char-" + c
	if s.Site != "on.push.paths" && r.Chance(1, 4) && !(s.Flow && s.Style == 0) {
		// the END of a character range is a character that a Git ref may not contain
		rc := string("~^:"[r.Intn(3)])
		if s.Style == 0 && rc == ":" {
			rc = "~"
		}
		s.Text = pre + "[+-" + rc + "]" + post
		s.Marker, s.Delta = s.Text, len(pre)+3
		s.Variant = "range-end-" + rc
		return s
	}
	if s.Style != 0 && r.Chance(1, 3) {
		// negated pattern ('!' cannot start a plain scalar): the offending character is one further right
		s.Text = "!" + s.Text
		s.Marker, s.Delta = s.Text, len(pre)+1
		s.Variant = "negated-ref-char-" + c
	} else if s.Style != 0 && id%3 == 1 {
		// a quoted pattern with SEVERAL offending characters: each report has its own column
		s.Text = pre + c + post + "^" + "v" + "~" + "u"
		s.Marker, s.Delta = s.Text, len(pre)
		s.Variant = "several-ref-chars-" + c
	}
	return s
}

// multi-line / escaped scalars: model correspondence and bounds only
func genMultiSpec(r *hx.Rng, id int) Spec {
	s := Spec{ID: id, Family: "multi", Kind: "undef"}
	genLayout(r, &s)
	s.Gap, s.Above = 0, 0
	vs := []string{"dq-escape", "dq-escape-last", "block-literal", "dq-nonascii", "block-folded"}
	s.Variant = vs[r.Intn(len(vs))]
	switch s.Variant {
	case "dq-escape", "dq-escape-last":
		s.Site = "step.name"
		s.Style = 2
		nl := strings.Repeat("\\n", 1+r.Intn(3))
		pre := filler(r, 2, r.Intn(5), false)
		if r.Chance(1, 2) {
			pre += "\\n" + filler(r, 2, r.Intn(3), false)
		}
		s.Text = pre + "${{ " + nl + sp(r.Intn(3)) + "zzq }}"
		s.Last = s.Variant == "dq-escape-last"
	case "dq-nonascii":
		s.Site = "step.name"
		s.Style = 2
		s.Text = "${{ 'héé' == zzq }}"
	case "block-literal", "block-folded":
		s.Site = "step.run"
	}
	s.Marker, s.Delta = "zzq", 0
	return s
}

func topLevelKeyOrder(doc *ynode, last string) {
	// move key `last` to the end of the top-level mapping
	for i, k := range doc.keys {
		if k == last {
			v := doc.vals[i]
			doc.keys = append(doc.keys[:i], doc.keys[i+1:]...)
			doc.vals = append(doc.vals[:i], doc.vals[i+1:]...)
			doc.keys = append(doc.keys, k)
			doc.vals = append(doc.vals, v)
			return
		}
	}
}

func build(s Spec) (*Built, error) {
	doc := baseDoc()
	bt := &Built{Spec: s}
	var scalarSrc string
	text := s.Pad + s.Text
	switch s.Family {
	case "expr", "value", "glob":
		scalarSrc = s.Prop + quote(s.Style, text)
		place(doc, s.Site, scalarSrc, s.Flow, s.Gap, s.Above)
		bt.Quoted = s.Style != 0
	case "multi":
		switch s.Variant {
		case "block-literal", "block-folded":
			ind := "|"
			if s.Variant == "block-folded" {
				ind = ">"
			}
			// rendered by hand below: the block content lines follow the key line
			scalarSrc = ind
			place(doc, s.Site, "@@BLOCK@@", false, 0, 0)
		default:
			scalarSrc = quote(s.Style, text)
			place(doc, s.Site, scalarSrc, false, 0, 0)
			bt.Quoted = true
		}
	case "key":
		key := quote(s.KeyStyle, "zzq"+fmt.Sprint(s.ID%7))
		job := doc.get("jobs").get("test")
		step0 := job.get("steps").vals[0]
		var m *ynode
		switch s.Site {
		case "top":
			m = doc
		case "job":
			m = job
		case "step":
			m = step0
		case "strategy":
			m = job.get("strategy")
		case "on.push":
			m = doc.get("on").get("push")
		case "step.with-flow":
			// unexpected key of a step written in flow style
			st := mp("run", "echo")
			st.flow = true
			st.above = s.Above
			job.get("steps").vals[0] = st
			m = st
		}
		if s.Site == "on.push-exclusive-2lines" {
			key = quote(s.KeyStyle, "paths")
			push := mp("paths-ignore", sq("docs"), "branches", sq("main"), key, sq("src"))
			push.flow = true
			push.above = s.Above
			doc.get("on").set("push", push)
			scalarSrc = key + ": [src]"
			bt.Quoted = s.KeyStyle != 0
			break
		}
		if s.Site == "matrix.exclude-only" {
			key = quote(s.KeyStyle, "matrix")
			ex := mp("exclude", sq(mp("m", "a")))
			ex.above = s.Above
			strat := mp("fail-fast", "false", key, ex)
			if s.ID%2 == 0 {
				strat = mp(key, ex, "max-parallel", "2")
			}
			job.set("strategy", strat)
			scalarSrc = key
			bt.Quoted = s.KeyStyle != 0
			break
		}
		if strings.HasSuffix(s.Site, ".credentials") {
			key = quote(s.KeyStyle, "credentials")
			cred := mp("username", "u")
			cred.flow = s.Flow
			cont := mp("image", "x", key, cred)
			if s.Site == "container.credentials" {
				job.insertAt(2, "container", cont)
			} else {
				job.insertAt(2, "services", mp("db", cont))
			}
			if s.ID%2 == 0 {
				cont.flow = s.Flow
			}
			if !cont.flow {
				cred.above = s.Above
			}
			scalarSrc = key
			bt.Quoted = s.KeyStyle != 0
			break
		}
		v := sc("1")
		v.above = s.Above
		pos := len(m.keys)
		if !m.flow && len(m.keys) > 1 {
			pos = 1 + s.ID%len(m.keys)
		}
		m.insertAt(pos, key, v)
		scalarSrc = key
		bt.Quoted = s.KeyStyle != 0
	case "dupkey":
		job := doc.get("jobs").get("test")
		step0 := job.get("steps").vals[0]
		step1 := job.get("steps").vals[1]
		var m *ynode
		var orig string
		switch s.Site {
		case "job.env-dup":
			m, orig = job.get("env"), "JE"
		case "step.env-dup":
			m, orig = step0.get("env"), "SE"
		case "step.with-dup":
			m, orig = step1.get("with"), "ref"
		case "top.env-dup":
			m, orig = doc.get("env"), "TOP"
		case "step.dup":
			m, orig = step0, "name"
		case "job.dup":
			m, orig = job, "name"
		}
		dup := strings.ToUpper(orig)
		if dup == orig {
			dup = strings.ToLower(orig)
		}
		if s.Site == "step.dup" || s.Site == "job.dup" {
			dup = "Name"
		}
		key := quote(s.KeyStyle, dup)
		v := sc("zzqv")
		if m == step0 || m == job {
			v.above = s.Above
			m.insertAt(1+s.ID%len(m.keys), key, v)
		} else {
			m.flow = s.Flow
			if !s.Flow {
				v.above = s.Above
			}
			m.set(key, v)
		}
		scalarSrc = key + ":"
		bt.Quoted = s.KeyStyle != 0
	}
	if s.Last {
		// make the planted scalar the last line: jobs last, steps last, name last
		topLevelKeyOrder(doc, "jobs")
		job := doc.get("jobs").get("test")
		step0 := job.get("steps").vals[0]
		job.get("steps").vals = []*ynode{step0}
		for i, k := range step0.keys {
			if k == "name" {
				v := step0.vals[i]
				step0.keys = append(step0.keys[:i], step0.keys[i+1:]...)
				step0.vals = append(step0.vals[:i], step0.vals[i+1:]...)
				step0.keys = append(step0.keys, k)
				step0.vals = append(step0.vals, v)
				break
			}
		}
	}
	rd := &renderer{steps: s.Steps, seqInd: s.SeqInd}
	for i := 0; i < s.TopLines; i++ {
		if i%2 == 0 {
			rd.b.WriteString("# top\n")
		} else {
			rd.b.WriteString("\n")
		}
	}
	rd.mapping(doc, 0, 0, false)
	file := rd.b.String()
	if s.Family == "multi" && strings.HasPrefix(s.Variant, "block") {
		// replace the placeholder by a block scalar whose content is indented deeper than the key
		idx := strings.Index(file, "@@BLOCK@@")
		ls := strings.LastIndex(file[:idx], "\n") + 1
		keyInd := 0
		for file[ls+keyInd] == ' ' || file[ls+keyInd] == '-' {
			keyInd++
		}
		ci := sp(keyInd + 2)
		body := ci + "echo a\n" + ci + "echo ${{ github.sha }} ${{\n" + ci + "  zzq }}\n" + ci + "echo ${{ 1 }}"
		file = file[:idx] + scalarSrc + "\n" + body + file[idx+len("@@BLOCK@@"):]
	}
	if s.Site == "on.push-exclusive-2lines" {
		// `push: {paths-ignore: [docs], branches: [main], paths: [src]}` -> the last key on a line of its own, one column in
		i := strings.Index(file, scalarSrc)
		file = strings.TrimRight(file[:i], " ") + "\n " + file[i:]
	}
	if s.Last {
		file = strings.TrimRight(file, "\n")
	}
	bt.File = file
	bt.NLines = strings.Count(file, "\n")
	if !strings.HasSuffix(file, "\n") {
		bt.NLines++
	}
	lineCol := func(idx int) (int, int) {
		line := strings.Count(file[:idx], "\n") + 1
		ls := strings.LastIndex(file[:idx], "\n") + 1
		return line, idx - ls + 1
	}
	// the planted scalar
	if strings.Count(file, scalarSrc) != 1 && !(s.Family == "multi" && strings.HasPrefix(s.Variant, "block")) {
		return nil, fmt.Errorf("scalar source not unique: %q", scalarSrc)
	}
	if s.Family == "multi" && strings.HasPrefix(s.Variant, "block") {
		idx := strings.Index(file, "run: "+scalarSrc+"\n") + 5
		bt.ScalarLine, bt.ScalarCol = lineCol(idx)
	} else {
		bt.ScalarLine, bt.ScalarCol = lineCol(strings.Index(file, scalarSrc))
	}
	// the planted truth: position of the unique marker (+ delta)
	switch {
	case s.Family == "key" || s.Family == "dupkey" || s.Family == "value":
		// a key / value diagnostic points at the first character of the key / value (the quote when quoted)
		bt.TruthLine, bt.TruthCol = bt.ScalarLine, bt.ScalarCol
	case s.Delta == deltaEnd:
		// end of the scalar text
		idx := strings.Index(file, scalarSrc) + len(scalarSrc)
		if bt.Quoted {
			idx--
		}
		bt.TruthLine, bt.TruthCol = lineCol(idx)
	default:
		if strings.Count(file, s.Marker) != 1 {
			return nil, fmt.Errorf("marker not unique: %q", s.Marker)
		}
		bt.TruthLine, bt.TruthCol = lineCol(strings.Index(file, s.Marker) + s.Delta)
	}
	switch s.Kind {
	case "lexer":
		bt.Class = clLexer
	case "parser":
		bt.Class = clParser
	case "undef":
		bt.Class = clUndef
	case "type":
		bt.Class = clType
	case "untrusted":
		bt.Class = clUntrusted
	case "tmpl":
		bt.Class = clTmpl
	case "key":
		bt.Class = clKey
	case "dupkey":
		bt.Class = clDupKey
	case "value":
		bt.Class = clValue
	case "glob":
		bt.Class = clGlob
	}
	for _, es := range exprSites {
		if es.name == s.Site {
			bt.ModelSite = es.model
		}
	}
	checkHyp(bt, scalarSrc)
	// offset of the offending token in the scalar's value
	if s.Family == "expr" || s.Family == "multi" || s.Family == "glob" {
		switch {
		case s.Delta == deltaEnd:
			bt.TokOff = len(bt.Value)
		case s.Kind == "tmpl":
			bt.TokOff = strings.Index(bt.Value, "${{"+strings.TrimSuffix(strings.TrimPrefix(s.Marker, "${{"), "}}"))
		default:
			bt.TokOff = strings.Index(bt.Value, s.Marker) + s.Delta
			if strings.HasSuffix(s.Marker, "}}") && s.IfBare {
				bt.TokOff = len(bt.Value)
			}
		}
	}
	return bt, nil
}

// checkHyp asserts scalar_pos_exact: yaml.v3 reports the planted scalar at the
// position of its first character, with its source text as Value.
func checkHyp(bt *Built, scalarSrc string) {
	var root yaml.Node
	if err := yaml.Unmarshal([]byte(bt.File), &root); err != nil {
		bt.HypMsg = "yaml.v3 cannot parse the generated file: " + err.Error()
		return
	}
	var found *yaml.Node
	var walk func(n *yaml.Node)
	walk = func(n *yaml.Node) {
		if n.Kind == yaml.ScalarNode && n.Line == bt.ScalarLine && n.Column == bt.ScalarCol {
			found = n
		}
		for _, c := range n.Content {
			walk(c)
		}
	}
	walk(&root)
	if found == nil {
		bt.HypMsg = fmt.Sprintf("no scalar node at %d:%d", bt.ScalarLine, bt.ScalarCol)
		return
	}
	bt.Value = found.Value
	q := found.Style&(yaml.DoubleQuotedStyle|yaml.SingleQuotedStyle) != 0
	s := bt.Spec
	switch s.Family {
	case "expr", "value", "glob":
		if found.Value != s.Pad+s.Text || q != bt.Quoted {
			bt.HypMsg = fmt.Sprintf("scalar at %d:%d has value %q quoted=%v, planted %q quoted=%v", bt.ScalarLine, bt.ScalarCol, found.Value, q, s.Pad+s.Text, bt.Quoted)
			return
		}
	case "multi":
		bt.Quoted = q
	}
	bt.HypOK = true
}

// ---------------------------------------------------------------- running the implementation

func lint(file string) ([]diag, error) {
	o := &actionlint.LinterOptions{Shellcheck: "", Pyflakes: ""}
	l, err := actionlint.NewLinter(io.Discard, o)
	if err != nil {
		return nil, err
	}
	errs, err := l.Lint("c07.yml", []byte(file), nil)
	if err != nil {
		return nil, err
	}
	ds := make([]diag, 0, len(errs))
	for _, e := range errs {
		ds = append(ds, diag{e.Line, e.Column, e.Kind, classOf(e), e.Message})
	}
	return ds, nil
}

func isYAMLSyntax(d diag) bool {
	return d.Kind == "syntax-check" && strings.HasPrefix(d.Msg, "could not parse as YAML")
}

type fail struct {
	What   string   `json:"what"`
	Key    string   `json:"key"`
	Spec   Spec     `json:"spec"`
	File   string   `json:"workflow"`
	Truth  [2]int   `json:"truth"`
	Got    [][2]int `json:"reported"`
	Detail string   `json:"detail,omitempty"`
	Shift  string   `json:"shift,omitempty"`
}

func classPositions(ds []diag, class int) [][2]int {
	out := [][2]int{}
	for _, d := range ds {
		if d.Class == class {
			out = append(out, [2]int{d.Line, d.Col})
		}
	}
	sort.Slice(out, func(i, j int) bool {
		if out[i][0] != out[j][0] {
			return out[i][0] < out[j][0]
		}
		return out[i][1] < out[j][1]
	})
	return out
}

func callSite(s Spec) string {
	cs := s.Site
	if s.IfBare {
		cs += ":bare"
	}
	q := "plain"
	if s.Style == 1 {
		q = "single"
	} else if s.Style == 2 {
		q = "double"
	}
	if s.Family == "key" || s.Family == "dupkey" {
		q = []string{"plain", "single", "double"}[s.KeyStyle]
	}
	return cs + ":" + q
}

// oracle: the property, verbatim, on one placement.  Returns failures.
func oracle(bt *Built, ds []diag) []fail {
	fs := []fail{}
	s := bt.Spec
	// bounds, for every diagnostic other than a YAML-level syntax error
	for _, d := range ds {
		if isYAMLSyntax(d) {
			continue
		}
		if d.Line < 1 || d.Col < 1 || d.Line > bt.NLines {
			key := fmt.Sprintf("bounds:%s:%s:%s", s.Family, classNames[d.Class], callSite(s))
			if d.Line > bt.NLines && s.Family == "multi" && strings.HasPrefix(s.Variant, "dq-escape") && d.Line >= 1 && d.Col >= 1 {
				key = "line-beyond-file:double-quoted-scalar-with-newline-escapes-inside-placeholder"
			}
			fs = append(fs, fail{What: fmt.Sprintf("diagnostic at %d:%d outside the file (%d lines) or column < 1: %s", d.Line, d.Col, bt.NLines, d.Msg), Key: key, Spec: s, File: bt.File, Got: [][2]int{{d.Line, d.Col}}})
		}
	}
	if s.Family == "multi" {
		return fs // exactness is claimed for one-line, escape-free ASCII scalars only
	}
	got := classPositions(ds, bt.Class)
	if len(got) == 0 {
		return fs // not triggered: counted by the caller
	}
	if strings.HasPrefix(s.Variant, "several-ref-chars") {
		// one report per offending character, each at its own column
		want := map[[2]int]bool{}
		for i := 0; i < len(s.Text); i++ {
			if strings.IndexByte("~^ :", s.Text[i]) >= 0 {
				want[[2]int{bt.TruthLine, bt.TruthCol + i - s.Delta}] = true
			}
		}
		ok := len(got) == len(want)
		for _, g := range got {
			ok = ok && want[[2]int{g[0], g[1]}]
		}
		if !ok {
			fs = append(fs, fail{
				What: fmt.Sprintf("glob diagnostics of a pattern with several offending characters are reported at %v, the characters are at %v", got, want),
				Key:  fmt.Sprintf("exact:%s:%s:several", s.Kind, callSite(s)),
				Spec: s, File: bt.File, Truth: [2]int{bt.TruthLine, bt.TruthCol}, Got: got})
		}
		return fs
	}
	for _, g := range got {
		if s.Prop != "" && g[0] == bt.TruthLine && g[1] == bt.TruthCol-len(s.Prop) {
			// the reported column counts from the anchor / tag written before the scalar
			fs = append(fs, fail{
				What: fmt.Sprintf("%s diagnostic reported at %d:%d but the offending token is at %d:%d: the column is computed from the position of the node properties (%q) written before the scalar, not from the scalar", s.Kind, g[0], g[1], bt.TruthLine, bt.TruthCol, s.Prop),
				Key:  "node-property-before-scalar:" + map[bool]string{true: "anchor", false: "tag"}[strings.HasPrefix(s.Prop, "&")],
				Spec: s, File: bt.File, Truth: [2]int{bt.TruthLine, bt.TruthCol}, Got: got})
			break
		}
		if g[0] != bt.TruthLine || g[1] != bt.TruthCol {
			fs = append(fs, fail{
				What: fmt.Sprintf("%s diagnostic reported at %d:%d but the offending token/key/value is at %d:%d", s.Kind, g[0], g[1], bt.TruthLine, bt.TruthCol),
				Key:  fmt.Sprintf("exact:%s:%s:d%+d,%+d", s.Kind, callSite(s), g[0]-bt.TruthLine, g[1]-bt.TruthCol),
				Spec: s, File: bt.File, Truth: [2]int{bt.TruthLine, bt.TruthCol}, Got: got})
			break
		}
	}
	return fs
}

// shifted variants of a placement: what, k, the re-rendered spec
func shifts(r *hx.Rng, s Spec) []struct {
	what   string
	dl, dc int
	spec   Spec
} {
	out := []struct {
		what   string
		dl, dc int
		spec   Spec
	}{}
	k := 1 + r.Intn(7)
	// k lines above
	a := s
	a.TopLines += k
	out = append(out, struct {
		what   string
		dl, dc int
		spec   Spec
	}{"lines-top", k, 0, a})
	if !s.Flow && s.Family != "multi" {
		b := s
		b.Above += k
		out = append(out, struct {
			what   string
			dl, dc int
			spec   Spec
		}{"lines-above", k, 0, b})
	}
	switch s.Family {
	case "expr", "value", "glob":
		// k spaces between the key / dash and the scalar
		c := s
		c.Gap += k
		out = append(out, struct {
			what   string
			dl, dc int
			spec   Spec
		}{"cols-gap", 0, k, c})
		// k filler characters inside the scalar, before everything else
		if s.Family == "expr" && !s.IfBare && s.Kind != "tmpl" {
			site := exprSites[0]
			for _, es := range exprSites {
				if es.name == s.Site {
					site = es
				}
			}
			// k BLANKS between the opening quote and a value that is one placeholder (the forms that read
			// the value as ONE expression trim it before they look at it)
			if s.Style != 0 && strings.HasPrefix(s.Text, "${{") && s.Prop == "" {
				d := s
				d.Pad = s.Pad + strings.Repeat(" ", k)
				out = append(out, struct {
					what   string
					dl, dc int
					spec   Spec
				}{"cols-inner-blanks", 0, k, d})
			}
			if !site.oneOnly {
				d := s
				fl := filler(r, s.Style, k, true)
				d.Pad = fl + s.Pad
				if len(fl) == k && !strings.HasSuffix(fl, " ") && !strings.ContainsAny(fl[len(fl)-1:], "${}") {
					out = append(out, struct {
						what   string
						dl, dc int
						spec   Spec
					}{"cols-inner", 0, k, d})
				}
			}
		}
	}
	return out
}

// ---------------------------------------------------------------- Coq terms

// cstr renders a string as a Coq term on one line: a literal when it is
// printable ASCII, else (pos_bytes [..]) with its bytes.
func cstr(s string) string {
	plain := true
	for i := 0; i < len(s); i++ {
		if s[i] < 32 || s[i] > 126 {
			plain = false
		}
	}
	if plain {
		return hx.CoqStr(s)
	}
	ps := make([]string, len(s))
	for i := 0; i < len(s); i++ {
		ps[i] = fmt.Sprintf("%d", s[i])
	}
	return "(pos_bytes [" + strings.Join(ps, ";") + "]%N)"
}

func coqNs(xs []int) string {
	ps := []string{}
	for _, x := range xs {
		ps = append(ps, hx.CoqN(x))
	}
	return "[" + strings.Join(ps, "; ") + "]"
}

func coqObs(ps [][2]int) string {
	parts := []string{}
	seen := map[[2]int]bool{}
	for _, p := range ps {
		// the observable is the set of reported positions (a matrix value is visited twice)
		if seen[p] {
			continue
		}
		seen[p] = true
		parts = append(parts, fmt.Sprintf("[%d%%N; %d%%N]", p[0], p[1]))
	}
	return "[" + strings.Join(parts, "; ") + "]"
}

func exprClassPositions(ds []diag) [][2]int {
	out := [][2]int{}
	for _, d := range ds {
		if d.Class >= clLexer && d.Class <= clTmpl {
			out = append(out, [2]int{d.Line, d.Col})
		}
	}
	return out
}

func caseTerm(bt *Built, ds []diag) (string, bool) {
	s := bt.Spec
	switch s.Family {
	case "expr", "multi":
		os, tb := []int{}, []int{}
		switch s.Kind {
		case "lexer":
		case "tmpl":
			tb = append(tb, bt.TokOff)
		default:
			os = append(os, bt.TokOff)
		}
		site := bt.ModelSite
		return fmt.Sprintf("(CExpr %s %s %s %s %s %s %s, %s)", hx.CoqN(site), hx.CoqN(bt.ScalarLine), hx.CoqN(bt.ScalarCol),
			hx.CoqBool(bt.Quoted), cstr(bt.Value), coqNs(os), coqNs(tb), coqObs(exprClassPositions(ds))), true
	case "glob":
		var errs []actionlint.InvalidGlobPattern
		if s.Site == "on.push.paths" {
			errs = actionlint.ValidatePathGlob(bt.Value)
		} else {
			errs = actionlint.ValidateRefGlob(bt.Value)
		}
		cols := []int{}
		for _, e := range errs {
			cols = append(cols, e.Column)
		}
		return fmt.Sprintf("(CGlob %s %s %s %s, %s)", hx.CoqN(bt.ScalarLine), hx.CoqN(bt.ScalarCol), hx.CoqBool(bt.Quoted), coqNs(cols), coqObs(classPositions(ds, clGlob))), true
	default:
		return fmt.Sprintf("(CNode %s %s, %s)", hx.CoqN(bt.ScalarLine), hx.CoqN(bt.ScalarCol), coqObs(classPositions(ds, bt.Class))), true
	}
}

// K1: expression sources for the position-only lexer model
var lexAtoms = []string{"github", "event_name", "a-b", "_x", "1", "0", "-1", "12.5", "2e3", "1.0e-2", "0x1f", "0xAB", "'s'", "'it''s'", "''", "'a b'", "(", ")", "[", "]", ".", ",", "*", "!", "!=", "==", "<", "<=", ">", ">=", "&&", "||", "true", "null"}
var lexBad = []string{"#", "\"x\"", "1a", "1.", "1.x", "0x", "0xg", "1e", "1e-", "1ex", "=", "= =", "&", "|", "&x", "}", "} }", "'abc", "-", "-a", "0x1fg", "12.5.", "é", "1.5e3x", "?"}
var lexWs = []string{" ", "", "  ", "\n", "\t", " \n  ", "\r\n"}

func genLexSrc(r *hx.Rng) string {
	var b strings.Builder
	n := 1 + r.Intn(8)
	b.WriteString(lexWs[r.Intn(len(lexWs))])
	for i := 0; i < n; i++ {
		if r.Chance(1, 14) {
			b.WriteString(lexBad[r.Intn(len(lexBad))])
		} else if r.Chance(1, 12) {
			b.WriteString("'héllo 世'")
		} else {
			b.WriteString(lexAtoms[r.Intn(len(lexAtoms))])
		}
		b.WriteString(lexWs[r.Intn(len(lexWs))])
	}
	if r.Chance(9, 10) {
		b.WriteString("}}")
	}
	if r.Chance(1, 2) {
		b.WriteString(" tail ${{ 1 }}")
	}
	return b.String()
}

func lexTerm(src string) string {
	toks, off, err := actionlint.LexExpression(src)
	obs := []string{}
	if err != nil {
		obs = append(obs, fmt.Sprintf("[999%%N; %d%%N; %d%%N; %d%%N]", err.Offset, err.Line, err.Column))
	} else {
		for i, t := range toks {
			end := 0
			if t.Kind == actionlint.TokenKindEnd {
				end = 1
			}
			obs = append(obs, fmt.Sprintf("[%d%%N; %d%%N; %d%%N; %d%%N; %d%%N]", i, t.Offset, t.Line, t.Column, end))
		}
		obs = append(obs, fmt.Sprintf("[1000%%N; %d%%N]", off))
	}
	return fmt.Sprintf("(CLex %s, [%s])", cstr(src), strings.Join(obs, "; "))
}

// ---------------------------------------------------------------- main

func runOne(bt *Built) ([]diag, error) { return lint(bt.File) }

func replay(path string) int {
	b, err := os.ReadFile(path)
	hx.Must(err)
	var f struct {
		Spec     Spec   `json:"spec"`
		Workflow string `json:"workflow"`
		Shift    string `json:"shift"`
		What     string `json:"what"`
	}
	hx.Must(json.Unmarshal(b, &f))
	fmt.Println("replay:", f.What)
	bt, err := build(f.Spec)
	if err != nil {
		fmt.Println("cannot rebuild the placement:", err)
		return 2
	}
	ds, err := lint(bt.File)
	hx.Must(err)
	fmt.Println("---- workflow")
	fmt.Println(bt.File)
	fmt.Printf("---- planted %s at %d:%d (scalar at %d:%d quoted=%v token offset %d)\n", f.Spec.Kind, bt.TruthLine, bt.TruthCol, bt.ScalarLine, bt.ScalarCol, bt.Quoted, bt.TokOff)
	for _, d := range ds {
		fmt.Printf("reported %d:%d [%s/%s] %.90s\n", d.Line, d.Col, d.Kind, classNames[d.Class], d.Msg)
	}
	fs := oracle(bt, ds)
	base := classPositions(ds, bt.Class)
	rr := hx.NewRng(uint64(f.Spec.ID) + 77)
	for _, sh := range shifts(rr, f.Spec) {
		fs = append(fs, shiftCheck(bt, base, sh.what, sh.dl, sh.dc, sh.spec)...)
	}
	for _, x := range fs {
		fmt.Println("FAIL:", x.What, "key="+x.Key)
	}
	if len(fs) > 0 {
		return 1
	}
	fmt.Println("property holds on this placement")
	return 0
}

func shiftCheck(bt *Built, base [][2]int, what string, dl, dc int, spec Spec) []fail {
	if len(base) == 0 {
		return nil
	}
	b2, err := build(spec)
	if err != nil || !b2.HypOK {
		return nil
	}
	ds2, err := lint(b2.File)
	if err != nil {
		return nil
	}
	got := classPositions(ds2, bt.Class)
	ok := len(got) == len(base)
	if ok {
		for i := range got {
			if got[i][0] != base[i][0]+dl || got[i][1] != base[i][1]+dc {
				ok = false
			}
		}
	}
	if ok {
		return nil
	}
	k := dl + dc
	return []fail{{
		What: fmt.Sprintf("shift %s by %d: the %s report moved from %v to %v, expected exactly +%d", what, k, bt.Spec.Kind, base, got, k),
		Key:  fmt.Sprintf("shift:%s:%s:%s", what, bt.Spec.Kind, callSite(bt.Spec)),
		Spec: spec, File: b2.File, Truth: [2]int{b2.TruthLine, b2.TruthCol}, Got: got, Shift: what,
	}}
}

func main() {
	seed := flag.Uint64("seed", 1, "seed")
	n := flag.Int("n", 2400, "number of placements")
	out := flag.String("out", ".", "output directory")
	rp := flag.String("replay", "", "replay file")
	nlex := flag.Int("nlex", 600, "number of lexer-position cases")
	flag.String("tier", "quick", "tier")
	repo := flag.String("repo", "", "actionlint source tree (its testdata corpus gets the bounds check)")
	flag.Parse()
	if *rp != "" {
		os.Exit(replay(*rp))
	}
	r := hx.NewRng(*seed)
	sum := hx.NewSummary("C07")
	sum.Rule = "placement generator: one planted diagnostic per workflow (lexer/parser/undefined/type/untrusted/template-type, unexpected key, duplicate key, bad value, glob character) at expression sites (run, name, env, with, if with and without ${{ }}, matrix values, runs-on, timeout-minutes, continue-on-error), plain/single/double quoted, block and flow style, indentation steps 1-4 per level, 0-3 earlier placeholders and ASCII filler; truth = position of a unique marker in the rendered bytes; plus multi-line/escaped scalars (bounds + model only) and lexer sources"
	var terms, lexTerms, sources []string
	fails := []interface{}{}
	untriggered := 0
	hypFail := 0
	shiftsRun := 0
	distinct := map[string]bool{}
	for i := 0; i < *n; i++ {
		var s Spec
		c := r.Intn(100)
		switch {
		case i < 8:
			// a quoted value that is ONE placeholder with blanks between the quote and `${{`, at a site
			// that may be given by one expression (read through mayParseExpression)
			s = genExprSpec(r, i)
			s.Site, s.Style, s.Flow, s.IfBare, s.Gap = "job.runs-on", 1+i%2, false, false, 0
			s.Pad = strings.Repeat(" ", 1+i/2)
			s.Text, s.Marker, s.Delta, s.Kind, s.Variant, s.TmplOff = "${{ zzq }}", "zzq", 0, "undef", "blank-pad", 0
		case c < 62:
			s = genExprSpec(r, i)
		case c < 72:
			s = genKeySpec(r, i)
		case c < 80:
			s = genValueSpec(r, i)
		case c < 90:
			s = genGlobSpec(r, i)
		default:
			s = genMultiSpec(r, i)
		}
		// an anchor or a tag before the planted scalar
		if (s.Family == "expr" || s.Family == "glob") && s.Variant != "several-ref-chars" && !strings.HasPrefix(s.Variant, "several") &&
			!(strings.HasPrefix(s.Site, "matrix.") && s.Style != 0) { // (quoted matrix values: another recorded finding)
			switch {
			case i%11 == 5 && !s.IfBare:
				s.Prop = "&anc "
			case i%11 == 8 && s.Family == "glob":
				s.Prop = "!!str "
			}
		}
		if s.Prop != "" {
			sum.Dist["node_property_before_scalar"]++
		}
		bt, err := build(s)
		if err != nil {
			sum.Dist["skipped:"+s.Family]++
			continue
		}
		if !bt.HypOK {
			hypFail++
			if hypFail <= 3 {
				fails = append(fails, fail{What: "hypothesis scalar_pos_exact does not hold for a planted scalar: " + bt.HypMsg, Key: "hypothesis:scalar_pos_exact:" + callSite(s), Spec: s, File: bt.File})
			}
			continue
		}
		ds, err := runOne(bt)
		if err != nil {
			fails = append(fails, fail{What: "Lint returned an error: " + err.Error(), Key: "lint-error", Spec: s, File: bt.File})
			continue
		}
		sum.Evaluations++
		sum.Dist["family:"+s.Family]++
		sum.Dist["kind:"+s.Kind]++
		sum.Dist["site:"+s.Site]++
		sum.Dist[fmt.Sprintf("style:%d", s.Style)]++
		if s.Flow {
			sum.Dist["flow"]++
		}
		fs := oracle(bt, ds)
		base := classPositions(ds, bt.Class)
		if len(base) == 0 {
			untriggered++
			sum.Dist["untriggered:"+s.Kind+":"+s.Variant+":"+s.Site]++
			if untriggered <= 3 {
				sum.Samples = append(sum.Samples, map[string]interface{}{"untriggered": s, "workflow": bt.File})
			}
		} else {
			distinct[fmt.Sprintf("%s|%s|%d|%v|%v", s.Kind, s.Site, s.Style, s.Flow, s.IfBare)] = true
			if s.Family != "multi" {
				for _, sh := range shifts(r, s) {
					shiftsRun++
					fs = append(fs, shiftCheck(bt, base, sh.what, sh.dl, sh.dc, sh.spec)...)
				}
			}
		}
		for _, f := range fs {
			fails = append(fails, f)
		}
		if t, ok := caseTerm(bt, ds); ok {
			terms = append(terms, t)
			sj, _ := json.Marshal(map[string]interface{}{"spec": s, "workflow": bt.File})
			sources = append(sources, string(sj))
		}
		if len(sum.Samples) < 6 && i%97 == 0 {
			sum.Samples = append(sum.Samples, map[string]interface{}{"spec": s, "truth": []int{bt.TruthLine, bt.TruthCol}, "reported": base})
		}
	}
	// bounds clause on the repository's own workflow corpus
	corpus := 0
	if *repo != "" {
		for _, dir := range []string{"testdata/examples", "testdata/ok", "testdata/err", "testdata/format"} {
			files, _ := filepath.Glob(filepath.Join(*repo, dir, "*.y*ml"))
			sort.Strings(files)
			for _, f := range files {
				b, err := os.ReadFile(f)
				if err != nil {
					continue
				}
				ds, err := lint(string(b))
				if err != nil {
					continue
				}
				corpus++
				text := string(b)
				nl := strings.Count(text, "\n")
				if !strings.HasSuffix(text, "\n") {
					nl++
				}
				for _, d := range ds {
					if isYAMLSyntax(d) {
						continue
					}
					if d.Line < 1 || d.Col < 1 || d.Line > nl {
						fails = append(fails, fail{What: fmt.Sprintf("corpus file %s: diagnostic at %d:%d outside the file (%d lines) or column < 1: %s", filepath.Base(f), d.Line, d.Col, nl, d.Msg),
							Key: "bounds:corpus:" + dir + "/" + filepath.Base(f), File: text, Got: [][2]int{{d.Line, d.Col}}})
					}
				}
			}
		}
	}
	sum.Extra["corpus_files_bounds_checked"] = corpus
	for i := 0; i < *nlex; i++ {
		src := genLexSrc(r)
		lexTerms = append(lexTerms, lexTerm(src))
	}
	sum.Nontrivial = len(distinct)
	sum.OracleFails = fails
	sum.Extra["untriggered"] = untriggered
	sum.Extra["hypothesis_failures"] = hypFail
	sum.Extra["shifted_variants"] = shiftsRun
	sum.Extra["lexer_cases"] = len(lexTerms)
	sum.Extra["classes"] = classNames
	hx.Must(os.MkdirAll(*out, 0o755))
	hx.Must(os.WriteFile(filepath.Join(*out, "cases.txt"), []byte(strings.Join(terms, "\n")+"\n"), 0o644))
	hx.Must(os.WriteFile(filepath.Join(*out, "cases_lex.txt"), []byte(strings.Join(lexTerms, "\n")+"\n"), 0o644))
	hx.Must(os.WriteFile(filepath.Join(*out, "sources.jsonl"), []byte(strings.Join(sources, "\n")+"\n"), 0o644))
	sum.Write(filepath.Join(*out, "summary.json"))
}
