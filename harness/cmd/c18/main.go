// Command c18: correspondence and oracle harness for property C18 (job
// dependency checks are exact for every "needs" graph).
//
// It enumerates / generates "needs" graphs as workflow YAML, parses them with
// actionlint.Parse, runs RuleJobNeeds through the exported visitor (several
// times per case: Go's map iteration order decides where the DFS starts),
// projects the diagnostics to observables, evaluates the property itself with
// a reference written from the property text (Kahn's algorithm, edge-by-edge
// check of the printed cycle, exact set of unresolved pairs) and dumps the
// model inputs (projection of the AST) with the observables for the Coq model:
// cases.txt (Coq terms, evaluated by vm_compute) and bulk-N.txt (same cases in
// the line format of ocaml/c18/driver.ml, evaluated by the extracted model).
package main

import (
	"bufio"
	"encoding/json"
	"flag"
	"fmt"
	"hash/fnv"
	"io"
	"os"
	"path/filepath"
	"regexp"
	"sort"
	"strconv"
	"strings"
	"sync"
	"sync/atomic"
	"time"

	"github.com/rhysd/actionlint"

	"verifharness/hx"
)

// ---- graph specifications and YAML rendering ------------------------------

type gjob struct {
	id    string
	needs []string
	// body: "" an ordinary job; "nosteps" runs-on and needs but no steps (a job that is not
	// finished yet); "null" / "scalar" / "seq": the value of the job key is not a mapping at all
	body string
	raw  bool // needs entries written without quotes (null, ~, Null are job ids like any other)
}

type spec struct {
	jobs  []gjob
	ords  [][]string // explicit iteration orders for the model (nil: all permutations)
	class bool       // compare the cyclic diagnostic as a class only (graphs with many cycles and too many orders)
	group string
	flow  bool // the jobs mapping in flow style on ONE line: positions differ in the column only
	// a needs list with ONE entry is written as a scalar (`needs: x`)
	scalarNeeds bool
}

// fidelity: the jobs and needs the rule is given are the ones written (ids and references as
// spelled, in order); the reference evaluation of the property works on the parsed workflow
func (s *spec) fidelity(jobs []ajob) string {
	if len(jobs) != len(s.jobs) {
		return fmt.Sprintf("%d jobs written, %d parsed", len(s.jobs), len(jobs))
	}
	byID := map[string]ajob{}
	for _, j := range jobs {
		byID[j.ID] = j
	}
	for _, g := range s.jobs {
		j, ok := byID[g.id]
		if !ok {
			return "job " + g.id + " lost"
		}
		if len(j.Needs) != len(g.needs) {
			return fmt.Sprintf("job %s: %d needs entries written, %d parsed", g.id, len(g.needs), len(j.Needs))
		}
		for i, n := range g.needs {
			if j.Needs[i].V != n {
				return fmt.Sprintf("job %s: needs entry %q parsed as %q", g.id, n, j.Needs[i].V)
			}
		}
	}
	return ""
}

func (s *spec) yaml() string {
	var b strings.Builder
	if s.flow {
		b.WriteString("on: push\njobs: {")
		for i, j := range s.jobs {
			if i > 0 {
				b.WriteString(", ")
			}
			b.WriteString(j.id + ": {")
			if len(j.needs) > 0 {
				qs := make([]string, len(j.needs))
				for i, n := range j.needs {
					qs[i] = strconv.Quote(n)
				}
				b.WriteString("needs: [" + strings.Join(qs, ", ") + "], ")
			}
			b.WriteString("runs-on: x, steps: [{run: echo}]}")
		}
		b.WriteString("}\n")
		return b.String()
	}
	b.WriteString("on: push\njobs:\n")
	for _, j := range s.jobs {
		switch j.body {
		case "null":
			b.WriteString("  " + j.id + ":\n")
			continue
		case "scalar":
			b.WriteString("  " + j.id + ": TODO\n")
			continue
		case "seq":
			b.WriteString("  " + j.id + ": [x]\n")
			continue
		}
		b.WriteString("  " + j.id + ":\n")
		if j.raw && len(j.needs) > 0 {
			b.WriteString("    needs: [" + strings.Join(j.needs, ", ") + "]\n")
		} else if len(j.needs) == 1 && s.scalarNeeds {
			b.WriteString("    needs: " + strconv.Quote(j.needs[0]) + "\n")
		} else if len(j.needs) > 0 {
			qs := make([]string, len(j.needs))
			for i, n := range j.needs {
				qs[i] = strconv.Quote(n)
			}
			b.WriteString("    needs: [" + strings.Join(qs, ", ") + "]\n")
		}
		if j.body == "nosteps" {
			b.WriteString("    runs-on: x\n")
			continue
		}
		b.WriteString("    runs-on: x\n    steps:\n      - run: echo\n")
	}
	return b.String()
}

// ---- projection of the AST (input of the model and of the oracle) ----------

type aneed struct {
	V         string
	Line, Col int
}

type ajob struct {
	ID        string
	Line, Col int
	Needs     []aneed
}

func project(w *actionlint.Workflow) []ajob {
	var out []ajob
	for _, j := range w.Jobs {
		if j == nil || j.ID == nil || j.ID.Pos == nil {
			continue
		}
		a := ajob{ID: j.ID.Value, Line: j.ID.Pos.Line, Col: j.ID.Pos.Col}
		for _, n := range j.Needs {
			if n == nil {
				continue
			}
			l, c := 0, 0
			if n.Pos != nil {
				l, c = n.Pos.Line, n.Pos.Col
			}
			a.Needs = append(a.Needs, aneed{n.Value, l, c})
		}
		out = append(out, a)
	}
	sort.Slice(out, func(i, k int) bool {
		if out[i].Line != out[k].Line {
			return out[i].Line < out[k].Line
		}
		return out[i].Col < out[k].Col
	})
	return out
}

// ---- implementation run -----------------------------------------------------

type pdiag struct {
	Kind      int // 0 dup in needs, 1 dup job id, 2 missing, 3 cycle
	Line, Col int
	ID, Dep   string
	Cyc       []string
}

var quoted = regexp.MustCompile(`"(?:[^"\\]|\\.)*"`)

func unq(s string) string {
	u, err := strconv.Unquote(s)
	if err != nil {
		return s
	}
	return u
}

const cyclePrefix = "cyclic dependencies in \"needs\" job configurations are detected. detected cycle is "

func classify(e *actionlint.Error) (pdiag, bool) {
	d := pdiag{Line: e.Line, Col: e.Column}
	m := e.Message
	switch {
	case strings.HasPrefix(m, "job ID ") && strings.Contains(m, " duplicates in \"needs\" section"):
		d.Kind = 0
	case strings.HasPrefix(m, "job ID ") && strings.Contains(m, " duplicates. previously defined at"):
		d.Kind = 1
	case strings.HasPrefix(m, "job ") && strings.HasSuffix(m, " which does not exist in this workflow"):
		d.Kind = 2
		qs := quoted.FindAllString(m, -1)
		if len(qs) != 2 {
			return d, false
		}
		d.ID, d.Dep = unq(qs[0]), unq(qs[1])
	case strings.HasPrefix(m, cyclePrefix):
		d.Kind = 3
		rest := m[len(cyclePrefix):]
		qs := quoted.FindAllString(rest, -1)
		if strings.Join(qs, " -> ") != rest {
			return d, false
		}
		for _, q := range qs {
			d.Cyc = append(d.Cyc, unq(q))
		}
	default:
		return d, false
	}
	return d, true
}

func runRule(w *actionlint.Workflow) (ds []pdiag, err error) {
	defer func() {
		if r := recover(); r != nil {
			err = fmt.Errorf("panic: %v", r)
		}
	}()
	rule := actionlint.NewRuleJobNeeds()
	v := actionlint.NewVisitor()
	v.AddPass(rule)
	if e := v.Visit(w); e != nil {
		return nil, e
	}
	for _, e := range rule.Errs() {
		d, ok := classify(e)
		if !ok {
			return nil, fmt.Errorf("unclassified diagnostic of rule job-needs: %q", e.Message)
		}
		ds = append(ds, d)
	}
	return ds, nil
}

// observable of one run: sorted list of number tuples
func observable(jobs []ajob, ds []pdiag, class bool) [][]int {
	lineOf := map[string]int{} // position of the job as one number (jobs of a flow mapping share the line)
	for _, j := range jobs {
		lineOf[strings.ToLower(j.ID)] = j.Line*1000000 + j.Col
	}
	var out [][]int
	for _, d := range ds {
		t := []int{d.Kind, d.Line, d.Col}
		switch d.Kind {
		case 2:
			for _, c := range []byte(d.ID) {
				t = append(t, int(c))
			}
			t = append(t, 256)
			for _, c := range []byte(d.Dep) {
				t = append(t, int(c))
			}
		case 3:
			if class {
				t = []int{3}
			} else {
				for _, id := range d.Cyc {
					t = append(t, lineOf[id])
				}
			}
		}
		out = append(out, t)
	}
	sort.Slice(out, func(i, k int) bool { return tupleLess(out[i], out[k]) })
	return out
}

func tupleLess(a, b []int) bool {
	for i := 0; i < len(a) && i < len(b); i++ {
		if a[i] != b[i] {
			return a[i] < b[i]
		}
	}
	return len(a) < len(b)
}

func obsKey(o [][]int) string { return fmt.Sprint(o) }

// ---- the property oracle, written from the property text --------------------
//
// "each reference to a job id that does not exist (compared
// case-insensitively) is reported at the referring job; if all references
// resolve, a cyclic-dependency diagnostic is reported iff the graph contains a
// cycle, self-dependency included - exactly one, and the cycle it prints is a
// real cycle of the graph - while acyclic graphs get none."
// An empty "needs" entry is a syntax error of the workflow (reported by the
// parser), not a reference.

func oracle(jobs []ajob, ds []pdiag) []string {
	var fails []string
	idx := map[string]int{}
	for i, j := range jobs {
		idx[strings.ToLower(j.ID)] = i
	}
	type pair struct {
		line, col int
		id, dep   string
	}
	want := map[pair]bool{}
	adj := make([]map[int]bool, len(jobs))
	for i, j := range jobs {
		adj[i] = map[int]bool{}
		for _, n := range j.Needs {
			if n.V == "" {
				continue
			}
			dep := strings.ToLower(n.V)
			if k, ok := idx[dep]; ok {
				adj[i][k] = true
			} else {
				want[pair{j.Line, j.Col, strings.ToLower(j.ID), dep}] = true
			}
		}
	}
	got := map[pair]bool{}
	ncyc := 0
	var cyc []string
	for _, d := range ds {
		switch d.Kind {
		case 2:
			got[pair{d.Line, d.Col, d.ID, d.Dep}] = true
		case 3:
			ncyc++
			cyc = d.Cyc
		}
	}
	for p := range want {
		if !got[p] {
			fails = append(fails, fmt.Sprintf("unresolved reference not reported at the referring job: job %q (line %d) needs %q", p.id, p.line, p.dep))
		}
	}
	for p := range got {
		if !want[p] {
			fails = append(fails, fmt.Sprintf("pair reported as unresolved that is not an unresolved reference of the graph: job %q (line %d) needs %q", p.id, p.line, p.dep))
		}
	}
	if len(want) > 0 {
		sort.Strings(fails)
		return fails
	}
	// Kahn: repeatedly remove nodes without incoming edges
	n := len(jobs)
	indeg := make([]int, n)
	for i := range adj {
		for k := range adj[i] {
			indeg[k]++
		}
	}
	var queue []int
	for i := 0; i < n; i++ {
		if indeg[i] == 0 {
			queue = append(queue, i)
		}
	}
	removed := 0
	for len(queue) > 0 {
		v := queue[0]
		queue = queue[1:]
		removed++
		for k := range adj[v] {
			indeg[k]--
			if indeg[k] == 0 {
				queue = append(queue, k)
			}
		}
	}
	cyclic := removed < n
	switch {
	case cyclic && ncyc == 0:
		fails = append(fails, "graph has a cycle but no cyclic-dependency diagnostic")
	case cyclic && ncyc > 1:
		fails = append(fails, fmt.Sprintf("%d cyclic-dependency diagnostics (exactly one expected)", ncyc))
	case !cyclic && ncyc > 0:
		fails = append(fails, "acyclic graph gets a cyclic-dependency diagnostic")
	}
	if cyclic && ncyc == 1 {
		if len(cyc) < 2 || cyc[0] != cyc[len(cyc)-1] {
			fails = append(fails, fmt.Sprintf("printed cycle %v is not closed", cyc))
		} else {
			for i := 0; i+1 < len(cyc); i++ {
				a, okA := idx[cyc[i]]
				b, okB := idx[cyc[i+1]]
				if !okA || !okB || !adj[a][b] {
					fails = append(fails, fmt.Sprintf("printed cycle %v: %q -> %q is not an edge of the graph", cyc, cyc[i], cyc[i+1]))
					break
				}
			}
		}
	}
	sort.Strings(fails)
	return fails
}

// ---- evaluation of one case ---------------------------------------------------

type failure struct {
	What     string   `json:"what"`
	Key      string   `json:"key"`
	Workflow string   `json:"workflow"`
	Details  []string `json:"details,omitempty"`
	Impl     []pdiag  `json:"impl,omitempty"`
}

type result struct {
	src    string
	jobs   []ajob
	obs    [][][]int // distinct observables over the repetitions
	fails  []failure
	ncyc   int
	nmiss  int
	skip   string
	wfOK   bool
	keysOK bool
}

// lintLevel: the diagnostics of the rule as the LINTER returns them (Linter.Lint, the entry point a
// user has) are the ones the rule produced - none lost, none added - also when the run is given
// -ignore patterns none of which matches a message of this rule
// entryPoints: the same cyclic workflow through the other entry points of the linter - a repository
// run (the workflow file is a symbolic link), a multi-file run with a -format template - yields the
// one cyclic-dependency diagnostic each time
func entryPoints(out string) []failure {
	var fails []failure
	root := filepath.Join(out, "entryproj")
	os.RemoveAll(root)
	hx.Must(os.MkdirAll(filepath.Join(root, ".git"), 0o755))
	hx.Must(os.MkdirAll(filepath.Join(root, ".github", "workflows"), 0o755))
	hx.Must(os.MkdirAll(filepath.Join(root, "shared"), 0o755))
	cyc := "on: push\njobs:\n  build:\n    needs: [test]\n    runs-on: ubuntu-latest\n    steps:\n      - run: echo\n  pack:\n    needs: [build]\n    runs-on: ubuntu-latest\n    steps:\n      - run: echo\n  test:\n    needs: [pack]\n    runs-on: ubuntu-latest\n    steps:\n      - run: echo\n"
	self := "on: push\njobs:\n  deploy:\n    needs: [deploy]\n    runs-on: ubuntu-latest\n    steps:\n      - run: echo\n"
	plain := "on: push\njobs:\n  a:\n    runs-on: ubuntu-latest\n    steps:\n      - run: echo\n"
	a := filepath.Join(root, ".github", "workflows", "a.yaml")
	b := filepath.Join(root, ".github", "workflows", "b.yaml")
	hx.Must(os.WriteFile(a, []byte(cyc), 0o644))
	hx.Must(os.WriteFile(b, []byte(plain), 0o644))
	hx.Must(os.WriteFile(filepath.Join(root, "shared", "ci.yaml"), []byte(self), 0o644))
	hx.Must(os.Symlink(filepath.Join("..", "..", "shared", "ci.yaml"), filepath.Join(root, ".github", "workflows", "ci.yaml")))
	count := func(errs []*actionlint.Error, frag string) int {
		n := 0
		for _, e := range errs {
			if e.Kind == "job-needs" && strings.Contains(e.Message, "cyclic dependencies") && strings.Contains(e.Message, frag) {
				n++
			}
		}
		return n
	}
	for _, c := range []struct {
		name string
		opts *actionlint.LinterOptions
		run  func(l *actionlint.Linter) ([]*actionlint.Error, error)
	}{
		{"repository", &actionlint.LinterOptions{Shellcheck: "", Pyflakes: ""}, func(l *actionlint.Linter) ([]*actionlint.Error, error) { return l.LintRepository(root) }},
		{"files", &actionlint.LinterOptions{Shellcheck: "", Pyflakes: ""}, func(l *actionlint.Linter) ([]*actionlint.Error, error) {
			return l.LintFiles([]string{a, b, filepath.Join(root, ".github", "workflows", "ci.yaml")}, nil)
		}},
		{"files-with-format", &actionlint.LinterOptions{Shellcheck: "", Pyflakes: "", Format: "{{range $e := .}}{{$e.Message}}\n{{end}}"}, func(l *actionlint.Linter) ([]*actionlint.Error, error) {
			return l.LintFiles([]string{a, b, filepath.Join(root, ".github", "workflows", "ci.yaml")}, nil)
		}},
		{"file-with-format", &actionlint.LinterOptions{Shellcheck: "", Pyflakes: "", Format: "{{range $e := .}}{{$e.Message}}\n{{end}}"}, func(l *actionlint.Linter) ([]*actionlint.Error, error) {
			return l.LintFile(a, nil)
		}},
	} {
		l, err := actionlint.NewLinter(io.Discard, c.opts)
		hx.Must(err)
		errs, err := c.run(l)
		n1, n2 := count(errs, "\"build\""), count(errs, "\"deploy\"")
		want2 := 1
		if c.name == "file-with-format" {
			want2 = 0
		}
		if err != nil || n1 != 1 || n2 != want2 {
			fails = append(fails, failure{What: fmt.Sprintf("entry point %s: %d cyclic-dependency diagnostics for the cycle build -> pack -> test and %d for the self-dependency of deploy (exactly 1 and %d are demanded; error %v)", c.name, n1, n2, want2, err),
				Key: "entry-point:" + c.name, Workflow: cyc + "---\n" + self})
		}
	}
	os.RemoveAll(root)
	return fails
}

var lintLevelCfg sync.Once
var lintLevelCfgPath string

func lintLevel(src string, w *actionlint.Workflow) string {
	rule := actionlint.NewRuleJobNeeds()
	v := actionlint.NewVisitor()
	v.AddPass(rule)
	if err := v.Visit(w); err != nil {
		return ""
	}
	var want []string
	for _, e := range rule.Errs() {
		want = append(want, fmt.Sprintf("%d:%d: %s", e.Line, e.Column, e.Message))
	}
	sort.Strings(want)
	lintLevelCfg.Do(func() {
		f, err := os.CreateTemp("/var/tmp", "c18-actionlint-*.yaml")
		hx.Must(err)
		// `paths` entries that do not apply to .github/workflows/test.yaml: a bare file name, another
		// directory, another extension
		f.WriteString("paths:\n  test.yaml:\n    ignore: ['.*']\n  workflows/test.yaml:\n    ignore: ['.*']\n  .github/workflows/test.yml:\n    ignore: ['.*']\n  '*.yaml':\n    ignore: ['.*']\n")
		f.Close()
		lintLevelCfgPath = f.Name()
	})
	for oi, opts := range []*actionlint.LinterOptions{
		{Shellcheck: "", Pyflakes: ""},
		{Shellcheck: "", Pyflakes: "", ConfigFile: lintLevelCfgPath},
		// patterns that match no message of the rule: an inline flag group first, then fragments of the
		// rule's messages in the wrong letter case
		{Shellcheck: "", Pyflakes: "", IgnorePatterns: []string{"(?i)sc[0-9]{4} zz-nothing", "CYCLIC DEPENDENCIES", "DOES NOT EXIST", "IS ALREADY LISTED", "^JOB ", "\"[A-Z][A-Z0-9_-]*\" ->"}},
		{Shellcheck: "", Pyflakes: "", IgnorePatterns: []string{"(?s)zz.nothing", "(?i)^zz", "NEEDS", "(?-i)Needs Job"}},
	} {
		l, err := actionlint.NewLinter(io.Discard, opts)
		if err != nil {
			return "linter-options: " + err.Error()
		}
		name := "test.yaml"
		if opts.ConfigFile != "" {
			name = ".github/workflows/test.yaml"
		}
		errs, err := l.Lint(name, []byte(src), nil)
		if err != nil {
			return "lint-error: " + err.Error()
		}
		var got []string
		for _, e := range errs {
			if e.Kind == "job-needs" {
				got = append(got, fmt.Sprintf("%d:%d: %s", e.Line, e.Column, e.Message))
			}
		}
		sort.Strings(got)
		if strings.Join(got, "\n") != strings.Join(want, "\n") {
			lost := ""
			gs := map[string]int{}
			for _, g := range got {
				gs[g]++
			}
			for _, x := range want {
				if gs[x] == 0 {
					lost = x
					break
				}
				gs[x]--
			}
			return fmt.Sprintf("diagnostics-differ: the linter returns %d diagnostics of the rule, the rule produced %d (options set %d); first one lost: %s", len(got), len(want), oi, lost)
		}
	}
	return ""
}

func evalSource(src string, reps int, class bool) *result {
	r := &result{src: src}
	w, _ := actionlint.Parse([]byte(src))
	if w == nil {
		r.skip = "workflow does not parse"
		return r
	}
	r.jobs = project(w)
	// assumption of the theorems (guaranteed by parse.go's parseMapping): job ids are distinct case-insensitively
	seenID := map[string]bool{}
	r.keysOK = true
	for _, j := range r.jobs {
		k := strings.ToLower(j.ID)
		if seenID[k] || k == "" {
			r.keysOK = false
		}
		seenID[k] = true
	}
	seen := map[string]bool{}
	failed := map[string]bool{}
	if h := fnv.New32a(); true {
		h.Write([]byte(src))
		if h.Sum32()%6 == 0 || len(src) > 1500 {
			if what := lintLevel(src, w); what != "" {
				r.fails = append(r.fails, failure{What: what, Key: "lint-level:" + strings.SplitN(what, ":", 2)[0], Workflow: src})
			}
		}
	}
	for i := 0; i < reps; i++ {
		ds, err := runRule(w)
		if err != nil {
			what := "rule job-needs failed: " + err.Error()
			if !failed[what] {
				failed[what] = true
				r.fails = append(r.fails, failure{What: what, Key: "error:" + src, Workflow: src})
			}
			continue
		}
		o := observable(r.jobs, ds, class)
		if k := obsKey(o); !seen[k] {
			seen[k] = true
			r.obs = append(r.obs, o)
		}
		if i == 0 {
			for _, d := range ds {
				if d.Kind == 3 {
					r.ncyc++
				}
				if d.Kind == 2 {
					r.nmiss++
				}
			}
		}
		if fs := oracle(r.jobs, ds); len(fs) > 0 {
			what := fs[0]
			if !failed[what] {
				failed[what] = true
				r.fails = append(r.fails, failure{What: what, Key: "oracle:" + src, Workflow: src, Details: fs, Impl: ds})
			}
		}
	}
	return r
}

// watchdog: a case that runs longer than the limit is a termination failure
type slot struct {
	start atomic.Int64
	src   atomic.Value
}

var hangReport func(src string)

func evalAll(specs []*spec, reps int, workers int) []*result {
	res := make([]*result, len(specs))
	slots := make([]*slot, workers)
	for i := range slots {
		slots[i] = &slot{}
	}
	done := make(chan struct{})
	go func() {
		t := time.NewTicker(300 * time.Millisecond)
		defer t.Stop()
		for {
			select {
			case <-done:
				return
			case <-t.C:
				now := time.Now().UnixNano()
				for _, s := range slots {
					st := s.start.Load()
					if st != 0 && now-st > int64(20*time.Second) {
						src, _ := s.src.Load().(string)
						hangReport(src)
					}
				}
			}
		}
	}()
	var next atomic.Int64
	var wg sync.WaitGroup
	for wk := 0; wk < workers; wk++ {
		wg.Add(1)
		go func(s *slot) {
			defer wg.Done()
			for {
				i := int(next.Add(1)) - 1
				if i >= len(specs) {
					return
				}
				src := specs[i].yaml()
				s.src.Store(src)
				s.start.Store(time.Now().UnixNano())
				res[i] = evalSource(src, reps, specs[i].class)
				s.start.Store(0)
			}
		}(slots[wk])
	}
	wg.Wait()
	close(done)
	return res
}

// ---- writers -----------------------------------------------------------------

func coqTuple(t []int) string {
	xs := make([]string, len(t))
	for i, v := range t {
		xs[i] = strconv.Itoa(v)
	}
	return "[" + strings.Join(xs, ";") + "]%N"
}

func coqCase(sp *spec, r *result) string {
	js := []string{}
	for _, j := range r.jobs {
		ns := []string{}
		for _, n := range j.Needs {
			ns = append(ns, fmt.Sprintf("(%s, %s)", hx.CoqPos(n.Line, n.Col), hx.CoqStr(n.V)))
		}
		js = append(js, fmt.Sprintf("Build_job %s %s %s", hx.CoqStr(j.ID), hx.CoqPos(j.Line, j.Col), hx.CoqList(ns)))
	}
	os := []string{}
	for _, o := range sp.ords {
		ks := []string{}
		for _, k := range o {
			ks = append(ks, hx.CoqStr(k))
		}
		os = append(os, hx.CoqList(ks))
	}
	is := []string{}
	for _, o := range r.obs {
		ts := []string{}
		for _, t := range o {
			ts = append(ts, coqTuple(t))
		}
		is = append(is, hx.CoqList(ts))
	}
	return fmt.Sprintf("((%s, %s, %s), [[1%%N]])", hx.CoqList(js), hx.CoqList(os), hx.CoqList(is))
}

func bulkCase(sp *spec, r *result) string {
	var b strings.Builder
	fmt.Fprintf(&b, "J %d", len(r.jobs))
	for _, j := range r.jobs {
		fmt.Fprintf(&b, " =%s %d %d %d", j.ID, j.Line, j.Col, len(j.Needs))
		for _, n := range j.Needs {
			fmt.Fprintf(&b, " =%s %d %d", n.V, n.Line, n.Col)
		}
	}
	fmt.Fprintf(&b, " O %d", len(sp.ords))
	for _, o := range sp.ords {
		fmt.Fprintf(&b, " %d", len(o))
		for _, k := range o {
			b.WriteString(" =" + k)
		}
	}
	fmt.Fprintf(&b, " I %d", len(r.obs))
	for _, o := range r.obs {
		fmt.Fprintf(&b, " %d", len(o))
		for _, t := range o {
			fmt.Fprintf(&b, " %d", len(t))
			for _, v := range t {
				fmt.Fprintf(&b, " %d", v)
			}
		}
	}
	return b.String()
}

func bulkOK(r *result) bool {
	for _, j := range r.jobs {
		if strings.ContainsAny(j.ID, " \n\t\r") {
			return false
		}
		for _, n := range j.Needs {
			if strings.ContainsAny(n.V, " \n\t\r") {
				return false
			}
		}
	}
	return true
}

// ---- generators ----------------------------------------------------------------

var idPool = []string{"a", "B", "c", "D", "e"}

func swapCase(s string) string {
	if s == strings.ToLower(s) {
		return strings.ToUpper(s)
	}
	return strings.ToLower(s)
}

// every edge set over n jobs (self loops included); references are written in
// the job's own spelling or in the other case depending on (i+j) parity
func graphOf(n int, mask uint64, desc bool, group string) *spec {
	sp := &spec{group: group}
	for i := 0; i < n; i++ {
		j := gjob{id: idPool[i]}
		for k := 0; k < n; k++ {
			t := k
			if desc {
				t = n - 1 - k
			}
			if mask>>(uint(i*n+t))&1 == 1 {
				ref := idPool[t]
				if (i+t)%2 == 1 {
					ref = swapCase(ref)
				}
				j.needs = append(j.needs, ref)
			}
		}
		sp.jobs = append(sp.jobs, j)
	}
	return sp
}

// the same with every needs list in a random order
func graphShuffled(r *hx.Rng, n int, mask uint64, group string) *spec {
	sp := graphOf(n, mask, false, group)
	for i := range sp.jobs {
		ns := sp.jobs[i].needs
		p := r.Perm(len(ns))
		sh := make([]string, len(ns))
		for k, x := range p {
			sh[k] = ns[x]
		}
		sp.jobs[i].needs = sh
	}
	return sp
}

func seqs(alpha []string, maxLen int) [][]string {
	out := [][]string{{}}
	level := [][]string{{}}
	for l := 1; l <= maxLen; l++ {
		var nl [][]string
		for _, p := range level {
			for _, a := range alpha {
				q := append(append([]string{}, p...), a)
				nl = append(nl, q)
			}
		}
		out = append(out, nl...)
		level = nl
	}
	return out
}

// dangling / duplicate / case-variant / empty references: 3 jobs, every needs
// list up to the given lengths over {a, A, b, c, x, ""}
func variantSpecs(l0, l1, l2 int) []*spec {
	alpha := []string{"a", "A", "b", "c", "x", ""}
	s0, s1, s2 := seqs(alpha, l0), seqs(alpha, l1), seqs(alpha, l2)
	var out []*spec
	for _, n0 := range s0 {
		for _, n1 := range s1 {
			for _, n2 := range s2 {
				out = append(out, &spec{group: "variants", jobs: []gjob{{id: "a", needs: n0}, {id: "B", needs: n1}, {id: "c", needs: n2}}})
			}
		}
	}
	return out
}

// ids that are different job ids (each is its own lower-case form) although Unicode simple case
// folding identifies them: s / long s, sigma / final sigma, micro sign / mu
func foldSpecs() []*spec {
	var out []*spec
	for _, tr := range [][3]string{{"s", "\u017f", "x"}, {"\u03c3", "\u03c2", "y"}, {"\u00b5", "\u03bc", "z"}} {
		a, b, c := tr[0], tr[1], tr[2]
		refs := []string{a, b, c, "ghost"}
		for _, n0 := range seqs(refs, 2) {
			for _, n1 := range seqs([]string{a, b}, 1) {
				out = append(out, &spec{group: "unicode-fold", jobs: []gjob{{id: a, needs: n0}, {id: c, needs: n1}}})          // b does not exist: dangling
				out = append(out, &spec{group: "unicode-fold", jobs: []gjob{{id: a, needs: n0}, {id: b, needs: n1}, {id: c}}}) // b exists
			}
		}
	}
	return out
}

// ids with a per cent sign (a fmt verb if a finished message is ever used as a format), and a
// duplicated acyclic reference next to a cyclic one
func oddSpecs() []*spec {
	var out []*spec
	ids := []string{"cov-100%", "a%sb", "x%d"}
	for mask := uint64(0); mask < 1<<9; mask++ {
		sp := &spec{group: "percent-ids"}
		for i := 0; i < 3; i++ {
			j := gjob{id: ids[i]}
			for k := 0; k < 3; k++ {
				if mask>>(uint(i*3+k))&1 == 1 {
					j.needs = append(j.needs, ids[k])
				}
			}
			sp.jobs = append(sp.jobs, j)
		}
		out = append(out, sp)
	}
	// one reference written as a scalar: a job, a dangling id, an id that looks like a placeholder
	refs := []string{"", "a", "B", "c", "ghost", "${{ x }}", "${{ matrix.j }}", "a b"}
	for i := range refs {
		for k := range refs {
			for l := 0; l < 3; l++ {
				sp := &spec{group: "scalar-needs", scalarNeeds: true}
				for q, id := range []string{"a", "b", "c"} {
					j := gjob{id: id}
					ref := []string{refs[i], refs[k], refs[(i+k+l)%len(refs)]}[q]
					if ref != "" {
						j.needs = []string{ref}
					}
					sp.jobs = append(sp.jobs, j)
				}
				out = append(out, sp)
			}
		}
	}
	// jobs that are not finished yet (no steps; a value that is not a mapping) are jobs all the
	// same: they can be needed, and what they need is checked; ids spelled like the YAML null
	for _, body := range []string{"nosteps", "null", "scalar", "seq"} {
		for mask := 0; mask < 1<<6; mask++ {
			sp := &spec{group: "unfinished-jobs"}
			ids := []string{"a", "wip", "c"}
			for i, id := range ids {
				j := gjob{id: id}
				if id == "wip" {
					j.body = body
				}
				for k, tgt := range []string{ids[(i+1)%3], "ghost"} {
					if mask>>(uint(i*2+k))&1 == 1 && (j.body == "" || j.body == "nosteps") {
						j.needs = append(j.needs, tgt)
					}
				}
				if id == "wip" && body == "nosteps" && mask%5 == 0 {
					j.needs = append(j.needs, "wip")
				}
				sp.jobs = append(sp.jobs, j)
			}
			out = append(out, sp)
		}
	}
	for _, nid := range []string{"null", "~", "Null", "NULL"} {
		for mask := 0; mask < 1<<4; mask++ {
			sp := &spec{group: "null-spelled-ids"}
			a := gjob{id: "a", raw: true}
			n := gjob{id: nid, raw: true}
			if mask&1 == 1 {
				a.needs = append(a.needs, nid)
			}
			if mask&2 == 2 {
				a.needs = append(a.needs, "b")
			}
			if mask&4 == 4 {
				n.needs = append(n.needs, "a")
			}
			if mask&8 == 8 {
				n.needs = append(n.needs, nid)
			}
			sp.jobs = []gjob{a, n}
			if mask%3 == 0 {
				sp.jobs = []gjob{n, a}
			}
			out = append(out, sp)
		}
	}
	// more dangling references in one workflow than any per-rule budget of diagnostics
	{
		sp := &spec{group: "many-dangling"}
		var ids []string
		for i := 0; i < 40; i++ {
			j := gjob{id: fmt.Sprintf("j%d", i)}
			ids = append(ids, j.id)
			for k := 0; k < 30; k++ {
				j.needs = append(j.needs, fmt.Sprintf("ghost-%d-%d", i, k))
			}
			if i > 0 {
				j.needs = append(j.needs, fmt.Sprintf("j%d", i-1))
			}
			sp.jobs = append(sp.jobs, j)
		}
		sp.ords = randOrds(hx.NewRng(7), ids, 2)
		out = append(out, sp)
	}
	// more duplicate entries than any budget, next to a cycle and next to none
	for _, cyc := range []bool{true, false} {
		a := gjob{id: "a"}
		for k := 0; k < 130; k++ {
			a.needs = append(a.needs, []string{"b", "B"}[k%2])
		}
		b := gjob{id: "b"}
		if cyc {
			b.needs = []string{"a"}
		}
		out = append(out, &spec{group: "many-duplicates", jobs: []gjob{a, b}}, &spec{group: "many-duplicates", jobs: []gjob{b, a}})
	}
	perms := [][]string{{"setup", "Setup", "test"}, {"setup", "test", "Setup"}, {"test", "setup", "SETUP"}, {"setup", "setup", "test"}, {"Setup", "test", "test", "setup"}, {"test", "setup", "setup"}}
	for _, p := range perms {
		for _, order := range [][3]int{{0, 1, 2}, {1, 2, 0}, {2, 0, 1}, {1, 0, 2}} {
			jobs := []gjob{{id: "setup"}, {id: "build", needs: p}, {id: "test", needs: []string{"build"}}}
			out = append(out, &spec{group: "duplicate-next-to-cycle", jobs: []gjob{jobs[order[0]], jobs[order[1]], jobs[order[2]]}})
			jobs4 := []gjob{{id: "setup"}, {id: "lint", needs: []string{"setup", "Setup"}}, {id: "build", needs: append(append([]string{}, p...), "lint", "LINT")}, {id: "test", needs: []string{"build", "lint", "lint"}}}
			out = append(out, &spec{group: "duplicate-next-to-cycle", jobs: []gjob{jobs4[order[0]], jobs4[order[1]], jobs4[order[2]], jobs4[3]}})
		}
	}
	return out
}

func bigID(r *hx.Rng, i int) string {
	if r.Chance(1, 4) {
		return fmt.Sprintf("J%d", i)
	}
	return fmt.Sprintf("j%d", i)
}

func refTo(r *hx.Rng, id string) string {
	if r.Chance(1, 3) {
		return swapCase(id)
	}
	return id
}

func randOrds(r *hx.Rng, ids []string, k int) [][]string {
	keys := make([]string, len(ids))
	for i, s := range ids {
		keys[i] = strings.ToLower(s)
	}
	ords := [][]string{append([]string{}, keys...)}
	rev := make([]string, len(keys))
	for i := range keys {
		rev[len(keys)-1-i] = keys[i]
	}
	ords = append(ords, rev)
	for len(ords) < k {
		p := r.Perm(len(keys))
		o := make([]string, len(keys))
		for i, x := range p {
			o[i] = keys[x]
		}
		ords = append(ords, o)
	}
	return ords
}

// large random graph.  kind 0: DAG; 1: exactly one simple cycle embedded in a
// DAG (the printed cycle is then the same for every DFS entry order, compared
// exactly); 2: arbitrary edges (many cycles: the cyclic diagnostic is compared
// as a class); optionally with dangling / duplicate references.
func bigSpec(r *hx.Rng) *spec {
	n := 6 + r.Intn(35)
	kind := r.Intn(3)
	ids := make([]string, n)
	for i := range ids {
		ids[i] = bigID(r, i)
	}
	// random topological rank for kinds 0 and 1: rank[i] = position of job i
	rank := r.Perm(n)
	needs := make([][]string, n)
	dens := 1 + r.Intn(4)
	sp := &spec{group: []string{"big-dag", "big-unicyclic", "big-dense"}[kind]}
	switch kind {
	case 0, 1:
		comp := make([]int, n) // component: cycle members share one
		for i := range comp {
			comp[i] = i
		}
		var cyc []int
		if kind == 1 {
			k := 1 + r.Intn(6)
			if k > n {
				k = n
			}
			p := r.Perm(n)
			cyc = p[:k]
			for _, v := range cyc {
				comp[v] = cyc[0]
				rank[v] = rank[cyc[0]]
			}
		}
		for i := 0; i < n; i++ {
			for k := 0; k < n; k++ {
				if comp[i] != comp[k] && rank[i] > rank[k] && r.Chance(dens, n) {
					needs[i] = append(needs[i], refTo(r, ids[k]))
				}
			}
		}
		for i, v := range cyc {
			w := cyc[(i+1)%len(cyc)]
			// insert the cycle edge at a random place of the needs list
			at := r.Intn(len(needs[v]) + 1)
			nl := append([]string{}, needs[v][:at]...)
			nl = append(nl, refTo(r, ids[w]))
			needs[v] = append(nl, needs[v][at:]...)
		}
	default:
		for i := 0; i < n; i++ {
			for k := 0; k < n; k++ {
				if r.Chance(dens, 2*n) {
					needs[i] = append(needs[i], refTo(r, ids[k]))
				}
			}
		}
		// (the cyclic diagnostic is compared exactly: the model sorts the start nodes like the implementation)
	}
	if r.Chance(1, 6) { // dangling and duplicate references
		i := r.Intn(n)
		needs[i] = append(needs[i], "ghost")
		if r.Chance(1, 2) && len(needs[i]) > 1 {
			needs[i] = append(needs[i], swapCase(needs[i][0]))
		}
	}
	if r.Chance(1, 8) { // duplicate without dangling
		i := r.Intn(n)
		if len(needs[i]) > 0 {
			needs[i] = append(needs[i], swapCase(needs[i][r.Intn(len(needs[i]))]))
		}
	}
	for i := 0; i < n; i++ {
		sp.jobs = append(sp.jobs, gjob{id: ids[i], needs: needs[i]})
	}
	sp.ords = randOrds(r, ids, 6)
	return sp
}

// ---- main ----------------------------------------------------------------------

func main() {
	seed := flag.Uint64("seed", 1, "PRNG seed")
	out := flag.String("out", "", "output directory")
	tier := flag.String("tier", "quick", "quick|thorough")
	replay := flag.String("replay", "", "replay file (JSON with a 'workflow' field)")
	workers := flag.Int("workers", 8, "parallel workers")
	shards := flag.Int("shards", 8, "number of bulk files")
	n5 := flag.Int("n5", -1, "number of 5-job graphs (default by tier)")
	flag.Parse()

	if *replay != "" {
		b, err := os.ReadFile(*replay)
		hx.Must(err)
		var f failure
		hx.Must(json.Unmarshal(b, &f))
		if f.Workflow == "" {
			fmt.Println("REPLAY: the file has no 'workflow' field (a broken proof obligation or correspondence without failing input); see its 'broken' and 'first_disagreement' fields")
			os.Exit(1)
		}
		hangReport = func(src string) {
			fmt.Println("REPLAY: property violated: the rule does not terminate on this input (20 s)")
			os.Exit(1)
		}
		done := make(chan *result, 1)
		go func() { done <- evalSource(f.Workflow, 40, false) }()
		var r *result
		select {
		case r = <-done:
		case <-time.After(20 * time.Second):
			hangReport(f.Workflow)
		}
		fmt.Print(f.Workflow)
		for _, o := range r.obs {
			fmt.Printf("impl observable: %v\n", o)
		}
		if len(r.fails) > 0 {
			for _, x := range r.fails {
				fmt.Printf("REPLAY: property violated: %s %v\n", x.What, x.Details)
			}
			os.Exit(1)
		}
		fmt.Println("REPLAY: property holds on this input (40 repetitions)")
		return
	}

	hx.Must(os.MkdirAll(*out, 0o755))
	thorough := *tier == "thorough"
	sum := hx.NewSummary("C18")
	sum.Rule = "needs graphs: every edge set (self loops included) over 1-4 jobs in ascending and descending order of the needs entries, references in both spellings; 3 jobs with every needs list up to a length bound over {a, A, b, c, x (dangling), empty}; 5-job graphs (random edge sets of random density; thorough: half of them a bijective stride through all 2^25 edge sets); 4- and 5-job graphs with the needs entries in random order; ids with a per cent sign; a duplicated acyclic reference next to a cyclic one; job ids that only Unicode case folding identifies (s / long s, sigma / final sigma, micro / mu); 3-5 jobs written as ONE flow-style line (positions differ in the column only; more repetitions); random graphs of 6-40 jobs (DAG, one embedded simple cycle, dense) with dangling/duplicate/case-variant references. non-trivial = the rule reports a missing reference or a cycle; distinct = distinct workflow text"
	hangReport = func(src string) {
		sum.OracleFails = append(sum.OracleFails, failure{What: "the rule does not terminate on this input within 20 s", Key: "hang:" + src, Workflow: src})
		if lintLevelCfgPath != "" {
			os.Remove(lintLevelCfgPath)
		}
		sum.Write(filepath.Join(*out, "summary.json"))
		os.Exit(0)
	}

	casesF, err := os.Create(filepath.Join(*out, "cases.txt"))
	hx.Must(err)
	cases := bufio.NewWriter(casesF)
	srcsF, err := os.Create(filepath.Join(*out, "sources.jsonl"))
	hx.Must(err)
	srcs := bufio.NewWriter(srcsF)
	bulk := make([]*bufio.Writer, *shards)
	bulkF := make([]*os.File, *shards)
	for i := range bulk {
		bulkF[i], err = os.Create(filepath.Join(*out, fmt.Sprintf("bulk-%d.txt", i)))
		hx.Must(err)
		bulk[i] = bufio.NewWriterSize(bulkF[i], 1<<20)
	}
	nbulk := 0
	ncoq := 0
	distinct := 0
	nontrivial := 0
	maxFails := 50

	r := hx.NewRng(*seed)

	// process evaluates a batch; coqEvery: every k-th case also goes to the Coq file (0: none, 1: all)
	process := func(specs []*spec, reps int, coqEvery int) {
		const chunk = 40000
		for s := 0; s < len(specs); s += chunk {
			e := s + chunk
			if e > len(specs) {
				e = len(specs)
			}
			part := specs[s:e]
			res := evalAll(part, reps, *workers)
			for i, rs := range res {
				sp := part[i]
				if rs.skip != "" {
					sum.Dist["skipped:"+rs.skip]++
					continue
				}
				if !rs.keysOK {
					sum.Dist["skipped:job ids not distinct"]++
					continue
				}
				sum.Evaluations++
				distinct++
				sum.Dist["group:"+sp.group]++
				if msg := sp.fidelity(rs.jobs); msg != "" {
					if len(sum.OracleFails) < maxFails {
						sum.OracleFails = append(sum.OracleFails, failure{What: "the parsed workflow does not carry the jobs and needs as written: " + msg, Key: "fidelity:" + sp.group + ":" + msg, Workflow: rs.src})
					}
					sum.Dist["oracle_failures"]++
				}
				if rs.ncyc > 0 || rs.nmiss > 0 {
					nontrivial++
				}
				switch {
				case rs.nmiss > 0:
					sum.Dist["impl:missing"]++
				case rs.ncyc > 0:
					sum.Dist["impl:cycle"]++
				default:
					sum.Dist["impl:clean"]++
				}
				if len(rs.obs) > 1 {
					sum.Dist["impl:outcome depends on map order"]++
				}
				for _, f := range rs.fails {
					if len(sum.OracleFails) < maxFails {
						sum.OracleFails = append(sum.OracleFails, f)
					}
					sum.Dist["oracle_failures"]++
				}
				if len(rs.obs) == 0 {
					continue
				}
				if bulkOK(rs) {
					fmt.Fprintln(bulk[nbulk%*shards], bulkCase(sp, rs))
					// index of the case inside its shard = nbulk / shards; the driver of the
					// check rebuilds the workflow text of a disagreeing case from its line
					nbulk++
				}
				if coqEvery > 0 && (s+i)%coqEvery == 0 {
					term := coqCase(sp, rs)
					if hx.CoqStrOK(term) {
						fmt.Fprintln(cases, term)
						sb, _ := json.Marshal(map[string]interface{}{"workflow": rs.src, "group": sp.group})
						fmt.Fprintln(srcs, string(sb))
						ncoq++
					}
				}
				if len(sum.Samples) < 3 && rs.ncyc > 0 {
					sum.Samples = append(sum.Samples, map[string]interface{}{"workflow": rs.src, "impl": rs.obs})
				}
			}
		}
	}

	reps := 2
	if thorough {
		reps = 4
	}

	// (a) exhaustive over <= 3 jobs: all of it also inside Coq
	var small []*spec
	for n := 1; n <= 3; n++ {
		for mask := uint64(0); mask < 1<<uint(n*n); mask++ {
			small = append(small, graphOf(n, mask, false, fmt.Sprintf("exhaustive-%d", n)))
			if n > 1 {
				small = append(small, graphOf(n, mask, true, fmt.Sprintf("exhaustive-%d", n)))
			}
		}
	}
	process(small, 6, 1)

	// (b) exhaustive over 4 jobs
	var four []*spec
	for mask := uint64(0); mask < 1<<16; mask++ {
		four = append(four, graphOf(4, mask, false, "exhaustive-4"), graphOf(4, mask, true, "exhaustive-4"))
	}
	process(four, reps, 2003)

	// (c) dangling / duplicate / case-variant references
	var vs []*spec
	if thorough {
		vs = variantSpecs(3, 2, 2)
	} else {
		vs = variantSpecs(2, 2, 1)
	}
	process(vs, reps, 199)

	// (c') ids related by Unicode case folding only
	process(foldSpecs(), reps, 7)
	// (c'') per cent signs in ids; duplicated references next to a cycle
	process(oddSpecs(), reps, 11)

	// (d) 5 jobs
	cnt5 := *n5
	if cnt5 < 0 {
		cnt5 = 12000
		if thorough {
			cnt5 = 4000000
		}
	}
	var five []*spec
	for i := 0; i < cnt5; i++ {
		var mask uint64
		if thorough && i%4 < 2 {
			// a bijective stride through all 2^25 edge sets (dense graphs, many cycles)
			mask = (uint64(i)*0x9E3779B1 + uint64(*seed)) & (1<<25 - 1)
		} else {
			// random density 1..12 of 25 (sparse graphs: DAGs, few cycles)
			d := 1 + r.Intn(12)
			for b := 0; b < 25; b++ {
				if r.Chance(d, 25) {
					mask |= 1 << uint(b)
				}
			}
		}
		five = append(five, graphOf(5, mask, i%3 == 1, "five"))
		if len(five) >= 200000 {
			process(five, reps, 100003)
			five = five[:0]
		}
	}
	process(five, reps, 1201)

	// (d') 4 and 5 jobs, needs entries in random order
	nsh := 12000
	if thorough {
		nsh = 300000
	}
	var shuf []*spec
	for i := 0; i < nsh; i++ {
		n := 4 + i%2
		var mask uint64
		d := 1 + r.Intn(n*n/2)
		for b := 0; b < n*n; b++ {
			if r.Chance(d, n*n) {
				mask |= 1 << uint(b)
			}
		}
		shuf = append(shuf, graphShuffled(r, n, mask, "shuffled-needs"))
	}
	process(shuf, reps, 1499)

	// (d'') flow-style jobs mapping: every job on the same line, so the position order that
	// decides where the cycle search starts is decided by the COLUMN
	var flow []*spec
	for n := 2; n <= 3; n++ {
		for mask := uint64(0); mask < 1<<uint(n*n); mask++ {
			sp := graphOf(n, mask, mask%2 == 1, "flow-style")
			sp.flow = true
			flow = append(flow, sp)
		}
	}
	process(flow, 6, 3)
	nfl := 6000
	if thorough {
		nfl = 150000
	}
	flow = nil
	for i := 0; i < nfl; i++ {
		n := 4 + i%2
		var mask uint64
		d := 2 + r.Intn(n*n/2)
		for b := 0; b < n*n; b++ {
			if r.Chance(d, n*n) {
				mask |= 1 << uint(b)
			}
		}
		sp := graphShuffled(r, n, mask, "flow-style")
		sp.flow = true
		flow = append(flow, sp)
	}
	process(flow, reps+4, 997)

	// (e) random graphs of 6..40 jobs
	nbig := 400
	if thorough {
		nbig = 20000
	}
	var big []*spec
	for i := 0; i < nbig; i++ {
		big = append(big, bigSpec(r))
	}
	bigEvery := 20
	if thorough {
		bigEvery = 1000
	}
	process(big, reps+2, bigEvery)

	sum.Nontrivial = nontrivial
	sum.Extra["bulk_cases"] = nbulk
	sum.Extra["coq_cases"] = ncoq
	sum.Extra["distinct_sources"] = distinct
	sum.Extra["shards"] = *shards
	hx.Must(cases.Flush())
	hx.Must(srcs.Flush())
	for i := range bulk {
		hx.Must(bulk[i].Flush())
		bulkF[i].Close()
	}
	casesF.Close()
	srcsF.Close()
	for _, f := range entryPoints(*out) {
		sum.OracleFails = append(sum.OracleFails, f)
	}
	sum.Dist["entry_point_runs"] += 4
	if lintLevelCfgPath != "" {
		os.Remove(lintLevelCfgPath)
	}
	sum.Write(filepath.Join(*out, "summary.json"))
}
