# Stand-in for shellcheck / pyflakes used by the C20 harness (python3, stdlib only).
#   python3 -S -E fake_tool.py ROLE SCHEDULE LOG [arguments given by actionlint...]
# ROLE is "sc" or "py".  The script read from stdin carries a marker T<n>X; the
# schedule (JSON: marker -> {"beh","lat","issues":[{"code","line","col","crlf"}]})
# says how to behave for that invocation.  One line is appended to LOG when the
# process has started (ev=S, with the stdin and the arguments) and one just
# before it ends (ev=E, with what was written and the exit status); each line is
# a single write on an O_APPEND descriptor, so the order of the lines is an
# order in which these moments really happened.
import json, os, re, signal, sys, time

def main():
    role, sched_path, log_path = sys.argv[1], sys.argv[2], sys.argv[3]
    data = sys.stdin.buffer.read()
    text = data.decode('latin-1')
    m = re.search(r'T(\d+)X', text)
    marker = m.group(1) if m else '-'
    fd = os.open(log_path, os.O_WRONLY | os.O_APPEND | os.O_CREAT, 0o644)

    def log(ev, **kw):
        rec = dict(ev=ev, role=role, marker=marker, pid=os.getpid())
        rec.update(kw)
        os.write(fd, (json.dumps(rec) + '\n').encode())

    log('S', stdin=text, args=sys.argv[4:])
    with open(sched_path) as f:
        sched = json.load(f)
    b = sched.get(marker) or {'beh': 'ok', 'lat': 0}
    lat = b.get('lat', 0)
    if lat > 0:
        time.sleep(lat / 1000.0)
    beh = b['beh']
    out, err, code = '', '', 0
    issues = b.get('issues', [])
    if beh == 'ok':
        out = '[]' if role == 'sc' else ''
    elif beh in ('issues', 'issues0'):
        if role == 'sc':
            out = json.dumps([{'file': '-', 'line': i['line'], 'endLine': i['line'], 'column': i['col'],
                               'endColumn': i['col'] + 1, 'level': i.get('level', 'warning'), 'code': i['code'],
                               'message': i.get('msg', 'issue %d.' % i['code']), 'fix': None} for i in issues])
        else:
            out = ''.join('%s<stdin>:%d:%d: %s%s' % (i.get('pre', ''), i['line'], i['col'],
                                                    i.get('msg', "undefined name 'x%d'" % i['code']),
                                                    '\r\n' if i.get('crlf') else '\n') for i in issues)
        code = 0 if beh == 'issues0' else 1
    elif beh == 'crash':
        err = 'Traceback (most recent call last):\n  tool crashed\n'
        code = 2
    elif beh == 'empty':
        code = 1
    elif beh == 'empty0':
        code = 0   # success and not a byte of output (for shellcheck: not JSON)
    elif beh == 'garbage':
        out = 'this is { not json\n'
        code = b.get('code', 0)
    elif beh == 'trailing':
        # a well-formed first JSON value followed by more output (a second array, a crash message)
        first = json.dumps([{'file': '-', 'line': 1, 'endLine': 1, 'column': 1, 'endColumn': 2, 'level': 'warning', 'code': 2086,
                             'message': 'first value.', 'fix': None}])
        out = first + '\n' + '[]\nshellcheck: internal error\n'
        code = b.get('code', 0)
    elif beh == 'unterminated':
        out = "<stdin>:1:1: message without line end"
        code = 1
    elif beh == 'signal':
        out = b.get('partial', '')
    log('E', out=out, err=err, code=(-1 if beh == 'signal' else code))
    os.close(fd)
    if out:
        sys.stdout.write(out)
        sys.stdout.flush()
    if err:
        sys.stderr.write(err)
        sys.stderr.flush()
    if beh == 'signal':
        os.kill(os.getpid(), signal.SIGKILL)
        time.sleep(10)
    os._exit(code)

main()
