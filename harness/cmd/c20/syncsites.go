package main

// Translator (T) for C20: the synchronisation protocol the transition system of Proc/ProcModel.v
// models is a fixed sequence of semaphore / WaitGroup / errgroup / mutex operations in a few
// functions.  They are listed in source order from the .go files on every run (go/parser; test
// files and verif-tagged files excluded) into coq/Gen/GenSyncSites.v; coq/Proc/SyncSites.v proves
// that the list is exactly the one the model was written from.

import (
	"bytes"
	"fmt"
	"go/ast"
	"go/format"
	"go/parser"
	"go/token"
	"os"
	"path/filepath"
	"sort"
	"strings"

	"verifharness/hx"
)

var syncMethods = map[string]bool{"Acquire": true, "TryAcquire": true, "Release": true, "Add": true, "Done": true, "Wait": true, "Go": true,
	"Lock": true, "Unlock": true, "RLock": true, "RUnlock": true}

type syncSite struct{ file, fn, op string }

func scanSyncSites(repo string) ([]syncSite, error) {
	names, _ := filepath.Glob(filepath.Join(repo, "*.go"))
	sort.Strings(names)
	fset := token.NewFileSet()
	var out []syncSite
	for _, n := range names {
		if strings.HasSuffix(n, "_test.go") {
			continue
		}
		b, err := os.ReadFile(n)
		if err != nil {
			return nil, err
		}
		if bytes.HasPrefix(b, []byte("//go:build verif")) {
			continue
		}
		f, err := parser.ParseFile(fset, n, b, parser.SkipObjectResolution)
		if err != nil {
			return nil, err
		}
		if f.Name.Name != "actionlint" {
			continue
		}
		base := filepath.Base(n)
		for _, d := range f.Decls {
			fd, ok := d.(*ast.FuncDecl)
			if !ok || fd.Body == nil {
				continue
			}
			fn := fd.Name.Name
			if fd.Recv != nil && len(fd.Recv.List) == 1 {
				t := fd.Recv.List[0].Type
				if st, ok := t.(*ast.StarExpr); ok {
					t = st.X
				}
				if id, ok := t.(*ast.Ident); ok {
					fn = id.Name + "." + fn
				}
			}
			deferred := map[*ast.CallExpr]bool{}
			ast.Inspect(fd.Body, func(x ast.Node) bool {
				if ds, ok := x.(*ast.DeferStmt); ok {
					deferred[ds.Call] = true
				}
				return true
			})
			ast.Inspect(fd.Body, func(x ast.Node) bool {
				c, ok := x.(*ast.CallExpr)
				if !ok {
					return true
				}
				se, ok := c.Fun.(*ast.SelectorExpr)
				if !ok || !syncMethods[se.Sel.Name] {
					return true
				}
				var tb bytes.Buffer
				format.Node(&tb, fset, se)
				op := strings.Join(strings.Fields(tb.String()), " ")
				// (strings.Builder etc. have no such methods; `Add`/`Wait`/`Go` on other receivers would be listed too)
				if deferred[c] {
					op = "defer " + op
				}
				out = append(out, syncSite{base, fn, op})
				return true
			})
		}
	}
	return out, nil
}

func doExtractSync(repo, gen string) int {
	ss, err := scanSyncSites(repo)
	if err != nil {
		fmt.Fprintln(os.Stderr, "extract-sync:", err)
		return 2
	}
	var sb strings.Builder
	sb.WriteString("(* Gen/GenSyncSites.v — GENERATED on every run of ./check C20 from the .go files of the package\n   by harness/cmd/c20 (-extract-sync); do not edit.  Every call of Acquire / TryAcquire / Release /\n   Add / Done / Wait / Go / Lock / Unlock / RLock / RUnlock in source order: (file, function, operation). *)\n")
	sb.WriteString("From AL Require Import Base.Str.\n\n")
	sb.WriteString("Definition sync_sites : list (string * string * string) := [\n")
	for i, s := range ss {
		sep := ";"
		if i == len(ss)-1 {
			sep = ""
		}
		fmt.Fprintf(&sb, "  (%s, %s, %s)%s\n", hx.CoqStr(s.file), hx.CoqStr(s.fn), hx.CoqStr(s.op), sep)
	}
	sb.WriteString("].\n")
	if err := os.WriteFile(gen, []byte(sb.String()), 0o644); err != nil {
		fmt.Fprintln(os.Stderr, "extract-sync:", err)
		return 2
	}
	return 0
}
