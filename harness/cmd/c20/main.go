// Command c20: correspondence and oracle harness for property C20
// (shellcheck / pyflakes integration).
//
//	-mode runs : real Linter runs with stand-in tools (fake_tool.py) and the
//	             schedule hooks of process.go switched on.  For every run it
//	             writes the model input (workflow projections + observed event
//	             trace) with the observed result as one Coq term, and evaluates
//	             the property itself on the implementation (tool log,
//	             diagnostics, fatal error).
//	-mode pure : the pure functions (sanitizeExpressionsInScript,
//	             cmdExecution.run classification, pyflakes output parsing,
//	             shell selection) on generated inputs.
package main

import (
	"encoding/json"
	"flag"
	"fmt"
	"io"
	"os"
	"path/filepath"
	"regexp"
	"runtime"
	"sort"
	"strconv"
	"strings"
	"time"

	"github.com/rhysd/actionlint"

	"verifharness/hx"
)

// ---------------------------------------------------------------- Coq printing

func coqStr(s string) string {
	// strings may contain line breaks and control bytes; the case files hold one
	// term per line, so everything outside printable ASCII is written as (ch n).
	var parts []string
	var cur strings.Builder
	flush := func() {
		if cur.Len() > 0 {
			parts = append(parts, "\""+cur.String()+"\"")
			cur.Reset()
		}
	}
	for i := 0; i < len(s); i++ {
		c := s[i]
		switch {
		case c == '"':
			cur.WriteString("\"\"")
		case c >= 32 && c < 127:
			cur.WriteByte(c)
		default:
			flush()
			parts = append(parts, fmt.Sprintf("ch %d", c))
		}
	}
	flush()
	if len(parts) == 0 {
		return "\"\""
	}
	if len(parts) == 1 && strings.HasPrefix(parts[0], "\"") {
		return parts[0]
	}
	return "(" + strings.Join(parts, " ++ ") + ")%string"
}

func coqOptStr(p *string) string {
	if p == nil {
		return "None"
	}
	return "(Some " + coqStr(*p) + ")"
}

func coqZ(n int) string {
	if n < 0 {
		return fmt.Sprintf("(%d)%%Z", n)
	}
	return fmt.Sprintf("%d%%Z", n)
}

func bytesTuple(prefix []int, s string) string {
	xs := []string{}
	for _, p := range prefix {
		xs = append(xs, strconv.Itoa(p))
	}
	for i := 0; i < len(s); i++ {
		xs = append(xs, strconv.Itoa(int(s[i])))
	}
	return "[" + strings.Join(xs, ";") + "]%N"
}

func numTuple(xs ...int) string {
	ss := []string{}
	for _, x := range xs {
		ss = append(ss, strconv.Itoa(x))
	}
	return "[" + strings.Join(ss, ";") + "]%N"
}

// ---------------------------------------------------------------- generator

type stepSpec struct {
	Uses   bool    `json:"uses,omitempty"`
	Shell  *string `json:"shell,omitempty"`
	Script string  `json:"script,omitempty"` // with marker
	Marker int     `json:"marker,omitempty"`
}

type jobSpec struct {
	ID       string      `json:"id"`
	HasDef   int         `json:"has_def,omitempty"` // 0 none, 1 defaults.run without shell, 2 with shell
	DefShell string      `json:"def_shell,omitempty"`
	RunsOn   string      `json:"runs_on"`
	Windows  bool        `json:"windows,omitempty"`
	Steps    []*stepSpec `json:"steps"`
}

type wfSpec struct {
	HasDef   int        `json:"has_def,omitempty"`
	DefShell string     `json:"def_shell,omitempty"`
	Jobs     []*jobSpec `json:"jobs"`
	// Broken: one more job with a key the parser does not know (a syntax-check diagnostic; the tree
	// is built all the same and the scripts of the other jobs are checked like in any workflow)
	Broken bool `json:"broken,omitempty"`
}

type behaviour struct {
	Beh    string  `json:"beh"`
	Lat    int     `json:"lat"`
	Code   int     `json:"code,omitempty"`
	Issues []issue `json:"issues,omitempty"`
}

type issue struct {
	Code  int    `json:"code"`
	Line  int    `json:"line"`
	Col   int    `json:"col"`
	Crlf  bool   `json:"crlf,omitempty"`
	Level string `json:"level,omitempty"`
	Msg   string `json:"msg,omitempty"`
	Pre   string `json:"pre,omitempty"`
}

var stepShells = []string{"bash", "sh", "bash -e {0}", "sh -e {0}", "python", "python {0}", "pwsh", "cmd", "bashful", "pythonx", "shx -e"}
var defShells = []string{"bash", "sh", "python", "pwsh", "bash --noprofile {0}", "python -u {0}"}
var runners = []struct {
	y string
	w bool
}{{"ubuntu-latest", false}, {"windows-latest", true}, {"[self-hosted, Windows]", true}, {"macos-latest", false}, {"[self-hosted, linux]", false}, {"WINDOWS-2022", true}, {"windowsx", false}}

var placeholders = []string{"${{ matrix.os }}", "${{ github.sha }}", "${{secrets.T}}", "${{ format('a}}b', 1) }}", "${{ env.A", "}}", "${{ a }}${{ b }}", "$${{ x }}{", "${{ fromJSON(\n  env.J) }}", "${ {", "${{}}",
	// bytes outside ASCII inside a placeholder: the replacement is byte for byte
	"${{ 'é' }}", "${{ contains(github.event.head_commit.message, '日本語') }}", "é ${{ x }} ü", "${{ '\xff\xfe' }}"}

func strp(s string) *string { return &s }

func genScript(r *hx.Rng, marker int, py bool) string {
	lines := []string{}
	m := fmt.Sprintf("T%dX", marker)
	if py {
		lines = append(lines, "print('"+m+"')")
	} else {
		lines = append(lines, "echo "+m)
	}
	n := r.Intn(4)
	for i := 0; i < n; i++ {
		ph := r.Pick(placeholders)
		if py {
			lines = append(lines, "x = '"+ph+"'")
		} else {
			lines = append(lines, "echo "+ph+" | cat")
		}
	}
	if r.Chance(1, 3) {
		// marker not on the first line
		lines[0], lines[len(lines)-1] = lines[len(lines)-1], lines[0]
	}
	// a script that starts with empty lines (and ends with some): the text handed to the tool keeps them
	lead := ""
	switch marker % 7 {
	case 3:
		lead = "\n"
	case 5:
		lead = "\n\n"
	}
	if r.Chance(1, 8) {
		// closing braces (a nested dict literal, a Go template) BEFORE the first placeholder
		if py {
			return "x = {'a': {'" + m + "': 1}}\nprint('" + r.Pick(placeholders[:4]) + "')"
		}
		return "echo '{{.Id}}' " + m + "\necho " + r.Pick(placeholders[:4]) + " | cat"
	}
	if !py && r.Chance(1, 8) {
		// a script that BEGINS with a placeholder and ENDS with closing braces (a Go template
		// argument): it is a script all the same, not "one placeholder"
		return "${{ matrix.docker }} inspect " + m + " --format {{.Id}}"
	}
	return lead + strings.Join(lines, "\n")
}

func genWorkflow(r *hx.Rng, next *int, thorough bool) *wfSpec {
	w := &wfSpec{}
	if r.Chance(1, 3) {
		w.HasDef = 1 + r.Intn(2)
		w.DefShell = r.Pick(defShells)
	}
	nj := 1 + r.Intn(3)
	for j := 0; j < nj; j++ {
		job := &jobSpec{ID: fmt.Sprintf("j%d", j)}
		if r.Chance(1, 3) {
			job.HasDef = 1 + r.Intn(2)
			job.DefShell = r.Pick(defShells)
		}
		ro := runners[0]
		if r.Chance(1, 3) {
			ro = runners[r.Intn(len(runners))]
		}
		job.RunsOn, job.Windows = ro.y, ro.w
		maxSteps := 4
		if thorough {
			maxSteps = 6
		}
		ns := r.Intn(maxSteps + 1)
		for s := 0; s < ns; s++ {
			st := &stepSpec{}
			if r.Chance(1, 8) {
				st.Uses = true
			} else {
				if r.Chance(2, 5) {
					st.Shell = strp(r.Pick(stepShells))
				}
				st.Marker = *next
				*next++
				st.Script = genScript(r, st.Marker, r.Chance(1, 2))
			}
			job.Steps = append(job.Steps, st)
		}
		if len(job.Steps) == 0 {
			job.Steps = append(job.Steps, &stepSpec{Uses: true})
		}
		w.Jobs = append(w.Jobs, job)
	}
	w.Broken = *next%6 == 4
	return w
}

func (w *wfSpec) yaml() string {
	var b strings.Builder
	b.WriteString("on: push\n")
	writeDef := func(ind string, has int, sh string) {
		if has == 0 {
			return
		}
		b.WriteString(ind + "defaults:\n" + ind + "  run:\n")
		if has == 2 {
			b.WriteString(ind + "    shell: " + sh + "\n")
		} else {
			b.WriteString(ind + "    working-directory: sub\n")
		}
	}
	writeDef("", w.HasDef, w.DefShell)
	b.WriteString("jobs:\n")
	for _, j := range w.Jobs {
		b.WriteString("  " + j.ID + ":\n")
		b.WriteString("    runs-on: " + j.RunsOn + "\n")
		writeDef("    ", j.HasDef, j.DefShell)
		b.WriteString("    steps:\n")
		for _, s := range j.Steps {
			if s.Uses {
				b.WriteString("      - uses: actions/checkout@v4\n")
				continue
			}
			b.WriteString("      - run: |\n")
			for _, l := range strings.Split(s.Script, "\n") {
				b.WriteString("          " + l + "\n")
			}
			if s.Shell != nil {
				b.WriteString("        shell: " + *s.Shell + "\n")
			}
		}
	}
	if w.Broken {
		b.WriteString("  zzbroken:\n    runs-on: ubuntu-latest\n    timeout_minutes: 5\n    steps:\n      - uses: actions/checkout@v4\n")
	}
	return b.String()
}

// reference from the property text: the effective shell is the step's, else the
// job default, else the workflow default, else the runner default
func (w *wfSpec) effectiveShell(j *jobSpec, s *stepSpec) string {
	if s.Shell != nil {
		return *s.Shell
	}
	if j.HasDef == 2 {
		return j.DefShell
	}
	if w.HasDef == 2 {
		return w.DefShell
	}
	if j.Windows {
		return "pwsh"
	}
	return "bash"
}

// which tool must see a script with that effective shell ("" = none)
func toolFor(shell string) string {
	f := strings.Fields(shell)
	if len(f) == 0 {
		return ""
	}
	switch f[0] {
	case "bash", "sh":
		return "sc"
	case "python":
		return "py"
	}
	return ""
}

func genBehaviour(r *hx.Rng, role string, failPct int, maxLat int) behaviour {
	b := behaviour{Lat: r.Intn(maxLat + 1)}
	c := r.Intn(100)
	if c < failPct {
		b.Beh = r.Pick([]string{"crash", "signal", "empty", "empty0", "garbage", "unterminated", "trailing"})
		if (b.Beh == "garbage" || b.Beh == "trailing") && r.Chance(1, 2) {
			b.Code = 1
		}
		return b
	}
	if c < failPct+35 {
		b.Beh = "ok"
		return b
	}
	b.Beh = "issues"
	if r.Chance(1, 6) {
		b.Beh = "issues0"
	}
	n := 1 + r.Intn(3)
	for i := 0; i < n; i++ {
		is := issue{Code: 1000 + r.Intn(2000), Line: 1 + r.Intn(9), Col: 1 + r.Intn(30)}
		if role == "sc" {
			is.Level = r.Pick([]string{"warning", "error", "info", "style"})
			is.Msg = r.Pick([]string{"Double quote to prevent globbing.", "x is referenced but not assigned", "Use $(...) notation.. ", "dot."})
		} else {
			is.Crlf = r.Chance(1, 4)
			is.Msg = r.Pick([]string{"undefined name 'x'", "'os' imported but unused", "unexpected EOF while parsing"})
			if r.Chance(1, 5) {
				is.Pre = "print(\n      ^\n"
			}
		}
		b.Issues = append(b.Issues, is)
	}
	return b
}

// ---------------------------------------------------------------- tool log

type toolRec struct {
	Ev     string   `json:"ev"`
	Role   string   `json:"role"`
	Marker string   `json:"marker"`
	Pid    int      `json:"pid"`
	Stdin  string   `json:"stdin"`
	Args   []string `json:"args"`
	Out    string   `json:"out"`
	Err    string   `json:"err"`
	Code   int      `json:"code"`
}

func readToolLog(path string) []toolRec {
	b, err := os.ReadFile(path)
	if err != nil {
		return nil
	}
	var recs []toolRec
	for _, l := range strings.Split(string(b), "\n") {
		if strings.TrimSpace(l) == "" {
			continue
		}
		var t toolRec
		if json.Unmarshal([]byte(l), &t) == nil {
			// the stand-in tool logs its stdin decoded as latin-1 (one code point per byte): back to bytes
			bs := make([]byte, 0, len(t.Stdin))
			for _, r := range t.Stdin {
				bs = append(bs, byte(r))
			}
			t.Stdin = string(bs)
			recs = append(recs, t)
		}
	}
	return recs
}

// ---------------------------------------------------------------- reference for the placeholder replacement

var phRe = regexp.MustCompile(`(?s)\$\{\{.*?\}\}`)

// checkSanitized: "each ${{ }} replaced by an equally long placeholder so that
// reported offsets stay valid"
func checkSanitized(orig, got string) string {
	if len(orig) != len(got) {
		return fmt.Sprintf("length changed from %d to %d", len(orig), len(got))
	}
	spans := phRe.FindAllStringIndex(orig, -1)
	in := make([]bool, len(orig))
	for _, sp := range spans {
		for i := sp[0]; i < sp[1]; i++ {
			in[i] = true
		}
	}
	for i := 0; i < len(orig); i++ {
		if !in[i] && orig[i] != got[i] {
			return fmt.Sprintf("byte %d outside any placeholder changed", i)
		}
		if in[i] && orig[i] == '\n' {
			continue // a line break inside a placeholder: positions after it cannot stay valid; not judged
		}
	}
	if phRe.MatchString(got) {
		return "a ${{ }} placeholder is still present"
	}
	return ""
}

// ---------------------------------------------------------------- one run

type failure struct {
	What  string      `json:"what"`
	Key   string      `json:"key"`
	Run   interface{} `json:"run,omitempty"`
	Extra interface{} `json:"extra,omitempty"`
}

type runSpec struct {
	Seed     uint64               `json:"seed"`
	Entry    string               `json:"entry"` // files | lint
	Files    []string             `json:"files"` // YAML sources
	Sched    map[string]behaviour `json:"sched"`
	BrokenSC bool                 `json:"broken_sc"`
	BrokenPY bool                 `json:"broken_py"`
	MaxDelay int                  `json:"max_delay_us"`
	Cap      int                  `json:"cap"`
	Wfs      []*wfSpec            `json:"wfs"`
	// BrokenProject > 0: that file lives in a repository of its own whose configuration file does
	// not parse (resolving its project is a fatal error of the run)
	BrokenProject int `json:"broken_project,omitempty"`
}

type env struct {
	python, tool, out string
	cap               int
}

var scMsgRe = regexp.MustCompile(`(?s)^shellcheck reported issue in this script: SC(\d+):([^:]*):(-?\d+):(-?\d+): (.*)$`)
var pyMsgRe = regexp.MustCompile(`(?s)^pyflakes reported issue in this script: (.*)$`)
var markerRe = regexp.MustCompile(`T(\d+)X`)

func coqDefRun(d *actionlint.Defaults) string {
	if d == nil || d.Run == nil {
		return "None"
	}
	if d.Run.Shell == nil {
		return "(Some None)"
	}
	return "(Some (Some " + coqStr(d.Run.Shell.Value) + "))"
}

func coqWorkflow(w *actionlint.Workflow) string {
	jobs := []string{}
	for _, id := range hx.SortedKeys(w.Jobs) {
		j := w.Jobs[id]
		labels := []string{}
		if j.RunsOn != nil {
			for _, l := range j.RunsOn.Labels {
				labels = append(labels, coqStr(l.Value))
			}
		}
		steps := []string{}
		for _, s := range j.Steps {
			run, ok := s.Exec.(*actionlint.ExecRun)
			if !ok || run.Run == nil {
				steps = append(steps, "Build_mstep None None")
				continue
			}
			sh := "None"
			if run.Shell != nil {
				sh = "(Some " + coqStr(run.Shell.Value) + ")"
			}
			steps = append(steps, fmt.Sprintf("Build_mstep (Some (%s, %s)) %s", coqStr(run.Run.Value), hx.CoqPos(run.RunPos.Line, run.RunPos.Col), sh))
		}
		jobs = append(jobs, fmt.Sprintf("Build_mjob %s %s %s", coqDefRun(j.Defaults), hx.CoqList(labels), hx.CoqList(steps)))
	}
	return fmt.Sprintf("Build_mwf %s %s", coqDefRun(w.Defaults), hx.CoqList(jobs))
}

type scJSON struct {
	Line    int    `json:"line"`
	Column  int    `json:"column"`
	Level   string `json:"level"`
	Code    int    `json:"code"`
	Message string `json:"message"`
}

// the verdict of encoding/json on the tool output, an input of the model
func coqJSON(out string) string {
	errs := []scJSON{}
	if err := json.Unmarshal([]byte(out), &errs); err != nil {
		return "JBad"
	}
	xs := []string{}
	for _, e := range errs {
		xs = append(xs, fmt.Sprintf("Build_issue %s %s %s %s %s", hx.CoqN(e.Code), hx.CoqN(e.Line), hx.CoqN(e.Column), coqStr(e.Level), coqStr(e.Message)))
	}
	return "(JList " + hx.CoqList(xs) + ")"
}

type runResult struct {
	term     string
	fails    []failure
	ntasks   int
	maxConc  int
	fatal    bool
	ndiags   int
	behs     map[string]int
	skipped  string
	nfailing int
}

func execRun(e *env, idx int, rs *runSpec) *runResult {
	res := &runResult{behs: map[string]int{}}
	dir := filepath.Join(e.out, fmt.Sprintf("run_%04d", idx))
	hx.Must(os.MkdirAll(dir, 0o755))
	paths := []string{}
	for i, src := range rs.Files {
		p := filepath.Join(dir, fmt.Sprintf("f_%d.yaml", i))
		if rs.BrokenProject > 0 && i == rs.BrokenProject {
			bp := filepath.Join(dir, "bp")
			hx.Must(os.MkdirAll(filepath.Join(bp, ".git"), 0o755))
			hx.Must(os.MkdirAll(filepath.Join(bp, ".github", "workflows"), 0o755))
			hx.Must(os.WriteFile(filepath.Join(bp, ".github", "actionlint.yaml"), []byte("self-hosted-runner: [\n"), 0o644))
			p = filepath.Join(bp, ".github", "workflows", fmt.Sprintf("f_%d.yaml", i))
		}
		hx.Must(os.WriteFile(p, []byte(src), 0o644))
		paths = append(paths, p)
	}
	schedPath := filepath.Join(dir, "sched.json")
	sb, _ := json.Marshal(rs.Sched)
	hx.Must(os.WriteFile(schedPath, sb, 0o644))
	logPath := filepath.Join(dir, "tool.log")
	hx.Must(os.WriteFile(logPath, nil, 0o644))
	broken := filepath.Join(dir, "broken_tool")
	hx.Must(os.WriteFile(broken, []byte("this file is executable but is no program\n"), 0o755))
	cmdFor := func(role string, isBroken bool) string {
		if isBroken {
			return broken
		}
		return fmt.Sprintf("%s -S -E %s %s %s %s", e.python, e.tool, role, schedPath, logPath)
	}
	opts := &actionlint.LinterOptions{
		Shellcheck: cmdFor("sc", rs.BrokenSC),
		Pyflakes:   cmdFor("py", rs.BrokenPY),
		OnRulesCreated: func(rules []actionlint.Rule) []actionlint.Rule {
			out := []actionlint.Rule{}
			for _, r := range rules {
				if r.Name() == "shellcheck" || r.Name() == "pyflakes" {
					out = append(out, r)
				}
			}
			return out
		},
	}
	l, err := actionlint.NewLinter(io.Discard, opts)
	hx.Must(err)

	// model input: the AST projection of every file
	wfTerms := []string{}
	type stepInfo struct {
		file, line, col int
		value           string
	}
	markerInfo := map[int]stepInfo{}
	for i, src := range rs.Files {
		w, _ := actionlint.Parse([]byte(src))
		if w == nil {
			res.skipped = "workflow does not parse"
			return res
		}
		wfTerms = append(wfTerms, coqWorkflow(w))
		for _, j := range w.Jobs {
			for _, s := range j.Steps {
				if run, ok := s.Exec.(*actionlint.ExecRun); ok && run.Run != nil {
					if m := markerRe.FindStringSubmatch(run.Run.Value); m != nil {
						k, _ := strconv.Atoi(m[1])
						markerInfo[k] = stepInfo{i, run.RunPos.Line, run.RunPos.Col, run.Run.Value}
					}
				}
			}
		}
	}

	actionlint.VerifTraceStart(rs.Seed, rs.MaxDelay)
	var errs []*actionlint.Error
	var lerr error
	if rs.Entry == "lint" {
		errs, lerr = l.Lint(paths[0], []byte(rs.Files[0]), nil)
	} else {
		errs, lerr = l.LintFiles(paths, nil)
	}
	actionlint.VerifTraceMark("returned")
	logAtReturn := readToolLog(logPath)
	// let stragglers (if any) finish so that they cannot disturb the next run;
	// their events stay in the trace behind "returned"
	deadline := time.Now().Add(8 * time.Second)
	var evs []actionlint.VerifEvent
	for {
		evs = actionlint.VerifTraceSnapshot()
		spawned, done := 0, 0
		for _, ev := range evs {
			switch ev.Kind {
			case "spawn":
				spawned++
			case "done":
				done++
			}
		}
		if done >= spawned || time.Now().After(deadline) {
			break
		}
		time.Sleep(5 * time.Millisecond)
	}
	actionlint.VerifTraceStop()
	logFinal := readToolLog(logPath)
	res.fatal = lerr != nil

	fail := func(what, key string, extra interface{}) {
		res.fails = append(res.fails, failure{What: what, Key: key, Run: rs, Extra: extra})
	}

	// ---- hook trace -> model events
	taskIdx := map[int]int{}    // hook task id -> model index
	taskMarker := map[int]int{} // model index -> marker
	taskRole := map[int]string{}
	gFile := map[int]int{} // goroutine -> file
	egRule := map[int]string{}
	nspawn := 0
	for _, ev := range evs {
		if ev.Kind != "spawn" {
			continue
		}
		m := markerRe.FindStringSubmatch(ev.Stdin)
		if m == nil {
			fail("a script without marker reached a tool", "harness:nomarker", ev)
			continue
		}
		k, _ := strconv.Atoi(m[1])
		info, ok := markerInfo[k]
		if !ok {
			fail("unknown marker", "harness:marker", ev)
			continue
		}
		gFile[ev.G] = info.file
		role := "py"
		if strings.Contains(ev.Args, "--shell") {
			role = "sc"
		}
		egRule[ev.Eg] = role
		taskIdx[ev.Task] = nspawn
		taskMarker[nspawn] = k
		taskRole[nspawn] = role
		nspawn++
	}
	res.ntasks = nspawn
	// goroutines that only wait (files without any invocation) get the remaining files
	usedFile := map[int]bool{}
	for _, f := range gFile {
		usedFile[f] = true
	}
	free := []int{}
	for i := range rs.Files {
		if !usedFile[i] {
			free = append(free, i)
		}
	}
	for _, ev := range evs {
		if ev.Kind == "egwait-enter" {
			if _, ok := gFile[ev.G]; !ok {
				if len(free) == 0 {
					fail("more checking goroutines than files", "harness:goroutines", nil)
					break
				}
				gFile[ev.G] = free[0]
				free = free[1:]
			}
		}
	}
	// per task: what the tool did (tool log), for the exit event
	toolEnd := map[string]toolRec{} // marker/role -> E record
	for _, t := range logFinal {
		if t.Ev == "E" {
			toolEnd[t.Role+"/"+t.Marker] = t
		}
	}
	gWaits := map[int]int{}
	var mevs []string
	obsTasks := map[int][2]int{} // model index -> (exit class, callback err)
	exitClass := map[string]int{"out": 0, "terminated": 1, "empty": 2, "other": 3}
	doneAtReturn := true
	sawReturn := false
	outstanding := 0
	outstandingAtReturn := 0
	for _, ev := range evs {
		t, hasT := taskIdx[ev.Task]
		switch ev.Kind {
		case "spawn":
			if !hasT {
				continue
			}
			info := markerInfo[taskMarker[t]]
			rule, sh := "PY", ""
			if taskRole[t] == "sc" {
				rule = "SC"
				f := strings.Fields(ev.Args)
				for i := range f {
					if f[i] == "--shell" && i+1 < len(f) {
						sh = f[i+1]
					}
				}
			}
			mevs = append(mevs, fmt.Sprintf("ESpawn %d (Build_inv %s %s %s %s)", info.file, rule, hx.CoqPos(info.line, info.col), coqStr(sh), coqStr(ev.Stdin)))
			outstanding++
		case "acquired":
			mevs = append(mevs, fmt.Sprintf("EAcquire %d", t))
		case "exit":
			role := taskRole[t]
			osr := "OSStartErr"
			js := "JBad"
			isBroken := (role == "sc" && rs.BrokenSC) || (role == "py" && rs.BrokenPY)
			if !isBroken {
				rec, ok := toolEnd[role+"/"+strconv.Itoa(taskMarker[t])]
				if !ok {
					fail("tool invocation without end record", "harness:toollog", ev)
					continue
				}
				out := rec.Out
				if role == "py" {
					out += rec.Err
				}
				osr = fmt.Sprintf("(OSExit %s %s)", coqZ(rec.Code), coqStr(out))
				if role == "sc" {
					js = coqJSON(out)
				}
				if ev.Outcome == "out" && ev.Stdout != out {
					fail("cmdExecution.run returned other bytes than the tool wrote", fmt.Sprintf("lost-output:%s", rs.Sched[strconv.Itoa(taskMarker[t])].Beh), ev)
				}
			}
			mevs = append(mevs, fmt.Sprintf("EExit %d %s %s", t, osr, js))
			o := obsTasks[t]
			o[0] = exitClass[ev.Outcome]
			obsTasks[t] = o
		case "released":
			mevs = append(mevs, fmt.Sprintf("ERelease %d", t))
		case "callback":
			mevs = append(mevs, fmt.Sprintf("ECallback %d", t))
			o := obsTasks[t]
			if ev.Err {
				o[1] = 1
			}
			obsTasks[t] = o
		case "done":
			mevs = append(mevs, fmt.Sprintf("EDone %d", t))
			outstanding--
		case "egwait-enter", "egwait-return":
			f := gFile[ev.G]
			n := gWaits[ev.G]
			rule := "SC"
			if n >= 2 {
				rule = "PY"
			}
			gWaits[ev.G] = n + 1
			if r, ok := egRule[ev.Eg]; ok && strings.ToUpper(r) != rule {
				fail("order of the rules' waits is not shellcheck, pyflakes", "harness:waitorder", ev)
			}
			if ev.Kind == "egwait-enter" {
				mevs = append(mevs, fmt.Sprintf("EEgEnter %d %s", f, rule))
			} else {
				mevs = append(mevs, fmt.Sprintf("EEgReturn %d %s %s", f, rule, hx.CoqBool(ev.Err)))
			}
		case "procwait-enter":
			mevs = append(mevs, "EPwEnter")
		case "procwait-return":
			mevs = append(mevs, "EPwReturn")
		case "returned":
			mevs = append(mevs, fmt.Sprintf("EReturn %s", hx.CoqBool(res.fatal)))
			sawReturn = true
			outstandingAtReturn = outstanding
			if outstanding != 0 {
				doneAtReturn = false
			}
		}
	}
	_ = sawReturn

	// ---- observed result as tuples
	obs := []string{numTuple(0, 1)}
	mainN := 1
	if res.fatal {
		mainN = 2
	}
	obs = append(obs, numTuple(1, mainN, b2i(doneAtReturn)))
	type odiag struct {
		file, line, col int
		marker          int
		role            string
		code, l, c      int
		msg             string
	}
	var odiags []odiag
	for _, d := range errs {
		fi := -1
		for i := range paths {
			if filepath.Base(d.Filepath) == filepath.Base(paths[i]) {
				fi = i
			}
		}
		switch d.Kind {
		case "shellcheck":
			m := scMsgRe.FindStringSubmatch(d.Message)
			if m == nil {
				fail("unparsable shellcheck diagnostic", "harness:diag", d.Message)
				continue
			}
			code, _ := strconv.Atoi(m[1])
			ln, _ := strconv.Atoi(m[3])
			cl, _ := strconv.Atoi(m[4])
			obs = append(obs, bytesTuple([]int{2, fi, d.Line, d.Column, 0, code, ln, cl}, m[2]+"\x00"+m[5]))
			odiags = append(odiags, odiag{file: fi, line: d.Line, col: d.Column, role: "sc", code: code, l: ln, c: cl, msg: m[5]})
		case "pyflakes":
			m := pyMsgRe.FindStringSubmatch(d.Message)
			if m == nil {
				fail("unparsable pyflakes diagnostic", "harness:diag", d.Message)
				continue
			}
			obs = append(obs, bytesTuple([]int{2, fi, d.Line, d.Column, 1}, m[1]))
			od := odiag{file: fi, line: d.Line, col: d.Column, role: "py", msg: m[1]}
			fmt.Sscanf(m[1], "%d:%d:", &od.l, &od.c)
			odiags = append(odiags, od)
		default:
			if d.Kind == "syntax-check" && strings.Contains(d.Message, "timeout_minutes") {
				continue // the unknown key of the job `zzbroken` (wfSpec.Broken)
			}
			fail("diagnostic of another rule", "harness:rule", d.Message)
		}
	}
	res.ndiags = len(odiags)
	for t := 0; t < nspawn; t++ {
		obs = append(obs, numTuple(3, t, obsTasks[t][1]))
	}
	for _, ev := range evs {
		if ev.Kind == "exit" {
			if t, ok := taskIdx[ev.Task]; ok {
				obs = append(obs, numTuple(5, t, exitClass[ev.Outcome]))
			}
		}
	}
	res.term = fmt.Sprintf("(Build_run_input %d %s %s, %s)", e.cap, hx.CoqList(wfTerms), hx.CoqList(mevs), hx.CoqList(obs))

	// ---- the property, evaluated on the implementation ---------------------
	// (1) never more tool processes at once than CPUs: order of S/E lines
	cur, max := 0, 0
	for _, t := range logFinal {
		if t.Ev == "S" {
			cur++
			if cur > max {
				max = cur
			}
		} else if t.Ev == "E" {
			cur--
		}
	}
	res.maxConc = max
	if max > e.cap {
		fail(fmt.Sprintf("%d tool processes ran at once with %d CPUs", max, e.cap), "concurrency", nil)
	}
	// also by the schedule points: invocations between acquired and exit
	cur, max = 0, 0
	for _, ev := range evs {
		if ev.Kind == "acquired" {
			cur++
			if cur > max {
				max = cur
			}
		} else if ev.Kind == "exit" {
			cur--
		}
	}
	if max > e.cap {
		fail(fmt.Sprintf("%d invocations held the semaphore at once with %d CPUs", max, e.cap), "concurrency", nil)
	}
	if max > res.maxConc {
		res.maxConc = max
	}
	// (2) all tools finished and collected before results are returned
	ns, ne := 0, 0
	for _, t := range logAtReturn {
		if t.Ev == "S" {
			ns++
		} else if t.Ev == "E" {
			ne++
		}
	}
	if ns != ne || len(logFinal) != len(logAtReturn) || !doneAtReturn {
		key := "uncollected:success-path"
		if res.fatal {
			key = "uncollected:fatal-path"
			if len(rs.Files) > 1 {
				key = "uncollected:fatal-path:LintFiles"
			}
		}
		fail(fmt.Sprintf("tool invocations still outstanding when Lint* returned (started %d, ended %d at return; %d log lines later; %d invocations not done at return)", ns, ne, len(logFinal)-len(logAtReturn), outstandingAtReturn), key, nil)
	}
	if rs.BrokenProject > 0 {
		// the run must end in the fatal error of the broken configuration; what had been started
		// before the error is no part of a result, so the per-script oracles do not apply
		if lerr == nil {
			fail("a file of a repository whose configuration does not parse did not make the run fatal", "broken-project:not-fatal", nil)
		}
		res.skipped = "fatal-before-start"
		return res
	}
	// (3) every run: script with an applicable shell is passed exactly once, sanitised
	seen := map[string]int{}
	for _, t := range logFinal {
		if t.Ev == "S" {
			seen[t.Role+"/"+t.Marker]++
		}
	}
	// with a tool that cannot be started there is no tool log: use what the hook saw
	if rs.BrokenSC || rs.BrokenPY {
		for t := 0; t < nspawn; t++ {
			role := taskRole[t]
			if (role == "sc" && rs.BrokenSC) || (role == "py" && rs.BrokenPY) {
				seen[role+"/"+strconv.Itoa(taskMarker[t])]++
			}
		}
	}
	stdinOf := map[string]string{}
	for _, t := range logFinal {
		if t.Ev == "S" {
			stdinOf[t.Role+"/"+t.Marker] = t.Stdin
		}
	}
	anyStrictFail, anyAllowedFail := false, false
	for fi, w := range rs.Wfs {
		for _, j := range w.Jobs {
			for _, s := range j.Steps {
				if s.Uses {
					continue
				}
				want := toolFor(w.effectiveShell(j, s))
				for _, role := range []string{"sc", "py"} {
					k := role + "/" + strconv.Itoa(s.Marker)
					n := seen[k]
					exp := 0
					if want == role {
						exp = 1
					}
					if n != exp {
						fail(fmt.Sprintf("script of a run step with effective shell %q was passed %d times to %s (expected %d)", w.effectiveShell(j, s), n, role, exp),
							fmt.Sprintf("passed:%s:%d:%d", role, exp, n), map[string]interface{}{"file": fi, "marker": s.Marker})
						continue
					}
					if n == 1 {
						if got, ok := stdinOf[k]; ok {
							body := got
							if role == "sc" {
								setup := "set -e\n"
								if strings.HasPrefix(strings.Fields(w.effectiveShell(j, s))[0], "bash") {
									setup = "set -eo pipefail\n"
								}
								if !strings.HasPrefix(got, setup) || !strings.HasSuffix(got, "\n") {
									fail("shellcheck input lacks the set -e line or the final line break", "stdin:frame", got)
									continue
								}
								body = got[len(setup) : len(got)-1]
							}
							orig := markerInfo[s.Marker].value // the script as parsed from the YAML block scalar
							if msg := checkSanitized(orig, body); msg != "" {
								fail("placeholder replacement: "+msg, "sanitize:"+msg, map[string]string{"script": orig, "stdin": got})
							}
						}
						// failure patterns of this invocation
						isBroken := (role == "sc" && rs.BrokenSC) || (role == "py" && rs.BrokenPY)
						b := rs.Sched[strconv.Itoa(s.Marker)]
						res.behs[role+":"+b.Beh]++
						strict, allowed := false, false
						switch {
						case isBroken:
							strict = true
						case b.Beh == "signal", b.Beh == "empty":
							strict = true
						case b.Beh == "empty0":
							strict = role == "sc" // status 0 and no output: not JSON for shellcheck, no issue for pyflakes
						case b.Beh == "crash":
							strict = role == "sc" // stdout empty, status 2; for pyflakes the traceback is output
						case b.Beh == "garbage", b.Beh == "trailing":
							strict = role == "sc"
						case b.Beh == "unterminated":
							strict = role == "sc"
							allowed = true
						}
						if strict {
							anyStrictFail = true
							res.nfailing++
						}
						if strict || allowed {
							anyAllowedFail = true
						}
					}
				}
			}
		}
	}
	// (4) failure patterns <=> fatal error
	if anyStrictFail && !res.fatal {
		fail("a tool failed (not started / killed / non-zero without output / non-JSON) but no fatal error was returned", "fatal:missing", nil)
	}
	if res.fatal && !anyAllowedFail {
		fail("fatal error although every tool invocation succeeded", "fatal:spurious", fmt.Sprint(lerr))
	}
	// (5) every printed issue is exactly one diagnostic at that step's run: key
	if !res.fatal {
		type key struct {
			file, line, col int
			role            string
			l, c            int
			msg             string
		}
		want := map[key]int{}
		for _, w := range rs.Wfs {
			for _, j := range w.Jobs {
				for _, s := range j.Steps {
					if s.Uses {
						continue
					}
					role := toolFor(w.effectiveShell(j, s))
					if role == "" {
						continue
					}
					b := rs.Sched[strconv.Itoa(s.Marker)]
					if b.Beh != "issues" && b.Beh != "issues0" {
						continue
					}
					info := markerInfo[s.Marker]
					for _, is := range b.Issues {
						k := key{file: info.file, line: info.line, col: info.col, role: role, l: is.Line, c: is.Col}
						if role == "sc" {
							k.l = is.Line - 1
							k.msg = fmt.Sprintf("%d:%s:%s", is.Code, is.Level, strings.TrimSuffix(is.Msg, "."))
						} else {
							k.msg = fmt.Sprintf("%d:%d: %s", is.Line, is.Col, is.Msg)
						}
						want[k]++
					}
				}
			}
		}
		got := map[key]int{}
		for _, d := range errs {
			fi := -1
			for i := range paths {
				if filepath.Base(d.Filepath) == filepath.Base(paths[i]) {
					fi = i
				}
			}
			if m := scMsgRe.FindStringSubmatch(d.Message); m != nil && d.Kind == "shellcheck" {
				ln, _ := strconv.Atoi(m[3])
				cl, _ := strconv.Atoi(m[4])
				got[key{file: fi, line: d.Line, col: d.Column, role: "sc", l: ln, c: cl, msg: m[1] + ":" + m[2] + ":" + m[5]}]++
			} else if m := pyMsgRe.FindStringSubmatch(d.Message); m != nil && d.Kind == "pyflakes" {
				var ln, cl int
				fmt.Sscanf(m[1], "%d:%d:", &ln, &cl)
				got[key{file: fi, line: d.Line, col: d.Column, role: "py", l: ln, c: cl, msg: m[1]}]++
			}
		}
		for k, n := range want {
			if got[k] != n {
				fail(fmt.Sprintf("an issue printed by the tool became %d diagnostics (expected %d)", got[k], n), fmt.Sprintf("diag:lost:%s", k.role), k)
				break
			}
		}
		for k, n := range got {
			if want[k] != n {
				fail(fmt.Sprintf("%d diagnostics without a printed issue (expected %d)", n, want[k]), fmt.Sprintf("diag:extra:%s", k.role), fmt.Sprintf("%+v", k))
				break
			}
		}
	}
	if len(res.fails) == 0 {
		os.RemoveAll(dir)
	}
	return res
}

func b2i(b bool) int {
	if b {
		return 1
	}
	return 0
}

// directedRun is the scenario of the fatal-error path: in one file a shellcheck
// invocation fails at once while a pyflakes invocation of the same file is slow;
// shellcheck's VisitWorkflowPost returns the error before pyflakes' is called.
func directedRun(r *hx.Rng, nfiles int) *runSpec {
	rs := &runSpec{Seed: r.Next(), Sched: map[string]behaviour{}, Entry: "files", MaxDelay: 0}
	py := "python"
	w := &wfSpec{Jobs: []*jobSpec{{ID: "j0", RunsOn: "ubuntu-latest", Steps: []*stepSpec{
		{Marker: 1, Script: "echo T1X ${{ github.sha }}"},
		{Marker: 2, Script: "print('T2X')", Shell: &py},
		{Marker: 3, Script: "print('T3X')", Shell: &py},
	}}}}
	rs.Wfs = append(rs.Wfs, w)
	rs.Files = append(rs.Files, w.yaml())
	for f := 1; f < nfiles; f++ {
		w2 := &wfSpec{Jobs: []*jobSpec{{ID: "j0", RunsOn: "ubuntu-latest", Steps: []*stepSpec{{Marker: 10 + f, Script: fmt.Sprintf("echo T%dX", 10+f)}}}}}
		rs.Wfs = append(rs.Wfs, w2)
		rs.Files = append(rs.Files, w2.yaml())
		rs.Sched[strconv.Itoa(10+f)] = behaviour{Beh: "ok", Lat: 1}
	}
	rs.Sched["1"] = behaviour{Beh: "empty", Lat: 0}
	rs.Sched["2"] = behaviour{Beh: "ok", Lat: 250}
	rs.Sched["3"] = behaviour{Beh: "issues", Lat: 250, Issues: []issue{{Code: 1, Line: 1, Col: 1, Msg: "undefined name 'x'"}}}
	return rs
}

// lintWithTools lints src with the stand-in tools configured as sc / py command lines and returns
// the diagnostics, the error and the tool log
func lintWithTools(e *env, dir, src string, sched map[string]behaviour, sc, py func(def string) string) ([]*actionlint.Error, error, []toolRec) {
	hx.Must(os.MkdirAll(dir, 0o755))
	schedPath := filepath.Join(dir, "sched.json")
	sb, _ := json.Marshal(sched)
	hx.Must(os.WriteFile(schedPath, sb, 0o644))
	logPath := filepath.Join(dir, "tool.log")
	hx.Must(os.WriteFile(logPath, nil, 0o644))
	def := func(role string) string {
		return fmt.Sprintf("%s -S -E %s %s %s %s", e.python, e.tool, role, schedPath, logPath)
	}
	opts := &actionlint.LinterOptions{Shellcheck: sc(def("sc")), Pyflakes: py(def("py")),
		OnRulesCreated: func(rules []actionlint.Rule) []actionlint.Rule {
			out := []actionlint.Rule{}
			for _, r := range rules {
				if r.Name() == "shellcheck" || r.Name() == "pyflakes" {
					out = append(out, r)
				}
			}
			return out
		}}
	l, err := actionlint.NewLinter(io.Discard, opts)
	hx.Must(err)
	errs, lerr := l.Lint(filepath.Join(dir, "w.yaml"), []byte(src), nil)
	time.Sleep(50 * time.Millisecond)
	return errs, lerr, readToolLog(logPath)
}

// twinCheck: "every run: script ... is passed to the tool exactly once": also when two steps have
// scripts that are equal after placeholder replacement (or equal altogether); every one of them
// gets its diagnostics at its own run: key.
func twinCheck(e *env, out string) []failure {
	src := "on: push\njobs:\n  a:\n    runs-on: ubuntu-latest\n    steps:\n" +
		"      - run: print('T9001X ${{ github.sha }}')\n        shell: python\n" +
		"      - run: print('T9001X ${{ github.ref }}')\n        shell: python\n" +
		"      - run: echo T9002X ${{ github.sha }}\n" +
		"      - run: echo T9002X ${{ github.ref }}\n" +
		"  b:\n    runs-on: ubuntu-latest\n    steps:\n" +
		"      - run: print('T9001X ${{ github.sha }}')\n        shell: python\n" +
		"      - run: echo T9002X ${{ github.sha }}\n"
	sched := map[string]behaviour{
		"9001": {Beh: "issues", Issues: []issue{{Code: 1, Line: 1, Col: 1}}},
		"9002": {Beh: "issues", Issues: []issue{{Code: 2086, Line: 1, Col: 6}}},
	}
	id := func(s string) string { return s }
	errs, lerr, log := lintWithTools(e, filepath.Join(out, "twins"), src, sched, id, id)
	var fails []failure
	if lerr != nil {
		return []failure{{What: "run with twin scripts failed: " + lerr.Error(), Key: "twins:fatal", Extra: src}}
	}
	started := map[string]int{}
	for _, t := range log {
		if t.Ev == "S" {
			started[t.Role+"/"+t.Marker]++
		}
	}
	if started["py/9001"] != 3 || started["sc/9002"] != 3 {
		fails = append(fails, failure{What: fmt.Sprintf("scripts that are equal after placeholder replacement: 3 python and 3 shell run steps, the tools were started %d and %d times", started["py/9001"], started["sc/9002"]),
			Key: "twins:passed", Extra: src})
	}
	lines := map[int]int{}
	for _, d := range errs {
		lines[d.Line]++
	}
	for _, ln := range []int{6, 8, 10, 11, 15, 17} {
		if lines[ln] != 1 {
			fails = append(fails, failure{What: fmt.Sprintf("scripts that are equal after placeholder replacement: the issue of the step at line %d became %d diagnostics at its run: key (expected 1)", ln, lines[ln]),
				Key: "twins:diagnostics", Extra: src})
			break
		}
	}
	return fails
}

// toolPathCheck: the configured tool is the program run: a path that contains a space is first
// looked up as it is (a decoy program at its first word must not be run instead)
func toolPathCheck(e *env, out string) []failure {
	dir := filepath.Join(out, "toolpath")
	hx.Must(os.MkdirAll(filepath.Join(dir, "tool dir"), 0o755))
	decoyLog := filepath.Join(dir, "decoy.log")
	hx.Must(os.WriteFile(filepath.Join(dir, "tool"), []byte("#!/bin/sh\necho decoy >> '"+decoyLog+"'\ncat > /dev/null\necho '[]'\n"), 0o755))
	src := "on: push\njobs:\n  a:\n    runs-on: ubuntu-latest\n    steps:\n      - run: echo T9003X\n"
	sched := map[string]behaviour{"9003": {Beh: "issues", Issues: []issue{{Code: 2086, Line: 1, Col: 6}}}}
	wrap := func(def string) string {
		// a wrapper script at a path with a space, running the stand-in tool
		w := filepath.Join(dir, "tool dir", "shellcheck")
		hx.Must(os.WriteFile(w, []byte("#!/bin/sh\nexec "+def+"\n"), 0o755))
		return w
	}
	id := func(s string) string { return s }
	errs, lerr, log := lintWithTools(e, dir, src, sched, wrap, id)
	n := 0
	for _, t := range log {
		if t.Ev == "S" && t.Role == "sc" {
			n++
		}
	}
	_, decoyErr := os.Stat(decoyLog)
	if lerr != nil || n != 1 || len(errs) != 1 || decoyErr == nil {
		return []failure{{What: fmt.Sprintf("tool configured by a path that contains a space: the script was passed %d times to it, %d diagnostics, error %v, decoy program at the first word run: %v", n, len(errs), lerr, decoyErr == nil),
			Key: "toolpath:space", Extra: src}}
	}
	return nil
}

// gridRun: the effective shell for every combination of workflow default x job default x step
// shell x runner (a default that says nothing about the shell hides no outer default)
func gridRun(r *hx.Rng, idx int) *runSpec {
	rs := &runSpec{Seed: r.Next(), Sched: map[string]behaviour{}, Entry: "files", MaxDelay: 0}
	type def struct {
		has int
		sh  string
	}
	defs := []def{{0, ""}, {1, ""}, {2, "bash"}, {2, "python"}, {2, "pwsh"}, {2, "python -u {0}"}}
	next := idx * 1000
	for _, wd := range defs {
		w := &wfSpec{HasDef: wd.has, DefShell: wd.sh}
		for ji, jd := range defs {
			for ri, ro := range []int{0, 1} {
				job := &jobSpec{ID: fmt.Sprintf("j%d_%d", ji, ri), HasDef: jd.has, DefShell: jd.sh, RunsOn: runners[ro].y, Windows: runners[ro].w}
				for _, sh := range []*string{nil, strp("bash"), strp("python")} {
					st := &stepSpec{Shell: sh, Marker: next}
					py := toolFor(w.effectiveShell(job, st)) == "py"
					if py {
						st.Script = fmt.Sprintf("print('T%dX')", next)
					} else {
						st.Script = fmt.Sprintf("echo T%dX", next)
					}
					role := "sc"
					if py {
						role = "py"
					}
					b := behaviour{Beh: "ok", Lat: 1}
					if next%2 == 0 {
						b = behaviour{Beh: "issues", Lat: 1, Issues: []issue{{Code: 1000 + next%100, Line: 1, Col: 1, Level: "warning", Msg: "dot."}}}
						if role == "py" {
							b.Issues[0] = issue{Code: 1, Line: 1, Col: 1, Msg: "undefined name 'x'"}
						}
					}
					rs.Sched[strconv.Itoa(next)] = b
					next++
					job.Steps = append(job.Steps, st)
				}
				w.Jobs = append(w.Jobs, job)
			}
		}
		rs.Wfs = append(rs.Wfs, w)
		rs.Files = append(rs.Files, w.yaml())
	}
	return rs
}

// brokenProjectRun: the LAST file of the run belongs to a repository whose configuration does not
// parse; the files before it have slow tool invocations. The run ends in a fatal error, and no
// tool process may be running when it is returned.
func brokenProjectRun(r *hx.Rng) *runSpec {
	rs := directedRun(r, 3)
	rs.Sched["1"] = behaviour{Beh: "ok", Lat: 300}
	rs.Sched["11"] = behaviour{Beh: "ok", Lat: 300}
	rs.BrokenProject = 2
	return rs
}

func genRun(r *hx.Rng, idx int, thorough bool, cap int) *runSpec {
	if idx < 2 {
		return directedRun(r, 1+idx*2)
	}
	if idx == 3 {
		return brokenProjectRun(r)
	}
	if idx == 4 {
		// the fatal-error scenario through Linter.Lint (content given by the caller)
		rs := directedRun(r, 1)
		rs.Entry = "lint"
		return rs
	}
	if idx == 2 {
		return gridRun(r, idx)
	}
	rs := &runSpec{Seed: r.Next(), Sched: map[string]behaviour{}, Entry: "files"}
	nf := 1 + r.Intn(4)
	if cap >= 8 {
		nf = 3 + r.Intn(4) // many CPUs: more files so that enough invocations are pending at once
	}
	if r.Chance(1, 8) {
		nf = 1
		if r.Chance(1, 2) {
			rs.Entry = "lint"
		}
	}
	next := idx * 1000
	failPct := []int{0, 0, 6, 15, 40}[r.Intn(5)]
	// latency profile: uniform, all-at-once (equal), one straggler, longest first
	profile := r.Intn(4)
	maxLat := 10 + r.Intn(30)
	if cap >= 8 {
		maxLat = 40 + r.Intn(40) // many CPUs: longer processes so that invocations pile up
	}
	for f := 0; f < nf; f++ {
		w := genWorkflow(r, &next, thorough || cap >= 8)
		rs.Wfs = append(rs.Wfs, w)
		rs.Files = append(rs.Files, w.yaml())
	}
	first := true
	for _, w := range rs.Wfs {
		for _, j := range w.Jobs {
			for _, s := range j.Steps {
				if s.Uses {
					continue
				}
				role := toolFor(w.effectiveShell(j, s))
				if role == "" {
					role = "sc"
				}
				b := genBehaviour(r, role, failPct, maxLat)
				switch profile {
				case 1:
					b.Lat = maxLat
				case 2:
					b.Lat = 1
					if first {
						b.Lat = 3 * maxLat
					}
				case 3:
					b.Lat = maxLat - (next-s.Marker)%maxLat
					if b.Lat < 0 {
						b.Lat = 0
					}
				}
				first = false
				rs.Sched[strconv.Itoa(s.Marker)] = b
			}
		}
	}
	if r.Chance(1, 14) {
		rs.BrokenSC = true
	} else if r.Chance(1, 14) {
		rs.BrokenPY = true
	}
	rs.MaxDelay = []int{0, 200, 2000}[r.Intn(3)]
	return rs
}

// ---------------------------------------------------------------- pure mode

func exhaustive(alpha string, n int, f func(string)) {
	var rec func(prefix []byte, k int)
	rec = func(prefix []byte, k int) {
		f(string(prefix))
		if k == 0 {
			return
		}
		for i := 0; i < len(alpha); i++ {
			rec(append(prefix, alpha[i]), k-1)
		}
	}
	rec(nil, n)
}

func coqOptS(s string, some bool) string {
	if !some {
		return "None"
	}
	return "(Some " + coqStr(s) + ")"
}

func runPure(e *env, seed uint64, n int, thorough bool) {
	r := hx.NewRng(seed)
	sum := hx.NewSummary("C20")
	cases, err := os.Create(filepath.Join(e.out, "cases.txt"))
	hx.Must(err)
	defer cases.Close()
	ncases := 0
	emit := func(in string, obs []string) {
		fmt.Fprintf(cases, "(%s, %s)\n", in, hx.CoqList(obs))
		ncases++
	}
	// --- sanitize: exhaustive short strings (oracle on all, model on the shorter ones), random long ones
	coqLen, allLen := 4, 8
	if thorough {
		coqLen, allLen = 6, 10
	}
	nsan := 0
	sanCheck := func(s string, toCoq bool) {
		got := actionlint.VerifSanitizeExpressionsInScript(s)
		nsan++
		if msg := checkSanitized(s, got); msg != "" {
			sum.OracleFails = append(sum.OracleFails, failure{What: "placeholder replacement: " + msg, Key: "sanitize:" + msg, Extra: map[string]string{"script": s, "got": got}})
		}
		if toCoq {
			emit("PCSan "+coqStr(s), []string{bytesTuple(nil, got)})
		}
	}
	exhaustive("${}a\n", allLen, func(s string) { sanCheck(s, len(s) <= coqLen) })
	pieces := append([]string{"echo ", "\n", "$", "{", "}", "${", "}} ", "x"}, placeholders...)
	for i := 0; i < n; i++ {
		var b strings.Builder
		for k := r.Intn(8); k >= 0; k-- {
			b.WriteString(r.Pick(pieces))
		}
		sanCheck(b.String(), true)
	}
	sum.Dist["sanitize_inputs"] = nsan
	// --- cmdExecution.run on real processes
	type ex struct {
		code    int
		so, se  string
		special string
	}
	exs := []ex{}
	for _, code := range []int{0, 1, 2, 3, 127, 255} {
		for _, so := range []string{"", "out", "[]\n"} {
			for _, se := range []string{"", "err\n"} {
				exs = append(exs, ex{code: code, so: so, se: se})
			}
		}
	}
	exs = append(exs, ex{special: "signal", so: "partial"}, ex{special: "signal"}, ex{special: "nostart"}, ex{special: "sigterm", so: "x"})
	broken := filepath.Join(e.out, "broken_tool")
	hx.Must(os.WriteFile(broken, []byte("no program\n"), 0o755))
	// scripts of any size: the input must reach the tool also when it is larger than a pipe buffer
	for _, size := range []int{65536, 65537, 300000} {
		for _, combine := range []bool{false, true} {
			type rr struct {
				out []byte
				err error
			}
			ch := make(chan rr, 1)
			go func() {
				o, err := actionlint.VerifCmdExecutionRun("/bin/sh", []string{"-c", "wc -c | tr -d ' \\n'"}, strings.Repeat("x", size), combine)
				ch <- rr{o, err}
			}()
			select {
			case got := <-ch:
				want := strconv.Itoa(size)
				if got.err != nil || string(got.out) != want {
					sum.OracleFails = append(sum.OracleFails, failure{What: fmt.Sprintf("a script of %d bytes did not reach the tool completely", size), Key: "exec:bigstdin", Extra: fmt.Sprint(string(got.out), got.err)})
				} else {
					emit(fmt.Sprintf("PCExec (OSExit 0%%Z %s)", coqStr(want)), []string{numTuple(0), bytesTuple(nil, want)})
				}
				sum.Dist["exec_bigstdin_ok"]++
			case <-time.After(5 * time.Second):
				sum.OracleFails = append(sum.OracleFails, failure{What: fmt.Sprintf("cmdExecution.run hangs on a script of %d bytes (larger than the pipe buffer): the tool never gets it and Lint* never returns", size), Key: "exec:hang:bigstdin", Extra: size})
				sum.Dist["exec_bigstdin_hang"]++
			}
		}
	}
	for _, x := range exs {
		for _, combine := range []bool{false, true} {
			var out []byte
			var err error
			model := ""
			switch x.special {
			case "nostart":
				out, err = actionlint.VerifCmdExecutionRun(broken, nil, "stdin", combine)
				model = "OSStartErr"
			case "signal", "sigterm":
				sig := "KILL"
				if x.special == "sigterm" {
					sig = "TERM"
				}
				out, err = actionlint.VerifCmdExecutionRun("/bin/sh", []string{"-c", fmt.Sprintf("cat >/dev/null; printf %%s '%s'; kill -%s $$; sleep 5", x.so, sig)}, "stdin", combine)
				model = fmt.Sprintf("(OSExit (-1)%%Z %s)", coqStr(x.so))
			default:
				out, err = actionlint.VerifCmdExecutionRun("/bin/sh", []string{"-c", fmt.Sprintf("cat >/dev/null; printf %%s '%s'; printf %%s '%s' >&2; exit %d", x.so, x.se, x.code)}, "stdin", combine)
				o := x.so
				if combine {
					o += x.se
				}
				model = fmt.Sprintf("(OSExit %s %s)", coqZ(x.code), coqStr(o))
			}
			var obs []string
			cls := "out"
			if err != nil {
				msg := err.Error()
				switch {
				case strings.Contains(msg, " was terminated. stderr: "):
					obs = []string{numTuple(1)}
					cls = "terminated"
				case strings.Contains(msg, " but stdout was empty. stderr: "):
					obs = []string{numTuple(2)}
					cls = "empty"
				default:
					obs = []string{numTuple(3)}
					cls = "other"
				}
			} else {
				obs = []string{numTuple(0), bytesTuple(nil, string(out))}
			}
			sum.Dist["exec_"+cls]++
			emit("PCExec "+model, obs)
			// the property: not started / killed / non-zero without output => error
			mustFail := x.special != "" || (x.code != 0 && x.so == "" && (!combine || x.se == ""))
			if mustFail && err == nil {
				sum.OracleFails = append(sum.OracleFails, failure{What: "a failed tool run is not reported as an error by cmdExecution.run", Key: "exec:" + x.special + strconv.Itoa(x.code), Extra: x.special})
			}
			if !mustFail && err != nil {
				sum.OracleFails = append(sum.OracleFails, failure{What: "a tool run with output is reported as an error", Key: "exec:spurious:" + strconv.Itoa(x.code), Extra: err.Error()})
			}
		}
	}
	// --- pyflakes output parsing
	frag := []string{"<stdin>:", "1:2: undefined name 'x'", "\n", "\r\n", "junk", "  ^", "<stdin>", ":", "\r", "3:1: a <stdin>: b"}
	pyCase := func(s string) {
		msgs, err := actionlint.VerifPyflakesParse([]byte(s))
		var obs []string
		if err != nil {
			obs = []string{numTuple(1)}
			sum.Dist["py_error"]++
		} else {
			obs = []string{numTuple(0)}
			for _, m := range msgs {
				obs = append(obs, bytesTuple(nil, strings.TrimPrefix(m, "pyflakes reported issue in this script: ")))
			}
			sum.Dist[fmt.Sprintf("py_msgs_%d", len(msgs))]++
		}
		emit("PCPy "+coqStr(s), obs)
		// reference from the property: every complete "<stdin>:...\n" line is one diagnostic
		if err == nil {
			want := 0
			rest := s
			for {
				i := strings.Index(rest, "<stdin>:")
				if i < 0 {
					break
				}
				rest = rest[i+8:]
				k := strings.IndexByte(rest, '\n')
				if k < 0 {
					want = -1
					break
				}
				want++
				rest = rest[k+1:]
			}
			if want != len(msgs) {
				sum.OracleFails = append(sum.OracleFails, failure{What: fmt.Sprintf("pyflakes output with %d message lines gave %d diagnostics", want, len(msgs)), Key: "pyparse", Extra: s})
			}
		}
	}
	pyCase("")
	for i := 0; i < n; i++ {
		var b strings.Builder
		for k := r.Intn(7); k >= 0; k-- {
			b.WriteString(r.Pick(frag))
		}
		pyCase(b.String())
	}
	// --- shell selection
	pool := []string{"", "bash", "sh", "python", "pwsh", "bash -e {0}", "python {0}", "shx", "pythonx", "sh -e"}
	for i := 0; i < n; i++ {
		stepSome := r.Chance(1, 2)
		step := r.Pick(pool)
		job, wf := r.Pick(pool), r.Pick(pool)
		if r.Chance(1, 2) {
			job = ""
		}
		if r.Chance(1, 2) {
			wf = ""
		}
		runner := ""
		if r.Chance(1, 3) {
			runner = "pwsh"
		}
		var sp *actionlint.String
		if stepSome {
			sp = &actionlint.String{Value: step}
		}
		got := actionlint.VerifShellcheckShell(sp, job, wf, runner)
		emit(fmt.Sprintf("PCShellSC %s %s %s %s", coqOptS(step, stepSome), coqStr(job), coqStr(wf), coqStr(runner)), []string{bytesTuple(nil, got)})
		sum.Dist["shell_sc"]++
		// reference: first given of step, job default, workflow default, runner default
		want := "bash"
		switch {
		case stepSome:
			want = step
		case job != "":
			want = job
		case wf != "":
			want = wf
		case runner != "":
			want = runner
		}
		if got != want {
			sum.OracleFails = append(sum.OracleFails, failure{What: "effective shell is not step > job default > workflow default > runner default", Key: "shell:sc", Extra: []string{step, job, wf, runner, got}})
		}
		jobSome, wfSome := r.Chance(1, 2), r.Chance(1, 2)
		mk := func(some bool, v string) *actionlint.String {
			if !some {
				return nil
			}
			return &actionlint.String{Value: v}
		}
		j2, w2 := r.Pick(pool), r.Pick(pool)
		gp := actionlint.VerifPyflakesIsPython(sp, mk(jobSome, j2), mk(wfSome, w2))
		emit(fmt.Sprintf("PCShellPY %s %s %s", coqOptS(step, stepSome), coqOptS(j2, jobSome), coqOptS(w2, wfSome)), []string{numTuple(b2i(gp))})
		sum.Dist["shell_py"]++
		eff := ""
		switch {
		case stepSome:
			eff = step
		case jobSome:
			eff = j2
		case wfSome:
			eff = w2
		}
		if (toolFor(eff) == "py") != gp && eff != "" {
			sum.OracleFails = append(sum.OracleFails, failure{What: "python shell not recognised by step > job default > workflow default", Key: "shell:py", Extra: []string{step, j2, w2}})
		}
	}
	sum.Evaluations = ncases
	sum.Nontrivial = ncases
	sum.Rule = "pure functions: sanitizeExpressionsInScript on all strings over {$,{,},a,LF} up to the stated length plus random concatenations of placeholder fragments; cmdExecution.run on /bin/sh processes with every combination of status, stdout, stderr, signal, unstartable file; pyflakes output parsing on random concatenations of message fragments; shell selection on random combinations from a pool of 10 shells"
	sum.Extra["sanitize_exhaustive_len"] = allLen
	sum.Extra["sanitize_in_coq_len"] = coqLen
	sum.Write(filepath.Join(e.out, "summary.json"))
}

// ---------------------------------------------------------------- main

func main() {
	mode := flag.String("mode", "runs", "runs | pure")
	extractSync := flag.String("extract-sync", "", "translator mode: list the synchronisation operations of the package in this directory")
	genSync := flag.String("gen", "GenSyncSites.v", "output of -extract-sync")
	seed := flag.Uint64("seed", 1, "PRNG seed")
	n := flag.Int("n", 40, "number of runs / random cases per family")
	out := flag.String("out", "", "output directory")
	capFlag := flag.Int("cap", 0, "number of CPUs this process is expected to see (0 = do not check)")
	python := flag.String("python", "/usr/bin/python3", "python interpreter for the stand-in tool")
	tool := flag.String("tool", "", "path of fake_tool.py")
	tier := flag.String("tier", "quick", "quick | thorough")
	replay := flag.String("replay", "", "replay file")
	flag.Parse()
	if *extractSync != "" {
		os.Exit(doExtractSync(*extractSync, *genSync))
	}

	e := &env{python: *python, tool: *tool, out: *out, cap: runtime.NumCPU()}
	if *capFlag != 0 && e.cap != *capFlag {
		fmt.Fprintf(os.Stderr, "harness error: runtime.NumCPU() = %d but the affinity mask has %d CPUs\n", e.cap, *capFlag)
		os.Exit(2)
	}

	if *replay != "" {
		b, err := os.ReadFile(*replay)
		hx.Must(err)
		var f struct {
			What  string   `json:"what"`
			Key   string   `json:"key"`
			Run   *runSpec `json:"run"`
			First struct {
				Run *runSpec `json:"run"`
			} `json:"first_disagreement"`
		}
		hx.Must(json.Unmarshal(b, &f))
		if f.Run == nil {
			f.Run = f.First.Run
		}
		if f.Run == nil {
			// a failure of one of the pure functions: evaluate that family again
			// (same generators; the enumerated part does not depend on the seed)
			dir, err := os.MkdirTemp("/var/tmp", "c20-replay-")
			hx.Must(err)
			defer os.RemoveAll(dir)
			e.out = dir
			runPure(e, *seed, 300, false)
			var sum struct {
				Fails []failure `json:"oracle_failures"`
			}
			sb, err := os.ReadFile(filepath.Join(dir, "summary.json"))
			hx.Must(err)
			hx.Must(json.Unmarshal(sb, &sum))
			n := 0
			for _, fl := range sum.Fails {
				if f.Key == "" || fl.Key == f.Key {
					if n < 5 {
						fmt.Printf("%s [%s] %v\n", fl.What, fl.Key, fl.Extra)
					}
					n++
				}
			}
			if n > 0 {
				fmt.Println("REPLAY: property violated")
				os.RemoveAll(dir)
				os.Exit(1)
			}
			fmt.Println("REPLAY: property holds on this input")
			return
		}
		if f.Run.Cap != 0 && f.Run.Cap != e.cap {
			fmt.Fprintf(os.Stderr, "note: the run was recorded with %d CPUs, this process sees %d (use taskset)\n", f.Run.Cap, e.cap)
		}
		dir, err := os.MkdirTemp("/var/tmp", "c20-replay-")
		hx.Must(err)
		defer os.RemoveAll(dir)
		e.out = dir
		if e.tool == "" {
			fmt.Fprintln(os.Stderr, "need -tool")
			os.Exit(2)
		}
		bad := 0
		for i := 0; i < 5; i++ {
			res := execRun(e, i, f.Run)
			for _, fl := range res.fails {
				if strings.HasPrefix(fl.Key, "harness:") {
					continue
				}
				fmt.Printf("run %d: %s [%s]\n", i, fl.What, fl.Key)
				bad++
			}
		}
		if bad > 0 {
			fmt.Println("REPLAY: property violated")
			os.Exit(1)
		}
		fmt.Println("REPLAY: property holds on this input (5 repetitions)")
		return
	}

	hx.Must(os.MkdirAll(*out, 0o755))
	if *mode == "pure" {
		runPure(e, *seed, *n, *tier == "thorough")
		return
	}
	if e.tool == "" {
		fmt.Fprintln(os.Stderr, "need -tool")
		os.Exit(2)
	}
	r := hx.NewRng(*seed)
	sum := hx.NewSummary("C20")
	cases, err := os.Create(filepath.Join(*out, "cases.txt"))
	hx.Must(err)
	defer cases.Close()
	srcs, err := os.Create(filepath.Join(*out, "sources.jsonl"))
	hx.Must(err)
	defer srcs.Close()
	totalTasks, saturated, fatal, nontrivial := 0, 0, 0, 0
	maxConc := 0
	for i := 0; i < *n; i++ {
		rs := genRun(r, i, *tier == "thorough", e.cap)
		rs.Cap = e.cap
		res := execRun(e, i, rs)
		if res.skipped != "" {
			sum.Dist["skipped:"+res.skipped]++
			if res.skipped == "fatal-before-start" {
				// (judged by the fatal-error and no-process-outstanding oracles only; no model case)
				sum.Evaluations++
				for _, f := range res.fails {
					sum.OracleFails = append(sum.OracleFails, f)
				}
			}
			continue
		}
		sum.Evaluations++
		totalTasks += res.ntasks
		if res.maxConc >= e.cap {
			saturated++
		}
		if res.maxConc > maxConc {
			maxConc = res.maxConc
		}
		if res.fatal {
			fatal++
		}
		if res.ntasks > 0 {
			nontrivial++
		}
		sum.Dist[fmt.Sprintf("files_%d", len(rs.Files))]++
		sum.Dist["entry_"+rs.Entry]++
		for k, v := range res.behs {
			sum.Dist["beh_"+k] += v
		}
		fmt.Fprintln(cases, res.term)
		sb, _ := json.Marshal(rs)
		fmt.Fprintln(srcs, string(sb))
		for _, f := range res.fails {
			sum.OracleFails = append(sum.OracleFails, f)
		}
		if i < 2 {
			sum.Samples = append(sum.Samples, map[string]interface{}{"files": rs.Files, "sched": rs.Sched, "tasks": res.ntasks, "fatal": res.fatal, "diagnostics": res.ndiags})
		}
	}
	for _, f := range twinCheck(e, *out) {
		sum.OracleFails = append(sum.OracleFails, f)
	}
	sum.Evaluations++
	sum.Dist["twin_script_runs"]++
	for _, f := range toolPathCheck(e, *out) {
		sum.OracleFails = append(sum.OracleFails, f)
	}
	sum.Evaluations++
	sum.Dist["tool_path_with_space_runs"]++
	sum.Nontrivial = nontrivial
	sum.Rule = "real Linter runs (LintFiles with 1-4 files, Lint) on generated workflows (1-3 jobs, 0-4/6 steps, shells at step/job/workflow/runner level, scripts with 0-3 placeholders) with stand-in tools behaving per a seeded schedule (ok, issues, crash, signal, empty, garbage, a JSON value followed by more output, unterminated, unstartable tool; latency profiles uniform / equal / one straggler / staggered) and seeded delays at every schedule point; plus a run with run steps whose scripts are equal after placeholder replacement (each is passed to the tool) and a run whose tool path contains a space with a decoy program at its first word; non-trivial = at least one tool invocation"
	sum.Extra["cap"] = e.cap
	sum.Extra["invocations"] = totalTasks
	sum.Extra["runs_saturating_semaphore"] = saturated
	sum.Extra["max_concurrent"] = maxConc
	sum.Extra["runs_fatal"] = fatal
	sort.Strings(nil)
	sum.Write(filepath.Join(*out, "summary.json"))
}
