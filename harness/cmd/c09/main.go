// Command c09: harness for property C09 (jobs, steps and expressions are
// checked independently).
//
//   - property oracle on compositions: pools of independently generated parts
//     (jobs, groups of jobs related by `needs`, steps) are linted alone (in a
//     minimal workflow with the same header / host job) and in subsets and
//     orders of up to -maxparts parts through actionlint.NewLinter + Lint;
//     per part the multiset of (line relative to the part, column, kind,
//     message with cited positions made relative) must be the same;
//   - K2 (correspondence + oracle at expression level): sequences of
//     expressions are checked by the real ExprSemanticsChecker on one shared
//     matrix type; the Coq model (Wf/StateExpr.check_new) predicts result
//     types, error classes and the final environment; the oracle compares
//     every result with the one obtained alone on a fresh copy;
//   - K1 (state traces) lives in state.go (needs the verif hook).
package main

import (
	"flag"
	"fmt"
	"io"
	"os"
	"path/filepath"
	"regexp"
	"sort"
	"strconv"
	"strings"
	"sync"

	"github.com/rhysd/actionlint"

	"verifharness/hx"
)

// ---------------------------------------------------------------- generator

type part struct {
	Kind  string   // job | group | step
	Lines []string // YAML block, already indented
	Desc  string
}

var headers = []string{
	"on: push\n",
	"on: push\ndefaults:\n  run:\n    shell: bash\n",
	"on:\n  workflow_dispatch:\n    inputs:\n      flag:\n        type: boolean\n      name:\n        type: string\ndefaults:\n  run:\n    shell: python\nenv:\n  TOP: ${{ github.nosuch }}\n",
	"on:\n  workflow_call:\n    inputs:\n      flag:\n        type: boolean\n      exclude:\n        type: string\n    secrets:\n      TOKEN:\n        required: true\nenv:\n  TOP: x\n",
}

var commonIDs = []string{"build", "test", "setup"}

var shells = []string{"bash", "pwsh", "python", "sh", "cmd", "powershell", "zsh", "bash -e {0}", "python {0}"}

type matrixKind int

const (
	mNone matrixKind = iota
	mOS
	mX
	mN
	mExpr
	mInputs
	mEmpty // e: [[]] - an array whose element type is unknown, kept in the job's matrix object
)

type ectx struct {
	matrix     matrixKind
	stepIDs    []string
	needs      [][2]string // id, output ("" = none)
	inScript   bool
	stepLevel  bool
	forceShell bool
}

func genExpr(r *hx.Rng, c *ectx) string {
	pool := []string{
		"github.event_name", "github.nonexistent", "runner.os", "env.FOO", "format('{0}{1}', 'a')",
		"secrets.TOKEN", "inputs.flag", "inputs.nope", "inputs.exclude", "vars.CONF", "toJSON(github)", "unknownfn()",
		"github.", "1 == 'a' && true", "fromJSON('[1,2]').*", "fromJSON('{\"a\":1}').b", "job.status", "strategy.job-index",
		"matrix.os", "matrix.zzz",
		// JSON object keys that differ in letter case only are ONE property: which value's type it
		// gets is decided by the text, not by the order in which the decoded map is walked
		"fromJSON('[\"a\",\"b\"]')[fromJSON('{\"id\":1,\"Id\":true,\"ID\":\"x\"}').id]",
		"fromJSON('{\"k\":\"s\",\"K\":1,\"kK\":true,\"Kk\":[1]}').k.foo",
	}
	switch c.matrix {
	case mX:
		pool = append(pool, "matrix.x.*.y", "join(matrix.x.*.y, ',')", "matrix.x.y", "matrix.x[0].y", "matrix.x.*",
			"toJSON(matrix.x.*.y)", "matrix.x[0].zzz", "contains(matrix.x.*.y, 1)", "matrix.x.y", "matrix.x.*.y",
			"join(matrix.x.*.y, ',')", "matrix.x.y", "matrix.x.*.zzz", "matrix.x.zzz")
	case mOS:
		pool = append(pool, "matrix.os", "matrix.os.foo", "matrix.os == 'x'")
	case mN:
		pool = append(pool, "matrix.n", "matrix.n.*", "matrix.n + 1", "matrix.inc")
	case mExpr:
		pool = append(pool, "matrix.anything.goes", "matrix.x.*.y")
	case mInputs:
		pool = append(pool, "matrix.flag", "matrix.exclude", "matrix.nope")
	case mEmpty:
		// the matrix value as an operand beside an object filter, and as a receiver afterwards
		pool = append(pool, "matrix.e.foo", "toJSON(matrix.e || github.event.commits.*.id)", "matrix.e.foo", "toJSON(matrix.e && github.event.commits.*.id)",
			"matrix.e[0].foo", "toJSON(github.event.commits.*.id || matrix.e)", "matrix.e.*.foo", "matrix.e.foo", "toJSON(matrix.e || github.event.commits.*.id)")
	}
	for _, id := range c.stepIDs {
		pool = append(pool, "steps."+id+".outputs.foo", "steps."+id+".conclusion", "steps."+id+".bad", "steps."+strings.ToUpper(id)+".outcome")
	}
	pool = append(pool, "steps.nosuch.outputs.x")
	if !c.stepLevel {
		// ids that other jobs may define as well: in scope only if this job defined them earlier
		pool = append(pool, "steps.build.conclusion", "steps.test.outputs.x")
	}
	for _, n := range c.needs {
		pool = append(pool, "needs."+n[0]+".result", "needs."+n[0]+".outputs.nope")
		if n[1] != "" {
			pool = append(pool, "needs."+n[0]+".outputs."+n[1])
		}
	}
	pool = append(pool, "needs.nosuch.result")
	if c.inScript {
		pool = append(pool, "github.event.pull_request.title", "github.event.issue.body", "github.head_ref")
	}
	return r.Pick(pool)
}

func genTemplate(r *hx.Rng, c *ectx) string {
	switch r.Intn(5) {
	case 0:
		return "plain text"
	case 1:
		return "${{ " + genExpr(r, c) + " }} and ${{ " + genExpr(r, c) + " }}"
	default:
		return "${{ " + genExpr(r, c) + " }}"
	}
}

// genStep returns the lines of one step (indented by ind) and registers its id.
func genStep(r *hx.Rng, c *ectx, ind, id string, forceID bool) []string {
	var ls []string
	first := true
	add := func(s string) {
		if first {
			ls = append(ls, ind+"- "+s)
			first = false
		} else {
			ls = append(ls, ind+"  "+s)
		}
	}
	hasID := forceID || r.Chance(1, 2)
	if hasID {
		add("id: " + id)
	}
	if r.Chance(1, 3) {
		add("name: " + genTemplate(r, c))
	}
	if r.Chance(1, 4) {
		if r.Chance(1, 2) {
			add("if: " + genExpr(r, c))
		} else {
			add("if: ${{ " + genExpr(r, c) + " }}")
		}
	}
	switch r.Intn(6) {
	case 0:
		add("uses: actions/checkout@v4")
		if r.Chance(1, 2) {
			add("with:")
			add("  ref: " + genTemplate(r, c))
			if r.Chance(1, 3) {
				add("  nosuchinput: 1")
			}
		}
	case 1:
		add("uses: actions/cache@v4")
		if r.Chance(2, 3) {
			add("with:")
			add("  path: " + genTemplate(r, c))
			if r.Chance(1, 2) {
				add("  key: k")
			}
		}
	default:
		c.inScript = true
		scripts := []string{
			"echo ${{ " + genExpr(r, c) + " }}",
			"echo hello",
			"echo \"::set-output name=foo::bar\"",
			"echo ${{ " + genExpr(r, c) + " }} ${{ " + genExpr(r, c) + " }}",
			"import os",
		}
		add("run: " + r.Pick(scripts))
		c.inScript = false
		if c.forceShell {
			add("shell: " + r.Pick([]string{"sh", "cmd", "powershell", "bash"}))
		} else if r.Chance(1, 3) {
			add("shell: " + r.Pick(shells))
		}
		if r.Chance(1, 6) {
			add("working-directory: " + genTemplate(r, c))
		}
	}
	if r.Chance(1, 5) {
		add("env:")
		add("  V: " + genTemplate(r, c))
	}
	if r.Chance(1, 8) {
		add("continue-on-error: ${{ " + genExpr(r, c) + " }}")
	}
	if r.Chance(1, 8) {
		add("timeout-minutes: ${{ " + genExpr(r, c) + " }}")
	}
	if r.Chance(1, 12) {
		add("bogus-key: 1")
	}
	if hasID {
		c.stepIDs = append(c.stepIDs, id)
	}
	return ls
}

func matrixLines(r *hx.Rng, c *ectx, ind string) []string {
	k := matrixKind(r.Intn(7))
	c.matrix = k
	switch k {
	case mOS:
		return []string{ind + "strategy:", ind + "  matrix:", ind + "    os: [ubuntu-latest, windows-latest]"}
	case mX:
		return []string{ind + "strategy:", ind + "  matrix:", ind + "    x:", ind + "      - [{y: 1}]", ind + "      - [{y: 2}, {y: 3}]"}
	case mN:
		ls := []string{ind + "strategy:", ind + "  matrix:", ind + "    n: [1, 2, 2]", ind + "    include:", ind + "      - inc: a"}
		if r.Chance(1, 2) {
			ls = append(ls, ind+"  fail-fast: ${{ "+genExpr(r, c)+" }}")
		}
		return ls
	case mExpr:
		return []string{ind + "strategy:", ind + "  matrix: ${{ fromJSON(needs.nosuch.outputs.m) }}"}
	case mInputs:
		// the matrix is an expression whose type is an object shared with other jobs (the `inputs` context)
		return []string{ind + "strategy:", ind + "  matrix: ${{ inputs }}"}
	case mEmpty:
		return []string{ind + "strategy:", ind + "  matrix:", ind + "    e: [[]]"}
	}
	return nil
}

var runsOn = []string{
	"ubuntu-latest", "windows-latest", "macos-latest", "[self-hosted, linux]", "[ubuntu-latest, windows-latest]",
	"[self-hosted, windows, macos]", "unknown-label-9", "${{ matrix.os }}", "[linux, \"${{ matrix.os }}\"]",
	// labels of the configuration's patterns, as the patterns spell them and in another letter case
	"GPU-large", "gpu-large", "[self-hosted, GPU-small]", "[self-hosted, gpu-small]", "ARM-big", "arm-big", "exact-label", "Exact-Label",
}

// genJob: one job with id `id`; needs: ids it needs with their outputs; declOutput != "" declares that output.
func genJob(r *hx.Rng, id string, needs [][2]string, rawNeeds []string, declOutput string) []string {
	c := &ectx{needs: needs}
	ls := []string{"  " + id + ":"}
	ind := "    "
	if r.Chance(1, 3) {
		ls = append(ls, ind+"name: "+genTemplate(r, c))
	}
	if len(rawNeeds) > 0 {
		ls = append(ls, ind+"needs: ["+strings.Join(rawNeeds, ", ")+"]")
	}
	if r.Chance(1, 12) {
		// reusable workflow call: no steps
		ls = append(ls, ind+"uses: owner/repo/.github/workflows/w.yml@v1")
		if r.Chance(1, 2) {
			ls = append(ls, ind+"with:", ind+"  a: "+genTemplate(r, c))
		}
		return ls
	}
	ml := []string{}
	if r.Chance(3, 5) {
		ml = matrixLines(r, c, ind)
	}
	if !r.Chance(1, 8) {
		ls = append(ls, ind+"runs-on: "+r.Pick(runsOn))
	} else {
		c.forceShell = true // runs-on missing (reported by the parser): the platform is unknown
	}
	ls = append(ls, ml...)
	if r.Chance(1, 3) {
		ls = append(ls, ind+"defaults:", ind+"  run:", ind+"    shell: "+r.Pick(shells))
	}
	if r.Chance(1, 4) {
		ls = append(ls, ind+"env:", ind+"  JV: "+genTemplate(r, c))
	}
	if r.Chance(1, 5) {
		ls = append(ls, ind+"if: "+genExpr(r, c))
	}
	if r.Chance(1, 8) {
		ls = append(ls, ind+"timeout-minutes: ${{ "+genExpr(r, c)+" }}")
	}
	if r.Chance(1, 10) {
		ls = append(ls, ind+"container:", ind+"  image: "+genTemplate(r, c))
	}
	if r.Chance(1, 12) {
		ls = append(ls, ind+"unexpected-key: 1")
	}
	if r.Chance(1, 10) {
		// a job that is not finished yet: no `steps:` at all (reported by the parser); what it says
		// about shells, matrix and the runner is its own business all the same
		return ls
	}
	ls = append(ls, ind+"steps:")
	n := 1 + r.Intn(3)
	for i := 0; i < n; i++ {
		sid := fmt.Sprintf("%ss%d", id, i)
		if i > 0 && r.Chance(1, 10) {
			sid = fmt.Sprintf("%sS%d", id, i-1) // duplicate (case-insensitive) inside the part
		} else if r.Chance(1, 4) {
			sid = commonIDs[i%len(commonIDs)] // the same id may be used by other jobs: unrelated
		}
		ls = append(ls, genStep(r, c, ind+"  ", sid, false)...)
	}
	if declOutput != "" || r.Chance(1, 4) {
		o := declOutput
		if o == "" {
			o = "out"
		}
		ls = append(ls, ind+"outputs:", ind+"  "+o+": "+genTemplate(r, c))
	}
	if r.Chance(1, 8) {
		ls = append(ls, ind+"environment:", ind+"  name: prod", ind+"  url: "+genTemplate(r, c))
	}
	return ls
}

func genJobPart(r *hx.Rng, idx int) part {
	id := fmt.Sprintf("p%d", idx)
	switch r.Intn(4) {
	case 0: // related group
		a, b, cc := id+"a", id+"b", id+"c"
		var ls []string
		desc := "group"
		switch r.Intn(5) {
		case 0: // cycle
			ls = append(ls, genJob(r, a, [][2]string{{b, ""}}, []string{b}, "")...)
			ls = append(ls, genJob(r, b, [][2]string{{a, ""}}, []string{a}, "")...)
			desc = "group-cycle"
		case 1: // missing
			ls = append(ls, genJob(r, a, nil, nil, "o1")...)
			ls = append(ls, genJob(r, b, [][2]string{{a, "o1"}}, []string{a, id + "zz"}, "")...)
			desc = "group-missing"
		case 2: // chain of three, transitive reference is not in scope; duplicate in needs
			ls = append(ls, genJob(r, a, nil, nil, "o1")...)
			ls = append(ls, genJob(r, b, [][2]string{{a, "o1"}}, []string{a, strings.ToUpper(a)}, "o2")...)
			ls = append(ls, genJob(r, cc, [][2]string{{b, "o2"}, {a, "o1"}}, []string{b}, "")...)
			desc = "group-chain"
		default:
			ls = append(ls, genJob(r, a, nil, nil, "o1")...)
			ls = append(ls, genJob(r, b, [][2]string{{a, "o1"}}, []string{a}, "")...)
		}
		return part{"group", ls, desc}
	default:
		return part{"job", genJob(r, id+"a", nil, nil, ""), "job"}
	}
}

type host struct {
	Text   string
	Matrix matrixKind
}

var hosts = []host{
	{"jobs:\n  host:\n    runs-on: ubuntu-latest\n    strategy:\n      matrix:\n        x:\n          - [{y: 1}]\n          - [{y: 2}]\n    steps:\n", mX},
	{"jobs:\n  host:\n    runs-on: windows-latest\n    defaults:\n      run:\n        shell: pwsh\n    steps:\n", mNone},
	{"jobs:\n  host:\n    runs-on: ${{ matrix.os }}\n    strategy:\n      matrix:\n        os: [ubuntu-latest, macos-latest]\n    steps:\n", mOS},
	{"jobs:\n  first:\n    runs-on: ubuntu-latest\n    outputs:\n      o1: x\n    steps:\n      - run: echo\n  host:\n    needs: [first]\n    runs-on: ubuntu-latest\n    steps:\n", mNone},
	{"jobs:\n  host:\n    runs-on: ubuntu-latest\n    strategy:\n      matrix:\n        e: [[]]\n    steps:\n", mEmpty},
}

// step parts are generated for a host (the matrix kind decides the expression pool)
func genStepPart(r *hx.Rng, idx int, h host) part {
	c := &ectx{matrix: h.Matrix, stepLevel: true}
	if strings.Contains(h.Text, "needs: [first]") {
		c.needs = [][2]string{{"first", "o1"}}
	}
	id := fmt.Sprintf("q%d", idx)
	var ls []string
	n := 1 + r.Intn(2)
	for i := 0; i < n; i++ {
		sid := fmt.Sprintf("%ss%d", id, i)
		if i > 0 && r.Chance(1, 8) {
			sid = fmt.Sprintf("%sS%d", id, i-1)
		}
		ls = append(ls, genStep(r, c, "      ", sid, i == 0 && n == 2)...)
	}
	return part{"step", ls, "step"}
}

// ---------------------------------------------------------------- linting and attribution

type diagT struct {
	Line, Col int
	Kind, Msg string
}

func lintSrc(l *actionlint.Linter, src string) ([]diagT, error) {
	errs, err := l.Lint("w.yaml", []byte(src), nil)
	if err != nil {
		return nil, err
	}
	ds := make([]diagT, 0, len(errs))
	for _, e := range errs {
		ds = append(ds, diagT{e.Line, e.Column, e.Kind, e.Message})
	}
	return ds, nil
}

// configFile: self-hosted runner labels given by patterns (matched against the label as written)
var configFile string
var configOnce sync.Once

func newLinter() *actionlint.Linter {
	configOnce.Do(func() {
		f, err := os.CreateTemp("/var/tmp", "c09-actionlint-*.yaml")
		hx.Must(err)
		f.WriteString("self-hosted-runner:\n  labels:\n    - GPU-*\n    - arm-*\n    - Exact-Label\n")
		f.Close()
		configFile = f.Name()
	})
	l, err := actionlint.NewLinter(io.Discard, &actionlint.LinterOptions{Shellcheck: "", Pyflakes: "", ConfigFile: configFile})
	hx.Must(err)
	return l
}

var reCited = regexp.MustCompile(`line:(\d+),col:(\d+)`)

const cyclePrefix = "cyclic dependencies in \"needs\""
const missingMarker = "which does not exist in this workflow"
const objListMarker = " is not defined in object type "

// observable of one region [start, end) of a linted source
func project(ds []diagT, start, end int, stepLevel bool) (obs []string, cycles []string, missing bool) {
	for _, d := range ds {
		if d.Line < start || d.Line >= end {
			continue
		}
		msg := reCited.ReplaceAllStringFunc(d.Msg, func(m string) string {
			sm := reCited.FindStringSubmatch(m)
			n, _ := strconv.Atoi(sm[1])
			if n >= start && n < end {
				return fmt.Sprintf("line:+%d,col:%s", n-start, sm[2])
			}
			return m
		})
		if stepLevel {
			// the steps object echoed by the message lists the ids of all earlier steps,
			// which the property allows a step's diagnostics to depend on
			if i := strings.Index(msg, objListMarker); i >= 0 && strings.Contains(msg[i:], "{") {
				msg = msg[:i+len(objListMarker)] + "<object>"
			}
		}
		s := fmt.Sprintf("+%d:%d:%s:%s", d.Line-start, d.Col, d.Kind, msg)
		if d.Kind == "job-needs" && strings.HasPrefix(d.Msg, cyclePrefix) {
			cycles = append(cycles, s)
			continue
		}
		if d.Kind == "job-needs" && strings.Contains(d.Msg, missingMarker) {
			missing = true
		}
		obs = append(obs, s)
	}
	sort.Strings(obs)
	return
}

type composition struct {
	prefix string // header (+ "jobs:\n") or header + host
	parts  []*part
}

func (c *composition) source() (string, []int) {
	var b strings.Builder
	b.WriteString(c.prefix)
	line := strings.Count(c.prefix, "\n") + 1
	starts := make([]int, 0, len(c.parts)+1)
	for _, p := range c.parts {
		starts = append(starts, line)
		for _, l := range p.Lines {
			b.WriteString(l)
			b.WriteByte('\n')
		}
		line += len(p.Lines)
	}
	starts = append(starts, line)
	return b.String(), starts
}

type aloneRes struct {
	hdr     []string
	obs     []string
	cycles  []string
	missing bool
}

type failure struct {
	What     string   `json:"what"`
	Key      string   `json:"key"`
	Level    string   `json:"level"`
	Source   string   `json:"source"`
	Part     string   `json:"part"`
	Alone    []string `json:"alone"`
	Composed []string `json:"composed"`
	AloneSrc string   `json:"alone_source"`
}

func diffKey(alone, comp []string) string {
	in := func(xs []string, x string) bool {
		for _, y := range xs {
			if y == x {
				return true
			}
		}
		return false
	}
	strip := func(s string) string { // drop "+line:col:" to keep the key independent of the layout
		ps := strings.SplitN(s, ":", 3)
		if len(ps) == 3 {
			s = ps[2]
		}
		if len(s) > 110 {
			s = s[:110]
		}
		return s
	}
	for _, a := range alone {
		if !in(comp, a) {
			return "lost when composed: " + strip(a)
		}
	}
	for _, c := range comp {
		if !in(alone, c) {
			return "appears when composed: " + strip(c)
		}
	}
	return "multiplicity differs"
}

func eqStrs(a, b []string) bool {
	if len(a) != len(b) {
		return false
	}
	for i := range a {
		if a[i] != b[i] {
			return false
		}
	}
	return true
}

// checkComposition lints the composition and compares every part with its alone result.
func checkComposition(l *actionlint.Linter, c *composition, alone func(p *part) *aloneRes, stepLevel bool, level string) []failure {
	src, starts := c.source()
	ds, err := lintSrc(l, src)
	if err != nil {
		return []failure{{What: "Lint returned an error on a composed workflow", Key: "lint-error: " + err.Error(), Level: level, Source: src}}
	}
	var fails []failure
	hdrObs, _, _ := project(ds, 1, starts[0], stepLevel)
	anyMissing := false
	var aloneCycles, compCycles []string
	for i, p := range c.parts {
		a := alone(p)
		obs, cyc, _ := project(ds, starts[i], starts[i+1], stepLevel)
		if i == 0 && !eqStrs(hdrObs, a.hdr) {
			fails = append(fails, failure{What: "diagnostics of the workflow header / host job change with the composition", Key: level + " header: " + diffKey(a.hdr, hdrObs), Level: level, Source: src, Part: "header", Alone: a.hdr, Composed: hdrObs})
		}
		if !eqStrs(obs, a.obs) {
			as, _ := (&composition{c.prefix, []*part{p}}).source()
			fails = append(fails, failure{What: "diagnostics of a part differ between the composed workflow and the part alone", Key: level + ": " + diffKey(a.obs, obs), Level: level, Source: src, Part: strings.Join(p.Lines, "\n"), Alone: a.obs, Composed: obs, AloneSrc: as})
		}
		if a.missing {
			anyMissing = true
		}
		aloneCycles = append(aloneCycles, a.cycles...)
		compCycles = append(compCycles, cyc...)
	}
	// the cyclic-dependency diagnostic is per needs graph (property C18): exactly one
	// if all references resolve and some part has a cycle; it must be one of the parts' own
	want := 0
	if !anyMissing && len(aloneCycles) > 0 {
		want = 1
	}
	ok := len(compCycles) == want
	if ok && want == 1 {
		ok = false
		for _, a := range aloneCycles {
			if a == compCycles[0] {
				ok = true
			}
		}
	}
	if !ok {
		fails = append(fails, failure{What: "cyclic-dependency diagnostic of the composed workflow is not the one of a part", Key: level + " cycle: " + fmt.Sprint(len(compCycles), "/", want), Level: level, Source: src, Alone: aloneCycles, Composed: compCycles})
	}
	return fails
}

// enumerate compositions: all singles, all ordered pairs, then seeded samples of triples (and quadruples)
func enumerate(r *hx.Rng, n, maxParts, nTriples, nQuads int, emit func(ix []int)) {
	for i := 0; i < n; i++ {
		emit([]int{i})
	}
	for i := 0; i < n; i++ {
		for j := 0; j < n; j++ {
			if i != j {
				emit([]int{i, j})
			}
		}
	}
	if maxParts >= 3 && n >= 3 {
		if n*(n-1)*(n-2) <= nTriples {
			for i := 0; i < n; i++ {
				for j := 0; j < n; j++ {
					for k := 0; k < n; k++ {
						if i != j && j != k && i != k {
							emit([]int{i, j, k})
						}
					}
				}
			}
		} else {
			for t := 0; t < nTriples; t++ {
				p := distinct(r, n, 3)
				emit(p)
			}
		}
	}
	if maxParts >= 4 && n >= 4 {
		for t := 0; t < nQuads; t++ {
			emit(distinct(r, n, 4))
		}
	}
}

func distinct(r *hx.Rng, n, k int) []int {
	out := make([]int, 0, k)
	for len(out) < k {
		x := r.Intn(n)
		dup := false
		for _, y := range out {
			if y == x {
				dup = true
			}
		}
		if !dup {
			out = append(out, x)
		}
	}
	return out
}

type oracleStats struct {
	evals, nontrivial int
	dist              map[string]int
	fails             []failure
	samples           []interface{}
}

func runOracle(seed uint64, prefixes []string, pools [][]part, stepLevel bool, level string, maxParts, nTriples, nQuads, workers int) oracleStats {
	st := oracleStats{dist: map[string]int{}}
	for pi, prefix := range prefixes {
		pool := pools[pi]
		// alone results
		l0 := newLinter()
		alone := make([]*aloneRes, len(pool))
		for i := range pool {
			c := &composition{prefix, []*part{&pool[i]}}
			src, starts := c.source()
			ds, err := lintSrc(l0, src)
			hx.Must(err)
			a := &aloneRes{}
			a.hdr, _, _ = project(ds, 1, starts[0], stepLevel)
			a.obs, a.cycles, a.missing = project(ds, starts[0], starts[1], stepLevel)
			alone[i] = a
			st.evals++
			if len(a.obs) > 0 {
				st.nontrivial++
			}
			st.dist[level+"/"+pool[i].Desc]++
			for _, o := range a.obs {
				ps := strings.SplitN(o, ":", 4)
				if len(ps) == 4 {
					st.dist["diag/"+ps[2]]++
				}
			}
			if len(st.samples) < 4 && len(a.obs) > 0 && i%7 == 0 {
				st.samples = append(st.samples, map[string]interface{}{"level": level, "part": strings.Join(pool[i].Lines, "\n"), "alone": a.obs})
			}
		}
		idxOf := map[*part]int{}
		for i := range pool {
			idxOf[&pool[i]] = i
		}
		aloneOf := func(p *part) *aloneRes { return alone[idxOf[p]] }
		var comps [][]int
		enumerate(hx.NewRng(seed+uint64(pi)*7919), len(pool), maxParts, nTriples, nQuads, func(ix []int) {
			if len(ix) > 1 {
				comps = append(comps, ix)
			}
		})
		results := make([][]failure, len(comps))
		var wg sync.WaitGroup
		chunk := (len(comps) + workers - 1) / workers
		for w := 0; w < workers; w++ {
			lo, hi := w*chunk, (w+1)*chunk
			if hi > len(comps) {
				hi = len(comps)
			}
			if lo >= hi {
				continue
			}
			wg.Add(1)
			go func(lo, hi int) {
				defer wg.Done()
				l := newLinter()
				for ci := lo; ci < hi; ci++ {
					ps := make([]*part, len(comps[ci]))
					for k, x := range comps[ci] {
						ps[k] = &pool[x]
					}
					results[ci] = checkComposition(l, &composition{prefix, ps}, aloneOf, stepLevel, level)
				}
			}(lo, hi)
		}
		wg.Wait()
		for ci := range comps {
			st.evals++
			st.dist[fmt.Sprintf("%s/compositions-of-%d", level, len(comps[ci]))]++
			st.fails = append(st.fails, results[ci]...)
		}
	}
	return st
}

// ---------------------------------------------------------------- main

func main() {
	seed := flag.Uint64("seed", 1, "seed")
	out := flag.String("out", ".", "output directory")
	tier := flag.String("tier", "quick", "quick|thorough")
	replay := flag.String("replay", "", "replay file")
	nexpr := flag.Int("nexpr", 300, "expression sequences (K2)")
	extractFields := flag.String("extract-fields", "", "translator mode: list the fields of the Rule* types of the package in this directory")
	gen := flag.String("gen", "GenRuleFields.v", "output of -extract-fields")
	nstate := flag.Int("nstate", 150, "state traces (K1)")
	flag.Parse()
	if *extractFields != "" {
		os.Exit(doExtractFields(*extractFields, *gen))
	}
	if *replay != "" {
		os.Exit(doReplay(*replay))
	}
	poolJobs, poolSteps, nTriples, nQuads, maxParts := 60, 40, 12000, 0, 3
	if *tier == "thorough" {
		poolJobs, poolSteps, nTriples, nQuads, maxParts = 400, 160, 250000, 150000, 4
	}
	r := hx.NewRng(*seed)
	sum := hx.NewSummary("C09")

	// job-level pools: one pool, linted under every header (the pool is split over the headers
	// for the sampled triples to keep the volume bounded)
	jobPool := make([]part, poolJobs)
	for i := range jobPool {
		jobPool[i] = genJobPart(r, i)
	}
	// two crafted parts in the slice that is linted under the workflow_call header: a job whose
	// matrix is the shared `inputs` object, and a job that reads inputs.exclude / inputs.flag
	if poolJobs >= 4*len(headers) {
		base := 3 * (poolJobs / len(headers))
		jobPool[base] = part{"job", []string{"  craftmi:", "    runs-on: ubuntu-latest", "    strategy:", "      matrix: ${{ inputs }}", "    steps:", "      - run: echo ${{ matrix.flag }}"}, "job-matrix-inputs"}
		// a matrix made only of an include list whose FIRST element is a shared object type (inputs /
		// github) followed by an element that adds a key, and jobs that read that key from the context
		jobPool[base+2] = part{"job", []string{"  craftinc:", "    runs-on: ubuntu-latest", "    strategy:", "      matrix:", "        include:", "          - ${{ inputs }}", "          - extra: 1", "    steps:", "      - run: echo ${{ matrix.extra }} ${{ matrix.flag }}"}, "job-include-inputs"}
		jobPool[base+3] = part{"job", []string{"  craftrd2:", "    runs-on: ubuntu-latest", "    steps:", "      - run: echo ${{ inputs.extra }} ${{ github.extra }} ${{ inputs.flag }}"}, "job-reads-extra"}
		jobPool[base+4] = part{"job", []string{"  craftincg:", "    runs-on: ubuntu-latest", "    strategy:", "      matrix:", "        include:", "          - ${{ github }}", "          - extra: 1", "          - ${{ inputs }}", "          - more: x", "    steps:", "      - run: echo ${{ matrix.extra }} ${{ matrix.more }}"}, "job-include-github"}
		jobPool[base+5] = part{"job", []string{"  craftrd3:", "    runs-on: ubuntu-latest", "    steps:", "      - run: echo ${{ github.more }} ${{ inputs.more }} ${{ github.extra }}"}, "job-reads-more"}
		jobPool[base+1] = part{"job", []string{"  craftrd:", "    runs-on: ubuntu-latest", "    steps:", "      - run: echo ${{ inputs.exclude }} ${{ inputs.flag }}", "        env:", "          E: ${{ inputs.include }}"}, "job-reads-inputs"}
	}
	var jprefixes []string
	var jpools [][]part
	per := poolJobs / len(headers)
	for hi, h := range headers {
		jprefixes = append(jprefixes, h+"jobs:\n")
		jpools = append(jpools, jobPool[hi*per:(hi+1)*per])
	}
	// the whole pool under the first header as well (pairs across all parts)
	jprefixes = append(jprefixes, headers[0]+"jobs:\n")
	jpools = append(jpools, jobPool)
	js := runOracle(*seed, jprefixes, jpools, false, "jobs", maxParts, nTriples, nQuads, 8)

	// step-level pools: per host
	var sprefixes []string
	var spools [][]part
	for hi, h := range hosts {
		sprefixes = append(sprefixes, headers[hi%2]+h.Text)
		pool := make([]part, poolSteps)
		for i := range pool {
			pool[i] = genStepPart(r, i, h)
		}
		spools = append(spools, pool)
	}
	ss := runOracle(*seed+1, sprefixes, spools, true, "steps", maxParts, nTriples, nQuads, 8)

	for _, st := range []oracleStats{js, ss} {
		sum.Evaluations += st.evals
		sum.Nontrivial += st.nontrivial
		for k, v := range st.dist {
			sum.Dist[k] += v
		}
		sum.Samples = append(sum.Samples, st.samples...)
		// one failure per key
		seen := map[string]bool{}
		for _, f := range st.fails {
			if !seen[f.Key] {
				seen[f.Key] = true
				sum.OracleFails = append(sum.OracleFails, f)
			}
		}
	}

	// flow-style job mappings (all jobs on ONE line, positions differ in the column only): the
	// diagnostics of the jobs a/b do not change when unrelated jobs (another needs cycle included)
	// are added after them, and do not vary between runs
	{
		fl := newLinter()
		job := func(id, needs string) string {
			return id + ": {needs: [" + needs + "], runs-on: ubuntu-latest, steps: [{run: echo}]}"
		}
		alone := "on: push\njobs: {" + job("a", "b") + ", " + job("b", "a") + "}\n"
		comp := "on: push\njobs: {" + job("a", "b") + ", " + job("b", "a") + ", " + job("c", "d") + ", " + job("d", "c") + ", " + job("e", "e") + "}\n"
		render := func(ds []diagT) []string {
			var xs []string
			for _, d := range ds {
				xs = append(xs, fmt.Sprintf("%d:%d [%s] %s", d.Line, d.Col, d.Kind, d.Msg))
			}
			return xs
		}
		da, err := lintSrc(fl, alone)
		hx.Must(err)
		for i := 0; i < 60; i++ {
			dc, err := lintSrc(fl, comp)
			hx.Must(err)
			sum.Evaluations++
			sum.Dist["flow_style_compositions"]++
			if strings.Join(render(da), "\n") != strings.Join(render(dc), "\n") {
				sum.OracleFails = append(sum.OracleFails, failure{What: "flow-style jobs on one line: the diagnostics of jobs a/b change when unrelated jobs are added after them (or vary between runs)",
					Key: "flow-style-needs-cycle", Level: "jobs", Source: comp, Part: "a,b", Alone: render(da), Composed: render(dc), AloneSrc: alone})
				break
			}
		}
	}

	// strings of ONE list (a nested array value of a matrix row, the elements of `needs`-free lists of
	// the job): the diagnostics of an element do not depend on the other elements of the list
	{
		lr := hx.NewRng(*seed + 9)
		pool := []string{"1", "true", "s", "null", "${{ fromJSON('1') }}", "${{ zzbad1 }}", "${{ github.nonexistent }}", "'${{ 1 == }}'", "${{ matrix.nope }}", "${{ fromJSON(github.sha) }}", "{a: 1}", "${{ github.sha }}"}
		ll := newLinter()
		for c := 0; c < 60; c++ {
			k := 2 + lr.Intn(4)
			var els []string
			for i := 0; i < k; i++ {
				els = append(els, lr.Pick(pool))
			}
			build := func(only int) string {
				var b strings.Builder
				b.WriteString("on: push\njobs:\n  test:\n    runs-on: ubuntu-latest\n    strategy:\n      matrix:\n        v:\n")
				for i, e := range els {
					if only >= 0 && i != only {
						e = "x"
					}
					if i == 0 {
						b.WriteString("          - - " + e + "\n")
					} else {
						b.WriteString("            - " + e + "\n")
					}
				}
				b.WriteString("    steps:\n      - run: echo\n")
				return b.String()
			}
			full := build(-1)
			df, err := lintSrc(ll, full)
			hx.Must(err)
			for i := range els {
				alone := build(i)
				da, err := lintSrc(ll, alone)
				hx.Must(err)
				sum.Evaluations++
				sum.Dist["list_element_independence"]++
				line := 8 + i
				var a, f []string
				for _, d := range da {
					if d.Line == line {
						a = append(a, fmt.Sprintf("%d:%d [%s] %s", d.Line, d.Col, d.Kind, d.Msg))
					}
				}
				for _, d := range df {
					if d.Line == line {
						f = append(f, fmt.Sprintf("%d:%d [%s] %s", d.Line, d.Col, d.Kind, d.Msg))
					}
				}
				if strings.Join(a, "\n") != strings.Join(f, "\n") {
					sum.OracleFails = append(sum.OracleFails, failure{What: "the diagnostics of one element of a nested array value of a matrix row change with the other elements of the list",
						Key: "list-element:" + els[i], Level: "strings", Source: full, Part: els[i], Alone: a, Composed: f, AloneSrc: alone})
				}
			}
		}
	}

	// K2
	terms, efails, estats := runExprCases(hx.NewRng(*seed+2), *nexpr)
	hx.Must(os.WriteFile(filepath.Join(*out, "cases_expr.txt"), []byte(strings.Join(terms, "\n")+"\n"), 0o644))
	sum.Evaluations += estats.evals
	sum.Nontrivial += estats.nontrivial
	for k, v := range estats.dist {
		sum.Dist[k] += v
	}
	for _, f := range efails {
		sum.OracleFails = append(sum.OracleFails, f)
	}

	// K1
	sterms, sraw, sdist := runStateCases(hx.NewRng(*seed+3), *nstate, jobPool)
	hx.Must(os.WriteFile(filepath.Join(*out, "cases_state.txt"), []byte(strings.Join(sterms, "\n")+"\n"), 0o644))
	hx.Must(os.WriteFile(filepath.Join(*out, "state_raw.txt"), []byte(strings.Join(sraw, "\n")+"\n"), 0o644))
	for k, v := range sdist {
		sum.Dist[k] += v
	}
	sum.Evaluations += len(sterms)

	sum.Rule = "evaluations = lint runs (parts alone + compositions) + expression sequences + state traces; nontrivial = parts / sequences with at least one diagnostic"
	sum.Extra["expr_cases"] = len(terms)
	sum.Extra["state_cases"] = len(sterms)
	sum.Write(filepath.Join(*out, "summary.json"))
	if configFile != "" {
		os.Remove(configFile)
	}
}

func doReplay(path string) int {
	b, err := os.ReadFile(path)
	hx.Must(err)
	var f struct {
		Source   string   `json:"source"`
		AloneSrc string   `json:"alone_source"`
		Key      string   `json:"key"`
		Alone    []string `json:"alone"`
		Composed []string `json:"composed"`
		Exprs    []string `json:"exprs"`
		Env      string   `json:"env"`
	}
	hx.Must(jsonUnmarshal(b, &f))
	fmt.Println("key:", f.Key)
	l := newLinter()
	show := func(title, src string) {
		if src == "" {
			return
		}
		fmt.Println("-----", title)
		fmt.Print(src)
		ds, err := lintSrc(l, src)
		fmt.Println("----- diagnostics (err:", err, ")")
		for _, d := range ds {
			fmt.Printf("%d:%d [%s] %s\n", d.Line, d.Col, d.Kind, d.Msg)
		}
	}
	show("composed", f.Source)
	show("the part alone", f.AloneSrc)
	if len(f.Exprs) > 0 {
		fmt.Println("----- expression sequence on one shared matrix type:", f.Env)
		replayExprs(f.Env, f.Exprs)
	}
	fmt.Println("recorded alone   :", f.Alone)
	fmt.Println("recorded composed:", f.Composed)
	return 1
}
