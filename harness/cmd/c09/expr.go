package main

import (
	"encoding/json"
	"fmt"
	"sort"
	"strings"

	"github.com/rhysd/actionlint"

	"verifharness/hx"
)

func jsonUnmarshal(b []byte, v interface{}) error { return json.Unmarshal(b, v) }

// hashStr is Wf/StateObs.hash_str
func hashStr(s string) uint32 {
	h := uint32(7)
	for i := 0; i < len(s); i++ {
		h = h*31 + uint32(s[i])
	}
	return h
}

// dumpTy is Wf/StateObs.dump_ty (object members sorted by key)
func dumpTy(t actionlint.ExprType) string {
	switch t := t.(type) {
	case actionlint.AnyType:
		return "any"
	case actionlint.NullType:
		return "null"
	case actionlint.NumberType:
		return "number"
	case actionlint.BoolType:
		return "bool"
	case actionlint.StringType:
		return "string"
	case *actionlint.ArrayType:
		s := "[" + dumpTy(t.Elem) + "]"
		if t.Deref {
			s += "*"
		}
		return s
	case *actionlint.ObjectType:
		var b strings.Builder
		b.WriteString("{")
		ks := make([]string, 0, len(t.Props))
		for k := range t.Props {
			ks = append(ks, k)
		}
		sort.Strings(ks)
		for _, k := range ks {
			b.WriteString(k + ":" + dumpTy(t.Props[k]) + ";")
		}
		b.WriteString("}")
		if t.Mapped != nil {
			b.WriteString("=>" + dumpTy(t.Mapped))
		}
		return b.String()
	}
	return "?"
}

// coqTy renders the type as a Wf/StateExpr.ty term
func coqTy(t actionlint.ExprType) string {
	switch t := t.(type) {
	case actionlint.AnyType:
		return "TAny"
	case actionlint.NullType:
		return "TNull"
	case actionlint.NumberType:
		return "TNum"
	case actionlint.BoolType:
		return "TBool"
	case actionlint.StringType:
		return "TStr"
	case *actionlint.ArrayType:
		return "(TArr " + coqTy(t.Elem) + " " + hx.CoqBool(t.Deref) + ")"
	case *actionlint.ObjectType:
		ks := make([]string, 0, len(t.Props))
		for k := range t.Props {
			ks = append(ks, k)
		}
		sort.Strings(ks)
		ps := make([]string, 0, len(ks))
		for _, k := range ks {
			ps = append(ps, "("+hx.CoqStr(k)+", "+coqTy(t.Props[k])+")")
		}
		m := "None"
		if t.Mapped != nil {
			m = "(Some " + coqTy(t.Mapped) + ")"
		}
		return "(TObj " + hx.CoqList(ps) + " " + m + ")"
	}
	panic("type")
}

var propNames = []string{"x", "y", "z", "w"}

func genTy(r *hx.Rng, depth int) actionlint.ExprType {
	k := r.Intn(10)
	if depth <= 0 && k >= 5 {
		k = r.Intn(5)
	}
	switch k {
	case 0:
		return actionlint.AnyType{}
	case 1:
		return actionlint.NullType{}
	case 2:
		return actionlint.NumberType{}
	case 3:
		return actionlint.BoolType{}
	case 4:
		return actionlint.StringType{}
	case 5, 6:
		return &actionlint.ArrayType{Elem: genTy(r, depth-1), Deref: r.Chance(1, 8)}
	case 7, 8:
		return genObj(r, depth, nil)
	default:
		if r.Chance(1, 2) {
			return actionlint.NewMapObjectType(genTy(r, depth-1))
		}
		o := genObj(r, depth, nil)
		o.Mapped = actionlint.AnyType{}
		return o
	}
}

func genObj(r *hx.Rng, depth int, must []string) *actionlint.ObjectType {
	props := map[string]actionlint.ExprType{}
	for _, n := range must {
		props[n] = genTy(r, depth-1)
	}
	n := 1 + r.Intn(3)
	for i := 0; i < n; i++ {
		props[r.Pick(propNames)] = genTy(r, depth-1)
	}
	return actionlint.NewStrictObjectType(props)
}

// type-directed suffix generation: mostly meaningful chains
func genChain(r *hx.Rng, root *actionlint.ObjectType) (src string, coq string) {
	src, coq = "matrix", "(SVar \"matrix\")"
	if r.Chance(1, 25) {
		return "nosuch.x", "(SDot (SVar \"nosuch\") \"x\")"
	}
	var cur actionlint.ExprType = root
	n := 1 + r.Intn(4)
	for i := 0; i < n; i++ {
		c := r.Intn(10)
		switch t := cur.(type) {
		case *actionlint.ObjectType:
			switch {
			case c < 6:
				name := r.Pick(propNames)
				ks := make([]string, 0)
				for k := range t.Props {
					ks = append(ks, k)
				}
				sort.Strings(ks)
				if len(ks) > 0 && c < 5 {
					name = r.Pick(ks)
				}
				src, coq = src+"."+name, "(SDot "+coq+" "+hx.CoqStr(name)+")"
				if p, ok := t.Props[name]; ok {
					cur = p
				} else if t.Mapped != nil {
					cur = t.Mapped
				} else {
					cur = actionlint.AnyType{}
				}
			case c < 8:
				src, coq = src+".*", "(SStar "+coq+")"
				cur = nil
			default:
				name := r.Pick(propNames)
				src, coq = src+"['"+name+"']", "(SIndex "+coq+" (SStr "+hx.CoqStr(name)+"))"
				if p, ok := t.Props[name]; ok {
					cur = p
				} else if t.Mapped != nil {
					cur = t.Mapped
				} else {
					cur = actionlint.AnyType{}
				}
			}
		case *actionlint.ArrayType:
			switch {
			case c < 4:
				src, coq = src+".*", "(SStar "+coq+")"
			case c < 7:
				src, coq = src+"[0]", "(SIndex "+coq+" SNum)"
				cur = t.Elem
			case c < 8:
				src, coq = src+"[matrix.x]", "(SIndex "+coq+" (SDot (SVar \"matrix\") \"x\"))"
				cur = t.Elem
			default:
				name := r.Pick(propNames)
				src, coq = src+"."+name, "(SDot "+coq+" "+hx.CoqStr(name)+")"
				if o, ok := t.Elem.(*actionlint.ObjectType); ok {
					if p, ok := o.Props[name]; ok {
						cur = &actionlint.ArrayType{Elem: p, Deref: true}
					}
				}
			}
		default:
			switch {
			case c < 3:
				name := r.Pick(propNames)
				src, coq = src+"."+name, "(SDot "+coq+" "+hx.CoqStr(name)+")"
			case c < 5:
				src, coq = src+".*", "(SStar "+coq+")"
			case c < 6:
				src, coq = src+"[0]", "(SIndex "+coq+" SNum)"
			case c < 7:
				src, coq = src+"[true]", "(SIndex "+coq+" SBool)"
			default:
				i = n
			}
		}
	}
	if r.Chance(1, 10) {
		src, coq = "!"+src, "(SNot "+coq+")"
	}
	return
}

var errClasses = []struct {
	prefix   string
	contains string
	class    int
}{
	{"undefined variable", "", 1},
	{"property ", "as element of filtered array", 4},
	{"property filtered by", "", 5},
	{"property access of object must be type of string", "", 10},
	{"property ", "is not defined in object type", 2},
	{"receiver of object dereference", "", 3},
	{"elements of object at receiver of object filtering", "", 6},
	{"object type ", "cannot be filtered by object filtering", 7},
	{"receiver of object filtering", "", 8},
	{"index access of array must be type of number", "", 9},
	{"index access operand must be type of object or array", "", 11},
}

func classify(msg string) int {
	for _, c := range errClasses {
		if strings.HasPrefix(msg, c.prefix) && (c.contains == "" || strings.Contains(msg, c.contains)) {
			return c.class
		}
	}
	return 99
}

type exprRes struct {
	ty   string
	errs []int
}

func checkOne(matrix *actionlint.ObjectType, src string) (exprRes, error) {
	p := actionlint.NewExprParser()
	e, perr := p.Parse(actionlint.NewExprLexer(src + "}}"))
	if perr != nil {
		return exprRes{}, fmt.Errorf("parse error for %q: %s", src, perr.Message)
	}
	c := actionlint.NewExprSemanticsChecker(false, nil)
	c.UpdateMatrix(matrix)
	c.SetContextAvailability([]string{"matrix", "github", "nosuch"})
	ty, errs := c.Check(e)
	res := exprRes{ty: dumpTy(ty)}
	for _, er := range errs {
		res.errs = append(res.errs, classify(er.Message))
	}
	return res, nil
}

type exprStats struct {
	evals, nontrivial int
	dist              map[string]int
}

type exprFailure struct {
	What     string   `json:"what"`
	Key      string   `json:"key"`
	Level    string   `json:"level"`
	Env      string   `json:"env"`
	Exprs    []string `json:"exprs"`
	Alone    []string `json:"alone"`
	Composed []string `json:"composed"`
}

// runExprCases: K2 cases + the expression-level oracle (every result equals the result alone
// on a fresh copy of the environment, and the environment is unchanged).
func runExprCases(r *hx.Rng, n int) (terms []string, fails []exprFailure, st exprStats) {
	st.dist = map[string]int{}
	seenKey := map[string]bool{}
	for i := 0; i < n; i++ {
		matrix := genObj(r, 3, []string{"x"})
		if r.Chance(1, 3) {
			// the shape of defect #10: an array of objects under matrix.x
			matrix.Props["x"] = &actionlint.ArrayType{Elem: actionlint.NewStrictObjectType(map[string]actionlint.ExprType{"y": actionlint.NumberType{}, "z": genTy(r, 1)})}
		}
		envBefore := dumpTy(matrix)
		pristine := matrix.DeepCopy().(*actionlint.ObjectType) // taken before any check
		envTerm := "[(\"matrix\", " + coqTy(matrix) + ")]"
		k := 2 + r.Intn(4)
		var srcs, coqs []string
		for j := 0; j < k; j++ {
			s, c := genChain(r, matrix)
			srcs = append(srcs, s)
			coqs = append(coqs, c)
		}
		var obs, composed, alone []string
		nerr := 0
		bad := false
		for _, s := range srcs {
			res, err := checkOne(matrix, s)
			if err != nil {
				bad = true
				break
			}
			fresh := pristine.DeepCopy().(*actionlint.ObjectType)
			resAlone, _ := checkOne(fresh, s)
			tup := []string{"1%N", fmt.Sprintf("%d%%N", hashStr(res.ty))}
			for _, e := range res.errs {
				tup = append(tup, fmt.Sprintf("%d%%N", e))
			}
			nerr += len(res.errs)
			obs = append(obs, hx.CoqList(tup))
			composed = append(composed, fmt.Sprintf("%s : %s %v", s, res.ty, res.errs))
			alone = append(alone, fmt.Sprintf("%s : %s %v", s, resAlone.ty, resAlone.errs))
			st.dist["expr/errors-"+fmt.Sprint(len(res.errs))]++
		}
		if bad {
			continue
		}
		envAfter := dumpTy(matrix)
		obs = append(obs, hx.CoqList([]string{"2%N", fmt.Sprintf("%d%%N", hashStr("matrix="+envAfter+"|"))}))
		terms = append(terms, "("+"("+envTerm+", "+hx.CoqList(coqs)+")"+", "+hx.CoqList(obs)+")")
		st.evals++
		if nerr > 0 {
			st.nontrivial++
		}
		same := envAfter == envBefore
		for j := range composed {
			if composed[j] != alone[j] {
				same = false
			}
		}
		if !same {
			key := "expression sequence: checking an expression changed the shared matrix type or a later verdict"
			if !seenKey[key] {
				seenKey[key] = true
				fails = append(fails, exprFailure{What: "checking one expression alters how a later expression on the same type objects is typed", Key: key, Level: "expr",
					Env: envBefore + "  -->  " + envAfter, Exprs: srcs, Alone: alone, Composed: composed})
			}
		}
	}
	return
}

func replayExprs(env string, exprs []string) {
	fmt.Println("(replay of expression sequences prints the recorded verdicts; regenerate with the same seed to re-run)")
}
