package main

// Translator (T) for C09: what a rule can carry from one job or step to the next is the fields
// of its struct.  The fields of every Rule* type of the package (test files and verif-tagged
// files excluded) are listed from the source on every run into coq/Gen/GenRuleFields.v;
// coq/Wf/RuleFields.v proves that each is a known one: set once at construction, the collected
// diagnostics, or state that the transition-system model (Wf/RulesState.v) carries and the
// probe of the check observes after every visitor callback.

import (
	"bytes"
	"fmt"
	"go/ast"
	"go/format"
	"go/parser"
	"go/token"
	"os"
	"path/filepath"
	"sort"
	"strings"

	"verifharness/hx"
)

type ruleField struct{ typ, field, ftype string }

func scanRuleFields(repo string) ([]ruleField, error) {
	names, _ := filepath.Glob(filepath.Join(repo, "*.go"))
	sort.Strings(names)
	fset := token.NewFileSet()
	var out []ruleField
	for _, n := range names {
		if strings.HasSuffix(n, "_test.go") {
			continue
		}
		b, err := os.ReadFile(n)
		if err != nil {
			return nil, err
		}
		if bytes.HasPrefix(b, []byte("//go:build verif")) {
			continue
		}
		f, err := parser.ParseFile(fset, n, b, parser.SkipObjectResolution)
		if err != nil {
			return nil, err
		}
		if f.Name.Name != "actionlint" {
			continue
		}
		for _, d := range f.Decls {
			gd, ok := d.(*ast.GenDecl)
			if !ok || gd.Tok != token.TYPE {
				continue
			}
			for _, sp := range gd.Specs {
				ts := sp.(*ast.TypeSpec)
				st, ok := ts.Type.(*ast.StructType)
				if !ok || !strings.HasPrefix(ts.Name.Name, "Rule") {
					continue
				}
				for _, fl := range st.Fields.List {
					var tb bytes.Buffer
					format.Node(&tb, fset, fl.Type)
					ty := strings.Join(strings.Fields(tb.String()), " ")
					if len(fl.Names) == 0 {
						out = append(out, ruleField{ts.Name.Name, "<embedded>", ty})
					}
					for _, id := range fl.Names {
						out = append(out, ruleField{ts.Name.Name, id.Name, ty})
					}
				}
			}
		}
	}
	sort.Slice(out, func(i, j int) bool {
		if out[i].typ != out[j].typ {
			return out[i].typ < out[j].typ
		}
		return out[i].field < out[j].field
	})
	return out, nil
}

func doExtractFields(repo, gen string) int {
	fs, err := scanRuleFields(repo)
	if err != nil {
		fmt.Fprintln(os.Stderr, "extract-fields:", err)
		return 2
	}
	var sb strings.Builder
	sb.WriteString("(* Gen/GenRuleFields.v — GENERATED on every run of ./check C09 from the .go files of the package\n   by harness/cmd/c09 (-extract-fields); do not edit.  The fields of every struct type whose\n   name starts with Rule: (type, field, field type). *)\n")
	sb.WriteString("From AL Require Import Base.Str.\n\n")
	sb.WriteString("Definition rule_fields : list (string * string * string) := [\n")
	for i, f := range fs {
		sep := ";"
		if i == len(fs)-1 {
			sep = ""
		}
		fmt.Fprintf(&sb, "  (%s, %s, %s)%s\n", hx.CoqStr(f.typ), hx.CoqStr(f.field), hx.CoqStr(f.ftype), sep)
	}
	sb.WriteString("].\n")
	if err := os.WriteFile(gen, []byte(sb.String()), 0o644); err != nil {
		fmt.Fprintln(os.Stderr, "extract-fields:", err)
		return 2
	}
	return 0
}
