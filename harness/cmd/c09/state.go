package main

// K1: state traces.  A probe pass (verif hook VerifAttachStateProbe) is appended
// to the rules the real Linter creates, so the real Visitor drives the real rules
// and the probe records their mutable fields after every callback.  The same
// workflow, projected to the fields the model reads, is handed to the Coq
// model (Wf/StateTrace.run_trace), which must predict every snapshot.

import (
	"fmt"
	"io"
	"sort"
	"strings"

	"github.com/rhysd/actionlint"

	"verifharness/hx"
)

func optStr(s *actionlint.String) string {
	if s == nil {
		return "None"
	}
	return "(Some " + hx.CoqStr(s.Value) + ")"
}

func defRun(d *actionlint.Defaults) string {
	if d == nil || d.Run == nil {
		return "None"
	}
	return "(Some " + optStr(d.Run.Shell) + ")"
}

func coqStrList(xs []string) string {
	ys := make([]string, len(xs))
	for i, x := range xs {
		ys[i] = hx.CoqStr(x)
	}
	return hx.CoqList(ys)
}

func coqWorkflow(w *actionlint.Workflow) (string, bool) {
	jobs := make([]*actionlint.Job, 0, len(w.Jobs))
	for _, j := range w.Jobs {
		jobs = append(jobs, j)
	}
	sort.Slice(jobs, func(i, j int) bool { return jobs[i].Pos.IsBefore(jobs[j].Pos) })
	var js []string
	for _, j := range jobs {
		if j.ID == nil || !hx.CoqStrOK(j.ID.Value) {
			return "", false
		}
		var needs []string
		for _, n := range j.Needs {
			needs = append(needs, n.Value)
		}
		runsOn := "None"
		if j.RunsOn != nil {
			var ls []string
			for _, l := range j.RunsOn.Labels {
				ls = append(ls, l.Value)
			}
			runsOn = "(Some " + coqStrList(ls) + ")"
		}
		matrix := "None"
		if j.Strategy != nil && j.Strategy.Matrix != nil {
			matrix = fmt.Sprintf("(Some %d%%N)", hashStr(actionlint.VerifMatrixTypeOf(w, j)))
		}
		var steps []string
		for _, s := range j.Steps {
			isRun, hasScript, shell := false, false, "None"
			if run, ok := s.Exec.(*actionlint.ExecRun); ok {
				isRun, hasScript, shell = true, run.Run != nil, optStr(run.Shell)
			}
			steps = append(steps, fmt.Sprintf("(mkStep %s %s %s %s tt)", optStr(s.ID), hx.CoqBool(isRun), hx.CoqBool(hasScript), shell))
		}
		js = append(js, fmt.Sprintf("(mkJob %s %s %s %s %s %s %s %s tt)", hx.CoqStr(j.ID.Value), coqStrList(needs), runsOn,
			defRun(j.Defaults), matrix, coqStrList(hx.SortedKeys(j.Outputs)), hx.CoqBool(j.WorkflowCall != nil), hx.CoqList(steps)))
	}
	call, callSecrets, callOutputs, dispatch := false, false, false, false
	for _, e := range w.On {
		switch e := e.(type) {
		case *actionlint.WorkflowCallEvent:
			call, callSecrets, callOutputs = true, e.Secrets != nil, len(e.Outputs) > 0
		case *actionlint.WorkflowDispatchEvent:
			dispatch = true
		}
	}
	return fmt.Sprintf("(mkWf %s %s %s %s %s tt %s)", defRun(w.Defaults), hx.CoqBool(call), hx.CoqBool(callSecrets),
		hx.CoqBool(callOutputs), hx.CoqBool(dispatch), hx.CoqList(js)), true
}

func b2i(b bool) uint32 {
	if b {
		return 1
	}
	return 0
}

var evCodes = map[string]int{"wfpre": 1, "jobpre": 2, "step": 3, "jobpost": 4, "wfpost": 5}

func stateTuple(s actionlint.VerifRuleState) string {
	n := func(x uint32) string { return fmt.Sprintf("%d%%N", x) }
	opt := func(isNil bool, str string) string {
		if isNil {
			return "0%N"
		}
		return fmt.Sprintf("%d%%N", uint64(hashStr(str))+1)
	}
	step := "0%N"
	if s.StepIsScript {
		py := "|-"
		if s.StepPython {
			py = "|py"
		}
		step = fmt.Sprintf("%d%%N", uint64(hashStr(s.StepShell+py))+1)
	}
	return hx.CoqList([]string{
		n(uint32(evCodes[s.Event])),
		opt(s.ExprMatrixNil, s.ExprMatrix),
		opt(s.ExprStepsNil, s.ExprSteps),
		opt(s.ExprNeedsNil, s.ExprNeeds),
		n(b2i(s.ExprSecrets) + 2*b2i(s.ExprInputs) + 4*b2i(s.ExprDispatch) + 8*b2i(s.ExprJobs) + 16*b2i(s.ExprWorkflow)),
		n(uint32(s.Platform)),
		n(hashStr(s.ScWorkflow + "|" + s.ScJob + "|" + s.ScRunner)),
		n(uint32(3*s.PyWorkflow + s.PyJob)),
		opt(s.IDSeenNil, s.IDSeen),
		n(1 - b2i(s.CompatsNil)),
		n(hashStr(s.Nodes)),
		step,
	})
}

func runStateCases(r *hx.Rng, n int, pool []part) (terms []string, raw []string, dist map[string]int) {
	dist = map[string]int{}
	var probe *actionlint.VerifStateProbe
	l, err := actionlint.NewLinter(io.Discard, &actionlint.LinterOptions{Shellcheck: "", Pyflakes: "",
		OnRulesCreated: func(rules []actionlint.Rule) []actionlint.Rule {
			rules, probe = actionlint.VerifAttachStateProbe(rules)
			return rules
		}})
	hx.Must(err)
	for i := 0; i < n; i++ {
		k := 1 + r.Intn(3)
		ix := distinct(r, len(pool), k)
		ps := make([]*part, k)
		for a, x := range ix {
			ps[a] = &pool[x]
		}
		c := &composition{headers[r.Intn(len(headers))] + "jobs:\n", ps}
		src, _ := c.source()
		if strings.Contains(src, "matrix: ${{ inputs }}") || strings.Contains(src, "- ${{ inputs }}") || strings.Contains(src, "- ${{ github }}") {
			// the type of such a matrix is a context object of the running rule; the K1 model
			// takes matrix types from a fresh rule (VerifMatrixTypeOf): oracle-only shape
			continue
		}
		w, _ := actionlint.Parse([]byte(src))
		if w == nil {
			continue
		}
		term, ok := coqWorkflow(w)
		if !ok || !hx.CoqStrOK(term) {
			continue
		}
		probe = nil
		if _, err := l.Lint("w.yaml", []byte(src), nil); err != nil || probe == nil {
			continue
		}
		var obs, rawl []string
		for _, s := range probe.Trace {
			obs = append(obs, stateTuple(s))
			rawl = append(rawl, fmt.Sprintf("%+v", s))
			dist["state/"+s.Event]++
			if s.Event == "jobpost" && (!s.ExprMatrixNil || !s.ExprStepsNil || !s.ExprNeedsNil || s.Platform != 0 || s.ScJob != "" || s.ScRunner != "" || s.PyJob != 0 || !s.IDSeenNil || !s.CompatsNil) {
				dist["state/per-job-field-not-reset-after-jobpost"]++
			}
		}
		terms = append(terms, "("+term+", "+hx.CoqList(obs)+")")
		raw = append(raw, strings.ReplaceAll(src, "\n", "\\n")+" => "+strings.Join(rawl, " ; "))
	}
	return
}
