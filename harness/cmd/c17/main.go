// Command c17 is the correspondence harness and property oracle of C17
// (filter patterns are validated exactly by the documented glob syntax).
//
// It enumerates / generates patterns, runs actionlint.ValidateRefGlob and
// ValidatePathGlob on each, projects every InvalidGlobPattern to
// (class by message prefix, column, named character), and
//   - K: compares that observable with the extracted Coq model (an OCaml
//     process per worker, fed through a pipe) and writes a seeded subset as Coq
//     terms for evaluation by vm_compute (cases.txt, colcases.txt);
//   - oracle: evaluates the property itself with a reference validator written
//     from the documentation (reference.go) and the metamorphic facts.
package main

import (
	"bufio"
	"encoding/json"
	"flag"
	"fmt"
	"io"
	"os"
	"os/exec"
	"path/filepath"
	"sort"
	"strconv"
	"strings"
	"sync"
	"time"
	"unicode/utf8"

	"github.com/rhysd/actionlint"
	"verifharness/hx"
)

// ---------------------------------------------------------------- observable

type dobs struct {
	Cls int `json:"cls"`
	Col int `json:"col"`
	NK  int `json:"name_kind"` // 0 none, 1 EOF, 2 character
	NC  int `json:"name_char"`
}

var classNames = []string{"?unknown", "EmptyPat", "PrecQ", "PrecPlus", "EmptySet", "MissingClose", "RangeNoEnd", "RangeOrder", "SingleSet", "Newline", "NewlineInSet", "BangAlone", "RefChar", "RefEscape", "RefTrail", "RefLead", "ScanErr", "PathLead", "PathTrail"}

const (
	clsEmpty = 1 + iota
	clsPrecQ
	clsPrecPlus
	clsEmptySet
	clsMissingClose
	clsRangeNoEnd
	clsRangeOrder
	clsSingleSet
	clsNewline
	clsNewlineInSet
	clsBangAlone
	clsRefChar
	clsRefEscape
	clsRefTrail
	clsRefLead
	clsScanErr
	clsPathLead
	clsPathTrail
)

// quotedRune parses a rune printed with %q (or '%c') at the start of s.
func quotedRune(s string, rawAllowed bool) (rune, bool) {
	if len(s) < 3 || s[0] != '\'' {
		return 0, false
	}
	if rawAllowed {
		r, w := utf8.DecodeRuneInString(s[1:])
		if 1+w < len(s) && s[1+w] == '\'' && strings.HasPrefix(s[2+w:], " is invalid for branch") {
			return r, true
		}
	}
	q, err := strconv.QuotedPrefix(s)
	if err != nil {
		return 0, false
	}
	u, err := strconv.Unquote(q)
	if err != nil {
		return 0, false
	}
	r, w := utf8.DecodeRuneInString(u)
	if w != len(u) {
		return 0, false
	}
	return r, true
}

// classify maps one InvalidGlobPattern to the observable.  Class 0 = a
// message the table does not know (always a disagreement).
func classify(e actionlint.InvalidGlobPattern) dobs {
	m := e.Message
	o := dobs{Col: e.Column}
	switch {
	case m == "glob pattern cannot be empty":
		o.Cls = clsEmpty
	case m == "path value must not start with spaces":
		o.Cls = clsPathLead
	case m == "path value must not end with spaces":
		o.Cls = clsPathTrail
	case strings.HasPrefix(m, "error while scanning glob pattern "):
		o.Cls = clsScanErr
	case strings.HasPrefix(m, "invalid glob pattern. unexpected "):
		rest := strings.TrimPrefix(m, "invalid glob pattern. unexpected ")
		if strings.HasPrefix(rest, "EOF") {
			o.NK = 1
		} else if strings.HasPrefix(rest, "character ") {
			r, ok := quotedRune(strings.TrimPrefix(rest, "character "), false)
			if !ok {
				return o
			}
			o.NK, o.NC = 2, int(r)
		} else {
			return o
		}
		inSet := strings.Contains(rest, " while checking content of character match []. ")
		switch {
		case strings.HasSuffix(m, " while checking special character ? (zero or one). the preceding character must not be special character"):
			o.Cls = clsPrecQ
		case strings.HasSuffix(m, " while checking special character + (one or more). the preceding character must not be special character"):
			o.Cls = clsPrecPlus
		case strings.HasSuffix(m, ". character match must not be empty"):
			o.Cls = clsEmptySet
		case strings.HasSuffix(m, " while checking end of character match []. missing ]"):
			o.Cls = clsMissingClose
		case strings.HasSuffix(m, " while checking character range in []. end of range is missing"):
			o.Cls = clsRangeNoEnd
		case strings.Contains(m, " while checking character range in []. start of range "):
			o.Cls = clsRangeOrder
		case strings.HasSuffix(m, ". character match with single character is useless. simply use x instead of [x]"):
			o.Cls = clsSingleSet
		case strings.HasSuffix(m, ". newline cannot be contained") && inSet:
			o.Cls = clsNewlineInSet
		case strings.HasSuffix(m, ". newline cannot be contained"):
			o.Cls = clsNewline
		case strings.HasSuffix(m, " while checking ! at first character (negate pattern). at least one character must follow !"):
			o.Cls = clsBangAlone
		}
	case strings.HasPrefix(m, "character "):
		r, ok := quotedRune(strings.TrimPrefix(m, "character "), true)
		if !ok || !strings.Contains(m, " is invalid for branch and tag names. ") {
			return o
		}
		o.NK, o.NC = 2, int(r)
		switch {
		case strings.Contains(m, ". ref name cannot contain spaces, ~, ^, :, [, ?, *. see "):
			o.Cls = clsRefChar
		case strings.Contains(m, ". only special characters [, ?, +, *, \\, ! can be escaped with \\. see "):
			o.Cls = clsRefEscape
		case strings.Contains(m, ". ref name must not end with / and .. see "):
			o.Cls = clsRefTrail
		case strings.Contains(m, ". ref name must not start with /. see "):
			o.Cls = clsRefLead
		}
	}
	return o
}

// safeObs: both validators under recover()
func safeObs(pat string) (ref, path []dobs, panicMsg string) {
	defer func() {
		if r := recover(); r != nil {
			panicMsg = fmt.Sprint(r)
		}
	}()
	return implObs(true, pat), implObs(false, pat), ""
}

func implObs(isRef bool, pat string) []dobs {
	var errs []actionlint.InvalidGlobPattern
	if isRef {
		errs = actionlint.ValidateRefGlob(pat)
	} else {
		errs = actionlint.ValidatePathGlob(pat)
	}
	out := make([]dobs, len(errs))
	for i, e := range errs {
		out[i] = classify(e)
	}
	return out
}

func obsString(os []dobs) string {
	var sb strings.Builder
	for i, o := range os {
		if i > 0 {
			sb.WriteByte(';')
		}
		sb.WriteString(strconv.Itoa(o.Cls))
		sb.WriteByte(',')
		sb.WriteString(strconv.Itoa(o.Col))
		sb.WriteByte(',')
		sb.WriteString(strconv.Itoa(o.NK))
		sb.WriteByte(',')
		sb.WriteString(strconv.Itoa(o.NC))
	}
	return sb.String()
}

// items cuts a Go string the way text/scanner does: one item per validly
// encoded code point, 0x110000+b for a byte b outside a valid sequence.
func items(s string) []int {
	out := make([]int, 0, len(s))
	for i := 0; i < len(s); {
		r, w := utf8.DecodeRuneInString(s[i:])
		if r == utf8.RuneError && w == 1 {
			out = append(out, 0x110000+int(s[i]))
		} else {
			out = append(out, int(r))
		}
		i += w
	}
	return out
}

func itemsLine(mode byte, it []int) string {
	var sb strings.Builder
	sb.WriteByte(mode)
	for _, x := range it {
		sb.WriteByte(' ')
		sb.WriteString(strconv.Itoa(x))
	}
	sb.WriteByte('\n')
	return sb.String()
}

func coqItems(it []int) string {
	xs := make([]string, len(it))
	for i, x := range it {
		xs[i] = strconv.Itoa(x)
	}
	return "[" + strings.Join(xs, ";") + "]%N"
}

func coqObs(os []dobs) string {
	if len(os) == 0 {
		return "[]"
	}
	xs := make([]string, len(os))
	for i, o := range os {
		xs[i] = fmt.Sprintf("[%d;%d;%d;%d]", o.Cls, o.Col, o.NK, o.NC)
	}
	return "[" + strings.Join(xs, ";") + "]%N"
}

// ---------------------------------------------------------------- model process

type model struct {
	cmd *exec.Cmd
	in  io.WriteCloser
	out *bufio.Reader
}

func startModel(path string) *model {
	cmd := exec.Command(path)
	in, err := cmd.StdinPipe()
	hx.Must(err)
	out, err := cmd.StdoutPipe()
	hx.Must(err)
	cmd.Stderr = os.Stderr
	hx.Must(cmd.Start())
	return &model{cmd, in, bufio.NewReaderSize(out, 1<<16)}
}

// eval sends the lines (≤ 32 KiB in total) and reads one answer per line.
func (m *model) eval(lines []string) []string {
	var sb strings.Builder
	for _, l := range lines {
		sb.WriteString(l)
	}
	sb.WriteString("F\n")
	_, err := io.WriteString(m.in, sb.String())
	hx.Must(err)
	out := make([]string, len(lines))
	for i := range lines {
		l, err := m.out.ReadString('\n')
		hx.Must(err)
		out[i] = strings.TrimSuffix(l, "\n")
	}
	return out
}

func (m *model) close() {
	m.in.Close()
	m.cmd.Wait()
}

// ---------------------------------------------------------------- failures

type failure struct {
	What    string `json:"what"`
	Key     string `json:"key"`
	Pattern string `json:"pattern"` // Go-quoted
	Items   []int  `json:"items"`
	Mode    string `json:"mode"`
	Impl    []dobs `json:"impl"`
	Detail  string `json:"detail,omitempty"`
}

type disagreement struct {
	Pattern string `json:"pattern"`
	Items   []int  `json:"items"`
	Mode    string `json:"mode"`
	Impl    string `json:"impl"`
	Model   string `json:"model"`
}

type stats struct {
	mu          sync.Mutex
	evals       int
	nontrivial  int
	dist        map[string]int
	fails       []failure
	failCount   map[string]int
	disagree    []disagreement
	disagreeCnt int
	implAccept  [2]int
}

func modeName(isRef bool) string {
	if isRef {
		return "ref"
	}
	return "path"
}

// oracle evaluates the property on the implementation's answer for one
// pattern (both modes).  Returns failures.
func oracle(pat string, it []int, ref, path []dobs) []failure {
	var fs []failure
	runes := make([]rune, len(it)) // what the scanner delivers
	for i, x := range it {
		if x >= 0x110000 {
			runes[i] = utf8.RuneError
		} else {
			runes[i] = rune(x)
		}
	}
	hasLF := strings.ContainsRune(pat, '\n')
	add := func(kind, what string, isRef bool, impl []dobs, detail string) {
		key := kind + ":" + modeName(isRef) + ":" + strconv.Quote(pat)
		// known classes get a fixed key (see known_findings.d/C17.json); the
		// attribution is checked, not assumed
		fs = append(fs, failure{What: what, Key: key, Pattern: strconv.Quote(pat), Items: it, Mode: modeName(isRef), Impl: impl, Detail: detail})
	}
	for _, isRef := range []bool{true, false} {
		impl := path
		if isRef {
			impl = ref
		}
		want := refValid(isRef, pat)
		got := len(impl) == 0
		if want != got {
			kind := "exact"
			if len(it) > 0 && it[0] == 0xFEFF && got == refValid(isRef, pat[3:]) && len(it) > 1 {
				// explained by text/scanner skipping a leading BOM
				fs = append(fs, failure{What: "a leading U+FEFF is skipped by text/scanner: the rest is validated as if it were the whole pattern (start-of-pattern rules applied to the 2nd character)", Key: "leading-bom-skipped", Pattern: strconv.Quote(pat), Items: it, Mode: modeName(isRef), Impl: impl})
			} else {
				add(kind, fmt.Sprintf("reported iff invalid fails: documented syntax says valid=%v, implementation reports %d error(s)", want, len(impl)), isRef, impl, "")
			}
		}
		for _, d := range impl {
			if d.Cls == 0 {
				add("class", "diagnostic with a message the class table does not know", isRef, impl, "")
				continue
			}
			if d.Col < 0 || d.Col > len(it) {
				add("col-range", fmt.Sprintf("column %d outside [0,%d]", d.Col, len(it)), isRef, impl, "")
				continue
			}
			if d.Cls == clsScanErr {
				// the offending character is the NUL / invalid byte
				if d.Col == 0 || !(it[d.Col-1] == 0 || it[d.Col-1] >= 0x110000) {
					fs = append(fs, failure{What: "scan error (NUL / invalid UTF-8): the column is the one before the offending character (0 when it is the first)", Key: "scanerr-column", Pattern: strconv.Quote(pat), Items: it, Mode: modeName(isRef), Impl: impl})
				}
				continue
			}
			if d.Col == 0 {
				if !(d.Cls == clsEmpty || d.Cls == clsPathLead || hasLF) {
					add("col-zero", "column 0 outside the documented fall-backs (empty pattern, line break, leading space)", isRef, impl, "")
				}
				continue
			}
			if d.NK == 2 && int(runes[d.Col-1]) != d.NC {
				add("col-char", fmt.Sprintf("message names %q but column %d holds %q", rune(d.NC), d.Col, runes[d.Col-1]), isRef, impl, "")
			}
			if d.Cls == clsPathTrail && runes[d.Col-1] != ' ' {
				add("col-char", fmt.Sprintf("trailing-space report at column %d which holds %q", d.Col, runes[d.Col-1]), isRef, impl, "")
			}
		}
	}
	if len(ref) == 0 && len(path) != 0 {
		add("ref-implies-path", "accepted as a ref filter but reported as a path filter", false, path, "")
	}
	return fs
}

const maxKept = 40

func (st *stats) record(pat string, it []int, ref, path []dobs, mref, mpath string) {
	fs := oracle(pat, it, ref, path)
	iref, ipath := obsString(ref), obsString(path)
	st.mu.Lock()
	defer st.mu.Unlock()
	st.evals += 2
	if len(ref) > 0 || len(path) > 0 {
		st.nontrivial++
	}
	if len(ref) == 0 {
		st.implAccept[0]++
	}
	if len(path) == 0 {
		st.implAccept[1]++
	}
	for _, d := range ref {
		st.dist["ref:"+classNames[d.Cls]]++
	}
	for _, d := range path {
		st.dist["path:"+classNames[d.Cls]]++
	}
	for _, f := range fs {
		kind := f.Key
		if i := strings.Index(kind, ":"); i >= 0 {
			kind = kind[:i]
		}
		st.failCount[kind]++
		if st.failCount[kind] <= maxKept {
			st.fails = append(st.fails, f)
		}
	}
	if mref != "-" && mref != iref {
		st.disagreeCnt++
		if len(st.disagree) < maxKept {
			st.disagree = append(st.disagree, disagreement{strconv.Quote(pat), it, "ref", iref, mref})
		}
	}
	if mpath != "-" && mpath != ipath {
		st.disagreeCnt++
		if len(st.disagree) < maxKept {
			st.disagree = append(st.disagree, disagreement{strconv.Quote(pat), it, "path", ipath, mpath})
		}
	}
}

// ---------------------------------------------------------------- generators

// DESIGN.md alphabet: ordinary, ref-forbidden, whitespace, control, non-ASCII
var baseAlphabet = []string{"a", "z", "0", "/", ".", "*", "?", "+", "[", "]", "-", "!", "\\", " ", "~", "^", ":", "\t", "\n", "\r", "é"}

// extended: + NUL, BOM, invalid byte, 4-byte character, a valid U+FFFD, quote
var extAlphabet = append(append([]string{}, baseAlphabet...), "\x00", "\ufeff", "\xff", "\U0001F600", "\ufffd", "'")

func enumerate(alpha []string, maxLen int, emit func([]string)) {
	const batch = 512
	cur := make([]string, 0, batch)
	for l := 0; l <= maxLen; l++ {
		idx := make([]int, l)
		for {
			var sb strings.Builder
			for _, i := range idx {
				sb.WriteString(alpha[i])
			}
			cur = append(cur, sb.String())
			if len(cur) == batch {
				emit(cur)
				cur = make([]string, 0, batch)
			}
			k := l - 1
			for k >= 0 {
				idx[k]++
				if idx[k] < len(alpha) {
					break
				}
				idx[k] = 0
				k--
			}
			if k < 0 {
				break
			}
		}
	}
	if len(cur) > 0 {
		emit(cur)
	}
}

var fragments = []string{"[a-z]", "[0-9a]", "**", "*", "?", "+", "\\[", "\\?", "\\*", "\\+", "\\\\", "\\!", "!", "/", ".", "[ab]", "[a-", "[]", "[a]", "[z-a]", "-", "]", "v[0-9]+", "release/**", "[!-~]", "[a\n]", "[ -a]", "\r\n", "é", "\ufeff", "\x00", "\xff", " ", "~", "^", ":", "\t"}

func randomPattern(r *hx.Rng) string {
	n := 1 + r.Intn(40)
	var sb strings.Builder
	cnt := 0
	for cnt < n {
		switch {
		case r.Chance(3, 10):
			f := fragments[r.Intn(len(fragments))]
			sb.WriteString(f)
			cnt += utf8.RuneCountInString(f)
		case r.Chance(1, 30):
			sb.WriteRune(rune(r.Intn(0x2FFFF)))
			cnt++
		case r.Chance(1, 40):
			sb.WriteByte(byte(0x80 + r.Intn(0x80)))
			cnt++
		default:
			a := extAlphabet
			if r.Chance(4, 5) {
				a = baseAlphabet[:13] // ordinary + special characters: mostly-valid patterns
			}
			sb.WriteString(a[r.Intn(len(a))])
			cnt++
		}
	}
	return sb.String()
}

// hand-picked corner cases (always part of the in-Coq subset)
var corpus = []string{"", "a", "!", "!a", "!!", "!+", "+", "?", "*", "**", "a+", "a?", "a*?", "a+?", "*+", "\\", "a\\", "\\a", "\\[", "\\[a", "a\\?b", "\\*", "\\+", "\\\\", "\\!", "\\]", "[", "[]", "[]a]", "[a]", "[ab]", "[a-b]", "[b-a]", "[a-a]", "[a-]", "[a-", "[a", "[-a]", "[--a]", "[a--]", "[+--]", "[a-b-c]", "[\\]]", "[a\nb]", "[a-\n]", "[\r-a]", "[ ab]", "[~a]", "[a- ]", "[!-~]", "[a]+", "[ab]+", "[ab]?", "/", "/a", "!/a", "!/", "a/", "a.", "a/.", "./a", ".", "a b", " a", "a ", " ", "é ", "a\tb", "a~", "a^", "a:", "a\nb", "a\rb", "a\r\nb", "\n", "\r", "\r\n+", "a\n+", "\x00", "a\x00", "+\x00", "\ufeff", "\ufeff+", "\ufeff!", "\ufeff\x00", "\ufeffa", "a\ufeff+", "a\xffb", "\xff", "\xed\xa0\x80", "é+", "[é-a]", "[a-é]", "\U0001F600?", "releases/**", "v[0-9]+.[0-9]+", "feature/*", "**/docs/**", "*.js", "!**/*.md", "'", "a'b"}

// ---------------------------------------------------------------- main

type replayFile struct {
	Items   []int  `json:"items"`
	Pattern string `json:"pattern"`
	Mode    string `json:"mode"`
	Key     string `json:"key"`
	First   *struct {
		Items []int `json:"items"`
	} `json:"first_disagreement"`
}

func stringOfItems(it []int) string {
	var sb strings.Builder
	for _, x := range it {
		if x >= 0x110000 {
			sb.WriteByte(byte(x - 0x110000))
		} else {
			sb.WriteRune(rune(x))
		}
	}
	return sb.String()
}

// ---------------------------------------------------------------- watchdog
//
// "Validation terminates": every worker publishes the pattern it is validating; a monitor
// reports the pattern as a hang when a worker stays on it longer than hangLimit (the validators
// are linear in the pattern: the longest generated pattern takes microseconds).

const hangLimit = 10 * time.Second

type slot struct {
	mu    sync.Mutex
	pat   string
	since time.Time
	busy  bool
}

func (s *slot) enter(p string) {
	s.mu.Lock()
	s.pat, s.since, s.busy = p, time.Now(), true
	s.mu.Unlock()
}
func (s *slot) leave() { s.mu.Lock(); s.busy = false; s.mu.Unlock() }
func (s *slot) stuck() (string, bool) {
	s.mu.Lock()
	defer s.mu.Unlock()
	return s.pat, s.busy && time.Since(s.since) > hangLimit
}

// bounded runs f and reports whether it returned within hangLimit
func bounded(limit time.Duration, f func()) bool {
	done := make(chan struct{})
	go func() { f(); close(done) }()
	select {
	case <-done:
		return true
	case <-time.After(limit):
		return false
	}
}

func hangFailure(pat string) failure {
	return failure{What: fmt.Sprintf("validation of the pattern did not return within %v (the property demands that it terminates)", hangLimit),
		Key: "hang:" + strconv.Quote(pat), Pattern: strconv.Quote(pat), Items: items(pat), Mode: "ref+path"}
}

func main() {
	seed := flag.Uint64("seed", 1, "PRNG seed")
	n := flag.Int("n", 100000, "number of random patterns")
	out := flag.String("out", "", "output directory")
	replay := flag.String("replay", "", "replay file")
	modelPath := flag.String("model", "", "extracted model evaluator (ocaml/c17)")
	maxLen := flag.Int("len", 4, "exhaustive length over the base alphabet")
	extLen := flag.Int("extlen", 3, "exhaustive length over the extended alphabet")
	workers := flag.Int("workers", 8, "parallel workers")
	ncoq := flag.Int("coq", 300, "size of the subset written for vm_compute")
	nlint := flag.Int("lint", 300, "number of workflows for the rule_glob column check")
	flag.Parse()

	if *replay != "" {
		b, err := os.ReadFile(*replay)
		hx.Must(err)
		var f replayFile
		hx.Must(json.Unmarshal(b, &f))
		it := f.Items
		if it == nil && f.First != nil {
			it = f.First.Items
		}
		pat := stringOfItems(it)
		var ref, path []dobs
		fmt.Printf("pattern %q items %v\n", pat, it)
		if !bounded(hangLimit, func() { ref, path = implObs(true, pat), implObs(false, pat) }) {
			fmt.Printf("REPLAY: property violated: validation did not return within %v\n", hangLimit)
			os.Exit(1)
		}
		fmt.Printf("impl ref : %s   (documented syntax: valid=%v)\n", obsString(ref), refValid(true, pat))
		fmt.Printf("impl path: %s   (documented syntax: valid=%v)\n", obsString(path), refValid(false, pat))
		bad := false
		if *modelPath != "" {
			m := startModel(*modelPath)
			ans := m.eval([]string{itemsLine('R', it), itemsLine('P', it)})
			m.close()
			fmt.Printf("model ref : %s\nmodel path: %s\n", ans[0], ans[1])
			if ans[0] != obsString(ref) || ans[1] != obsString(path) {
				fmt.Println("model and implementation disagree")
				bad = true
			}
		}
		fs := oracle(pat, it, ref, path)
		for _, x := range fs {
			fmt.Printf("oracle: [%s] %s\n", x.Key, x.What)
		}
		if len(fs) > 0 || bad {
			fmt.Println("REPLAY: property violated")
			os.Exit(1)
		}
		fmt.Println("REPLAY: property holds on this input")
		return
	}

	hx.Must(os.MkdirAll(*out, 0o755))
	st := &stats{dist: map[string]int{}, failCount: map[string]int{}, disagree: []disagreement{}}
	sum := hx.NewSummary("C17")

	jobs := make(chan []string, 4**workers)
	var wg sync.WaitGroup
	slots := make([]*slot, *workers)
	for w := range slots {
		slots[w] = &slot{}
	}
	writeHang := func(pat string) {
		// a validator that does not return cannot be stopped: report and leave
		f := hangFailure(pat)
		sum.Evaluations = st.evals
		sum.Rule = "run stopped: a validation did not terminate"
		sum.OracleFails = append(sum.OracleFails, f)
		sum.Extra["oracle_failure_counts"] = map[string]int{"hang": 1}
		sum.Extra["disagreements"] = []disagreement{}
		sum.Extra["disagreement_count"] = 0
		sum.Extra["model_evaluated"] = *modelPath != ""
		sum.Extra["exhaustive_base"] = map[string]int{}
		sum.Extra["exhaustive_ext"] = map[string]int{}
		sum.Extra["class_table"] = classNames
		for _, n := range []string{"cases.txt", "sources.jsonl", "colcases.txt"} {
			os.WriteFile(filepath.Join(*out, n), nil, 0o644)
		}
		sum.Write(filepath.Join(*out, "summary.json"))
		os.Exit(0)
	}
	go func() {
		for {
			time.Sleep(500 * time.Millisecond)
			for _, sl := range slots {
				if p, bad := sl.stuck(); bad {
					st.mu.Lock() // keep the counters still while the summary is written
					writeHang(p)
				}
			}
		}
	}()
	for w := 0; w < *workers; w++ {
		wg.Add(1)
		sl := slots[w]
		go func() {
			defer wg.Done()
			var m *model
			if *modelPath != "" {
				m = startModel(*modelPath)
				defer m.close()
			}
			for batch := range jobs {
				its := make([][]int, len(batch))
				lines := make([]string, 0, 2*len(batch))
				size := 0
				for i, p := range batch {
					its[i] = items(p)
					if m != nil {
						l1, l2 := itemsLine('R', its[i]), itemsLine('P', its[i])
						lines = append(lines, l1, l2)
						size += len(l1) + len(l2)
					}
				}
				var ans []string
				if m != nil {
					// keep every write below the pipe capacity
					ans = make([]string, 0, len(lines))
					start, acc := 0, 0
					for i, l := range lines {
						acc += len(l)
						if acc > 30000 {
							ans = append(ans, m.eval(lines[start:i+1])...)
							start, acc = i+1, 0
						}
					}
					if start < len(lines) {
						ans = append(ans, m.eval(lines[start:])...)
					}
				}
				for i, p := range batch {
					sl.enter(p)
					ref, path, pmsg := safeObs(p)
					sl.leave()
					if pmsg != "" {
						st.mu.Lock()
						st.failCount["panic"]++
						if st.failCount["panic"] <= maxKept {
							st.fails = append(st.fails, failure{What: "a validator panics (while other goroutines validate other patterns): " + pmsg, Key: "panic:" + strconv.Quote(p), Pattern: strconv.Quote(p), Items: its[i], Mode: "ref+path"})
						}
						st.mu.Unlock()
						continue
					}
					mr, mp := "-", "-"
					if m != nil {
						mr, mp = ans[2*i], ans[2*i+1]
					}
					st.record(p, its[i], ref, path, mr, mp)
				}
			}
		}()
	}

	// 1. corpus, 2. exhaustive (base, extended), 3. random
	jobs <- corpus
	// 1'. long patterns: a defect placed behind byte 255 ... 4096 of an otherwise plain name (and
	// the same names without a defect)
	{
		var long []string
		for _, n := range []int{250, 254, 255, 256, 300, 1000, 4090, 4096} {
			base := "releases/" + strings.Repeat("x", n)
			for _, tail := range []string{"", "*+", "y[]", "y[b-a]", "y z", "y~", "y\\", "/", "y?+", "\ny"} {
				long = append(long, base+tail)
			}
		}
		jobs <- long
	}
	nEnum := 0
	enumerate(baseAlphabet, *maxLen, func(b []string) { nEnum += len(b); jobs <- b })
	nExt := 0
	enumerate(extAlphabet, *extLen, func(b []string) { nExt += len(b); jobs <- b })
	r := hx.NewRng(*seed)
	var randoms []string
	cur := []string{}
	for i := 0; i < *n; i++ {
		p := randomPattern(r)
		if i < 4**ncoq {
			randoms = append(randoms, p)
		}
		cur = append(cur, p)
		if len(cur) == 256 {
			jobs <- cur
			cur = []string{}
		}
	}
	if len(cur) > 0 {
		jobs <- cur
	}
	close(jobs)
	wg.Wait()

	// a disagreement with the model that disappears when the pattern is validated once more with
	// nothing else running is not a wrong verdict of the validator but a validator that is not
	// safe for concurrent use (the linter validates the filters of several files at once)
	{
		conc := 0
		for _, d := range st.disagree {
			pat, err := strconv.Unquote(d.Pattern)
			if err != nil {
				continue
			}
			if obsString(implObs(d.Mode == "ref", pat)) == d.Model {
				conc++
				if conc <= 3 {
					st.fails = append(st.fails, failure{What: "validated while other goroutines validate other patterns the verdict was " + d.Impl + "; validated alone it is " + d.Model + " (= the model): the validators are not safe for concurrent use",
						Key: "concurrent-validation:" + d.Mode, Pattern: d.Pattern, Items: d.Items, Mode: d.Mode})
				}
			}
		}
		if conc > 0 {
			st.failCount["concurrent-validation"] = conc
		}
	}

	// seeded subset for vm_compute: corpus + random enumeration members + random patterns
	cases, err := os.Create(filepath.Join(*out, "cases.txt"))
	hx.Must(err)
	srcs, err := os.Create(filepath.Join(*out, "sources.jsonl"))
	hx.Must(err)
	pick := append([]string{}, corpus...)
	r2 := hx.NewRng(*seed + 7)
	for len(pick) < len(corpus)+*ncoq/2 {
		l := 1 + r2.Intn(6)
		var sb strings.Builder
		for i := 0; i < l; i++ {
			sb.WriteString(extAlphabet[r2.Intn(len(extAlphabet))])
		}
		pick = append(pick, sb.String())
	}
	for i := 0; len(pick) < len(corpus)+*ncoq && i < len(randoms); i++ {
		pick = append(pick, randoms[i])
	}
	ncases := 0
	for _, p := range pick {
		it := items(p)
		for _, isRef := range []bool{true, false} {
			fmt.Fprintf(cases, "((%s, %s), %s)\n", hx.CoqBool(isRef), coqItems(it), coqObs(implObs(isRef, p)))
			sb, _ := json.Marshal(map[string]interface{}{"pattern": strconv.Quote(p), "items": it, "mode": modeName(isRef)})
			fmt.Fprintln(srcs, string(sb))
			ncases++
		}
	}
	cases.Close()
	srcs.Close()

	// rule_glob.go: position of the diagnostics of Linter.Lint
	var lintFails []failure
	var colCases []string
	var nl int
	if !bounded(5*time.Minute, func() { lintFails, colCases, nl = lintCheck(hx.NewRng(*seed+13), *nlint) }) {
		lintFails = append(lintFails, failure{What: "Linter.Lint on the generated workflows with glob filters did not return (the property demands that validation terminates)", Key: "hang:lint"})
	}
	cc, err := os.Create(filepath.Join(*out, "colcases.txt"))
	hx.Must(err)
	for _, c := range colCases {
		fmt.Fprintln(cc, c)
	}
	cc.Close()
	for _, f := range lintFails {
		st.failCount["lint"]++
		if st.failCount["lint"] <= maxKept {
			st.fails = append(st.fails, f)
		}
	}

	sum.Evaluations = st.evals
	sum.Nontrivial = st.nontrivial
	sum.Rule = fmt.Sprintf("every pattern is validated in both modes (evaluations = 2 x patterns). exhaustive: all strings of length <= %d over the 21-character alphabet of DESIGN.md (%d), all of length <= %d over that alphabet + NUL, U+FEFF, byte 0xFF, U+1F600, U+FFFD, ' (%d); %d random patterns of 1..40 characters (fragments, specials, arbitrary code points, invalid bytes); %d corner cases; %d generated workflows through Linter.Lint. non-trivial = patterns with at least one diagnostic in some mode", *maxLen, nEnum, *extLen, nExt, *n, len(corpus), nl)
	for k, v := range st.dist {
		sum.Dist[k] = v
	}
	sum.Dist["accepted:ref"] = st.implAccept[0]
	sum.Dist["accepted:path"] = st.implAccept[1]
	for _, f := range st.fails {
		sum.OracleFails = append(sum.OracleFails, f)
	}
	sum.Extra["oracle_failure_counts"] = st.failCount
	sum.Extra["disagreements"] = st.disagree
	sum.Extra["disagreement_count"] = st.disagreeCnt
	sum.Extra["model_evaluated"] = *modelPath != ""
	sum.Extra["coq_cases"] = ncases
	sum.Extra["col_cases"] = len(colCases)
	sum.Extra["exhaustive_base"] = map[string]int{"alphabet": len(baseAlphabet), "max_len": *maxLen, "patterns": nEnum}
	sum.Extra["exhaustive_ext"] = map[string]int{"alphabet": len(extAlphabet), "max_len": *extLen, "patterns": nExt}
	sum.Extra["class_table"] = classNames
	for _, p := range []string{"[a-z]+", "\\[", "[ ab]", "!/a"} {
		sum.Samples = append(sum.Samples, map[string]interface{}{"pattern": p, "ref": implObs(true, p), "path": implObs(false, p)})
	}
	sort.Slice(st.fails, func(i, j int) bool { return st.fails[i].Key < st.fails[j].Key })
	sum.Write(filepath.Join(*out, "summary.json"))
}
