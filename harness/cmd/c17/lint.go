package main

// lint.go — rule_glob.go: the glob diagnostics of Linter.Lint must sit at the
// YAML position of the character the validator's column designates.  Workflows
// with branches/tags/paths filters are generated with known scalar positions
// (plain, single- and double-quoted, block sequence items and single values).

import (
	"fmt"
	"io"
	"strings"

	"github.com/rhysd/actionlint"
	"verifharness/hx"
)

type filterVal struct {
	line, col int // position of the scalar (its quote when quoted)
	quoted    bool
	isRef     bool
	pat       string
	// the value holds a line break (block scalar, "\n" escape): every diagnostic of the validator
	// must be reported by the rule (the value is not trimmed), the column is not compared
	loose bool
	// prop: length of the node properties (anchor, tag) written before the scalar on its line
	prop int
}

const plainAlpha = "az0/.*+?~^[]-\\!%"
const quotedAlpha = "az0/.*+?~^[]-!: \té%"

func lintPattern(r *hx.Rng, style int) string {
	n := 1 + r.Intn(8)
	var sb strings.Builder
	for i := 0; i < n; i++ {
		switch style {
		case 0: // plain: starts with a letter, no YAML indicators
			if i == 0 {
				sb.WriteByte("az"[r.Intn(2)])
			} else {
				sb.WriteByte(plainAlpha[r.Intn(len(plainAlpha))])
			}
		case 1: // single-quoted: anything but '
			a := []rune(quotedAlpha + "\\")
			sb.WriteRune(a[r.Intn(len(a))])
		default: // double-quoted: no \ and "
			a := []rune(quotedAlpha)
			sb.WriteRune(a[r.Intn(len(a))])
		}
	}
	return sb.String()
}

func lintCheck(r *hx.Rng, n int) (fails []failure, colCases []string, count int) {
	linter, err := actionlint.NewLinter(io.Discard, &actionlint.LinterOptions{})
	hx.Must(err)
	keys := []struct {
		name  string
		isRef bool
	}{{"branches", true}, {"branches-ignore", true}, {"tags", true}, {"tags-ignore", true}, {"paths", false}, {"paths-ignore", false}}
	for w := 0; w < n; w++ {
		var sb strings.Builder
		var vals []filterVal
		line := 0
		put := func(s string) { sb.WriteString(s); sb.WriteByte('\n'); line++ }
		put("on:")
		// every event that takes branch / path filters
		event := []string{"push", "push", "pull_request", "pull_request_target"}[r.Intn(4)]
		put("  " + event + ":")
		used := map[int]bool{}
		for k := 0; k < 1+r.Intn(3); k++ {
			ki := r.Intn(len(keys))
			if event != "push" && ki/2 == 1 {
				continue // tags / tags-ignore exist for push only
			}
			// branches and branches-ignore (etc.) are mutually exclusive
			if used[ki/2] {
				continue
			}
			used[ki/2] = true
			key := keys[ki]
			scalar := func() (string, bool, string) {
				style := r.Intn(3)
				p := lintPattern(r, style)
				if r.Chance(1, 12) {
					// patterns whose diagnostic names a per cent sign (a verb, if a message were ever used as a format)
					p = r.Pick([]string{"v[z-%]*", "a[%-!]", "x%d+?", "[b-%s]", "%v**", "r%!"})
					if style == 0 {
						style = 1
					}
				}
				switch style {
				case 0:
					return p, false, p
				case 1:
					return "'" + p + "'", true, p
				}
				return "\"" + p + "\"", true, p
			}
			if r.Chance(1, 4) {
				txt, q, p := scalar()
				prefix := "    " + key.name + ": "
				put(prefix + txt)
				vals = append(vals, filterVal{line, len(prefix) + 1, q, key.isRef, p, false, 0})
			} else {
				put("    " + key.name + ":")
				for i := 0; i < 1+r.Intn(3); i++ {
					if r.Chance(1, 5) {
						// an empty entry (reported by the parser, not by the glob rule); the entries
						// after it are validated all the same
						put("      - " + []string{"''", "\"\""}[r.Intn(2)])
					}
					if r.Chance(1, 6) {
						// a value with line breaks: literal / folded block scalar (keep, clip) or an escape
						base := lintPattern(r, 0)
						switch r.Intn(4) {
						case 0:
							put("      - |")
							put("        " + base)
							vals = append(vals, filterVal{line - 1, 9, false, key.isRef, base + "\n", true, 0})
						case 1:
							put("      - >")
							put("        " + base)
							vals = append(vals, filterVal{line - 1, 9, false, key.isRef, base + "\n", true, 0})
						case 2:
							put("      - |+")
							put("        " + base)
							put("")
							vals = append(vals, filterVal{line - 2, 9, false, key.isRef, base + "\n\n", true, 0})
						default:
							b2 := strings.ReplaceAll(base, "\\", "")
							put("      - \"" + b2 + "\\n\"")
							vals = append(vals, filterVal{line, 9, true, key.isRef, b2 + "\n", true, 0})
						}
						continue
					}
					txt, q, p := scalar()
					// an anchor or an explicit tag before the entry: the pattern starts after it
					prop := ""
					switch (count*7 + len(vals)) % 13 {
					case 6:
						prop = fmt.Sprintf("&a%d ", len(vals))
					case 11:
						prop = "!!str "
					}
					put("      - " + prop + txt)
					vals = append(vals, filterVal{line, 9 + len(prop), q, key.isRef, p, false, len(prop)})
					if r.Chance(1, 5) {
						// the same entry once more (as it is, or in the other letter case): validated again
						t2, p2 := txt, p
						if r.Chance(1, 2) {
							t2, p2 = strings.ToUpper(txt), strings.ToUpper(p)
						}
						put("      - " + t2)
						vals = append(vals, filterVal{line, 9, q, key.isRef, p2, false, 0})
					}
				}
			}
		}
		switch count % 9 {
		case 4:
			// the filters are validated whatever the rest of the workflow looks like: no job at all
			put("jobs: {}")
		case 7:
			// ... and no jobs section
		default:
			put("jobs:")
			put("  test:")
			put("    runs-on: ubuntu-latest")
			put("    steps:")
			put("      - run: echo")
		}
		src := sb.String()
		errs, err := linter.Lint("test.yaml", []byte(src), nil)
		if err != nil {
			continue
		}
		count++
		type pos struct{ line, col int }
		got := map[pos][]string{}
		ngot := 0
		for _, e := range errs {
			if e.Kind == "glob" {
				got[pos{e.Line, e.Column}] = append(got[pos{e.Line, e.Column}], e.Message)
				ngot++
			}
		}
		lines := strings.Split(src, "\n")
		nwant := 0
		bad := ""
		propShift := ""
		for _, v := range vals {
			var ges []actionlint.InvalidGlobPattern
			if v.isRef {
				ges = actionlint.ValidateRefGlob(v.pat)
			} else {
				ges = actionlint.ValidatePathGlob(v.pat)
			}
			wantOf := func(ge actionlint.InvalidGlobPattern) int {
				want := v.col
				if v.quoted {
					want++
				}
				if ge.Column > 0 {
					want += ge.Column - 1
				}
				return want
			}
			// an entry written after an anchor / a tag: do ALL its reports count from the anchor (the
			// recorded finding) or from the pattern? Decided for the entry as a whole, so that a
			// shifted report of one character is not taken for the right report of another
			shifted := v.prop > 0
			for _, ge := range ges {
				if len(got[pos{v.line, wantOf(ge) - v.prop}]) == 0 {
					shifted = false
				}
			}
			for _, ge := range ges {
				nwant++
				// where the property wants the report: at the character the
				// validator's column designates inside the scalar
				want := wantOf(ge)
				found := false
				try := func(exact bool) {
					for p, ms := range got {
						if v.loose {
							if exact || p.line != v.line {
								continue
							}
						} else if p.line != v.line || (exact && !shifted && p.col != want) || (exact && shifted && p.col != want-v.prop) {
							continue
						}
						for i, m := range ms {
							if m != "" && strings.HasPrefix(m, ge.Message) {
								if v.loose {
									ms[i] = ""
									found = true
									return
								}
								// observed position of this diagnostic
								// (the model takes the position of the NODE, which yaml.v3 puts at the anchor / tag)
								colCases = append(colCases, fmt.Sprintf("((%d%%N, %s, %d%%N), [[%d]]%%N)", v.col-v.prop, hx.CoqBool(v.quoted), ge.Column, p.col))
								if shifted && p.col == want-v.prop {
									propShift = fmt.Sprintf("line %d: %q reported at column %d, the designated character is at column %d: the column counts from the anchor / tag written before the pattern", v.line, ge.Message, p.col, want)
									ms[i] = ""
									found = true
									return
								}
								if p.col != want {
									bad = fmt.Sprintf("line %d: %q reported at column %d, the designated character is at column %d", v.line, ge.Message, p.col, want)
								}
								d := classify(ge)
								if d.NK == 2 && ge.Column > 0 {
									rl := []rune(lines[v.line-1])
									if p.col-1 >= len(rl) || int(rl[p.col-1]) != d.NC {
										bad = fmt.Sprintf("line %d: message names %q but source column %d does not hold it", v.line, rune(d.NC), p.col)
									}
								}
								ms[i] = ""
								found = true
								return
							}
						}
					}
				}
				try(true)
				if !found {
					try(false)
				}
				if !found {
					bad = fmt.Sprintf("line %d: diagnostic %q of the validator not reported by the rule", v.line, ge.Message)
				}
			}
		}
		if bad == "" && nwant != ngot {
			bad = fmt.Sprintf("rule reported %d glob diagnostics, validators %d", ngot, nwant)
		}
		if bad != "" {
			fails = append(fails, failure{What: "rule_glob position: " + bad, Key: "lint:" + src, Pattern: src, Mode: "lint", Detail: bad})
		} else if propShift != "" {
			fails = append(fails, failure{What: "rule_glob position: " + propShift, Key: "lint-node-property-before-pattern", Pattern: src, Mode: "lint", Detail: propShift})
		}
	}
	return
}
