package main

// reference.go — the documented filter-pattern syntax, written from GitHub's
// "filter pattern cheat sheet" and the rules actionlint documents for Git ref
// names, NOT from glob.go: the pattern is first cut into tokens, then the
// rules are checked on the token list (glob.go is a one-pass scanner with a
// look-ahead and a "prec" flag).
//
//   *  **         any characters                (each * is a token)
//   ?  +          zero-or-one / one-or-more of the preceding character: only
//                 directly after an ordinary character, an escape or a [...]
//   [...]         non-empty list of characters and ranges lo-hi (lo <= hi);
//                 a list that is one single character is rejected (useless)
//   !             at the very start negates; something must follow
//   \x            x in [ ? * + \ ! is taken literally; any other \ is an
//                 ordinary character in a path and forbidden in a ref name
//   no line breaks, no NUL, valid UTF-8
//   paths:        no leading or trailing space
//   refs:         no space, TAB, ~ ^ : anywhere; no escaped [ ? *; the name
//                 (after !) does not start with /; no trailing / or .

import (
	"strings"
	"unicode/utf8"
)

type tkind int

const (
	tStar tkind = iota
	tQuest
	tPlus
	tEsc
	tBackslash
	tSet
	tChar
)

type token struct {
	kind    tkind
	ch      rune
	members []rune // every character listed in a set, range bounds included
	singles int
	ranges  int
}

func refForbidden(c rune) bool {
	return c == ' ' || c == '\t' || c == '~' || c == '^' || c == ':'
}

func tokenize(rs []rune) ([]token, bool) {
	var ts []token
	for i := 0; i < len(rs); {
		switch c := rs[i]; c {
		case '*':
			ts = append(ts, token{kind: tStar})
			i++
		case '?':
			ts = append(ts, token{kind: tQuest})
			i++
		case '+':
			ts = append(ts, token{kind: tPlus})
			i++
		case '\\':
			if i+1 < len(rs) && strings.ContainsRune("[?*+\\!", rs[i+1]) {
				ts = append(ts, token{kind: tEsc, ch: rs[i+1]})
				i += 2
			} else {
				ts = append(ts, token{kind: tBackslash})
				i++
			}
		case '[':
			// the list ends at the first ]
			j := -1
			for k := i + 1; k < len(rs); k++ {
				if rs[k] == ']' {
					j = k
					break
				}
			}
			if j < 0 {
				return nil, false // missing ]
			}
			body := rs[i+1 : j]
			t := token{kind: tSet}
			for k := 0; k < len(body); {
				if k+1 < len(body) && body[k+1] == '-' {
					if k+2 >= len(body) {
						return nil, false // range without end
					}
					if body[k] > body[k+2] {
						return nil, false // ill-ordered range
					}
					t.ranges++
					t.members = append(t.members, body[k], body[k+2])
					k += 3
				} else {
					t.singles++
					t.members = append(t.members, body[k])
					k++
				}
			}
			ts = append(ts, t)
			i = j + 1
		default:
			ts = append(ts, token{kind: tChar, ch: c})
			i++
		}
	}
	return ts, true
}

// refValid decides whether pat is a valid filter pattern (isRef: for
// branches/tags, otherwise for paths).
func refValid(isRef bool, pat string) bool {
	if pat == "" || !utf8.ValidString(pat) || strings.ContainsAny(pat, "\x00\r\n") {
		return false
	}
	if !isRef && (strings.HasPrefix(pat, " ") || strings.HasSuffix(pat, " ")) {
		return false
	}
	rs := []rune(pat)
	if rs[0] == '!' {
		rs = rs[1:]
		if len(rs) == 0 {
			return false
		}
	}
	if isRef {
		if rs[0] == '/' {
			return false
		}
		if l := rs[len(rs)-1]; l == '/' || l == '.' {
			return false
		}
	}
	ts, ok := tokenize(rs)
	if !ok {
		return false
	}
	for i, t := range ts {
		switch t.kind {
		case tQuest, tPlus:
			if i == 0 {
				return false
			}
			if k := ts[i-1].kind; k == tStar || k == tQuest || k == tPlus {
				return false
			}
		case tSet:
			if t.ranges == 0 && t.singles < 2 {
				return false // empty, or one single character
			}
			if isRef {
				for _, m := range t.members {
					if refForbidden(m) {
						return false
					}
				}
			}
		case tEsc:
			if isRef && (t.ch == '[' || t.ch == '?' || t.ch == '*') {
				return false
			}
		case tBackslash:
			if isRef {
				return false
			}
		case tChar:
			if isRef && refForbidden(t.ch) {
				return false
			}
		}
	}
	return true
}
