// Command c14: correspondence harness and property oracle for C14 — calls are
// checked exactly against the callee's declared interface.
//
//	(T) dumps actionlint.PopularActions / OutdatedPopularActionSpecs as
//	    <out>/GenPopular.v (the check copies it to coq/Gen when it changed);
//	(A) EXHAUSTIVE over the bundled data set: every spec x call-site shapes
//	    {none, required only, all, all+extra, one required missing, case-flipped}
//	    x output references {declared (case-flipped), undeclared}, plus a sample
//	    of outdated / unknown specs, through actionlint.NewLinter + Lint;
//	(B) generated local actions on disk x the same shapes + random call sites;
//	(C) generated reusable workflows on disk (inputs with required / default
//	    incl. null default / type, secrets, outputs) x call sites with typed
//	    values, secrets (absent, inherit, mapping), output references, linted
//	    alone (callee read from its file) and together with the callee
//	    (LintFiles: callee interface may come from the AST);
//	(D) derivations: the interface as the implementation sees it
//	    (LocalActionsCache.FindMetadata, LocalReusableWorkflowCache.FindMetadata,
//	    Parse + WriteWorkflowCallEvent) for every generated declaration.
//
// For every lint the model input is dumped as a Coq term with the observable
// = list of (class, name bytes); the oracle computes the demanded reports
// from the generator's own knowledge of the interface.
package main

import (
	"encoding/json"
	"flag"
	"fmt"
	"io"
	"os"
	"path/filepath"
	"sort"
	"strconv"
	"strings"

	"github.com/rhysd/actionlint"

	"verifharness/hx"
)

// ---------------------------------------------------------------- classes

const (
	clUnknownInput = iota
	clMissingInput
	clUnknownSecret
	clMissingSecret
	clUndefinedOutput
	clTypeMismatch
)

var classNames = []string{"unknown-input", "missing-input", "unknown-secret", "missing-secret", "undefined-output", "type-mismatch"}

type rep struct {
	Class int
	Name  string
}

func (r rep) String() string { return classNames[r.Class] + ":" + r.Name }

func sortReps(rs []rep) []rep {
	sort.Slice(rs, func(i, j int) bool {
		if rs[i].Class != rs[j].Class {
			return rs[i].Class < rs[j].Class
		}
		return rs[i].Name < rs[j].Name
	})
	return rs
}

func repsStr(rs []rep) string {
	ss := make([]string, len(rs))
	for i, r := range rs {
		ss[i] = r.String()
	}
	return strings.Join(ss, " ")
}

// first %q-quoted string of a message
func firstQuoted(msg string) (string, bool) {
	i := strings.IndexByte(msg, '"')
	if i < 0 {
		return "", false
	}
	s, err := strconv.QuotedPrefix(msg[i:])
	if err != nil {
		return "", false
	}
	u, err := strconv.Unquote(s)
	if err != nil {
		return "", false
	}
	return u, true
}

// classify projects a diagnostic to (class, name); ok=false for diagnostics
// that are not about the interface of a callee.
func classify(e *actionlint.Error) (rep, bool) {
	m := e.Message
	name, _ := firstQuoted(m)
	switch {
	case e.Kind == "action" && strings.HasPrefix(m, "input ") && strings.Contains(m, " is not defined in action "):
		return rep{clUnknownInput, name}, true
	case e.Kind == "action" && strings.HasPrefix(m, "missing input "):
		return rep{clMissingInput, name}, true
	case e.Kind == "workflow-call" && strings.HasPrefix(m, "input ") && strings.Contains(m, " is required by "):
		return rep{clMissingInput, name}, true
	case e.Kind == "workflow-call" && strings.HasPrefix(m, "input ") && strings.Contains(m, " is not defined in "):
		return rep{clUnknownInput, name}, true
	case e.Kind == "workflow-call" && strings.HasPrefix(m, "secret ") && strings.Contains(m, " is required by "):
		return rep{clMissingSecret, name}, true
	case e.Kind == "workflow-call" && strings.HasPrefix(m, "secret ") && strings.Contains(m, " is not defined in "):
		return rep{clUnknownSecret, name}, true
	case e.Kind == "expression" && strings.HasPrefix(m, "property ") && strings.Contains(m, " is not defined in object type"):
		return rep{clUndefinedOutput, name}, true
	case e.Kind == "expression" && strings.HasPrefix(m, "input ") && strings.Contains(m, " is typed as "):
		return rep{clTypeMismatch, name}, true
	}
	return rep{}, false
}

// ---------------------------------------------------------------- Coq printers

func coqStrs(xs []string) string {
	ys := make([]string, len(xs))
	for i, x := range xs {
		ys[i] = hx.CoqStr(x)
	}
	return hx.CoqList(ys)
}

func coqTuple(r rep) string {
	ns := []string{strconv.Itoa(r.Class)}
	for i := 0; i < len(r.Name); i++ {
		ns = append(ns, strconv.Itoa(int(r.Name[i])))
	}
	return "[" + strings.Join(ns, ";") + "]%N"
}

func coqObs(rs []rep) string {
	ts := make([]string, len(rs))
	for i, r := range rs {
		ts[i] = coqTuple(r)
	}
	return hx.CoqList(ts)
}

func coqOptBool(b *bool) string {
	if b == nil {
		return "None"
	}
	return "(Some " + hx.CoqBool(*b) + ")"
}

// ---------------------------------------------------------------- linting

func newLinter(root string) *actionlint.Linter {
	l, err := actionlint.NewLinter(io.Discard, &actionlint.LinterOptions{
		Color: actionlint.ColorOptionKindNever, WorkingDir: root,
	})
	hx.Must(err)
	return l
}

type lintResult struct {
	reps  []rep
	other []string // messages outside the six classes
}

func project(errs []*actionlint.Error, only string) lintResult {
	var r lintResult
	for _, e := range errs {
		if only != "" && filepath.Base(e.Filepath) != filepath.Base(only) {
			continue
		}
		if c, ok := classify(e); ok {
			r.reps = append(r.reps, c)
		} else {
			r.other = append(r.other, fmt.Sprintf("%d:%d [%s] %s", e.Line, e.Column, e.Kind, e.Message))
		}
	}
	sortReps(r.reps)
	return r
}

func lintAlone(root, path string, content []byte) lintResult {
	proj, err := actionlint.NewProject(root)
	hx.Must(err)
	errs, err := newLinter(root).Lint(path, content, proj)
	hx.Must(err)
	return project(errs, "")
}

func lintTogether(root string, paths []string, only string) lintResult {
	proj, err := actionlint.NewProject(root)
	hx.Must(err)
	errs, err := newLinter(root).LintFiles(paths, proj)
	hx.Must(err)
	return project(errs, only)
}

func writeFile(p, s string) {
	hx.Must(os.MkdirAll(filepath.Dir(p), 0o755))
	hx.Must(os.WriteFile(p, []byte(s), 0o644))
}

// ---------------------------------------------------------------- names

func swapCase(s string) string {
	b := []byte(s)
	for i, c := range b {
		switch {
		case 'a' <= c && c <= 'z':
			b[i] = c - 32
		case 'A' <= c && c <= 'Z':
			b[i] = c + 32
		}
	}
	return string(b)
}

func randCase(r *hx.Rng, s string) string {
	b := []byte(s)
	for i, c := range b {
		if r.Chance(1, 2) {
			switch {
			case 'a' <= c && c <= 'z':
				b[i] = c - 32
			case 'A' <= c && c <= 'Z':
				b[i] = c + 32
			}
		}
	}
	return string(b)
}

func isIdent(s string) bool {
	if s == "" {
		return false
	}
	for i := 0; i < len(s); i++ {
		c := s[i]
		ok := c == '_' || 'a' <= c && c <= 'z' || 'A' <= c && c <= 'Z' || i > 0 && (c == '-' || '0' <= c && c <= '9')
		if !ok {
			return false
		}
	}
	return true
}

// plain YAML key without quoting needs
func plainKey(s string) bool {
	if !isIdent(s) {
		return false
	}
	switch strings.ToLower(s) {
	case "y", "n", "yes", "no", "on", "off", "true", "false", "null":
		return false
	}
	return true
}

func yamlKey(s string) string {
	if plainKey(s) {
		return s
	}
	return "'" + strings.ReplaceAll(s, "'", "''") + "'"
}

func yamlVal(s string) string { return "'" + strings.ReplaceAll(s, "'", "''") + "'" }

func lowerSet(xs []string) map[string]bool {
	m := map[string]bool{}
	for _, x := range xs {
		m[strings.ToLower(x)] = true
	}
	return m
}

const extraName = "zz-extra"
const undeclaredOut = "zz_undeclared"

var reserved = map[string]bool{"args": true, "entrypoint": true}

// ---------------------------------------------------------------- failures

type failure struct {
	What  string            `json:"what"`
	Key   string            `json:"key"`
	Files map[string]string `json:"files"`
	Lint  []string          `json:"lint"`
	Only  string            `json:"only,omitempty"`
	Want  []string          `json:"want"`
	Got   []string          `json:"got"`
	Note  string            `json:"note,omitempty"`
}

func repStrs(rs []rep) []string {
	ss := make([]string, len(rs))
	for i, r := range rs {
		ss[i] = r.String()
	}
	return ss
}

func sameReps(a, b []rep) bool {
	if len(a) != len(b) {
		return false
	}
	for i := range a {
		if a[i] != b[i] {
			return false
		}
	}
	return true
}

// diffKey names the first demanded-but-absent or present-but-undemanded report
func diffKey(kind string, want, got []rep) string {
	w := map[rep]int{}
	for _, r := range want {
		w[r]++
	}
	g := map[rep]int{}
	for _, r := range got {
		g[r]++
	}
	for _, r := range want {
		if g[r] < w[r] {
			return kind + ":not-reported:" + r.String()
		}
	}
	for _, r := range got {
		if w[r] < g[r] {
			return kind + ":spurious:" + r.String()
		}
	}
	return kind + ":same"
}

// ---------------------------------------------------------------- step workflows

func stepWorkflow(uses string, with []string, refs []string) string {
	var b strings.Builder
	b.WriteString("on: push\njobs:\n  j:\n    runs-on: ubuntu-latest\n    steps:\n")
	b.WriteString("      - uses: " + uses + "\n        id: s\n")
	if len(with) > 0 {
		b.WriteString("        with:\n")
		for _, n := range with {
			b.WriteString("          " + yamlKey(n) + ": x\n")
		}
	}
	if len(refs) > 0 {
		b.WriteString("      - run: echo")
		for _, r := range refs {
			b.WriteString(" ${{ steps.s.outputs." + r + " }}")
		}
		b.WriteString("\n")
	}
	return b.String()
}

type callShape struct {
	tag  string
	with []string
}

// the fixed call-site shapes for declared names [all] with required subset [req]
func shapes(all, req []string) []callShape {
	ss := []callShape{
		{"none", nil},
		{"required-only", req},
		{"all", all},
		{"all+extra", append(append([]string{}, all...), extraName)},
	}
	if len(req) > 0 {
		ss = append(ss, callShape{"one-missing", req[1:]})
	} else if len(all) > 0 {
		ss = append(ss, callShape{"one-missing", all[1:]})
	}
	fl := make([]string, len(all))
	for i, n := range all {
		fl[i] = swapCase(n)
	}
	ss = append(ss, callShape{"case-flipped", fl})
	return ss
}

// oracle for a step: demanded reports from the declared interface
//
//	declared: name -> needs to be supplied (required and no default)
func oracleStep(declared []string, mustSupply map[string]bool, outputs []string, openOutputs, skipInputs, known bool, with, refs []string) (want []rep, reservedUnknown []string) {
	want = []rep{}
	if known && !skipInputs {
		decl := lowerSet(declared)
		sup := lowerSet(with)
		for _, n := range with {
			if !decl[strings.ToLower(n)] {
				if reserved[strings.ToLower(n)] {
					reservedUnknown = append(reservedUnknown, n)
				}
				want = append(want, rep{clUnknownInput, n})
			}
		}
		for _, n := range declared {
			if mustSupply[n] && !sup[strings.ToLower(n)] {
				want = append(want, rep{clMissingInput, n})
			}
		}
	}
	if known && !openOutputs {
		outs := lowerSet(outputs)
		for _, r := range refs {
			if !outs[strings.ToLower(r)] {
				want = append(want, rep{clUndefinedOutput, strings.ToLower(r)})
			}
		}
	}
	return sortReps(want), reservedUnknown
}

// ---------------------------------------------------------------- (T) GenPopular

func genPopular() string {
	var b strings.Builder
	b.WriteString("(* Gen/GenPopular.v — GENERATED by harness/cmd/c14 from actionlint.PopularActions and\n")
	b.WriteString("   actionlint.OutdatedPopularActionSpecs of /repo on every run of ./check C14. Do not edit.\n")
	b.WriteString("   Per spec: inputs (id, name, required), outputs (id, name), skip_inputs, skip_outputs. *)\n")
	b.WriteString("From Coq Require Import String List.\nImport ListNotations.\nOpen Scope string_scope.\n\n")
	b.WriteString("Definition gen_popular : list (string * (list (string * string * bool) * list (string * string) * bool * bool)) := [\n")
	specs := hx.SortedKeys(actionlint.PopularActions)
	for si, spec := range specs {
		m := actionlint.PopularActions[spec]
		var ins []string
		for _, id := range hx.SortedKeys(m.Inputs) {
			i := m.Inputs[id]
			ins = append(ins, "("+hx.CoqStr(id)+","+hx.CoqStr(i.Name)+","+hx.CoqBool(i.Required)+")")
		}
		var outs []string
		for _, id := range hx.SortedKeys(m.Outputs) {
			outs = append(outs, "("+hx.CoqStr(id)+","+hx.CoqStr(m.Outputs[id].Name)+")")
		}
		fmt.Fprintf(&b, " (%s, ([%s],\n  [%s], %s, %s))", hx.CoqStr(spec), strings.Join(ins, ";"), strings.Join(outs, ";"), hx.CoqBool(m.SkipInputs), hx.CoqBool(m.SkipOutputs))
		if si < len(specs)-1 {
			b.WriteString(";")
		}
		b.WriteString("\n")
	}
	b.WriteString("].\n\nDefinition gen_outdated : list string := [\n")
	od := hx.SortedKeys(actionlint.OutdatedPopularActionSpecs)
	for i, s := range od {
		b.WriteString(" " + hx.CoqStr(s))
		if i < len(od)-1 {
			b.WriteString(";")
		}
		if i%4 == 3 {
			b.WriteString("\n")
		}
	}
	b.WriteString("].\n")
	return b.String()
}

// ---------------------------------------------------------------- run state

type run struct {
	rng      *hx.Rng
	out      string
	sum      *hx.Summary
	fails    []interface{}
	pop      []string
	local    []string
	wf       []string
	derive   []string
	srcs     map[string][]string // per case stream: JSON of the lint input
	distinct map[string]bool
	others   map[string]int
}

func (r *run) record(stream string, files map[string]string, lint []string, only string, want []rep, res lintResult, kind string, expectOther bool) {
	r.sum.Evaluations++
	r.sum.Dist[kind]++
	if len(res.reps) > 0 {
		r.distinct[repsStr(res.reps)+"|"+kind] = true
	}
	for _, c := range res.reps {
		r.sum.Dist["report:"+classNames[c.Class]]++
	}
	if len(res.other) > 0 {
		for _, o := range res.other {
			k := o
			if i := strings.Index(o, "] "); i >= 0 {
				k = o[i+2:]
			}
			if len(k) > 40 {
				k = k[:40]
			}
			r.others[k]++
		}
	}
	src, _ := json.Marshal(map[string]interface{}{"files": files, "lint": lint, "only": only})
	r.srcs[stream] = append(r.srcs[stream], string(src))
	if want != nil && !sameReps(want, res.reps) {
		r.fails = append(r.fails, failure{
			What:  "call not checked exactly against the declared interface (" + kind + "): demanded and actual reports differ",
			Key:   diffKey(kind, want, res.reps),
			Files: files, Lint: lint, Only: only, Want: repStrs(want), Got: repStrs(res.reps),
		})
	}
	if len(res.other) > 0 && !expectOther {
		r.fails = append(r.fails, failure{
			What:  "unexpected diagnostic outside the interface classes for a well-formed generated case",
			Key:   "unexpected-diagnostic:" + res.other[0],
			Files: files, Lint: lint, Only: only, Got: res.other,
		})
	}
}

// ---------------------------------------------------------------- (A) popular

func validRefs(outputs []string) (declared string, ok bool) {
	for _, o := range outputs {
		if isIdent(o) {
			return o, true
		}
	}
	return "", false
}

func (r *run) popular() {
	root := filepath.Join(r.out, "scratch", "pop")
	wpath := filepath.Join(root, ".github", "workflows", "w.yml")
	writeFile(wpath, "on: push\njobs: {}\n")
	specs := hx.SortedKeys(actionlint.PopularActions)
	one := func(spec string, known bool, tag string, with, refs []string, want []rep, reservedUnknown []string, expectOther bool) {
		src := stepWorkflow(spec, with, refs)
		res := lintAlone(root, wpath, []byte(src))
		files := map[string]string{".github/workflows/w.yml": src}
		if len(reservedUnknown) > 0 {
			// recorded finding: with.args / with.entrypoint are never reported as unknown
			w2 := []rep{}
			for _, x := range want {
				if !(x.Class == clUnknownInput && reserved[strings.ToLower(x.Name)]) {
					w2 = append(w2, x)
				}
			}
			if sameReps(w2, res.reps) {
				r.fails = append(r.fails, failure{
					What:  "`with: " + reservedUnknown[0] + ":` is not reported although the action does not declare such an input",
					Key:   "reserved-with-key-not-reported:" + strings.ToLower(reservedUnknown[0]),
					Files: files, Lint: []string{".github/workflows/w.yml"}, Want: repStrs(want), Got: repStrs(res.reps),
				})
				want = w2
			}
		}
		r.record("pop", files, []string{".github/workflows/w.yml"}, "", want, res, "popular/"+tag, expectOther)
		r.pop = append(r.pop, fmt.Sprintf("((%s, %s, %s), %s)", hx.CoqStr(spec), coqStrs(with), coqStrs(refs), coqObs(res.reps)))
	}
	for _, spec := range specs {
		m := actionlint.PopularActions[spec]
		var all, req, outs []string
		must := map[string]bool{}
		for _, id := range hx.SortedKeys(m.Inputs) {
			i := m.Inputs[id]
			all = append(all, i.Name)
			if i.Required {
				req = append(req, i.Name)
				must[i.Name] = true
			}
		}
		for _, id := range hx.SortedKeys(m.Outputs) {
			outs = append(outs, m.Outputs[id].Name)
		}
		refs := []string{undeclaredOut}
		if d, ok := validRefs(outs); ok {
			refs = []string{swapCase(d), undeclaredOut}
		}
		open := m.SkipOutputs || strings.HasPrefix(spec, "actions/github-script@")
		for _, sh := range shapes(all, req) {
			want, ru := oracleStep(all, must, outs, open, m.SkipInputs, true, sh.with, refs)
			one(spec, true, sh.tag, sh.with, refs, want, ru, false)
		}
	}
	// reserved keys on actions that do not declare them (recorded finding), deterministic
	for _, spec := range []string{"actions/checkout@v4", "actions/cache@v4"} {
		if m, ok := actionlint.PopularActions[spec]; ok {
			var all []string
			must := map[string]bool{}
			for _, id := range hx.SortedKeys(m.Inputs) {
				all = append(all, m.Inputs[id].Name)
				must[m.Inputs[id].Name] = m.Inputs[id].Required
			}
			for _, k := range []string{"args", "Entrypoint"} {
				with := append(append([]string{}, all...), k)
				want, ru := oracleStep(all, must, nil, false, m.SkipInputs, true, with, nil)
				one(spec, true, "reserved-key", with, nil, want, ru, false)
			}
		}
	}
	// two entries of the data set with the same repository (or the same `name:`) but different
	// outputs, used by two steps of ONE file: each step's outputs are those of its own spec
	{
		type ent struct {
			spec string
			outs map[string]bool
		}
		byKey := map[string][]ent{}
		for _, spec := range specs {
			m := actionlint.PopularActions[spec]
			if m.SkipOutputs || strings.HasPrefix(spec, "actions/github-script@") {
				continue
			}
			o := map[string]bool{}
			for id := range m.Outputs {
				if isIdent(m.Outputs[id].Name) {
					o[strings.ToLower(m.Outputs[id].Name)] = true
				}
			}
			for _, k := range []string{"repo:" + strings.SplitN(spec, "@", 2)[0], "name:" + m.Name} {
				byKey[k] = append(byKey[k], ent{spec, o})
			}
		}
		npairs := 0
		for _, k := range hx.SortedKeys(byKey) {
			es := byKey[k]
			for i := 0; i+1 < len(es) && npairs < 40; i++ {
				a, b := es[i], es[i+1]
				var diff []string
				for o := range a.outs {
					if !b.outs[o] {
						diff = append(diff, o)
					}
				}
				for o := range b.outs {
					if !a.outs[o] {
						diff = append(diff, o)
					}
				}
				if len(diff) == 0 || a.spec == b.spec {
					continue
				}
				sort.Strings(diff)
				npairs++
				for _, order := range [][2]ent{{a, b}, {b, a}} {
					var sb strings.Builder
					sb.WriteString("on: push\njobs:\n  j:\n    runs-on: ubuntu-latest\n    steps:\n")
					sb.WriteString("      - uses: " + order[0].spec + "\n        id: s1\n      - uses: " + order[1].spec + "\n        id: s2\n")
					var want []rep
					for _, o := range diff {
						sb.WriteString("      - run: echo ${{ steps.s1.outputs." + o + " }}\n      - run: echo ${{ steps.s2.outputs." + o + " }}\n")
						if !order[0].outs[o] {
							want = append(want, rep{clUndefinedOutput, o})
						}
						if !order[1].outs[o] {
							want = append(want, rep{clUndefinedOutput, o})
						}
					}
					src := sb.String()
					res := lintAlone(root, wpath, []byte(src))
					// only the output diagnostics are judged here (required inputs are missing on purpose)
					var got []rep
					for _, x := range res.reps {
						if x.Class == clUndefinedOutput {
							got = append(got, x)
						}
					}
					sortReps(want)
					r.record("pop", map[string]string{".github/workflows/w.yml": src}, []string{".github/workflows/w.yml"}, "", want, lintResult{reps: got}, "popular/two-specs-one-file", true)
				}
			}
		}
	}
	// outdated and unknown specs: nothing about the interface may be reported
	od := hx.SortedKeys(actionlint.OutdatedPopularActionSpecs)
	step := len(od)/12 + 1
	for i := 0; i < len(od); i += step {
		want, _ := oracleStep(nil, nil, nil, true, true, false, []string{"anything"}, []string{undeclaredOut})
		one(od[i], false, "outdated", []string{"anything"}, []string{undeclaredOut}, want, nil, true)
	}
	for _, spec := range []string{"nobody/unknown-action@v1", "actions/checkout@v0-not-a-version", "docker://alpine:3.8", "Actions/Checkout@v4"} {
		want, _ := oracleStep(nil, nil, nil, true, true, false, []string{"anything"}, []string{undeclaredOut})
		one(spec, false, "unknown-action", []string{"anything"}, []string{undeclaredOut}, want, nil, false)
	}
}

// ---------------------------------------------------------------- (B) local actions

var namePool = []string{"name", "Token", "path", "FILE_NAME", "fetch-depth", "args", "Entrypoint", "ref", "Version", "cache_key", "with-Dash", "x1", "node-version", "K", "entrypoint", "ARGS"}
var outPool = []string{"result", "Digest", "cache-hit", "URL", "out_1", "v"}

type defKind int

const (
	dfAbsent defKind = iota
	dfNull
	dfValue
)

type inDecl struct {
	Name     string
	Required *bool
	Def      defKind
	DefText  string // as written after `default:`
	DefValue string // the string value (for dfValue)
	Type     string // reusable workflows: "", boolean, number, string, or an unknown word
	NullBody bool   // `name:` with no body at all
	// reusable workflows: `required:` is given by a ${{ }} placeholder; not known statically, hence
	// nothing is demanded of the caller (Required points to false)
	ReqExpr bool
}

func (d inDecl) mustSupply() bool { return d.Required != nil && *d.Required && d.Def != dfValue }

func coqDefault(d inDecl) string {
	switch d.Def {
	case dfAbsent:
		return "DfAbsent"
	case dfNull:
		return "DfNull"
	}
	return "(DfValue " + hx.CoqStr(d.DefValue) + ")"
}

func pickNames(r *hx.Rng, pool []string, max int) []string {
	n := r.Intn(max + 1)
	p := r.Perm(len(pool))
	seen := map[string]bool{}
	var out []string
	for _, i := range p {
		if len(out) >= n {
			break
		}
		l := strings.ToLower(pool[i])
		if seen[l] {
			continue
		}
		seen[l] = true
		out = append(out, pool[i])
	}
	return out
}

func (r *run) genDecl(name string, wf bool) inDecl {
	d := inDecl{Name: name}
	rng := r.rng
	switch rng.Intn(5) {
	case 0:
	case 1:
		f := false
		d.Required = &f
	default:
		t := true
		d.Required = &t
	}
	switch rng.Intn(6) {
	case 0, 1, 2:
		d.Def = dfAbsent
	case 3:
		d.Def = dfNull
		d.DefText = []string{"", "null", "~", "Null"}[rng.Intn(4)]
	default:
		d.Def = dfValue
		k := rng.Intn(5)
		d.DefText = []string{"''", "x", "3", "true", "'null'"}[k]
		d.DefValue = []string{"", "x", "3", "true", "null"}[k]
	}
	if wf {
		d.Type = []string{"boolean", "number", "string", "string", "boolean", "number", ""}[rng.Intn(7)]
		if d.Type == "" && rng.Chance(1, 3) {
			d.Type = "choice"
		}
	}
	if d.Required == nil && d.Def == dfAbsent && d.Type == "" && rng.Chance(1, 2) {
		d.NullBody = true
	}
	if wf && !d.NullBody && rng.Chance(1, 8) {
		f := false
		d.Required, d.ReqExpr = &f, true
	}
	return d
}

// boolText: the YAML core-schema spellings of a boolean (true / True / TRUE), chosen by the name
func boolText(v bool, name string) string {
	t := [][]string{{"false", "False", "FALSE"}, {"true", "True", "TRUE"}}[b2i(v)]
	h := 0
	for _, c := range []byte(name) {
		h += int(c)
	}
	return t[h%3]
}

func declYAML(b *strings.Builder, ind string, d inDecl, action bool) {
	if d.NullBody {
		b.WriteString(ind + yamlKey(d.Name) + ":\n")
		return
	}
	b.WriteString(ind + yamlKey(d.Name) + ":\n")
	b.WriteString(ind + "  description: d\n")
	if d.ReqExpr {
		b.WriteString(ind + "  required: ${{ github.event_name == 'push' }}\n")
	} else if d.Required != nil {
		b.WriteString(ind + "  required: " + boolText(*d.Required, d.Name) + "\n")
	}
	switch d.Def {
	case dfNull:
		if d.DefText == "" {
			b.WriteString(ind + "  default:\n")
		} else {
			b.WriteString(ind + "  default: " + d.DefText + "\n")
		}
	case dfValue:
		b.WriteString(ind + "  default: " + d.DefText + "\n")
	}
	if !action && d.Type != "" {
		b.WriteString(ind + "  type: " + d.Type + "\n")
	}
}

func actionYAML(ins []inDecl, outs []string) string {
	var b strings.Builder
	b.WriteString("name: act\ndescription: generated\n")
	if len(ins) > 0 {
		b.WriteString("inputs:\n")
		for _, d := range ins {
			declYAML(&b, "  ", d, true)
		}
	}
	if len(outs) > 0 {
		b.WriteString("outputs:\n")
		for i, o := range outs {
			switch (i + len(o)) % 3 {
			case 0: // declared by its key only
				b.WriteString("  " + yamlKey(o) + ":\n")
			case 1:
				b.WriteString("  " + yamlKey(o) + ": {}\n")
			default:
				b.WriteString("  " + yamlKey(o) + ":\n    description: o\n    value: x\n")
			}
		}
	}
	b.WriteString("runs:\n  using: composite\n  steps:\n    - run: echo\n      shell: bash\n")
	return b.String()
}

func coqADecls(ins []inDecl) string {
	xs := make([]string, len(ins))
	for i, d := range ins {
		xs[i] = fmt.Sprintf("(%s, Build_adecl %s %s)", hx.CoqStr(d.Name), coqOptBool(d.Required), coqDefault(d))
	}
	return hx.CoqList(xs)
}

func randomCall(r *hx.Rng, all []string) []string {
	var with []string
	for _, n := range all {
		if r.Chance(1, 2) {
			with = append(with, randCase(r, n))
		}
	}
	if r.Chance(1, 4) {
		with = append(with, extraName)
	}
	if r.Chance(1, 8) {
		with = append(with, []string{"args", "Entrypoint"}[r.Intn(2)])
		// keep the call site well formed: no key twice modulo case
		seen := map[string]bool{}
		var w2 []string
		for _, n := range with {
			if !seen[strings.ToLower(n)] {
				seen[strings.ToLower(n)] = true
				w2 = append(w2, n)
			}
		}
		with = w2
	}
	return with
}

func (r *run) localActions(n int) {
	for k := 0; k < n; k++ {
		root := filepath.Join(r.out, "scratch", fmt.Sprintf("la%03d", k))
		names := pickNames(r.rng, namePool, 6)
		if k == 0 { // deterministic: required inputs named args / entrypoint
			names = []string{"args", "Entrypoint", "path"}
		}
		var ins []inDecl
		for _, nm := range names {
			d := r.genDecl(nm, false)
			if k == 0 {
				t := true
				d = inDecl{Name: nm, Required: &t}
			}
			ins = append(ins, d)
		}
		outs := pickNames(r.rng, outPool, 3)
		ay := actionYAML(ins, outs)
		// where the action lives and how the step spells it: a sub-directory, the repository root
		// (`uses: ./`), with a trailing slash, nested deeper
		loc := []struct{ dir, spec string }{{"act", "./act"}, {"", "./"}, {"act", "./act/"}, {"deep/er/act", "./deep/er/act"}}[k%4]
		ayPath := filepath.ToSlash(filepath.Join(loc.dir, "action.yml"))
		writeFile(filepath.Join(root, filepath.FromSlash(ayPath)), ay)
		wpath := filepath.Join(root, ".github", "workflows", "w.yml")
		writeFile(wpath, "on: push\njobs: {}\n")

		var all, req []string
		must := map[string]bool{}
		for _, d := range ins {
			all = append(all, d.Name)
			if d.mustSupply() {
				req = append(req, d.Name)
				must[d.Name] = true
			}
		}
		refs := []string{undeclaredOut}
		if len(outs) > 0 {
			refs = []string{swapCase(outs[0]), undeclaredOut}
		}
		r.deriveAction(root, loc.spec, ins, outs)
		ss := shapes(all, req)
		for i := 0; i < 3; i++ {
			ss = append(ss, callShape{"random", randomCall(r.rng, all)})
		}
		if k == 0 {
			ss = append(ss, callShape{"reserved-supplied", []string{"args", "entrypoint"}}, callShape{"reserved-supplied", []string{"ARGS"}})
		}
		if k == 1 || k == 2 {
			ss = append(ss, callShape{"reserved-key", append(append([]string{}, all...), []string{"args", "Entrypoint"}[k-1])})
		}
		for _, sh := range ss {
			if sh.tag == "reserved-key" && lowerSet(all)[strings.ToLower(sh.with[len(sh.with)-1])] {
				continue
			}
			src := stepWorkflow(loc.spec, sh.with, refs)
			res := lintAlone(root, wpath, []byte(src))
			want, ru := oracleStep(all, must, outs, false, false, true, sh.with, refs)
			files := map[string]string{ayPath: ay, ".github/workflows/w.yml": src}
			if len(ru) > 0 {
				w2 := []rep{}
				for _, x := range want {
					if !(x.Class == clUnknownInput && reserved[strings.ToLower(x.Name)]) {
						w2 = append(w2, x)
					}
				}
				if sameReps(w2, res.reps) {
					r.fails = append(r.fails, failure{
						What:  "`with: " + ru[0] + ":` is not reported although the action does not declare such an input",
						Key:   "reserved-with-key-not-reported:" + strings.ToLower(ru[0]),
						Files: files, Lint: []string{".github/workflows/w.yml"}, Want: repStrs(want), Got: repStrs(res.reps),
					})
					want = w2
				}
			}
			r.record("local", files, []string{".github/workflows/w.yml"}, "", want, res, "local-action/"+sh.tag, false)
			r.local = append(r.local, fmt.Sprintf("((%s, %s, %s, %s), %s)", coqADecls(ins), coqStrs(outs), coqStrs(sh.with), coqStrs(refs), coqObs(res.reps)))
		}
		// a second local action whose path differs from the first in letter case only, with another
		// interface: every step is checked against ITS action (case sensitive file system)
		if k > 0 && loc.dir != "" {
			tdir := filepath.Join(filepath.Dir(loc.dir), swapCase(filepath.Base(loc.dir)))
			tspec := "./" + filepath.ToSlash(tdir)
			var ins2 []inDecl
			for _, nm := range pickNames(r.rng, namePool, 4) {
				if !reserved[strings.ToLower(nm)] {
					ins2 = append(ins2, r.genDecl(nm, false))
				}
			}
			outs2 := pickNames(r.rng, outPool, 2)
			ay2 := actionYAML(ins2, outs2)
			ay2Path := filepath.ToSlash(filepath.Join(tdir, "action.yml"))
			writeFile(filepath.Join(root, filepath.FromSlash(ay2Path)), ay2)
			if _, err := os.Stat(filepath.Join(root, filepath.FromSlash(tdir), "action.yml")); err == nil {
				var all2 []string
				must2 := map[string]bool{}
				for _, d := range ins2 {
					all2 = append(all2, d.Name)
					if d.mustSupply() {
						must2[d.Name] = true
					}
				}
				refs2 := []string{undeclaredOut}
				if len(outs2) > 0 {
					refs2 = append(refs2, outs2[0])
				}
				for t := 0; t < 4; t++ {
					w1, w2 := randomCall(r.rng, all), randomCall(r.rng, all2)
					a := [2]struct {
						spec       string
						with, refs []string
					}{{strings.TrimSuffix(loc.spec, "/"), w1, refs}, {tspec, w2, refs2}}
					if t%2 == 1 {
						a[0], a[1] = a[1], a[0]
					}
					var b strings.Builder
					b.WriteString("on: push\njobs:\n  j:\n    runs-on: ubuntu-latest\n    steps:\n")
					for i, st := range a {
						fmt.Fprintf(&b, "      - uses: %s\n        id: s%d\n", st.spec, i)
						if len(st.with) > 0 {
							b.WriteString("        with:\n")
							for _, n := range st.with {
								b.WriteString("          " + yamlKey(n) + ": x\n")
							}
						}
					}
					for i, st := range a {
						for _, rf := range st.refs {
							// (one reference per value: a value is not checked beyond its first reported placeholder)
							fmt.Fprintf(&b, "      - run: echo ${{ steps.s%d.outputs.%s }}\n", i, rf)
						}
					}
					src := b.String()
					want1, ru1 := oracleStep(all, must, outs, false, false, true, w1, refs)
					want2, ru2 := oracleStep(all2, must2, outs2, false, false, true, w2, refs2)
					if len(ru1)+len(ru2) > 0 {
						continue
					}
					want := sortReps(append(append([]rep{}, want1...), want2...))
					res := lintAlone(root, wpath, []byte(src))
					files := map[string]string{ayPath: ay, ay2Path: ay2, ".github/workflows/w.yml": src}
					r.record("twin", files, []string{".github/workflows/w.yml"}, "", want, res, "local-action-case-twin", false)
				}
			}
		}
	}
}

// (D) interface as the implementation sees it
func deriveTuple(kind int, id, name string, required bool, ty int) string {
	ns := []string{strconv.Itoa(kind), strconv.Itoa(b2i(required)), strconv.Itoa(ty), strconv.Itoa(len(id))}
	for i := 0; i < len(id); i++ {
		ns = append(ns, strconv.Itoa(int(id[i])))
	}
	for i := 0; i < len(name); i++ {
		ns = append(ns, strconv.Itoa(int(name[i])))
	}
	return "[" + strings.Join(ns, ";") + "]%N"
}

func b2i(b bool) int {
	if b {
		return 1
	}
	return 0
}

func (r *run) deriveAction(root, spec string, ins []inDecl, outs []string) {
	proj, err := actionlint.NewProject(root)
	hx.Must(err)
	m, _, err := actionlint.NewLocalActionsCache(proj, nil).FindMetadata(spec)
	hx.Must(err)
	if m == nil {
		r.fails = append(r.fails, failure{What: "the metadata of a local action is not found for the spec `" + spec + "` although its action.yml exists: its interface is not checked at all",
			Key: "local-action-not-found:" + spec, Files: map[string]string{}, Lint: []string{spec}})
		return
	}
	var ts []string
	for _, id := range hx.SortedKeys(m.Inputs) {
		ts = append(ts, deriveTuple(0, id, m.Inputs[id].Name, m.Inputs[id].Required, 0))
	}
	for _, id := range hx.SortedKeys(m.Outputs) {
		ts = append(ts, deriveTuple(2, id, m.Outputs[id].Name, false, 0))
	}
	r.sum.Dist["derive/action"]++
	r.derive = append(r.derive, fmt.Sprintf("(DAction %s %s, %s)", coqADecls(ins), coqStrs(outs), hx.CoqList(ts)))
	// oracle: required exactly for `required: true` without a (non-null) default
	for _, d := range ins {
		got, ok := m.Inputs[strings.ToLower(d.Name)]
		if !ok || got.Name != d.Name || got.Required != d.mustSupply() {
			r.fails = append(r.fails, failure{
				What:  "interface of a local action not derived as declared (required = `required: true` and no default)",
				Key:   fmt.Sprintf("derive-action:%s:required=%v:default=%d", d.Name, d.Required != nil && *d.Required, d.Def),
				Files: map[string]string{"act/action.yml": actionYAML(ins, outs)},
			})
		}
	}
}

// ---------------------------------------------------------------- (C) reusable workflows

type secDecl struct {
	Name     string
	Required *bool
	ReqExpr  bool // `required:` given by a placeholder (Required points to false)
}

var secPool = []string{"token", "NPM_TOKEN", "deploy-key", "Pass"}

type valSpec struct {
	Text    string
	Exprs   []string // the placeholders' expressions
	ExprTys []string // their types: any null bool number string other
	Kind    string   // the value's type by construction (oracle): null bool number string any other
}

var values = []valSpec{
	{Text: "null", Kind: "null"},
	{Text: "true", Kind: "bool"},
	{Text: "false", Kind: "bool"},
	{Text: " true ", Kind: "bool"},
	{Text: "TRUE", Kind: "string"},
	{Text: "12", Kind: "number"},
	{Text: "-1.5e3", Kind: "number"},
	{Text: " 7\t", Kind: "number"},
	{Text: "abc", Kind: "string"},
	{Text: "", Kind: "string"},
	{Text: "1 2", Kind: "string"},
	{Text: "nulll", Kind: "string"},
	{Text: "${{ 1 }}", Exprs: []string{"1"}, ExprTys: []string{"number"}, Kind: "number"},
	{Text: "${{ 'a' }}", Exprs: []string{"'a'"}, ExprTys: []string{"string"}, Kind: "string"},
	{Text: "${{ true }}", Exprs: []string{"true"}, ExprTys: []string{"bool"}, Kind: "bool"},
	{Text: "${{ null }}", Exprs: []string{"null"}, ExprTys: []string{"null"}, Kind: "null"},
	{Text: "${{ github.run_id }}", Exprs: []string{"github.run_id"}, ExprTys: []string{"string"}, Kind: "string"},
	{Text: "${{ fromJSON(github.run_id) }}", Exprs: []string{"fromJSON(github.run_id)"}, ExprTys: []string{"any"}, Kind: "any"},
	{Text: "${{ 1 == 1 }}", Exprs: []string{"1 == 1"}, ExprTys: []string{"bool"}, Kind: "bool"},
	{Text: "${{ format('{0}', 1) }}", Exprs: []string{"format('{0}', 1)"}, ExprTys: []string{"string"}, Kind: "string"},
	{Text: "${{ github.event.foo }}", Exprs: []string{"github.event.foo"}, ExprTys: []string{"any"}, Kind: "any"},
	{Text: "${{ github }}", Exprs: []string{"github"}, ExprTys: []string{"other"}, Kind: "other"},
	{Text: " ${{ 1 }}  ", Exprs: []string{"1"}, ExprTys: []string{"number"}, Kind: "number"},
	{Text: "a ${{ 1 }}", Exprs: []string{"1"}, ExprTys: []string{"number"}, Kind: "string"},
	{Text: "${{ true }} b", Exprs: []string{"true"}, ExprTys: []string{"bool"}, Kind: "string"},
	{Text: "${{ 1 }}${{ 2 }}", Exprs: []string{"1", "2"}, ExprTys: []string{"number", "number"}, Kind: "string"},
	{Text: "${{ true }} ${{ 'x' }}", Exprs: []string{"true", "'x'"}, ExprTys: []string{"bool", "string"}, Kind: "string"},
}

var ctyCoq = map[string]string{"any": "CAny", "null": "CNull", "bool": "CBool", "number": "CNumber", "string": "CString", "other": "COther"}

func tyClass(t actionlint.ExprType) string {
	switch t.(type) {
	case actionlint.AnyType:
		return "any"
	case actionlint.NullType:
		return "null"
	case actionlint.BoolType:
		return "bool"
	case actionlint.NumberType:
		return "number"
	case actionlint.StringType:
		return "string"
	}
	return "other"
}

// the placeholder types in the table are cross-checked against the exported
// expression checker (they are oracle inputs of the model; typing itself is C06)
func checkValueTable() {
	for _, v := range values {
		for i, e := range v.Exprs {
			n, perr := actionlint.NewExprParser().Parse(actionlint.NewExprLexer(e + "}}"))
			if perr != nil {
				hx.Must(fmt.Errorf("value table: %q does not parse: %v", e, perr))
			}
			sema := actionlint.NewExprSemanticsChecker(false, nil)
			sema.SetContextAvailability([]string{"github", "inputs", "matrix", "needs", "strategy", "vars"}) // jobs.<job_id>.with.<with_id>
			t, errs := sema.Check(n)
			if len(errs) > 0 || tyClass(t) != v.ExprTys[i] {
				hx.Must(fmt.Errorf("value table: %q is typed %s by the expression checker, table says %s (%v)", e, tyClass(t), v.ExprTys[i], errs))
			}
		}
	}
}

func coqValue(v valSpec) string {
	ts := make([]string, len(v.ExprTys))
	for i, t := range v.ExprTys {
		ts[i] = ctyCoq[t]
	}
	_, err := strconv.ParseFloat(strings.TrimSpace(v.Text), 64)
	return fmt.Sprintf("(Build_cvalue %s %s %s)", hx.CoqStr(v.Text), hx.CoqList(ts), hx.CoqBool(err == nil))
}

// the property's table: what a declared type accepts
func accepts(declared, kind string) bool {
	switch declared {
	case "boolean":
		return true
	case "number":
		return kind == "number" || kind == "any"
	case "string":
		return kind == "string" || kind == "number" || kind == "any"
	}
	return true // no (known) type declared: not checked
}

func calleeYAML(ins []inDecl, secs []secDecl, outs []string) string {
	var b strings.Builder
	if len(ins) == 0 && len(secs) == 0 && len(outs) == 0 {
		b.WriteString("on:\n  workflow_call:\n")
	} else {
		b.WriteString("on:\n  workflow_call:\n")
		if len(ins) > 0 {
			b.WriteString("    inputs:\n")
			for _, d := range ins {
				declYAML(&b, "      ", d, false)
			}
		}
		if len(secs) > 0 {
			b.WriteString("    secrets:\n")
			for _, s := range secs {
				b.WriteString("      " + yamlKey(s.Name) + ":\n")
				if s.ReqExpr {
					b.WriteString("        required: ${{ true }}\n")
				} else if s.Required != nil {
					b.WriteString("        required: " + boolText(*s.Required, s.Name) + "\n")
				}
			}
		}
		if len(outs) > 0 {
			b.WriteString("    outputs:\n")
			for _, o := range outs {
				b.WriteString("      " + yamlKey(o) + ":\n        value: x\n")
			}
		}
	}
	b.WriteString("jobs:\n  j:\n    runs-on: ubuntu-latest\n    steps:\n      - run: echo\n")
	return b.String()
}

type wfCall struct {
	tag     string
	with    []string
	vals    []int // index into values
	secMode int   // 0 absent, 1 inherit, 2 mapping
	secs    []string
}

func callerYAML(c wfCall, refs []string) string {
	var b strings.Builder
	b.WriteString("on: push\njobs:\n  c:\n    uses: ./.github/workflows/callee.yml\n")
	if len(c.with) > 0 {
		b.WriteString("    with:\n")
		for i, n := range c.with {
			b.WriteString("      " + yamlKey(n) + ": " + yamlVal(values[c.vals[i]].Text) + "\n")
		}
	}
	switch c.secMode {
	case 1:
		b.WriteString("    secrets: inherit\n")
	case 2:
		if len(c.secs) > 0 {
			b.WriteString("    secrets:\n")
			for _, s := range c.secs {
				b.WriteString("      " + yamlKey(s) + ": x\n")
			}
		}
	}
	b.WriteString("  d:\n    needs: c\n    runs-on: ubuntu-latest\n    steps:\n      - run: echo")
	for _, r := range refs {
		b.WriteString(" ${{ needs.c.outputs." + r + " }}")
	}
	b.WriteString("\n")
	return b.String()
}

func coqWDecls(ins []inDecl) string {
	xs := make([]string, len(ins))
	for i, d := range ins {
		ty := "None"
		if d.Type != "" {
			ty = "(Some " + hx.CoqStr(d.Type) + ")"
		}
		xs[i] = fmt.Sprintf("(%s, Build_wdecl %s %s %s)", hx.CoqStr(d.Name), coqOptBool(d.Required), coqDefault(d), ty)
	}
	return hx.CoqList(xs)
}

// `required:` as written (Wf/RequiredExpr.v yreq)
func coqReq(r *bool, expr bool) string {
	switch {
	case expr:
		return "RqExpr"
	case r == nil:
		return "RqAbsent"
	case *r:
		return "(RqBool true)"
	}
	return "(RqBool false)"
}

func coqWDeclsR(ins []inDecl) string {
	xs := make([]string, len(ins))
	for i, d := range ins {
		ty := "None"
		if d.Type != "" {
			ty = "(Some " + hx.CoqStr(d.Type) + ")"
		}
		xs[i] = fmt.Sprintf("(%s, Build_wdeclr %s %s %s)", hx.CoqStr(d.Name), coqReq(d.Required, d.ReqExpr), coqDefault(d), ty)
	}
	return hx.CoqList(xs)
}

func coqSDeclsR(secs []secDecl) string {
	xs := make([]string, len(secs))
	for i, s := range secs {
		xs[i] = fmt.Sprintf("(%s, %s)", hx.CoqStr(s.Name), coqReq(s.Required, s.ReqExpr))
	}
	return hx.CoqList(xs)
}

func anyReqExpr(ins []inDecl, secs []secDecl) bool {
	for _, d := range ins {
		if d.ReqExpr {
			return true
		}
	}
	for _, s := range secs {
		if s.ReqExpr {
			return true
		}
	}
	return false
}

func coqSDecls(secs []secDecl) string {
	xs := make([]string, len(secs))
	for i, s := range secs {
		xs[i] = fmt.Sprintf("(%s, %s)", hx.CoqStr(s.Name), coqOptBool(s.Required))
	}
	return hx.CoqList(xs)
}

func (r *run) oracleWf(ins []inDecl, secs []secDecl, outs []string, c wfCall, refs []string) []rep {
	want := []rep{}
	decl := map[string]inDecl{}
	for _, d := range ins {
		decl[strings.ToLower(d.Name)] = d
	}
	sup := lowerSet(c.with)
	for _, d := range ins {
		if d.mustSupply() && !sup[strings.ToLower(d.Name)] {
			want = append(want, rep{clMissingInput, d.Name})
		}
	}
	for i, n := range c.with {
		d, ok := decl[strings.ToLower(n)]
		if !ok {
			want = append(want, rep{clUnknownInput, n})
			continue
		}
		if !accepts(d.Type, values[c.vals[i]].Kind) {
			want = append(want, rep{clTypeMismatch, d.Name})
		}
	}
	if c.secMode != 1 {
		sdecl := map[string]bool{}
		for _, s := range secs {
			sdecl[strings.ToLower(s.Name)] = true
		}
		ssup := lowerSet(c.secs)
		for _, s := range secs {
			if s.Required != nil && *s.Required && !ssup[strings.ToLower(s.Name)] {
				want = append(want, rep{clMissingSecret, s.Name})
			}
		}
		for _, s := range c.secs {
			if !sdecl[strings.ToLower(s)] {
				want = append(want, rep{clUnknownSecret, s})
			}
		}
	}
	o := lowerSet(outs)
	for _, ref := range refs {
		if !o[strings.ToLower(ref)] {
			want = append(want, rep{clUndefinedOutput, strings.ToLower(ref)})
		}
	}
	return sortReps(want)
}

func (r *run) goodValue(ty string) int {
	for {
		i := r.rng.Intn(len(values))
		if accepts(ty, values[i].Kind) && values[i].Kind != "other" {
			return i
		}
	}
}

// fixedCallees: interfaces written with YAML forms the generator does not produce (an input declared
// through an alias of another input's declaration; secrets of the call named with a null value;
// a local action whose directory name holds an `@`)
func (r *run) fixedCallees() {
	root := filepath.Join(r.out, "scratch", "fixed")
	calleePath := filepath.Join(root, ".github", "workflows", "callee.yml")
	callerPath := filepath.Join(root, ".github", "workflows", "caller.yml")
	cy := "on:\n  workflow_call:\n    inputs:\n      ver: &v\n        type: number\n        required: true\n      fallback: *v\n    secrets:\n      tok:\n        required: true\n      opt:\n        required: false\njobs:\n  j:\n    runs-on: ubuntu-latest\n    steps:\n      - run: echo\n"
	writeFile(calleePath, cy)
	act := "name: a\ndescription: d\ninputs:\n  must:\n    description: d\n    required: true\nruns:\n  using: composite\n  steps:\n    - run: echo\n      shell: bash\n"
	writeFile(filepath.Join(root, ".github", "actions", "setup-tool@v2", "action.yml"), act)
	for _, c := range []struct {
		name, src string
		want      []rep
	}{
		{"alias-declared-input/missing", "on: push\njobs:\n  c:\n    uses: ./.github/workflows/callee.yml\n    secrets: inherit\n",
			[]rep{{clMissingInput, "ver"}, {clMissingInput, "fallback"}}},
		{"alias-declared-input/typed", "on: push\njobs:\n  c:\n    uses: ./.github/workflows/callee.yml\n    with:\n      ver: 1\n      fallback: abc\n    secrets: inherit\n",
			[]rep{{clTypeMismatch, "fallback"}}},
		{"null-valued-secrets", "on: push\njobs:\n  c:\n    uses: ./.github/workflows/callee.yml\n    with:\n      ver: 1\n      fallback: 2\n    secrets:\n      tok:\n      nosuch:\n",
			[]rep{{clUnknownSecret, "nosuch"}}},
		{"local-action-path-with-at", "on: push\njobs:\n  j:\n    runs-on: ubuntu-latest\n    steps:\n      - uses: ./.github/actions/setup-tool@v2\n        with:\n          nosuch: x\n",
			[]rep{{clUnknownInput, "nosuch"}, {clMissingInput, "must"}}},
	} {
		res := lintAlone(root, callerPath, []byte(c.src))
		files := map[string]string{".github/workflows/callee.yml": cy, ".github/workflows/caller.yml": c.src, ".github/actions/setup-tool@v2/action.yml": act}
		r.record("twin", files, []string{".github/workflows/caller.yml"}, "", sortReps(c.want), res, "fixed/"+c.name, false)
	}
}

func (r *run) reusable(n int) {
	for k := 0; k < n; k++ {
		root := filepath.Join(r.out, "scratch", fmt.Sprintf("rw%03d", k))
		var ins []inDecl
		for _, nm := range pickNames(r.rng, namePool, 6) {
			ins = append(ins, r.genDecl(nm, true))
		}
		var secs []secDecl
		for _, nm := range pickNames(r.rng, secPool, 3) {
			s := secDecl{Name: nm}
			switch r.rng.Intn(4) {
			case 0:
			case 1:
				f := false
				s.Required = &f
			default:
				t := true
				s.Required = &t
			}
			if r.rng.Chance(1, 8) {
				f := false
				s.Required, s.ReqExpr = &f, true
			}
			secs = append(secs, s)
		}
		outs := pickNames(r.rng, outPool, 3)
		cy := calleeYAML(ins, secs, outs)
		calleePath := filepath.Join(root, ".github", "workflows", "callee.yml")
		callerPath := filepath.Join(root, ".github", "workflows", "caller.yml")
		writeFile(calleePath, cy)
		r.deriveWf(root, calleePath, cy, ins, secs, outs)

		var all, req, allSec, reqSec []string
		tyOf := map[string]string{}
		for _, d := range ins {
			all = append(all, d.Name)
			tyOf[d.Name] = d.Type
			if d.mustSupply() {
				req = append(req, d.Name)
			}
		}
		for _, s := range secs {
			allSec = append(allSec, s.Name)
			if s.Required != nil && *s.Required {
				reqSec = append(reqSec, s.Name)
			}
		}
		refs := []string{undeclaredOut}
		if len(outs) > 0 {
			refs = []string{swapCase(outs[0]), undeclaredOut}
		}
		var calls []wfCall
		mk := func(tag string, with []string, secMode int, ss []string, randomVals bool) {
			c := wfCall{tag: tag, with: with, secMode: secMode, secs: ss}
			for _, nm := range with {
				ty := ""
				for d, t := range tyOf {
					if strings.EqualFold(d, nm) {
						ty = t
					}
				}
				if randomVals {
					c.vals = append(c.vals, r.rng.Intn(len(values)))
				} else {
					c.vals = append(c.vals, r.goodValue(ty))
				}
			}
			if secMode == 2 && len(ss) == 0 {
				c.secMode = 0
			}
			calls = append(calls, c)
		}
		shs := shapes(all, req)
		secShapes := shapes(allSec, reqSec)
		for i, sh := range shs {
			ssh := secShapes[i%len(secShapes)]
			mk(sh.tag, sh.with, 2, ssh.with, false)
		}
		mk("inherit", req, 1, nil, false)
		mk("inherit-no-with", nil, 1, nil, false) // `secrets: inherit` waives the secrets only
		if len(req) > 0 {
			mk("inherit-one-missing", req[1:], 1, nil, false)
		}
		mk("typed", all, 2, allSec, true)
		mk("typed", all, 1, nil, true)
		for i := 0; i < 2; i++ {
			var ss []string
			for _, s := range allSec {
				if r.rng.Chance(1, 2) {
					ss = append(ss, randCase(r.rng, s))
				}
			}
			if r.rng.Chance(1, 4) {
				ss = append(ss, "ZZ_SECRET")
			}
			with := randomCall(r.rng, all)
			mk("random", with, 2, ss, true)
		}
		for ci, c := range calls {
			src := callerYAML(c, refs)
			want := r.oracleWf(ins, secs, outs, c, refs)
			expectOther := false
			for _, vi := range c.vals {
				if values[vi].Kind == "other" || values[vi].Kind == "null" && len(values[vi].Exprs) > 0 {
					expectOther = true // object / null evaluated inside a template is reported by another check
				}
			}
			files := map[string]string{".github/workflows/callee.yml": cy, ".github/workflows/caller.yml": src}
			together := ci%2 == 1
			var res lintResult
			mode := "false"
			if together {
				writeFile(callerPath, src)
				res = lintTogether(root, []string{calleePath, callerPath}, callerPath)
				hx.Must(os.Remove(callerPath))
				mode = "true"
				r.record("wf", files, []string{".github/workflows/callee.yml", ".github/workflows/caller.yml"}, ".github/workflows/caller.yml", want, res, "reusable-workflow-together/"+c.tag, expectOther)
			} else {
				res = lintAlone(root, callerPath, []byte(src))
				r.record("wf", files, []string{".github/workflows/caller.yml"}, "", want, res, "reusable-workflow/"+c.tag, expectOther)
			}
			var with []string
			for i, nm := range c.with {
				with = append(with, "("+hx.CoqStr(nm)+", "+coqValue(values[c.vals[i]])+")")
			}
			sec := "SecAbsent"
			switch c.secMode {
			case 1:
				sec = "SecInherit"
			case 2:
				sec = "(SecMap " + coqStrs(c.secs) + ")"
			}
			r.wf = append(r.wf, fmt.Sprintf("((%s, %s, %s, %s, %s, %s, %s), %s)", mode, coqWDecls(ins), coqSDecls(secs), coqStrs(outs),
				hx.CoqList(with), sec, coqStrs(refs), coqObs(res.reps)))
		}
		// two jobs of ONE file call the same callee: each call site is checked on its own
		for ci := 0; ci+1 < len(calls) && ci < 6; ci += 2 {
			c1, c2 := calls[ci], calls[len(calls)-1-ci]
			src := strings.Replace(callerYAML(c1, refs), "on: push\njobs:\n", "on: push\njobs:\n"+strings.Replace(strings.SplitN(strings.TrimPrefix(callerYAML(c2, nil), "on: push\njobs:\n"), "  d:\n", 2)[0], "  c:\n", "  c2:\n", 1), 1)
			want := sortReps(append(append([]rep{}, r.oracleWf(ins, secs, outs, c1, refs)...), r.oracleWf(ins, secs, outs, c2, nil)...))
			expectOther := false
			for _, c := range []wfCall{c1, c2} {
				for _, vi := range c.vals {
					if values[vi].Kind == "other" || values[vi].Kind == "null" && len(values[vi].Exprs) > 0 {
						expectOther = true
					}
				}
			}
			files := map[string]string{".github/workflows/callee.yml": cy, ".github/workflows/caller.yml": src}
			res := lintAlone(root, callerPath, []byte(src))
			r.record("twin", files, []string{".github/workflows/caller.yml"}, "", want, res, "reusable-workflow-two-call-sites/"+c1.tag+"+"+c2.tag, expectOther)
		}
	}
}

func tyNum(t actionlint.ExprType) int {
	switch t.(type) {
	case actionlint.BoolType:
		return 1
	case actionlint.NumberType:
		return 2
	case actionlint.StringType:
		return 3
	case actionlint.AnyType:
		return 0
	}
	return 9
}

func wfTuples(m *actionlint.ReusableWorkflowMetadata) []string {
	var ts []string
	for _, id := range hx.SortedKeys(m.Inputs) {
		i := m.Inputs[id]
		ts = append(ts, deriveTuple(0, id, i.Name, i.Required, tyNum(i.Type)))
	}
	for _, id := range hx.SortedKeys(m.Secrets) {
		ts = append(ts, deriveTuple(1, id, m.Secrets[id].Name, m.Secrets[id].Required, 0))
	}
	for _, id := range hx.SortedKeys(m.Outputs) {
		ts = append(ts, deriveTuple(2, id, m.Outputs[id].Name, false, 0))
	}
	return ts
}

func (r *run) deriveWf(root, calleePath, cy string, ins []inDecl, secs []secDecl, outs []string) {
	proj, err := actionlint.NewProject(root)
	hx.Must(err)
	spec := "./.github/workflows/callee.yml"
	// (1) from the file
	mf, err := actionlint.NewLocalReusableWorkflowCache(proj, root, nil).FindMetadata(spec)
	if err != nil {
		// (the generated callee is a workflow without diagnostics)
		r.fails = append(r.fails, failure{
			What:  "a reusable workflow that the workflow parser accepts cannot be read as the callee of a call: " + err.Error(),
			Key:   "derive-workflow-file:unreadable:" + strings.Join(strings.Fields(err.Error()), " "),
			Files: map[string]string{".github/workflows/callee.yml": cy},
		})
		return
	}
	// (2) from the AST
	w, perrs := actionlint.Parse([]byte(cy))
	if w == nil {
		hx.Must(fmt.Errorf("generated callee does not parse: %v", perrs))
	}
	var ev *actionlint.WorkflowCallEvent
	for _, e := range w.On {
		if e, ok := e.(*actionlint.WorkflowCallEvent); ok {
			ev = e
		}
	}
	c2 := actionlint.NewLocalReusableWorkflowCache(proj, root, nil)
	c2.WriteWorkflowCallEvent(calleePath, ev)
	ma, err := c2.FindMetadata(spec)
	hx.Must(err)
	if mf == nil || ma == nil {
		hx.Must(fmt.Errorf("no metadata for generated callee in %s", root))
	}
	decls := fmt.Sprintf("%s %s %s", coqWDecls(ins), coqSDecls(secs), coqStrs(outs))
	if anyReqExpr(ins, secs) {
		// the model decodes `required:` as written itself
		declsR := fmt.Sprintf("%s %s %s", coqWDeclsR(ins), coqSDeclsR(secs), coqStrs(outs))
		r.derive = append(r.derive, fmt.Sprintf("(DWfFileR %s, %s)", declsR, hx.CoqList(wfTuples(mf))))
		r.derive = append(r.derive, fmt.Sprintf("(DWfAstR %s, %s)", declsR, hx.CoqList(wfTuples(ma))))
		r.sum.Dist["derive/required-as-written"]++
	} else {
		r.derive = append(r.derive, fmt.Sprintf("(DWfFile %s, %s)", decls, hx.CoqList(wfTuples(mf))))
		r.derive = append(r.derive, fmt.Sprintf("(DWfAst %s, %s)", decls, hx.CoqList(wfTuples(ma))))
	}
	r.sum.Dist["derive/workflow-file"]++
	r.sum.Dist["derive/workflow-ast"]++
	files := map[string]string{".github/workflows/callee.yml": cy}
	// oracle: both derivations give the declared interface, hence agree
	for _, d := range ins {
		id := strings.ToLower(d.Name)
		for which, m := range map[string]*actionlint.ReusableWorkflowMetadata{"file": mf, "ast": ma} {
			got, ok := m.Inputs[id]
			if !ok || got == nil || got.Name != d.Name || got.Required != d.mustSupply() {
				r.fails = append(r.fails, failure{
					What:  "interface of a reusable workflow (" + which + " derivation) not as declared (required = `required: true` and no default)",
					Key:   fmt.Sprintf("derive-workflow-%s:%s:required=%v:default=%d", which, d.Name, d.Required != nil && *d.Required, d.Def),
					Files: files,
				})
			}
		}
	}
	if a, b := strings.Join(wfTuples(mf), " "), strings.Join(wfTuples(ma), " "); a != b {
		r.fails = append(r.fails, failure{
			What:  "the interface derived from the callee's file and the one derived from its AST differ",
			Key:   "interface-disagree:" + a + " vs " + b,
			Files: files,
		})
	}
}

// ---------------------------------------------------------------- replay

func replay(path string) int {
	b, err := os.ReadFile(path)
	hx.Must(err)
	var f failure
	hx.Must(json.Unmarshal(b, &f))
	if strings.HasPrefix(f.Key, "derive-") && len(f.Files) > 0 {
		return replayDerive(f)
	}
	if len(f.Files) == 0 || len(f.Lint) == 0 {
		fmt.Println(string(b))
		fmt.Println("REPLAY: no concrete failing input recorded in this file")
		return 1
	}
	root, err := os.MkdirTemp("/var/tmp", "calls-replay-")
	hx.Must(err)
	defer os.RemoveAll(root)
	for p, s := range f.Files {
		writeFile(filepath.Join(root, p), s)
		fmt.Printf("--- %s\n%s", p, s)
	}
	hx.Must(os.MkdirAll(filepath.Join(root, ".github", "workflows"), 0o755))
	var paths []string
	for _, p := range f.Lint {
		paths = append(paths, filepath.Join(root, p))
	}
	only := ""
	if f.Only != "" {
		only = filepath.Join(root, f.Only)
	}
	var res lintResult
	if len(paths) == 1 {
		c, _ := os.ReadFile(paths[0])
		res = lintAlone(root, paths[0], c)
	} else {
		res = lintTogether(root, paths, only)
	}
	fmt.Println("demanded:", strings.Join(f.Want, " "))
	fmt.Println("reported:", repsStr(res.reps))
	for _, o := range res.other {
		fmt.Println("other:   ", o)
	}
	if strings.Join(f.Want, " ") == repsStr(res.reps) && !strings.HasPrefix(f.Key, "unexpected-diagnostic") {
		fmt.Println("REPLAY: passes now")
		return 0
	}
	fmt.Println("REPLAY: still fails (" + f.Key + ")")
	return 1
}

// replayDerive re-derives the interface of the recorded callee and compares the
// `required` flag of the input named in the key with the declaration
// (key = derive-<kind>:<name>:required=<bool>:default=<0 absent|1 null|2 value>).
func replayDerive(f failure) int {
	root, err := os.MkdirTemp("/var/tmp", "calls-replay-")
	hx.Must(err)
	defer os.RemoveAll(root)
	for p, s := range f.Files {
		writeFile(filepath.Join(root, p), s)
		fmt.Printf("--- %s\n%s", p, s)
	}
	hx.Must(os.MkdirAll(filepath.Join(root, ".github", "workflows"), 0o755))
	parts := strings.Split(f.Key, ":")
	if len(parts) != 4 {
		fmt.Println("REPLAY: unrecognised key", f.Key)
		return 1
	}
	kind, name := parts[0], parts[1]
	want := parts[2] == "required=true" && parts[3] != "default=2"
	proj, err := actionlint.NewProject(root)
	hx.Must(err)
	got, found := false, false
	switch kind {
	case "derive-action":
		m, _, err := actionlint.NewLocalActionsCache(proj, nil).FindMetadata("./act")
		hx.Must(err)
		if m != nil {
			if i, ok := m.Inputs[strings.ToLower(name)]; ok {
				got, found = i.Required, true
			}
		}
	case "derive-workflow-file", "derive-workflow-ast":
		spec := "./.github/workflows/callee.yml"
		c := actionlint.NewLocalReusableWorkflowCache(proj, root, nil)
		if kind == "derive-workflow-ast" {
			w, _ := actionlint.Parse([]byte(f.Files[".github/workflows/callee.yml"]))
			if w != nil {
				for _, e := range w.On {
					if e, ok := e.(*actionlint.WorkflowCallEvent); ok {
						c.WriteWorkflowCallEvent(filepath.Join(root, ".github", "workflows", "callee.yml"), e)
					}
				}
			}
		}
		m, err := c.FindMetadata(spec)
		hx.Must(err)
		if m != nil {
			if i, ok := m.Inputs[strings.ToLower(name)]; ok && i != nil {
				got, found = i.Required, true
			}
		}
	}
	fmt.Printf("input %q: declared %s %s; demanded Required=%v; implementation: found=%v Required=%v\n", name, parts[2], parts[3], want, found, got)
	if found && got == want {
		fmt.Println("REPLAY: passes now")
		return 0
	}
	fmt.Println("REPLAY: still fails (" + f.Key + ")")
	return 1
}

// ---------------------------------------------------------------- main

func writeLines(p string, ls []string) {
	hx.Must(os.WriteFile(p, []byte(strings.Join(ls, "\n")+"\n"), 0o644))
}

func main() {
	seed := flag.Uint64("seed", 1, "seed")
	nlocal := flag.Int("nlocal", 40, "number of generated local actions")
	nwf := flag.Int("nwf", 35, "number of generated reusable workflows")
	out := flag.String("out", "", "output directory")
	rp := flag.String("replay", "", "replay file")
	flag.Parse()
	if *rp != "" {
		os.Exit(replay(*rp))
	}
	if *out == "" {
		hx.Must(fmt.Errorf("-out is required"))
	}
	abs, err := filepath.Abs(*out)
	hx.Must(err)
	hx.Must(os.MkdirAll(abs, 0o755))
	r := &run{rng: hx.NewRng(*seed), out: abs, sum: hx.NewSummary("C14"), srcs: map[string][]string{}, distinct: map[string]bool{}, others: map[string]int{}}
	checkValueTable()
	hx.Must(os.WriteFile(filepath.Join(abs, "GenPopular.v"), []byte(genPopular()), 0o644))
	r.popular()
	r.localActions(*nlocal)
	r.reusable(*nwf)
	r.fixedCallees()
	writeLines(filepath.Join(abs, "cases_pop.txt"), r.pop)
	writeLines(filepath.Join(abs, "cases_local.txt"), r.local)
	writeLines(filepath.Join(abs, "cases_wf.txt"), r.wf)
	writeLines(filepath.Join(abs, "cases_derive.txt"), r.derive)
	for k, v := range r.srcs {
		writeLines(filepath.Join(abs, "sources_"+k+".jsonl"), v)
	}
	r.sum.Nontrivial = len(r.distinct)
	r.sum.Rule = "evaluations = lints through actionlint.NewLinter+Lint/LintFiles; distinct_nontrivial = distinct (non-empty report set, case kind) pairs"
	r.sum.OracleFails = r.fails
	for i := 0; i < 3 && i < len(r.wf); i++ {
		s := r.wf[i*7%len(r.wf)]
		if len(s) > 600 {
			s = s[:600]
		}
		r.sum.Samples = append(r.sum.Samples, s)
	}
	r.sum.Extra["popular_specs"] = len(actionlint.PopularActions)
	r.sum.Extra["outdated_specs"] = len(actionlint.OutdatedPopularActionSpecs)
	r.sum.Extra["other_diagnostics"] = r.others
	r.sum.Extra["derive_cases"] = len(r.derive)
	r.sum.Extra["classes"] = classNames
	r.sum.Write(filepath.Join(abs, "summary.json"))
	os.RemoveAll(filepath.Join(abs, "scratch"))
}
