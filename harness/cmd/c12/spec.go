package main

// The ground truth: GitHub's "Context availability" table, the 36 markdown
// lines (header, separator, 34 rows) copied verbatim from
// scripts/generate-availability/testdata/ok.md into spec_table.md and
// committed under /verif.  It is read here with a ten-line parser that shares
// nothing with scripts/generate-availability or availability.go.

import (
	_ "embed"
	"fmt"
	"sort"
	"strings"

	"verifharness/hx"
)

//go:embed spec_table.md
var specTableMD string

type specRow struct {
	Key   string
	Ctx   []string // as written in the documentation (order, letter case)
	Funcs []string
}

func cellItems(cell string) []string {
	cell = strings.TrimSpace(cell)
	cell = strings.Trim(cell, "`")
	if cell == "" || strings.EqualFold(cell, "none") {
		return []string{}
	}
	out := []string{}
	for _, p := range strings.Split(cell, ",") {
		p = strings.TrimSpace(p)
		if p != "" {
			out = append(out, p)
		}
	}
	return out
}

func parseSpecTable() []specRow {
	rows := []specRow{}
	for i, line := range strings.Split(strings.TrimSpace(specTableMD), "\n") {
		if i < 2 { // header and separator
			continue
		}
		cells := strings.Split(strings.Trim(strings.TrimSpace(line), "|"), "|")
		if len(cells) != 3 {
			panic("spec_table.md: malformed row: " + line)
		}
		rows = append(rows, specRow{
			Key:   strings.Trim(strings.TrimSpace(cells[0]), "`"),
			Ctx:   cellItems(cells[1]),
			Funcs: cellItems(cells[2]),
		})
	}
	return rows
}

type spec struct {
	rows     []specRow
	byKey    map[string]specRow
	contexts []string // every context name of the table, lower case, sorted
	funcs    []string // every special function of the table as written, sorted by lower case
}

func loadSpec() *spec {
	s := &spec{rows: parseSpecTable(), byKey: map[string]specRow{}}
	cs, fs := map[string]bool{}, map[string]string{}
	for _, r := range s.rows {
		s.byKey[r.Key] = r
		for _, c := range r.Ctx {
			cs[strings.ToLower(c)] = true
		}
		for _, f := range r.Funcs {
			fs[strings.ToLower(f)] = f
		}
	}
	s.contexts = hx.SortedKeys(cs)
	for _, k := range hx.SortedKeys(fs) {
		s.funcs = append(s.funcs, fs[k])
	}
	return s
}

// keyFor: the longest listed key that is a prefix (by dotted segments) of the
// canonical path; "" when there is none (then nothing is allowed).
func (s *spec) keyFor(canon string) string {
	best := ""
	for _, r := range s.rows {
		if canon == r.Key || strings.HasPrefix(canon, r.Key+".") {
			if len(r.Key) > len(best) {
				best = r.Key
			}
		}
	}
	return best
}

func containsFold(xs []string, x string) bool {
	for _, y := range xs {
		if strings.EqualFold(x, y) {
			return true
		}
	}
	return false
}

// allowed: does the documentation list the context / special function for the key?
func (s *spec) ctxAllowed(key, name string) bool {
	r, ok := s.byKey[key]
	return ok && containsFold(r.Ctx, name)
}

func (s *spec) fnAllowed(key, name string) bool {
	r, ok := s.byKey[key]
	return ok && containsFold(r.Funcs, name)
}

// transcribe renders coq/Wf/SpecAvailability.v from the committed table.
func transcribe() string {
	rows := parseSpecTable()
	var b strings.Builder
	b.WriteString("(* Wf/SpecAvailability.v — GitHub's \"Context availability\" table, the ground truth of C12.\n" +
		"   Transcribed ONCE (harness/cmd/c12 -transcribe) from the 34 rows of the documentation page of\n" +
		"   which the repository carries a verbatim copy (scripts/generate-availability/testdata/ok.md,\n" +
		"   lines 93-128, kept as harness/cmd/c12/spec_table.md) and committed; it is NOT regenerated from\n" +
		"   the repository and shares nothing with availability.go.  Rows, names and their order are as\n" +
		"   the documentation writes them (`None` = no special function); [table] is the canonical form\n" +
		"   (rows sorted by key, names lower-cased and sorted) in which tables are compared as finite maps.\n" +
		"   Every run checks that this file still is the transcription of spec_table.md. *)\n")
	b.WriteString("From AL Require Import Wf.AvailCanon.\n\n")
	b.WriteString("Definition rows : list (string * (list string * list string)) := [\n")
	for i, r := range rows {
		sep := ";"
		if i == len(rows)-1 {
			sep = ""
		}
		fmt.Fprintf(&b, "  (%s, (%s, %s))%s\n", hx.CoqStr(r.Key), coqStrs(r.Ctx), coqStrs(r.Funcs), sep)
	}
	b.WriteString("].\n\n")
	b.WriteString("Definition table := canon rows.\n")
	return b.String()
}

func sortedLower(xs []string) []string {
	out := make([]string, len(xs))
	for i, x := range xs {
		out[i] = strings.ToLower(x)
	}
	sort.Strings(out)
	return out
}
