package main

// Seeded deep expressions (beside the exhaustive enumeration): several names
// in one expression, nested to depth 4 under every operator, in random letter
// case, planted at a random position.  Every variable occurrence and every
// call of a special function is judged on its own, by its token column.

import (
	"fmt"
	"strings"

	"github.com/rhysd/actionlint"
	"verifharness/hx"
)

type occ struct {
	Name string `json:"name"`
	IsFn bool   `json:"is_function"`
	Col  int    `json:"column"` // column of the token inside the expression source
}

func recase(r *hx.Rng, s string) string {
	switch r.Intn(4) {
	case 0:
		return strings.ToUpper(s)
	case 1:
		b := []byte(s)
		for i := range b {
			if r.Chance(1, 2) {
				b[i] = strings.ToUpper(string(b[i]))[0]
			}
		}
		return string(b)
	}
	return s
}

func genExpr(r *hx.Rng, sp *spec, depth int) string {
	leaf := func() string {
		switch r.Intn(10) {
		case 0:
			return "'s'"
		case 1:
			return "1"
		case 2, 3, 4:
			f := sp.funcs[r.Intn(len(sp.funcs))]
			if strings.EqualFold(f, "hashFiles") {
				return recase(r, f) + "('a', 'b')"
			}
			return recase(r, f) + "()"
		default:
			return recase(r, sp.contexts[r.Intn(len(sp.contexts))])
		}
	}
	if depth == 0 || r.Chance(1, 5) {
		return leaf()
	}
	a := func() string {
		e := genExpr(r, sp, depth-1)
		if e == "1" {
			e = "(1)" // `1.foo` / `1.*` would lex as a malformed float
		}
		return e
	}
	switch r.Intn(12) {
	case 11:
		// names inside the argument list of a special function (which may itself not be allowed at the key)
		return recase(r, "hashFiles") + "(" + a() + ", format('{0}', " + a() + "))"
	case 0:
		return "format('{0} {1}', " + a() + ", " + a() + ")"
	case 1:
		return recase(r, "toJSON") + "(" + a() + ")"
	case 2:
		return "!" + a()
	case 3:
		return "(" + a() + " && " + a() + ")"
	case 4:
		return "(" + a() + " || " + a() + ")"
	case 5:
		return "(" + a() + " == " + a() + ")"
	case 6:
		return "(" + a() + " < " + a() + ")"
	case 7:
		return a() + ".foo"
	case 8:
		return a() + ".*"
	case 9:
		return "fromJSON('{}')[" + a() + "]"
	default:
		return "format('{0}', " + a() + ")"
	}
}

func occurrences(sp *spec, n actionlint.ExprNode, out *[]occ) {
	switch n := n.(type) {
	case *actionlint.VariableNode:
		*out = append(*out, occ{Name: n.Token().Value, Col: n.Token().Column})
	case *actionlint.ObjectDerefNode:
		occurrences(sp, n.Receiver, out)
	case *actionlint.ArrayDerefNode:
		occurrences(sp, n.Receiver, out)
	case *actionlint.IndexAccessNode:
		occurrences(sp, n.Index, out)
		occurrences(sp, n.Operand, out)
	case *actionlint.NotOpNode:
		occurrences(sp, n.Operand, out)
	case *actionlint.CompareOpNode:
		occurrences(sp, n.Left, out)
		occurrences(sp, n.Right, out)
	case *actionlint.LogicalOpNode:
		occurrences(sp, n.Left, out)
		occurrences(sp, n.Right, out)
	case *actionlint.FuncCallNode:
		if containsFold(sp.funcs, n.Callee) {
			*out = append(*out, occ{Name: n.Callee, IsFn: true, Col: n.Token().Column})
		}
		for _, a := range n.Args {
			occurrences(sp, a, out)
		}
	}
}

func makeDeepCase(r *hx.Rng, sp *spec, routed []int) (lintCase, error) {
	pi := routed[r.Intn(len(routed))]
	p := positions[pi]
	e := genExpr(r, sp, 4)
	if p.Form == 1 {
		e = "true && (" + e + ")" // a plain YAML scalar must not start with ! ' or (
	}
	value, src, off := plantFor(p.Form, e)
	rd := render(p.Variant, p.ID, value)
	c := lintCase{PosIdx: pi, PosID: p.ID, Form: p.Form, Canon: p.Canon, Emb: -1, Expr: e, Workflow: rd.Text, Line: rd.Line, ColBase: rd.Col + off, src: src}
	n, err := parseExpr(src)
	if err != nil {
		return c, err
	}
	occurrences(sp, n, &c.Occs)
	return c, nil
}

// judgeDeep: every occurrence gets exactly the verdict the table demands and
// nothing else is reported.
func judgeDeep(sp *spec, c *lintCase, res caseResult) []failure {
	key := sp.keyFor(c.Canon)
	used := make([]bool, len(res.diags))
	var fails []failure
	for _, o := range c.Occs {
		demanded := !sp.ctxAllowed(key, o.Name)
		if o.IsFn {
			demanded = !sp.fnAllowed(key, o.Name)
		}
		observed := false
		for i, d := range res.diags {
			if d.Col == o.Col && strings.EqualFold(d.Name, o.Name) && ((o.IsFn && d.Kind == 2) || (!o.IsFn && (d.Kind == 1 || d.Kind == 3))) {
				observed, used[i] = true, true
			}
		}
		if demanded != observed {
			what := map[bool]string{false: "context", true: "special function"}[o.IsFn]
			verb := map[bool]string{true: "is NOT reported although GitHub's table does not list it for", false: "is reported although GitHub's table lists it for"}[demanded]
			fails = append(fails, failure{Kind: "verdict", Key: fmt.Sprintf("verdict:%s:%s", c.key(), strings.ToLower(o.Name)),
				What: fmt.Sprintf("%s %q (column %d of the deep expression %q) at %s %s key %q (canonical path %s)", what, o.Name, o.Col, c.Expr, c.key(), verb, key, c.Canon),
				Case: *c, SpecKey: key, Demanded: demanded, Observed: observed, Diags: res.diags})
		}
	}
	for i, d := range res.diags {
		if !used[i] {
			fails = append(fails, failure{Kind: "spurious", Key: fmt.Sprintf("spurious:%s:%d:%s", c.key(), d.Kind, strings.ToLower(d.Name)),
				What: fmt.Sprintf("the deep expression %q at %s draws an availability diagnostic that belongs to no occurrence: %v", c.Expr, c.key(), d),
				Case: *c, SpecKey: key, Diags: res.diags})
		}
	}
	return fails
}
