package main

// Translator part (T) of the C12 check: what the code says *now*.
//   - the availability table: WorkflowKeyAvailability evaluated on every key
//     that availability.go mentions (case labels of the switch and the
//     allWorkflowKeys literal, found with go/parser) and on one unknown key;
//   - SpecialFunctionNames, the names of the global contexts and functions;
//   - every `rule.check*(...)` call of rule_expression.go with the workflow
//     key it passes, every statement computing a key, extracted with go/ast.

import (
	"bytes"
	"fmt"
	"go/ast"
	"go/parser"
	"go/printer"
	"go/token"
	"os"
	"path/filepath"
	"sort"
	"strconv"
	"strings"

	"github.com/rhysd/actionlint"
	"verifharness/hx"
)

const unknownKey = "jobs.<job_id>.verif-unknown-key"

func nodeText(fset *token.FileSet, n ast.Node) string {
	var b bytes.Buffer
	printer.Fprint(&b, fset, n)
	return strings.Join(strings.Fields(b.String()), " ")
}

// keysOfAvailabilityGo returns every string literal that is a case label of a
// switch in WorkflowKeyAvailability or an element of allWorkflowKeys.
func keysOfAvailabilityGo(repo string) ([]string, error) {
	fset := token.NewFileSet()
	f, err := parser.ParseFile(fset, filepath.Join(repo, "availability.go"), nil, 0)
	if err != nil {
		return nil, err
	}
	set := map[string]bool{}
	add := func(e ast.Expr) {
		if l, ok := e.(*ast.BasicLit); ok && l.Kind == token.STRING {
			if s, err := strconv.Unquote(l.Value); err == nil {
				set[s] = true
			}
		}
	}
	for _, d := range f.Decls {
		switch d := d.(type) {
		case *ast.FuncDecl:
			if d.Name.Name != "WorkflowKeyAvailability" || d.Body == nil {
				continue
			}
			ast.Inspect(d.Body, func(n ast.Node) bool {
				if cc, ok := n.(*ast.CaseClause); ok {
					for _, e := range cc.List {
						add(e)
					}
				}
				return true
			})
		case *ast.GenDecl:
			for _, sp := range d.Specs {
				vs, ok := sp.(*ast.ValueSpec)
				if !ok || len(vs.Names) != 1 || vs.Names[0].Name != "allWorkflowKeys" {
					continue
				}
				for _, v := range vs.Values {
					if cl, ok := v.(*ast.CompositeLit); ok {
						for _, e := range cl.Elts {
							add(e)
						}
					}
				}
			}
		}
	}
	return hx.SortedKeys(set), nil
}

func coqStrs(xs []string) string {
	q := make([]string, len(xs))
	for i, x := range xs {
		q[i] = hx.CoqStr(x)
	}
	return hx.CoqList(q)
}

func sortedCopy(xs []string) []string {
	c := append([]string{}, xs...)
	sort.Strings(c)
	return c
}

func genAvailability(repo string) (string, error) {
	keys, err := keysOfAvailabilityGo(repo)
	if err != nil {
		return "", err
	}
	var b strings.Builder
	b.WriteString("(* GENERATED on every run by harness/cmd/c12 from the working tree of the repository:\n" +
		"   actionlint.WorkflowKeyAvailability evaluated on every key mentioned in availability.go\n" +
		"   (case labels + allWorkflowKeys, found with go/parser) and on one unknown key;\n" +
		"   SpecialFunctionNames; names of BuiltinGlobalVariableTypes and BuiltinFuncSignatures.\n" +
		"   Do not edit. *)\n")
	b.WriteString("From AL Require Import Wf.AvailCanon.\n\n")
	b.WriteString("Definition rows : list (string * (list string * list string)) := [\n")
	for i, k := range keys {
		ctx, sp := actionlint.WorkflowKeyAvailability(k)
		sep := ";"
		if i == len(keys)-1 {
			sep = ""
		}
		fmt.Fprintf(&b, "  (%s, (%s, %s))%s\n", hx.CoqStr(k), coqStrs(ctx), coqStrs(sp), sep)
	}
	b.WriteString("].\n\n")
	uc, us := actionlint.WorkflowKeyAvailability(unknownKey)
	fmt.Fprintf(&b, "Definition unknown_key : string := %s.\n", hx.CoqStr(unknownKey))
	fmt.Fprintf(&b, "Definition unknown : list string * list string := (%s, %s).\n", coqStrs(uc), coqStrs(us))
	ec, es := actionlint.WorkflowKeyAvailability("")
	fmt.Fprintf(&b, "Definition empty_key : list string * list string := (%s, %s).\n\n", coqStrs(ec), coqStrs(es))
	names := hx.SortedKeys(actionlint.SpecialFunctionNames)
	b.WriteString("Definition special_rows : list (string * list string) := [\n")
	for i, n := range names {
		sep := ";"
		if i == len(names)-1 {
			sep = ""
		}
		fmt.Fprintf(&b, "  (%s, %s)%s\n", hx.CoqStr(n), coqStrs(sortedCopy(actionlint.SpecialFunctionNames[n])), sep)
	}
	b.WriteString("].\n\n")
	fmt.Fprintf(&b, "Definition global_vars : list string := %s.\n", coqStrs(hx.SortedKeys(actionlint.BuiltinGlobalVariableTypes)))
	fmt.Fprintf(&b, "Definition func_names : list string := %s.\n\n", coqStrs(hx.SortedKeys(actionlint.BuiltinFuncSignatures)))
	b.WriteString("Definition table := canon rows.\n")
	return b.String(), nil
}

type site struct {
	Fn, Callee, Arg string
	Occ             int
	KeyKind         string // L literal, P the enclosing workflowKey parameter, E other expression, N callee takes no key
	Key             string
	Extra           []string
}

func (s site) coq() string {
	var k string
	switch s.KeyKind {
	case "L":
		k = "(KL " + hx.CoqStr(s.Key) + ")"
	case "P":
		k = "KP"
	case "E":
		k = "(KE " + hx.CoqStr(s.Key) + ")"
	default:
		k = "KN"
	}
	return fmt.Sprintf("mk_site %s %s %s %d %s %s", hx.CoqStr(s.Fn), hx.CoqStr(s.Callee), hx.CoqStr(s.Arg), s.Occ, k, coqStrs(s.Extra))
}

func extractSites(repo string) ([]site, [][2]string, error) {
	fset := token.NewFileSet()
	f, err := parser.ParseFile(fset, filepath.Join(repo, "rule_expression.go"), nil, 0)
	if err != nil {
		return nil, nil, err
	}
	keyIdx := map[string]int{} // method -> index of the workflowKey parameter, -1 if none
	var decls []*ast.FuncDecl
	for _, d := range f.Decls {
		fd, ok := d.(*ast.FuncDecl)
		if !ok || fd.Recv == nil || fd.Body == nil {
			continue
		}
		decls = append(decls, fd)
		idx, i := -1, 0
		for _, fl := range fd.Type.Params.List {
			for _, n := range fl.Names {
				if n.Name == "workflowKey" {
					idx = i
				}
				i++
			}
		}
		keyIdx[fd.Name.Name] = idx
	}
	var sites []site
	var stmts [][2]string
	for _, fd := range decls {
		fn := fd.Name.Name
		hasParam := keyIdx[fn] >= 0
		occ := map[string]int{}
		classify := func(e ast.Expr) (string, string) {
			if l, ok := e.(*ast.BasicLit); ok && l.Kind == token.STRING {
				s, _ := strconv.Unquote(l.Value)
				return "L", s
			}
			if id, ok := e.(*ast.Ident); ok && id.Name == "workflowKey" && hasParam {
				return "P", ""
			}
			return "E", nodeText(fset, e)
		}
		ast.Inspect(fd.Body, func(n ast.Node) bool {
			switch n := n.(type) {
			case *ast.AssignStmt:
				t := nodeText(fset, n)
				if strings.Contains(t, "orkflowKey") {
					stmts = append(stmts, [2]string{fn, t})
				}
			case *ast.IfStmt:
				t := nodeText(fset, n.Cond)
				if strings.Contains(t, "orkflowKey") {
					stmts = append(stmts, [2]string{fn, "if " + t})
				}
			case *ast.ExprStmt:
				t := nodeText(fset, n)
				if strings.Contains(t, "Availability(") {
					stmts = append(stmts, [2]string{fn, t})
				}
			case *ast.CallExpr:
				var callee string
				isRule := false
				switch fun := n.Fun.(type) {
				case *ast.SelectorExpr:
					if x, ok := fun.X.(*ast.Ident); ok && x.Name == "rule" {
						if _, declared := keyIdx[fun.Sel.Name]; declared && strings.HasPrefix(fun.Sel.Name, "check") {
							callee, isRule = fun.Sel.Name, true
						}
					}
				case *ast.Ident:
					if fun.Name == "WorkflowKeyAvailability" {
						callee = fun.Name
					}
				}
				if callee == "" {
					return true
				}
				s := site{Fn: fn, Callee: callee, KeyKind: "N", Extra: []string{}}
				if len(n.Args) > 0 {
					s.Arg = nodeText(fset, n.Args[0])
				}
				s.Occ = occ[s.Arg]
				occ[s.Arg]++
				if isRule {
					if idx := keyIdx[callee]; idx >= 0 && idx < len(n.Args) {
						s.KeyKind, s.Key = classify(n.Args[idx])
						for _, a := range n.Args[idx+1:] {
							if l, ok := a.(*ast.BasicLit); ok && l.Kind == token.STRING {
								v, _ := strconv.Unquote(l.Value)
								s.Extra = append(s.Extra, v)
							}
						}
					}
				} else if len(n.Args) > 0 {
					s.KeyKind, s.Key = classify(n.Args[0])
				}
				sites = append(sites, s)
			}
			return true
		})
	}
	// drop calls that neither carry a key nor lead to a function with sites of
	// its own (checkObjectTy, checkTemplateEvaluatedType, ...): they route nothing
	hasSites := map[string]bool{}
	for _, s := range sites {
		hasSites[s.Fn] = true
	}
	kept := sites[:0]
	for _, s := range sites {
		if s.KeyKind == "N" && !hasSites[s.Callee] {
			continue
		}
		kept = append(kept, s)
	}
	return kept, stmts, nil
}

func genRouteSites(repo string) (string, []site, error) {
	sites, stmts, err := extractSites(repo)
	if err != nil {
		return "", nil, err
	}
	var b strings.Builder
	b.WriteString("(* GENERATED on every run by harness/cmd/c12 (go/parser + go/ast over rule_expression.go of the\n" +
		"   repository's working tree): every call rule.check*(...) of a method declared in that file and\n" +
		"   every call of WorkflowKeyAvailability, in source order, with the enclosing function, the text\n" +
		"   of the first argument, the occurrence index of that (function, argument) pair, the workflow\n" +
		"   key argument (KL literal / KP the enclosing function's workflowKey parameter / KE another\n" +
		"   expression, as source text / KN the callee takes no key) and the string literals passed after\n" +
		"   the key; key_stmts = the statements and conditions that mention a workflow key.  Do not edit. *)\n")
	b.WriteString("From AL Require Import Wf.AvailSite.\n\n")
	b.WriteString("Definition sites : list site := [\n")
	for i, s := range sites {
		sep := ";"
		if i == len(sites)-1 {
			sep = ""
		}
		fmt.Fprintf(&b, "  %s%s\n", s.coq(), sep)
	}
	b.WriteString("].\n\n")
	b.WriteString("Definition key_stmts : list (string * string) := [\n")
	for i, s := range stmts {
		sep := ";"
		if i == len(stmts)-1 {
			sep = ""
		}
		fmt.Fprintf(&b, "  (%s, %s)%s\n", hx.CoqStr(s[0]), hx.CoqStr(s[1]), sep)
	}
	b.WriteString("].\n")
	return b.String(), sites, nil
}

func writeGen(repo, dir string) error {
	if err := os.MkdirAll(dir, 0o755); err != nil {
		return err
	}
	a, err := genAvailability(repo)
	if err != nil {
		return err
	}
	if err := os.WriteFile(filepath.Join(dir, "GenAvailability.v"), []byte(a), 0o644); err != nil {
		return err
	}
	r, _, err := genRouteSites(repo)
	if err != nil {
		return err
	}
	return os.WriteFile(filepath.Join(dir, "GenRouteSites.v"), []byte(r), 0o644)
}
