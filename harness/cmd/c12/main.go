// Command c12: translator, exhaustive correspondence run and property oracle
// for C12 (context and special-function availability follows GitHub's table).
//
//	c12 -gen DIR -repo REPO      write GenAvailability.v / GenRouteSites.v
//	c12 -transcribe              print coq/Wf/SpecAvailability.v from spec_table.md
//	c12 -out DIR [-tier t]       exhaustive run: cases.txt, sources.jsonl, summary.json
//	c12 -replay FILE             re-evaluate one recorded failing input
package main

import (
	"encoding/json"
	"flag"
	"fmt"
	"io"
	"os"
	"path/filepath"
	"sort"
	"strings"
	"sync"

	"github.com/rhysd/actionlint"
	"verifharness/hx"
)

// ---------------------------------------------------------------- rendering

type rendered struct {
	Text    string
	Line    int // 1-based line of the planted marker
	Col     int // 1-based column where the planted value starts
	Planted bool
}

func baseOf(id string) string {
	for _, p := range positions {
		if p.ID == id {
			return p.Base
		}
	}
	panic("no position for marker " + id)
}

// render instantiates a template; the marker `plant` (if not empty) gets
// `value`, every other marker its base value.
func render(variant int, plant, value string) rendered {
	var out []string
	r := rendered{}
	for i, line := range strings.Split(templates[variant], "\n") {
		for {
			a := strings.Index(line, "«")
			if a < 0 {
				break
			}
			b := strings.Index(line, "»")
			id := line[a+len("«") : b]
			v := baseOf(id)
			if id == plant {
				v = value
				r.Line, r.Col, r.Planted = i+1, a+1, true // template lines are ASCII before a marker
			}
			line = line[:a] + v + line[b+len("»"):]
		}
		out = append(out, line)
	}
	r.Text = strings.Join(out, "\n")
	return r
}

// ---------------------------------------------------------------- embeddings

var embNames = []string{"bare", "nested-in-format", "upper-case",
	// thorough tier only:
	"mixed-case", "operand-of-not", "left-of-and-or", "right-of-or", "compared", "format-depth-2", "index-position", "deref-receiver",
	// the placeholder is not the whole value (template positions only; quick: for four contexts):
	"text-before-placeholder", "second-placeholder",
	// text that holds the closing braces `}}` (a Go template, JSON) stands before the placeholder
	"closing-braces-before-placeholder",
	// the name stands inside the brackets of an index access whose operand is a call of unknown type
	"index-into-unknown",
	// a special function called with arguments no overload accepts: whether it may be called at the
	// key does not depend on that (functions only; both tiers)
	"call-with-wrong-arguments"}

const embTextBefore, embSecond, embBraces, embIndexUnknown, embWrongArgs = 11, 12, 13, 14, 15

const quickEmbeddings = 3

func exprFor(name string, isFn bool, emb int) string {
	switch emb {
	case 2:
		name = strings.ToUpper(name)
	case 3:
		name = strings.ToUpper(name[:1]) + strings.ToLower(name[1:2]) + strings.ToUpper(name[2:3]) + name[3:]
	}
	e := name
	if isFn {
		if strings.EqualFold(name, "hashFiles") {
			e = name + "('a')"
		} else {
			e = name + "()"
		}
		if emb == embWrongArgs {
			if strings.EqualFold(name, "hashFiles") {
				e = name + "()"
			} else {
				e = name + "(1, 'x')"
			}
		}
	}
	switch emb {
	case 1:
		return "format('{0}', " + e + ")"
	case 4:
		return "!" + e
	case 5:
		return e + " && true || false"
	case 6:
		return "false || (true && " + e + ")"
	case 7:
		return e + " == 'a'"
	case 8:
		return "format('{0}', format('{0} {1}', 1, " + e + "))"
	case 9:
		return "fromJSON('{}')[" + e + "]"
	case 10:
		return e + ".foo"
	case embIndexUnknown:
		return "fromJSON(format('{0}', 1))[" + e + "]"
	}
	return e
}

// value planted for a form, expression source as the lexer sees it, and the
// column offset of that source relative to the start of the planted value
func plantFor(form int, e string) (value, src string, off int) {
	switch form {
	case 1:
		return e, e + "}}", 0
	case 2:
		return "\"${{ " + e + " }}\"", " " + e + " }}", 4
	}
	return "${{ " + e + " }}", " " + e + " }}", 3
}

// ---------------------------------------------------------------- linting

type diag struct {
	Kind int // 1 context not allowed, 2 function not allowed, 3 undefined variable, 4 undefined function
	Name string
	Line int
	Col  int
}

var classPrefixes = []struct {
	prefix string
	kind   int
}{
	{"context \"", 1},
	{"calling function \"", 2},
	{"undefined variable \"", 3},
	{"undefined function \"", 4},
}

func classify(e *actionlint.Error) (diag, bool) {
	if e.Kind != "expression" {
		return diag{}, false
	}
	for _, c := range classPrefixes {
		if strings.HasPrefix(e.Message, c.prefix) {
			rest := e.Message[len(c.prefix):]
			q := strings.Index(rest, "\"")
			if q < 0 {
				return diag{}, false
			}
			if (c.kind == 1 || c.kind == 2) && !strings.Contains(rest[q:], "is not allowed here") {
				return diag{}, false
			}
			return diag{Kind: c.kind, Name: rest[:q], Line: e.Line, Col: e.Column}, true
		}
	}
	return diag{}, false
}

func isSigError(e *actionlint.Error) bool {
	return e.Kind == "expression" && (strings.HasPrefix(e.Message, "number of arguments is wrong") || strings.Contains(e.Message, "argument of function call is not assignable"))
}

var linter *actionlint.Linter

func lint(text string) ([]*actionlint.Error, error) {
	return linter.Lint("/nonexistent/verif-c12.yml", []byte(text), nil)
}

// ---------------------------------------------------------------- AST -> Coq

func coqTok(t *actionlint.Token) string {
	return fmt.Sprintf("(tp %d%%N %d%%N %d%%N)", t.Offset, t.Line, t.Column)
}

func coqExpr(n actionlint.ExprNode) string {
	switch n := n.(type) {
	case *actionlint.VariableNode:
		// the name as written: the model applies the parser's case folding itself
		return fmt.Sprintf("(EVar %s %s)", coqTok(n.Token()), hx.CoqStr(n.Token().Value))
	case *actionlint.NullNode:
		return fmt.Sprintf("(ENull %s)", coqTok(n.Token()))
	case *actionlint.BoolNode:
		return fmt.Sprintf("(EBool %s %s)", coqTok(n.Token()), hx.CoqBool(n.Value))
	case *actionlint.IntNode:
		return fmt.Sprintf("(EInt %s (%d)%%Z)", coqTok(n.Token()), n.Value)
	case *actionlint.FloatNode:
		return fmt.Sprintf("(EFloat %s %s)", coqTok(n.Token()), hx.CoqStr(n.Token().Value))
	case *actionlint.StringNode:
		return fmt.Sprintf("(EStr %s %s)", coqTok(n.Token()), hx.CoqStr(n.Value))
	case *actionlint.ObjectDerefNode:
		return fmt.Sprintf("(EDeref %s %s)", coqExpr(n.Receiver), hx.CoqStr(n.Property))
	case *actionlint.ArrayDerefNode:
		return fmt.Sprintf("(EArrDeref %s)", coqExpr(n.Receiver))
	case *actionlint.IndexAccessNode:
		return fmt.Sprintf("(EIndex %s %s)", coqExpr(n.Operand), coqExpr(n.Index))
	case *actionlint.NotOpNode:
		return fmt.Sprintf("(ENot %s %s)", coqTok(n.Token()), coqExpr(n.Operand))
	case *actionlint.CompareOpNode:
		ops := map[actionlint.CompareOpNodeKind]string{
			actionlint.CompareOpNodeKindLess: "CLess", actionlint.CompareOpNodeKindLessEq: "CLessEq",
			actionlint.CompareOpNodeKindGreater: "CGreater", actionlint.CompareOpNodeKindGreaterEq: "CGreaterEq",
			actionlint.CompareOpNodeKindEq: "CEq", actionlint.CompareOpNodeKindNotEq: "CNotEq"}
		return fmt.Sprintf("(ECmp %s %s %s)", ops[n.Kind], coqExpr(n.Left), coqExpr(n.Right))
	case *actionlint.LogicalOpNode:
		op := "LAnd"
		if n.Kind == actionlint.LogicalOpNodeKindOr {
			op = "LOr"
		}
		return fmt.Sprintf("(ELog %s %s %s)", op, coqExpr(n.Left), coqExpr(n.Right))
	case *actionlint.FuncCallNode:
		args := make([]string, len(n.Args))
		for i, a := range n.Args {
			args[i] = coqExpr(a)
		}
		return fmt.Sprintf("(ECall %s %s %s)", coqTok(n.Token()), hx.CoqStr(n.Callee), hx.CoqList(args))
	}
	panic(fmt.Sprintf("unknown expression node %T", n))
}

func parseExpr(src string) (actionlint.ExprNode, error) {
	n, err := actionlint.NewExprParser().Parse(actionlint.NewExprLexer(src))
	if err != nil {
		return nil, fmt.Errorf("%s", err.Message)
	}
	return n, nil
}

// ---------------------------------------------------------------- cases

type lintCase struct {
	PosIdx   int    `json:"pos_index"`
	PosID    string `json:"position"`
	Form     int    `json:"form"`
	Canon    string `json:"canonical_path"`
	Name     string `json:"name"`
	IsFn     bool   `json:"is_function"`
	Emb      int    `json:"embedding"`
	Expr     string `json:"expression"`
	Workflow string `json:"workflow,omitempty"`
	Line     int    `json:"line"`
	ColBase  int    `json:"col_base"`
	Occs     []occ  `json:"occurrences,omitempty"` // deep (seeded) cases only
	src      string
}

type caseResult struct {
	diags    []diag // availability-class diagnostics on the planted line, columns relative to the expression source
	sigErr   bool
	reported bool
	spurious []diag
	err      error
}

// acceptsText: the position holds a string template (text around a placeholder is fine there);
// bool / number positions and whole-section expressions demand exactly one placeholder.  Probed
// with constant placeholders on the current tree.
var acceptsTextMemo = map[int]bool{}

func acceptsText(pi int) bool {
	if v, ok := acceptsTextMemo[pi]; ok {
		return v
	}
	p := positions[pi]
	ok := p.Form == 0
	for _, v := range []string{"v-${{ 1 }}", "${{ 'x' }}-${{ 1 }}", "a }} ${{ 1 }}"} {
		if !ok {
			break
		}
		r := render(p.Variant, p.ID, v)
		errs, err := lint(r.Text)
		if err != nil || !r.Planted {
			ok = false
			break
		}
		for _, e := range errs {
			if e.Line == r.Line {
				ok = false
			}
		}
	}
	acceptsTextMemo[pi] = ok
	return ok
}

func makeCase(pi int, name string, isFn bool, emb int) lintCase {
	p := positions[pi]
	e := exprFor(name, isFn, emb)
	if p.Form == 1 && strings.HasPrefix(e, "!") {
		e = "true && " + e // a plain YAML scalar cannot start with `!` (it would be a tag)
	}
	value, src, off := plantFor(p.Form, e)
	if p.Form == 0 && (emb < embTextBefore || acceptsText(pi)) {
		switch emb {
		case embTextBefore:
			value, off = "v-"+value, off+2
		case embSecond:
			value, off = "${{ 'x' }}-"+value, off+11
		case embBraces:
			value, off = "a }} "+value, off+5
		}
	}
	r := render(p.Variant, p.ID, value)
	if !r.Planted {
		panic("marker not found: " + p.ID)
	}
	return lintCase{PosIdx: pi, PosID: p.ID, Form: p.Form, Canon: p.Canon, Name: name, IsFn: isFn, Emb: emb, Expr: e,
		Workflow: r.Text, Line: r.Line, ColBase: r.Col + off, src: src}
}

func runCase(c *lintCase) caseResult {
	errs, err := lint(c.Workflow)
	res := caseResult{err: err}
	if err != nil {
		return res
	}
	for _, e := range errs {
		if e.Line != c.Line {
			continue
		}
		if isSigError(e) {
			res.sigErr = true
		}
		d, ok := classify(e)
		if !ok {
			continue
		}
		d.Col = d.Col - c.ColBase + 1
		res.diags = append(res.diags, d)
		match := strings.EqualFold(d.Name, c.Name)
		switch {
		case !c.IsFn && match && (d.Kind == 1 || d.Kind == 3):
			res.reported = true
		case c.IsFn && match && d.Kind == 2:
			res.reported = true
		default:
			res.spurious = append(res.spurious, d)
		}
	}
	sort.Slice(res.diags, func(i, j int) bool {
		a, b := res.diags[i], res.diags[j]
		if a.Kind != b.Kind {
			return a.Kind < b.Kind
		}
		return a.Col < b.Col
	})
	return res
}

// isRouted: does a malformed placeholder planted at the position draw a
// diagnostic of the expression rule there?  (Only consulted for the positions
// marked MaybeUnrouted.)
func isRouted(pi int) bool {
	p := positions[pi]
	r := render(p.Variant, p.ID, "${{ 1 + }}")
	errs, err := lint(r.Text)
	hx.Must(err)
	for _, e := range errs {
		if e.Line == r.Line && e.Kind == "expression" {
			return true
		}
	}
	return false
}

type failure struct {
	What     string   `json:"what"`
	Key      string   `json:"key"`
	Kind     string   `json:"kind"` // verdict | spurious | baseline | table
	Case     lintCase `json:"case"`
	SpecKey  string   `json:"spec_key"`
	Demanded bool     `json:"demanded_reported"`
	Observed bool     `json:"observed_reported"`
	Diags    []diag   `json:"diagnostics_at_position,omitempty"`
}

func (c *lintCase) key() string {
	k := c.PosID
	if c.Form == 1 {
		k += "(bare-if)"
	}
	return k
}

func judge(sp *spec, c *lintCase, res caseResult) (demanded bool, specKey string) {
	specKey = sp.keyFor(c.Canon)
	if c.IsFn {
		return !sp.fnAllowed(specKey, c.Name), specKey
	}
	return !sp.ctxAllowed(specKey, c.Name), specKey
}

// ---------------------------------------------------------------- main

func modelTerm(c *lintCase, res caseResult) (string, error) {
	n, err := parseExpr(c.src)
	if err != nil {
		return "", err
	}
	p := positions[c.PosIdx]
	obs := []string{}
	for _, d := range res.diags {
		obs = append(obs, fmt.Sprintf("[%d%%N; %d%%N]", d.Kind, max0(d.Col)))
	}
	return fmt.Sprintf("((%s, %s, %d, %s, %s), %s)", hx.CoqStr(p.RootFn), hx.CoqStr(p.RootArg), p.RootOcc, coqStrs(p.Subs), coqExpr(n), hx.CoqList(obs)), nil
}

func max0(x int) int {
	if x < 0 {
		return 0
	}
	return x
}

func tableOracle(sp *spec, sum *hx.Summary) {
	// the exported function itself, key by key, against the documentation
	for _, r := range sp.rows {
		ctx, fns := actionlint.WorkflowKeyAvailability(r.Key)
		for _, c := range sp.contexts {
			sum.Evaluations++
			if got, want := containsExact(ctx, c), sp.ctxAllowed(r.Key, c); got != want {
				sum.OracleFails = append(sum.OracleFails, failure{Kind: "table", Key: "table:" + r.Key + ":" + c, SpecKey: r.Key,
					What:     fmt.Sprintf("WorkflowKeyAvailability(%q): context %q listed=%v, GitHub's table says %v", r.Key, c, got, want),
					Demanded: !want, Observed: !got, Case: lintCase{Name: c, Canon: r.Key}})
			}
		}
		for _, f := range sp.funcs {
			sum.Evaluations++
			if got, want := containsExact(fns, strings.ToLower(f)), sp.fnAllowed(r.Key, f); got != want {
				sum.OracleFails = append(sum.OracleFails, failure{Kind: "table", Key: "table:" + r.Key + ":" + f, SpecKey: r.Key,
					What:     fmt.Sprintf("WorkflowKeyAvailability(%q): special function %q listed=%v, GitHub's table says %v", r.Key, f, got, want),
					Demanded: !want, Observed: !got, Case: lintCase{Name: f, IsFn: true, Canon: r.Key}})
			}
		}
		for _, x := range append(append([]string{}, ctx...), fns...) {
			if !containsExact(sp.contexts, x) && !containsFold(sp.funcs, x) {
				sum.OracleFails = append(sum.OracleFails, failure{Kind: "table", Key: "table:" + r.Key + ":" + x, SpecKey: r.Key,
					What: fmt.Sprintf("WorkflowKeyAvailability(%q) lists %q, which GitHub's table never mentions", r.Key, x), Case: lintCase{Name: x, Canon: r.Key}})
			}
		}
	}
	for _, k := range []string{"", unknownKey, "jobs.<job_id>", "jobs.<job_id>.steps.shell", "jobs", "name", "JOBS.<JOB_ID>.IF"} {
		sum.Evaluations++
		ctx, fns := actionlint.WorkflowKeyAvailability(k)
		if len(ctx) != 0 || len(fns) != 0 {
			sum.OracleFails = append(sum.OracleFails, failure{Kind: "table", Key: "table:" + k + ":unlisted", SpecKey: "",
				What: fmt.Sprintf("WorkflowKeyAvailability(%q) allows %v %v although the key is not in GitHub's table", k, ctx, fns), Case: lintCase{Canon: k}})
		}
	}
	// SpecialFunctionNames: exactly the functions of the third column, each with exactly its keys
	for _, f := range sp.funcs {
		want := []string{}
		for _, r := range sp.rows {
			if containsFold(r.Funcs, f) {
				want = append(want, r.Key)
			}
		}
		sort.Strings(want)
		got := sortedCopy(actionlint.SpecialFunctionNames[strings.ToLower(f)])
		if strings.Join(got, "|") != strings.Join(want, "|") {
			sum.OracleFails = append(sum.OracleFails, failure{Kind: "table", Key: "special:" + f,
				What: fmt.Sprintf("SpecialFunctionNames[%q] = %v, GitHub's table gives %v", strings.ToLower(f), got, want), Case: lintCase{Name: f, IsFn: true}})
		}
	}
	for f := range actionlint.SpecialFunctionNames {
		if !containsFold(sp.funcs, f) {
			sum.OracleFails = append(sum.OracleFails, failure{Kind: "table", Key: "special:" + f,
				What: fmt.Sprintf("SpecialFunctionNames has %q, which is no special function of GitHub's table", f), Case: lintCase{Name: f, IsFn: true}})
		}
	}
}

func containsExact(xs []string, x string) bool {
	for _, y := range xs {
		if x == y {
			return true
		}
	}
	return false
}

func replay(path string, sp *spec) int {
	b, err := os.ReadFile(path)
	hx.Must(err)
	var f failure
	hx.Must(json.Unmarshal(b, &f))
	switch {
	case f.Kind == "table":
		sum := hx.NewSummary("C12")
		tableOracle(sp, sum)
		for _, x := range sum.OracleFails {
			if x.(failure).Key == f.Key {
				fmt.Println("REPLAY: property violated:", x.(failure).What)
				return 1
			}
		}
		fmt.Println("REPLAY: property holds on this input (", f.Key, ")")
		return 0
	case f.Case.Workflow != "":
		c := f.Case
		if f.Kind == "baseline" {
			errs, err := lint(c.Workflow)
			hx.Must(err)
			bad := 0
			for _, e := range errs {
				if d, ok := classify(e); ok {
					fmt.Printf("  line %d col %d kind %d %q\n", d.Line, d.Col, d.Kind, d.Name)
					bad++
				}
			}
			if bad > 0 {
				fmt.Println("REPLAY: property violated: the clean every-key workflow draws availability diagnostics")
				return 1
			}
			fmt.Println("REPLAY: property holds on this input")
			return 0
		}
		res := runCase(&c)
		hx.Must(res.err)
		if len(c.Occs) > 0 {
			fs := judgeDeep(sp, &c, res)
			fmt.Printf("position %s (canonical path %s, table key %q), deep expression %q at line %d\noccurrences=%v\ndiagnostics=%v\n", c.key(), c.Canon, sp.keyFor(c.Canon), c.Expr, c.Line, c.Occs, res.diags)
			for _, x := range fs {
				fmt.Println("  ", x.What)
			}
			if len(fs) > 0 {
				fmt.Println("REPLAY: property violated")
				return 1
			}
			fmt.Println("REPLAY: property holds on this input")
			return 0
		}
		demanded, key := judge(sp, &c, res)
		fmt.Printf("position %s (canonical path %s, table key %q), %s %q planted as %q at line %d\n", c.key(), c.Canon, key, map[bool]string{false: "context", true: "function"}[c.IsFn], c.Name, c.Expr, c.Line)
		fmt.Printf("demanded reported=%v observed reported=%v diagnostics=%v spurious=%v\n", demanded, res.reported, res.diags, res.spurious)
		if demanded != res.reported || len(res.spurious) > 0 {
			fmt.Println("REPLAY: property violated")
			return 1
		}
		fmt.Println("REPLAY: property holds on this input")
		return 0
	}
	fmt.Println("REPLAY: the file records a broken proof obligation / correspondence without a failing input; run ./check C12 quick")
	return 1
}

func main() {
	out := flag.String("out", "", "output directory")
	gen := flag.String("gen", "", "write GenAvailability.v and GenRouteSites.v into this directory")
	repo := flag.String("repo", "/repo", "repository whose sources are parsed for -gen")
	doTranscribe := flag.Bool("transcribe", false, "print coq/Wf/SpecAvailability.v")
	replayFile := flag.String("replay", "", "replay file")
	seed := flag.Uint64("seed", 1, "PRNG seed of the deep expressions (the enumeration itself is exhaustive)")
	nDeep := flag.Int("n", -1, "number of seeded deep expressions (default: 400 quick, 8000 thorough)")
	tier := flag.String("tier", "quick", "quick: 3 embeddings; thorough: 11 embeddings (both enumerate all positions x names)")
	flag.Parse()

	if *doTranscribe {
		fmt.Print(transcribe())
		return
	}
	if *gen != "" {
		hx.Must(writeGen(*repo, *gen))
		if *out == "" {
			return
		}
	}
	var err error
	linter, err = actionlint.NewLinter(io.Discard, &actionlint.LinterOptions{})
	hx.Must(err)
	sp := loadSpec()
	if *replayFile != "" {
		os.Exit(replay(*replayFile, sp))
	}

	hx.Must(os.MkdirAll(*out, 0o755))
	sum := hx.NewSummary("C12")
	sum.Rule = "EXHAUSTIVE: every scalar value position of the every-key workflows x every context and special function of GitHub's table x embeddings (quick: bare, argument of format(), upper case; thorough: + mixed case, operand of !, of && and ||, of ==, format() at depth 2, index position, receiver of a dereference, placeholder after other text / after another placeholder of the same value / after text holding `}}`), each planted alone into the otherwise clean workflow and linted through NewLinter+Lint; plus seeded deep expressions (several names, depth <= 4, every operator, random letter case; each occurrence judged by its column); plus WorkflowKeyAvailability on every (table key, name) pair and on unlisted keys; non-trivial = a not-allowed / undefined-variable diagnostic is reported at the planted position; distinct = distinct (position, form, name, embedding)"

	// 0. the specification file is the transcription of the committed table
	sum.Extra["spec_rows"] = len(sp.rows)
	sum.Extra["spec_contexts"] = sp.contexts
	sum.Extra["spec_functions"] = sp.funcs
	sum.Extra["spec_transcription"] = transcribe()

	// 1. baseline: the every-key workflows draw no availability diagnostic
	otherBaseline := []string{}
	for v := range templates {
		r := render(v, "", "")
		errs, err := lint(r.Text)
		hx.Must(err)
		sum.Evaluations++
		for _, e := range errs {
			if d, ok := classify(e); ok {
				sum.OracleFails = append(sum.OracleFails, failure{Kind: "baseline", Key: fmt.Sprintf("baseline:%d:%d:%d:%s", v, d.Line, d.Kind, strings.ToLower(d.Name)),
					What: fmt.Sprintf("every-key workflow %d, which only uses contexts where GitHub's table allows them, is reported: %s", v, e.Error()),
					Case: lintCase{Workflow: r.Text, Line: d.Line, Name: d.Name}})
			} else {
				otherBaseline = append(otherBaseline, fmt.Sprintf("variant %d: %s", v, e.Error()))
			}
		}
	}
	sum.Extra["baseline_other_diagnostics"] = otherBaseline

	// 2. exhaustive planting
	var cases []lintCase
	nEmb := quickEmbeddings
	if *tier == "thorough" {
		nEmb = len(embNames)
	}
	unrouted := []string{}
	routed := []int{}
	for pi := range positions {
		if positions[pi].MaybeUnrouted && !isRouted(pi) {
			unrouted = append(unrouted, positions[pi].ID)
			sum.Dist["skipped:position-not-routed-to-the-expression-checker(C03)"] += (len(sp.contexts) + len(sp.funcs)) * nEmb
			continue
		}
		routed = append(routed, pi)
		for _, c := range sp.contexts {
			for emb := 0; emb < nEmb; emb++ {
				cases = append(cases, makeCase(pi, c, false, emb))
			}
		}
		for _, f := range sp.funcs {
			for emb := 0; emb < nEmb; emb++ {
				cases = append(cases, makeCase(pi, f, true, emb))
			}
		}
		// (quick tier too) the index of an access into a value of unknown type
		if nEmb <= embIndexUnknown {
			for _, c := range sp.contexts {
				cases = append(cases, makeCase(pi, c, false, embIndexUnknown))
			}
			for _, f := range sp.funcs {
				cases = append(cases, makeCase(pi, f, true, embIndexUnknown))
			}
		}
		if nEmb <= embWrongArgs {
			for _, f := range sp.funcs {
				cases = append(cases, makeCase(pi, f, true, embWrongArgs))
			}
		}
		if *tier != "thorough" && positions[pi].Form == 0 && acceptsText(pi) {
			for _, c := range sp.contexts {
				if c == "secrets" || c == "env" || c == "github" || c == "runner" {
					cases = append(cases, makeCase(pi, c, false, embTextBefore), makeCase(pi, c, false, embSecond), makeCase(pi, c, false, embBraces))
				}
			}
		}
	}
	nExhaustive := len(cases)
	if *nDeep < 0 {
		*nDeep = 400
		if *tier == "thorough" {
			*nDeep = 8000
		}
	}
	rng := hx.NewRng(*seed)
	for i := 0; i < *nDeep; i++ {
		c, err := makeDeepCase(rng, sp, routed)
		hx.Must(err)
		cases = append(cases, c)
	}
	results := make([]caseResult, len(cases))
	var wg sync.WaitGroup
	ch := make(chan int, 64)
	for w := 0; w < 1; w++ { // one worker: concurrent Lint calls race on the global context types (see docs/C12.md)
		wg.Add(1)
		go func() {
			defer wg.Done()
			for i := range ch {
				results[i] = runCase(&cases[i])
			}
		}()
	}
	for i := range cases {
		ch <- i
	}
	close(ch)
	wg.Wait()

	cf, err := os.Create(filepath.Join(*out, "cases.txt"))
	hx.Must(err)
	defer cf.Close()
	sf, err := os.Create(filepath.Join(*out, "sources.jsonl"))
	hx.Must(err)
	defer sf.Close()
	nontrivial := 0
	for i := range cases {
		c, res := &cases[i], results[i]
		hx.Must(res.err)
		sum.Evaluations++
		if i >= nExhaustive {
			sum.Dist["embedding:seeded-deep-expression"]++
			sum.Dist["deep:occurrences"] += len(c.Occs)
			if res.sigErr {
				sum.Dist["outside-model-domain:signature-error"]++
			}
			fs := judgeDeep(sp, c, res)
			for _, f := range fs {
				sum.OracleFails = append(sum.OracleFails, f)
			}
			if len(res.diags) > 0 {
				nontrivial++
			}
			term, err := modelTerm(c, res)
			hx.Must(err)
			fmt.Fprintln(cf, term)
			small := *c
			small.Workflow = ""
			sb, _ := json.Marshal(small)
			fmt.Fprintln(sf, string(sb))
			if i == nExhaustive {
				sum.Samples = append(sum.Samples, map[string]interface{}{"position": c.key(), "planted": c.Expr, "occurrences": c.Occs, "observed": res.diags})
			}
			continue
		}
		sum.Dist["embedding:"+embNames[c.Emb]]++
		if res.sigErr {
			sum.Dist["outside-model-domain:signature-error"]++
		}
		demanded, specKey := judge(sp, c, res)
		if res.reported {
			nontrivial++
			sum.Dist["reported"]++
		} else {
			sum.Dist["not-reported"]++
		}
		what := map[bool]string{false: "context", true: "special function"}[c.IsFn]
		if demanded != res.reported {
			verb := map[bool]string{true: "is NOT reported although GitHub's table does not list it for", false: "is reported although GitHub's table lists it for"}[demanded]
			sum.OracleFails = append(sum.OracleFails, failure{Kind: "verdict",
				Key:  fmt.Sprintf("verdict:%s:%s", c.key(), strings.ToLower(c.Name)),
				What: fmt.Sprintf("%s %q (%s) at %s %s key %q (canonical path %s)", what, c.Name, embNames[c.Emb], c.key(), verb, specKey, c.Canon),
				Case: *c, SpecKey: specKey, Demanded: demanded, Observed: res.reported, Diags: res.diags})
		} else if len(res.spurious) > 0 {
			sum.OracleFails = append(sum.OracleFails, failure{Kind: "spurious",
				Key:  fmt.Sprintf("spurious:%s:%s:%d:%s", c.key(), strings.ToLower(c.Name), res.spurious[0].Kind, strings.ToLower(res.spurious[0].Name)),
				What: fmt.Sprintf("planting %s %q (%s) at %s draws an availability diagnostic about another name: %v", what, c.Name, embNames[c.Emb], c.key(), res.spurious),
				Case: *c, SpecKey: specKey, Demanded: demanded, Observed: res.reported, Diags: res.diags})
		}
		term, err := modelTerm(c, res)
		hx.Must(err)
		fmt.Fprintln(cf, term)
		small := *c
		small.Workflow = ""
		sb, _ := json.Marshal(small)
		fmt.Fprintln(sf, string(sb))
		if i%997 == 0 && len(sum.Samples) < 6 {
			sum.Samples = append(sum.Samples, map[string]interface{}{"position": c.key(), "name": c.Name, "planted": c.Expr, "table_key": specKey, "demanded_reported": demanded, "observed": res.diags})
		}
	}
	sum.Nontrivial = nontrivial
	sum.Extra["positions"] = len(positions) - len(unrouted)
	sum.Extra["unrouted_positions_skipped"] = unrouted
	sum.Extra["lints"] = len(cases)
	sum.Extra["lints_exhaustive"] = nExhaustive
	sum.Extra["lints_seeded_deep"] = len(cases) - nExhaustive

	// 2'. a placeholder AFTER a placeholder of the same value that already drew a diagnostic: its
	// verdict must not depend on the earlier one.  (The pinned tree stops scanning a value at the first
	// placeholder with a diagnostic: recorded finding, class key `later-placeholder-not-checked`.)
	for _, pi := range routed {
		p := positions[pi]
		if p.Form != 0 || !acceptsText(pi) {
			continue
		}
		key := sp.keyFor(p.Canon)
		bad := ""
		for _, c := range sp.contexts {
			if !sp.ctxAllowed(key, c) {
				bad = c
				break
			}
		}
		if bad == "" {
			continue
		}
		for _, name := range []string{"secrets", "env", "runner", "matrix"} {
			if name == bad {
				continue
			}
			value := "${{ " + bad + " }}-${{ " + name + " }}"
			r := render(p.Variant, p.ID, value)
			errs, err := lint(r.Text)
			if err != nil || !r.Planted {
				continue
			}
			sum.Evaluations++
			sum.Dist["embedding:after-a-diagnosed-placeholder"]++
			col := r.Col + len("${{ "+bad+" }}-${{ ")
			reported, first := false, false
			for _, e := range errs {
				d, ok := classify(e)
				if !ok || e.Line != r.Line {
					continue
				}
				if strings.EqualFold(d.Name, name) && d.Col == col {
					reported = true
				}
				if strings.EqualFold(d.Name, bad) {
					first = true
				}
			}
			demanded := !sp.ctxAllowed(key, name)
			c := lintCase{PosIdx: pi, PosID: p.ID, Canon: p.Canon, Name: name, Expr: value, Workflow: r.Text, Line: r.Line, ColBase: col}
			switch {
			case !first:
				sum.OracleFails = append(sum.OracleFails, failure{Kind: "verdict", Key: "verdict:" + p.ID + ":" + bad, Case: c, SpecKey: key, Demanded: true,
					What: fmt.Sprintf("context %q at %s is NOT reported although GitHub's table does not list it for key %q", bad, p.ID, key)})
			case demanded && !reported:
				sum.OracleFails = append(sum.OracleFails, failure{Kind: "verdict", Key: "later-placeholder-not-checked:context", Case: c, SpecKey: key, Demanded: true,
					What: fmt.Sprintf("context %q in a placeholder after `${{ %s }}` (which is reported) at %s is NOT reported although GitHub's table does not list it for key %q", name, bad, p.ID, key)})
			case !demanded && reported:
				sum.OracleFails = append(sum.OracleFails, failure{Kind: "verdict", Key: "verdict:" + p.ID + ":" + name, Case: c, SpecKey: key, Observed: true,
					What: fmt.Sprintf("context %q in a later placeholder at %s is reported although GitHub's table lists it for key %q", name, p.ID, key)})
			}
		}
	}

	// 3. the exported table function itself
	tableOracle(sp, sum)
	sum.Write(filepath.Join(*out, "summary.json"))
}
