package main

// position: one scalar value position of the every-key workflows.
//
//	Canon  canonical path of the position in the vocabulary of GitHub's table
//	       (written by hand from the workflow syntax; the oracle applies the
//	       longest-listed-prefix rule of DESIGN.md Appendix B to it).
//	Root*  the call site of rule_expression.go the value is routed through, as
//	       the model (coq/Wf/Avail.v) identifies it: enclosing function, text
//	       of the first argument, occurrence index of that (function, argument)
//	       pair in the function; Subs = first-argument texts of the sites in
//	       the structured helpers below it (checkEnv, checkContainer, ...).
//	       Written by hand; a wrong entry shows as a correspondence mismatch.
//	Form   0: value is a template string, planted as ${{ e }};
//	       1: bare `if:` condition, planted as e;
//	       2: mapping key (env variable name), planted as "${{ e }}".
type position struct {
	ID      string
	Variant int
	Canon   string
	RootFn  string
	RootArg string
	RootOcc int
	Subs    []string
	Base    string
	Form    int
	// MaybeUnrouted: on the pinned tree no call site of rule_expression.go
	// receives this value (DESIGN.md Appendix A #2-#4: defects of C03, to be
	// repaired in the repository by C03's fix patches).  Whether the position is
	// routed is probed on every run by planting a malformed placeholder; while
	// it is not, the position is no C12 verdict and is skipped (and counted);
	// once it is, it is checked like every other position, through the call
	// site given here (the one the repaired code is expected to have).
	MaybeUnrouted bool
}

const (
	jb = "jobs.<job_id>."
	st = "jobs.<job_id>.steps."
)

var positions = []position{
	{ID: "name", Canon: "name", RootFn: "VisitWorkflowPre", RootArg: "n.Name", Base: "wf"},
	{ID: "run-name", Canon: "run-name", RootFn: "VisitWorkflowPre", RootArg: "n.RunName", Base: "run"},
	{ID: "on.push.branches", Canon: "on.<event>.branches", RootFn: "checkWebhookEventFilter", RootArg: "f.Values", Base: "main"},
	{ID: "on.push.tags", Canon: "on.<event>.tags", RootFn: "checkWebhookEventFilter", RootArg: "f.Values", Base: "v1"},
	{ID: "on.push.paths", Canon: "on.<event>.paths", RootFn: "checkWebhookEventFilter", RootArg: "f.Values", Base: "src"},
	{ID: "on.push.branches-ignore", Variant: 1, Canon: "on.<event>.branches-ignore", RootFn: "checkWebhookEventFilter", RootArg: "f.Values", Base: "main"},
	{ID: "on.push.tags-ignore", Variant: 1, Canon: "on.<event>.tags-ignore", RootFn: "checkWebhookEventFilter", RootArg: "f.Values", Base: "v1"},
	{ID: "on.pull_request.types", Canon: "on.<event>.types", RootFn: "VisitWorkflowPre", RootArg: "e.Types", Base: "opened"},
	{ID: "on.pull_request.branches-ignore", Canon: "on.<event>.branches-ignore", RootFn: "checkWebhookEventFilter", RootArg: "f.Values", Base: "dev"},
	{ID: "on.pull_request.paths-ignore", Canon: "on.<event>.paths-ignore", RootFn: "checkWebhookEventFilter", RootArg: "f.Values", Base: "docs"},
	{ID: "on.workflow_run.workflows", Canon: "on.workflow_run.workflows", RootFn: "VisitWorkflowPre", RootArg: "e.Workflows", Base: "CI"},
	{ID: "on.schedule.cron", Canon: "on.schedule.cron", RootFn: "VisitWorkflowPre", RootArg: "e.Cron", Base: "'0 0 * * *'"},
	{ID: "on.repository_dispatch.types", Canon: "on.repository_dispatch.types", RootFn: "VisitWorkflowPre", RootArg: "e.Types", RootOcc: 1, Base: "ping"},
	{ID: "on.workflow_dispatch.inputs.description", Canon: "on.workflow_dispatch.inputs.<input_id>.description", RootFn: "VisitWorkflowPre", RootArg: "i.Description", Base: "d"},
	{ID: "on.workflow_dispatch.inputs.required", Canon: "on.workflow_dispatch.inputs.<input_id>.required", RootFn: "VisitWorkflowPre", RootArg: "i.Required", Base: "true"},
	{ID: "on.workflow_dispatch.inputs.default", Canon: "on.workflow_dispatch.inputs.<input_id>.default", RootFn: "VisitWorkflowPre", RootArg: "i.Default", Base: "a"},
	{ID: "on.workflow_dispatch.inputs.options", Canon: "on.workflow_dispatch.inputs.<input_id>.options", RootFn: "VisitWorkflowPre", RootArg: "i.Options", Base: "a"},
	{ID: "on.workflow_call.inputs.description", Canon: "on.workflow_call.inputs.<inputs_id>.description", RootFn: "VisitWorkflowPre", RootArg: "i.Description", RootOcc: 1, Base: "d"},
	{ID: "on.workflow_call.inputs.default", Canon: "on.workflow_call.inputs.<inputs_id>.default", RootFn: "VisitWorkflowPre", RootArg: "i.Default", RootOcc: 1, Base: "x"},
	{ID: "on.workflow_call.secrets.description", Canon: "on.workflow_call.secrets.<secret_id>.description", RootFn: "VisitWorkflowPre", RootArg: "s.Description", Base: "d"},
	{ID: "on.workflow_call.outputs.description", Canon: "on.workflow_call.outputs.<output_id>.description", RootFn: "VisitWorkflowPre", RootArg: "o.Description", Base: "d"},
	{ID: "on.workflow_call.outputs.value", Canon: "on.workflow_call.outputs.<output_id>.value", RootFn: "checkWorkflowCallOutputs", RootArg: "o.Value", Base: "v"},
	{ID: "env.name", Canon: "env.<env_id>", RootFn: "VisitWorkflowPre", RootArg: "n.Env", Subs: []string{"e.Name"}, Base: "A", Form: 2},
	{ID: "env.value", Canon: "env.<env_id>", RootFn: "VisitWorkflowPre", RootArg: "n.Env", Subs: []string{"e.Value"}, Base: "a"},
	{ID: "env.expr", Variant: 1, Canon: "env.<env_id>", RootFn: "VisitWorkflowPre", RootArg: "n.Env", Subs: []string{"env.Expression"}, Base: "${{ fromJSON('{}') }}"},
	{ID: "defaults.run.shell", Canon: "defaults.run.shell", RootFn: "VisitWorkflowPre", RootArg: "n.Defaults", Subs: []string{"d.Run.Shell"}, Base: "bash"},
	{ID: "defaults.run.working-directory", Canon: "defaults.run.working-directory", RootFn: "VisitWorkflowPre", RootArg: "n.Defaults", Subs: []string{"d.Run.WorkingDirectory"}, Base: "dir"},
	{ID: "concurrency.group", Canon: "concurrency.group", RootFn: "VisitWorkflowPre", RootArg: "n.Concurrency", Subs: []string{"c.Group"}, Base: "g"},
	{ID: "concurrency.cancel-in-progress", Canon: "concurrency.cancel-in-progress", RootFn: "VisitWorkflowPre", RootArg: "n.Concurrency", Subs: []string{"c.CancelInProgress"}, Base: "true"},
	{ID: "concurrency.scalar", Variant: 1, Canon: "concurrency", RootFn: "VisitWorkflowPre", RootArg: "n.Concurrency", Subs: []string{"c.Group"}, Base: "g"},

	{ID: "jobs.name", Canon: jb + "name", RootFn: "VisitJobPre", RootArg: "n.Name", Base: "job"},
	{ID: "jobs.needs", Canon: jb + "needs", RootFn: "VisitJobPre", RootArg: "n.Needs", Base: "j0"},
	{ID: "jobs.runs-on.labels", Canon: jb + "runs-on", RootFn: "VisitJobPre", RootArg: "l", Base: "ubuntu-latest"},
	{ID: "jobs.runs-on.expr", Variant: 1, Canon: jb + "runs-on", RootFn: "VisitJobPre", RootArg: "n.RunsOn.LabelsExpr", Base: "ubuntu-latest"},
	{ID: "jobs.runs-on.group", Variant: 1, Canon: jb + "runs-on.group", RootFn: "VisitJobPre", RootArg: "n.RunsOn.Group", Base: "grp"},
	{ID: "jobs.runs-on.mapping-labels", Variant: 1, Canon: jb + "runs-on.labels", RootFn: "VisitJobPre", RootArg: "l", Base: "ubuntu-latest"},
	{ID: "jobs.concurrency.group", Canon: jb + "concurrency.group", RootFn: "VisitJobPre", RootArg: "n.Concurrency", Subs: []string{"c.Group"}, Base: "g"},
	{ID: "jobs.concurrency.cancel-in-progress", Canon: jb + "concurrency.cancel-in-progress", RootFn: "VisitJobPre", RootArg: "n.Concurrency", Subs: []string{"c.CancelInProgress"}, Base: "true"},
	{ID: "jobs.concurrency.scalar", Variant: 1, Canon: jb + "concurrency", RootFn: "VisitJobPre", RootArg: "n.Concurrency", Subs: []string{"c.Group"}, Base: "g"},
	{ID: "jobs.env.name", Canon: jb + "env.<env_id>", RootFn: "VisitJobPre", RootArg: "n.Env", Subs: []string{"e.Name"}, Base: "B", Form: 2},
	{ID: "jobs.env.value", Canon: jb + "env.<env_id>", RootFn: "VisitJobPre", RootArg: "n.Env", Subs: []string{"e.Value"}, Base: "b"},
	{ID: "jobs.env.expr", Variant: 1, Canon: jb + "env.<env_id>", RootFn: "VisitJobPre", RootArg: "n.Env", Subs: []string{"env.Expression"}, Base: "${{ fromJSON('{}') }}"},
	{ID: "jobs.defaults.run.shell", Canon: jb + "defaults.run.shell", RootFn: "VisitJobPre", RootArg: "n.Defaults", Subs: []string{"d.Run.Shell"}, Base: "bash"},
	{ID: "jobs.defaults.run.working-directory", Canon: jb + "defaults.run.working-directory", RootFn: "VisitJobPre", RootArg: "n.Defaults", Subs: []string{"d.Run.WorkingDirectory"}, Base: "dir"},
	{ID: "jobs.if", Canon: jb + "if", RootFn: "VisitJobPre", RootArg: "n.If", Base: "true"},
	{ID: "jobs.if", Canon: jb + "if", RootFn: "VisitJobPre", RootArg: "n.If", Base: "true", Form: 1},
	{ID: "jobs.strategy.fail-fast", Canon: jb + "strategy.fail-fast", RootFn: "VisitJobPre", RootArg: "n.Strategy.FailFast", Base: "true"},
	{ID: "jobs.strategy.max-parallel", Canon: jb + "strategy.max-parallel", RootFn: "VisitJobPre", RootArg: "n.Strategy.MaxParallel", Base: "2"},
	{ID: "jobs.strategy.matrix.row", Canon: jb + "strategy.matrix.<row>", RootFn: "checkRawYAMLString", RootArg: "y.Value", Base: "a"},
	{ID: "jobs.strategy.matrix.include", Canon: jb + "strategy.matrix.include", RootFn: "checkRawYAMLString", RootArg: "y.Value", Base: "i"},
	{ID: "jobs.strategy.matrix.exclude", Canon: jb + "strategy.matrix.exclude", RootFn: "checkRawYAMLString", RootArg: "y.Value", Base: "other"},
	{ID: "jobs.strategy.matrix.expr", Variant: 1, Canon: jb + "strategy.matrix", RootFn: "checkMatrixExpression", RootArg: "expr", Base: "${{ fromJSON('{}') }}"},
	{ID: "jobs.strategy.matrix.row-expr", Variant: 1, Canon: jb + "strategy.matrix.<row>", RootFn: "checkMatrixRow", RootArg: "r.Expression", Base: "${{ fromJSON('[]') }}"},
	{ID: "jobs.strategy.matrix.include-expr", Variant: 1, Canon: jb + "strategy.matrix.include", RootFn: "checkMatrix", RootArg: "m.Include.Expression", Base: "${{ fromJSON('[]') }}"},
	{ID: "jobs.strategy.matrix.exclude-expr", Variant: 1, Canon: jb + "strategy.matrix.exclude", RootFn: "checkMatrix", RootArg: "m.Exclude.Expression", Base: "${{ fromJSON('[]') }}"},
	{ID: "jobs.strategy.matrix.exclude-elem-expr", Variant: 1, Canon: jb + "strategy.matrix.exclude", RootFn: "checkMatrix", RootArg: "combi.Expression", Base: "${{ fromJSON('{}') }}"},
	{ID: "jobs.continue-on-error", Canon: jb + "continue-on-error", RootFn: "VisitJobPre", RootArg: "n.ContinueOnError", Base: "true"},
	{ID: "jobs.timeout-minutes", Canon: jb + "timeout-minutes", RootFn: "VisitJobPre", RootArg: "n.TimeoutMinutes", Base: "10"},
	{ID: "jobs.container.scalar", Variant: 1, Canon: jb + "container", RootFn: "VisitJobPre", RootArg: "n.Container", Subs: []string{"c.Image"}, Base: "alpine:3"},
	{ID: "jobs.container.image", Canon: jb + "container.image", RootFn: "VisitJobPre", RootArg: "n.Container", Subs: []string{"c.Image"}, Base: "alpine:3"},
	{ID: "jobs.container.credentials.username", Canon: jb + "container.credentials.username", RootFn: "VisitJobPre", RootArg: "n.Container", Subs: []string{"c.Credentials.Username"}, Base: "u"},
	{ID: "jobs.container.credentials.password", Canon: jb + "container.credentials.password", RootFn: "VisitJobPre", RootArg: "n.Container", Subs: []string{"c.Credentials.Password"}, Base: "${{ secrets.csec }}"},
	{ID: "jobs.container.env.name", Canon: jb + "container.env.<env_id>", RootFn: "VisitJobPre", RootArg: "n.Container", Subs: []string{"c.Env", "e.Name"}, Base: "C", Form: 2},
	{ID: "jobs.container.env.value", Canon: jb + "container.env.<env_id>", RootFn: "VisitJobPre", RootArg: "n.Container", Subs: []string{"c.Env", "e.Value"}, Base: "c"},
	{ID: "jobs.container.env.expr", Variant: 1, Canon: jb + "container.env.<env_id>", RootFn: "VisitJobPre", RootArg: "n.Container", Subs: []string{"c.Env", "env.Expression"}, Base: "${{ fromJSON('{}') }}"},
	{ID: "jobs.container.ports", Canon: jb + "container.ports", RootFn: "VisitJobPre", RootArg: "n.Container", Subs: []string{"c.Ports"}, Base: "80"},
	{ID: "jobs.container.volumes", Variant: 1, Canon: jb + "container.volumes", RootFn: "VisitJobPre", RootArg: "n.Container", Subs: []string{"c.Volumes"}, Base: "/a:/b"},
	{ID: "jobs.container.options", Canon: jb + "container.options", RootFn: "VisitJobPre", RootArg: "n.Container", Subs: []string{"c.Options"}, Base: "--cpus 1"},
	{ID: "jobs.services.expr", Variant: 1, Canon: jb + "services", RootFn: "VisitJobPre", RootArg: "n.Services.Expression", Base: "${{ fromJSON('{}') }}"},
	{ID: "jobs.services.image", Canon: jb + "services.<service_id>.image", RootFn: "VisitJobPre", RootArg: "s.Container", Subs: []string{"c.Image"}, Base: "redis"},
	{ID: "jobs.services.credentials.username", Canon: jb + "services.<service_id>.credentials.username", RootFn: "VisitJobPre", RootArg: "s.Container", Subs: []string{"c.Credentials.Username"}, Base: "u"},
	{ID: "jobs.services.credentials.password", Canon: jb + "services.<service_id>.credentials.password", RootFn: "VisitJobPre", RootArg: "s.Container", Subs: []string{"c.Credentials.Password"}, Base: "${{ secrets.csec }}"},
	{ID: "jobs.services.env.name", Canon: jb + "services.<service_id>.env.<env_id>", RootFn: "VisitJobPre", RootArg: "s.Container", Subs: []string{"c.Env", "e.Name"}, Base: "D", Form: 2},
	{ID: "jobs.services.env.value", Canon: jb + "services.<service_id>.env.<env_id>", RootFn: "VisitJobPre", RootArg: "s.Container", Subs: []string{"c.Env", "e.Value"}, Base: "d"},
	{ID: "jobs.services.env.expr", Variant: 1, Canon: jb + "services.<service_id>.env.<env_id>", RootFn: "VisitJobPre", RootArg: "s.Container", Subs: []string{"c.Env", "env.Expression"}, Base: "${{ fromJSON('{}') }}"},
	{ID: "jobs.services.ports", Canon: jb + "services.<service_id>.ports", RootFn: "VisitJobPre", RootArg: "s.Container", Subs: []string{"c.Ports"}, Base: "6379"},
	{ID: "jobs.services.volumes", Variant: 1, Canon: jb + "services.<service_id>.volumes", RootFn: "VisitJobPre", RootArg: "s.Container", Subs: []string{"c.Volumes"}, Base: "/a:/b"},
	{ID: "jobs.services.options", Canon: jb + "services.<service_id>.options", RootFn: "VisitJobPre", RootArg: "s.Container", Subs: []string{"c.Options"}, Base: "--cpus 1"},
	{ID: "jobs.environment.name", Canon: jb + "environment.name", RootFn: "VisitJobPost", RootArg: "n.Environment.Name", Base: "prod"},
	{ID: "jobs.environment.url", Canon: jb + "environment.url", RootFn: "VisitJobPost", RootArg: "n.Environment.URL", Base: "https://example.com"},
	{ID: "jobs.environment.scalar", Variant: 1, Canon: jb + "environment", RootFn: "VisitJobPost", RootArg: "n.Environment.Name", Base: "prod"},
	{ID: "jobs.outputs", Canon: jb + "outputs.<output_id>", RootFn: "VisitJobPost", RootArg: "output.Value", Base: "o"},
	{ID: "jobs.uses", Canon: jb + "uses", RootFn: "checkWorkflowCall", RootArg: "c.Uses", Base: "owner/repo/.github/workflows/w.yml@v1"},
	{ID: "jobs.with", Canon: jb + "with.<with_id>", RootFn: "checkWorkflowCall", RootArg: "i.Value", Base: "w"},
	{ID: "jobs.secrets", Canon: jb + "secrets.<secrets_id>", RootFn: "checkWorkflowCall", RootArg: "s.Value", Base: "${{ secrets.csec }}"},

	{ID: "jobs.steps.id", Canon: st + "id", RootFn: "VisitStep", RootArg: "n.ID", Base: "s1"},
	{ID: "jobs.steps.name", Canon: st + "name", RootFn: "VisitStep", RootArg: "n.Name", Base: "step"},
	{ID: "jobs.steps.if", Canon: st + "if", RootFn: "VisitStep", RootArg: "n.If", Base: "true"},
	{ID: "jobs.steps.if", Canon: st + "if", RootFn: "VisitStep", RootArg: "n.If", Base: "true", Form: 1},
	{ID: "jobs.steps.run", Canon: st + "run", RootFn: "VisitStep", RootArg: "e.Run", Base: "echo"},
	{ID: "jobs.steps.shell", Canon: st + "shell", RootFn: "VisitStep", RootArg: "e.Shell", Base: "bash"},
	{ID: "jobs.steps.working-directory", Canon: st + "working-directory", RootFn: "VisitStep", RootArg: "e.WorkingDirectory", Base: "dir"},
	{ID: "jobs.steps.env.name", Canon: st + "env.<env_id>", RootFn: "VisitStep", RootArg: "n.Env", Subs: []string{"e.Name"}, Base: "E", Form: 2},
	{ID: "jobs.steps.env.value", Canon: st + "env.<env_id>", RootFn: "VisitStep", RootArg: "n.Env", Subs: []string{"e.Value"}, Base: "e"},
	{ID: "jobs.steps.env.expr", Variant: 1, Canon: st + "env.<env_id>", RootFn: "VisitStep", RootArg: "n.Env", Subs: []string{"env.Expression"}, Base: "${{ fromJSON('{}') }}"},
	{ID: "jobs.steps.continue-on-error", Canon: st + "continue-on-error", RootFn: "VisitStep", RootArg: "n.ContinueOnError", Base: "true"},
	{ID: "jobs.steps.timeout-minutes", Canon: st + "timeout-minutes", RootFn: "VisitStep", RootArg: "n.TimeoutMinutes", Base: "5"},
	{ID: "jobs.steps.uses", Canon: st + "uses", RootFn: "VisitStep", RootArg: "e.Uses", Base: "owner/act@v1"},
	{ID: "jobs.steps.with.input", Canon: st + "with.<with_id>", RootFn: "VisitStep", RootArg: "i.Value", RootOcc: 1, Base: "1"},
	{ID: "jobs.steps.with.entrypoint", Canon: st + "with.entrypoint", RootFn: "VisitStep", RootArg: "e.Entrypoint", Base: "/bin/sh"},
	{ID: "jobs.steps.with.args", Canon: st + "with.args", RootFn: "VisitStep", RootArg: "e.Args", Base: "-c true"},
	{ID: "on.workflow_call.inputs.required", Variant: 2, Canon: "on.workflow_call.inputs.<inputs_id>.required", RootFn: "VisitWorkflowPre", RootArg: "i.Required", RootOcc: 1, Base: "true", MaybeUnrouted: true},
	// the outputs of a reusable workflow none of whose jobs declares outputs (or is itself a call)
	{ID: "on.workflow_call.outputs.value-no-job-outputs", Variant: 2, Canon: "on.workflow_call.outputs.<output_id>.value", RootFn: "checkWorkflowCallOutputs", RootArg: "o.Value", Base: "v"},
	{ID: "on.workflow_call.secrets.required", Variant: 2, Canon: "on.workflow_call.secrets.<secret_id>.required", RootFn: "VisitWorkflowPre", RootArg: "s.Required", Base: "true", MaybeUnrouted: true},
	{ID: "jobs.strategy.matrix.include-elem-expr", Variant: 2, Canon: jb + "strategy.matrix.include", RootFn: "checkMatrix", RootArg: "combi.Expression", RootOcc: 1, Base: "${{ fromJSON('{}') }}", MaybeUnrouted: true},
	{ID: "jobs.container.ports-with-volumes", Variant: 2, Canon: jb + "container.ports", RootFn: "VisitJobPre", RootArg: "n.Container", Subs: []string{"c.Ports"}, Base: "80", MaybeUnrouted: true},
	{ID: "jobs.steps.with.script", Canon: st + "with.<with_id>", RootFn: "VisitStep", RootArg: "i.Value", Base: "return 1"},
}
