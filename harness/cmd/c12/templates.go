package main

// The "every-key" workflows.  A marker «id» stands for one scalar value
// position; rendering replaces every marker by the position's clean base
// value except the planted one.  Variant 0 is the main workflow; the other
// variants exist because some positions replace a whole section by one
// expression (env: ${{ }}, services: ${{ }}, matrix: ${{ }}, ...) or exclude
// each other (branches / branches-ignore, scalar / mapping forms).

var templates = []string{
	// ---- variant 0: main
	`name: «name»
run-name: «run-name»
on:
  push:
    branches:
      - main-plain
      - «on.push.branches»
    tags:
      - v0-plain
      - «on.push.tags»
    paths:
      - 'plain/**'
      - «on.push.paths»
  pull_request:
    types:
      - «on.pull_request.types»
    branches-ignore:
      - skip-plain
      - «on.pull_request.branches-ignore»
    paths-ignore:
      - 'docs-plain/**'
      - «on.pull_request.paths-ignore»
  workflow_run:
    workflows:
      - plain-workflow
      - «on.workflow_run.workflows»
  schedule:
    - cron: «on.schedule.cron»
  repository_dispatch:
    types:
      - plain-type
      - «on.repository_dispatch.types»
  workflow_dispatch:
    inputs:
      din:
        description: «on.workflow_dispatch.inputs.description»
        required: «on.workflow_dispatch.inputs.required»
        default: «on.workflow_dispatch.inputs.default»
        type: choice
        options:
          - «on.workflow_dispatch.inputs.options»
  workflow_call:
    inputs:
      cin:
        description: «on.workflow_call.inputs.description»
        default: «on.workflow_call.inputs.default»
        type: string
    secrets:
      csec:
        description: «on.workflow_call.secrets.description»
    outputs:
      cout:
        description: «on.workflow_call.outputs.description»
        value: «on.workflow_call.outputs.value»
env:
  «env.name»: «env.value»
defaults:
  run:
    shell: «defaults.run.shell»
    working-directory: «defaults.run.working-directory»
concurrency:
  group: «concurrency.group»
  cancel-in-progress: «concurrency.cancel-in-progress»
jobs:
  j0:
    runs-on: ubuntu-latest
    steps:
      - run: echo
  j1:
    name: «jobs.name»
    needs:
      - «jobs.needs»
    runs-on:
      - «jobs.runs-on.labels»
    concurrency:
      group: «jobs.concurrency.group»
      cancel-in-progress: «jobs.concurrency.cancel-in-progress»
    env:
      «jobs.env.name»: «jobs.env.value»
    defaults:
      run:
        shell: «jobs.defaults.run.shell»
        working-directory: «jobs.defaults.run.working-directory»
    if: «jobs.if»
    strategy:
      fail-fast: «jobs.strategy.fail-fast»
      max-parallel: «jobs.strategy.max-parallel»
      matrix:
        row:
          - «jobs.strategy.matrix.row»
          - other
        include:
          - inc: «jobs.strategy.matrix.include»
        exclude:
          - row: «jobs.strategy.matrix.exclude»
    continue-on-error: «jobs.continue-on-error»
    timeout-minutes: «jobs.timeout-minutes»
    container:
      image: «jobs.container.image»
      credentials:
        username: «jobs.container.credentials.username»
        password: «jobs.container.credentials.password»
      env:
        «jobs.container.env.name»: «jobs.container.env.value»
      ports:
        - '8080:80'
        - «jobs.container.ports»
      options: «jobs.container.options»
    services:
      svc:
        image: «jobs.services.image»
        credentials:
          username: «jobs.services.credentials.username»
          password: «jobs.services.credentials.password»
        env:
          «jobs.services.env.name»: «jobs.services.env.value»
        ports:
          - '5432:5432'
          - «jobs.services.ports»
        options: «jobs.services.options»
    environment:
      name: «jobs.environment.name»
      url: «jobs.environment.url»
    outputs:
      out: «jobs.outputs»
    steps:
      - id: «jobs.steps.id»
        name: «jobs.steps.name»
        if: «jobs.steps.if»
        run: «jobs.steps.run»
        shell: «jobs.steps.shell»
        working-directory: «jobs.steps.working-directory»
        env:
          «jobs.steps.env.name»: «jobs.steps.env.value»
        continue-on-error: «jobs.steps.continue-on-error»
        timeout-minutes: «jobs.steps.timeout-minutes»
      - uses: «jobs.steps.uses»
        with:
          input: «jobs.steps.with.input»
      - uses: docker://alpine:3
        with:
          entrypoint: «jobs.steps.with.entrypoint»
          args: «jobs.steps.with.args»
      - uses: actions/github-script@v7
        with:
          script: «jobs.steps.with.script»
  j2:
    uses: «jobs.uses»
    with:
      winput: «jobs.with»
    secrets:
      wsecret: «jobs.secrets»
`,
	// ---- variant 1: whole sections given as one expression / scalar forms
	`on:
  push:
    branches-ignore:
      - «on.push.branches-ignore»
    tags-ignore:
      - «on.push.tags-ignore»
env: «env.expr»
concurrency: «concurrency.scalar»
jobs:
  j1:
    runs-on: «jobs.runs-on.expr»
    concurrency: «jobs.concurrency.scalar»
    env: «jobs.env.expr»
    strategy:
      matrix: «jobs.strategy.matrix.expr»
    container: «jobs.container.scalar»
    services: «jobs.services.expr»
    environment: «jobs.environment.scalar»
    steps:
      - run: echo
        env: «jobs.steps.env.expr»
  j3:
    runs-on:
      group: «jobs.runs-on.group»
      labels:
        - «jobs.runs-on.mapping-labels»
    strategy:
      matrix:
        row: «jobs.strategy.matrix.row-expr»
        include: «jobs.strategy.matrix.include-expr»
        exclude: «jobs.strategy.matrix.exclude-expr»
    container:
      image: alpine:3
      env: «jobs.container.env.expr»
      volumes:
        - «jobs.container.volumes»
    services:
      svc:
        image: alpine:3
        env: «jobs.services.env.expr»
        volumes:
          - «jobs.services.volumes»
    steps:
      - run: echo
  j4:
    runs-on: ubuntu-latest
    strategy:
      matrix:
        row: [a, b]
        exclude:
          - «jobs.strategy.matrix.exclude-elem-expr»
    steps:
      - run: echo
`,
	// ---- variant 2: positions that the parser / rule never hand to the
	// expression checker (DESIGN.md Appendix A #2-#4, findings of C03); the
	// availability verdict demanded there is the same as everywhere else
	`on:
  workflow_call:
    inputs:
      cin:
        type: string
        required: «on.workflow_call.inputs.required»
    secrets:
      csec:
        required: «on.workflow_call.secrets.required»
    outputs:
      cout:
        description: d
        value: «on.workflow_call.outputs.value-no-job-outputs»
jobs:
  j1:
    runs-on: ubuntu-latest
    strategy:
      matrix:
        row: [a, b]
        include:
          - «jobs.strategy.matrix.include-elem-expr»
    container:
      image: alpine:3
      ports:
        - «jobs.container.ports-with-volumes»
      volumes:
        - /a:/b
    steps:
      - run: echo
`,
}
