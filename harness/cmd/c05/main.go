// Command c05: scope harness for property C05.  Generates workflow shapes
// (jobs with needs DAGs, steps with ids, matrices with rows / include /
// expressions, workflow_call + workflow_dispatch inputs, secrets, outputs),
// plants one reference per line at sites where the context is available,
// lints with the real linter, and compares the "undefined" verdict per
// reference with (a) the declarative scope rule of the property evaluated on
// the generator's own description of the workflow (oracle) and (b) the Coq
// model evaluated on the shapes dumped from the parsed AST (K).
package main

import (
	"bytes"
	"encoding/json"
	"flag"
	"fmt"
	"os"
	"path/filepath"
	"sort"
	"strings"

	"github.com/rhysd/actionlint"

	"verifharness/hx"
)

type refKind int

const (
	refSteps refKind = iota
	refNeeds
	refMatrix
	refInputs
	refSecrets
	refJobs
)

type ref struct {
	kind refKind
	job  int // index into jobs (steps/needs/matrix)
	k    int // number of steps visible (steps)
	path []string
	line int
	want int // oracle verdict: 0 ok, 1 undefined
	// dflt != "": the reference stands in the default of the workflow_call input number dpos and names
	// an input declared "earlier", the input it"self", one declared "later", or an "undeclared" name
	dflt string
	dpos int
	// twice: the expression holds the reference two times (both are reported when it is out of scope)
	twice bool
}

type gstep struct {
	id string // "" = no id
}

type gcomb struct {
	expr bool
	keys []string
}

type gmatrix struct {
	constExpr bool // the WHOLE matrix is one fromJSON('<constant>'): statically known, keys as in a literal
	nest      bool // a row `nest` whose value is a nested array: any-typed first element, then references
	expr      bool
	rows      []string
	rowExpr   []bool
	incKind   int // 0 none, 1 expression, 2 list
	include   []gcomb
}

type gjob struct {
	call    string // "" = ordinary job; otherwise the callee (calleeOutputs) of a reusable workflow call
	id      string
	needs   []string
	outputs []string
	matrix  *gmatrix
	steps   []gstep
}

type gwf struct {
	callInputs     []string
	hasCall        bool
	dispatchInputs []string
	hasDispatch    bool
	secrets        []string
	hasSecrets     bool
	callOutputs    bool
	jobs           []gjob
}

// local reusable workflows of the scratch project and their declared outputs
// ("missing": the file does not exist, the outputs of the call are unknown)
var calleeOutputs = map[string][]string{"out": {"alpha", "Beta"}, "noout": nil, "emptyout": {}, "oneout": {"Gamma"}}
var calleeNames = []string{"out", "noout", "emptyout", "oneout", "missing"}

func writeProject(dir string) {
	hx.Must(os.MkdirAll(filepath.Join(dir, ".git"), 0o755))
	wd := filepath.Join(dir, ".github", "workflows")
	hx.Must(os.MkdirAll(wd, 0o755))
	body := "jobs:\n  j:\n    runs-on: ubuntu-latest\n    steps:\n      - run: echo\n"
	for name, outs := range calleeOutputs {
		src := "on:\n  workflow_call:\n"
		if outs != nil {
			if len(outs) == 0 {
				src += "    outputs: {}\n"
			} else {
				src += "    outputs:\n"
				for _, o := range outs {
					src += "      " + o + ":\n        value: x\n"
				}
			}
		} else {
			src += "    inputs:\n      i:\n        type: string\n"
		}
		hx.Must(os.WriteFile(filepath.Join(wd, "c_"+name+".yaml"), []byte(src+body), 0o644))
	}
}

var projectDir string

var idPool = []string{"build", "Test", "deploy", "lint", "Pack", "e2e"}
var stepPool = []string{"s1", "S2", "cache", "Setup", "x"}
var keyPool = []string{"os", "Node", "arch", "ver", "Extra"}
var namePool = []string{"alpha", "Beta", "gamma", "Delta", "eps"}

func pickSome(r *hx.Rng, pool []string, max int) []string {
	n := r.Intn(max + 1)
	var out []string
	for _, i := range r.Perm(len(pool))[:min(n, len(pool))] {
		out = append(out, pool[i])
	}
	return out
}

func min(a, b int) int {
	if a < b {
		return a
	}
	return b
}

func recase(r *hx.Rng, s string) string {
	switch r.Intn(3) {
	case 0:
		return strings.ToUpper(s)
	case 1:
		return strings.ToLower(s)
	}
	return s
}

func gen(r *hx.Rng) *gwf {
	w := &gwf{}
	if r.Chance(1, 2) {
		w.hasCall = true
		w.callInputs = pickSome(r, namePool, 3)
		if r.Chance(2, 3) {
			w.hasSecrets = true
			w.secrets = pickSome(r, namePool, 3)
		}
		w.callOutputs = r.Chance(2, 3)
	}
	if r.Chance(1, 2) {
		w.hasDispatch = true
		w.dispatchInputs = pickSome(r, namePool, 3)
	}
	nj := 1 + r.Intn(5)
	perm := r.Perm(len(idPool))
	for i := 0; i < nj; i++ {
		j := gjob{id: idPool[perm[i]]}
		for p := 0; p < i; p++ {
			if r.Chance(1, 3) {
				j.needs = append(j.needs, recase(r, w.jobs[p].id))
			}
		}
		if r.Chance(1, 10) {
			j.needs = append(j.needs, "ghost") // dangling (reported by the needs rule, not ours)
		}
		j.outputs = pickSome(r, namePool, 3)
		if r.Chance(1, 4) {
			j.call = r.Pick(calleeNames)
			j.outputs = calleeOutputs[j.call]
			w.jobs = append(w.jobs, j)
			continue
		}
		if r.Chance(2, 3) {
			m := &gmatrix{}
			if r.Chance(1, 10) {
				m.expr = true
			} else {
				m.rows = pickSome(r, keyPool, 3)
				for range m.rows {
					m.rowExpr = append(m.rowExpr, r.Chance(1, 6))
				}
				switch r.Intn(6) {
				case 0:
					m.incKind = 1
				case 1, 2, 3:
					m.incKind = 2
					n := 1 + r.Intn(3)
					for c := 0; c < n; c++ {
						if r.Chance(1, 8) {
							m.include = append(m.include, gcomb{expr: true})
						} else {
							ks := pickSome(r, keyPool, 2)
							if len(ks) == 0 {
								ks = []string{keyPool[r.Intn(len(keyPool))]}
							}
							m.include = append(m.include, gcomb{keys: ks})
						}
					}
				}
				if len(m.rows) == 0 && m.incKind == 0 {
					m.rows = []string{"os"}
					m.rowExpr = []bool{false}
				}
				allLit := m.incKind != 1
				for _, x := range m.rowExpr {
					allLit = allLit && !x
				}
				for _, c := range m.include {
					allLit = allLit && !c.expr
				}
				if allLit && r.Chance(1, 5) {
					m.constExpr = true
				} else if r.Chance(1, 4) {
					m.nest = true
				}
			}
			j.matrix = m
		}
		ns := r.Intn(5)
		sp := r.Perm(len(stepPool))
		for s := 0; s < ns; s++ {
			st := gstep{}
			if r.Chance(2, 3) {
				st.id = stepPool[sp[s]]
				if r.Chance(1, 15) {
					st.id = "dyn-${{ github.run_id }}"
				}
			}
			j.steps = append(j.steps, st)
		}
		w.jobs = append(w.jobs, j)
	}
	return w
}

// ---- the declarative scope rule (oracle) ------------------------------------

func lower(s string) string { return strings.ToLower(s) }

func (w *gwf) jobIndex(id string) int {
	for i, j := range w.jobs {
		if lower(j.id) == id {
			return i
		}
	}
	return -1
}

func (w *gwf) oracle(rf *ref) int {
	und := func(b bool) int {
		if b {
			return 1
		}
		return 0
	}
	switch rf.kind {
	case refSteps:
		j := w.jobs[rf.job]
		for i := 0; i < rf.k && i < len(j.steps); i++ {
			if strings.Contains(j.steps[i].id, "${{") {
				return 0
			}
		}
		for i := 0; i < rf.k && i < len(j.steps); i++ {
			if j.steps[i].id != "" && lower(j.steps[i].id) == rf.path[0] {
				return 0
			}
		}
		return 1
	case refNeeds:
		j := w.jobs[rf.job]
		direct := false
		for _, n := range j.needs {
			if lower(n) == rf.path[0] {
				direct = true
			}
		}
		t := w.jobIndex(rf.path[0])
		if !direct || t < 0 || t == rf.job {
			return 1
		}
		if len(rf.path) == 3 && rf.path[1] == "outputs" {
			if w.jobs[t].call == "missing" {
				return 0 // the callee cannot be read: its outputs are unknown
			}
			for _, o := range w.jobs[t].outputs {
				if lower(o) == rf.path[2] {
					return 0
				}
			}
			return 1
		}
		return 0
	case refMatrix:
		m := w.jobs[rf.job].matrix
		if m == nil {
			return 1
		}
		if m.expr || m.incKind == 1 {
			return 0
		}
		for _, c := range m.include {
			if c.expr {
				return 0
			}
		}
		if m.nest && (rf.path[0] == "nest" || rf.path[0] == "objrow" || rf.path[0] == "objs") {
			return 0
		}
		for _, k := range m.rows {
			if lower(k) == rf.path[0] {
				return 0
			}
		}
		for _, c := range m.include {
			for _, k := range c.keys {
				if lower(k) == rf.path[0] {
					return 0
				}
			}
		}
		return 1
	case refInputs:
		for _, n := range append(append([]string{}, w.callInputs...), w.dispatchInputs...) {
			if lower(n) == rf.path[0] {
				return 0
			}
		}
		return 1
	case refSecrets:
		if !w.hasSecrets {
			return 0
		}
		for _, n := range append([]string{"github_token", "actions_step_debug", "actions_runner_debug"}, w.secrets...) {
			if lower(n) == rf.path[0] {
				return 0
			}
		}
		return 1
	case refJobs:
		t := w.jobIndex(rf.path[0])
		if t < 0 {
			return 1
		}
		if w.jobs[t].call != "" {
			return 0 // outputs of a call job are not declared in the jobs section
		}
		for _, o := range w.jobs[t].outputs {
			if lower(o) == rf.path[2] {
				return 0
			}
		}
		return und(true)
	}
	return 0
}

// ---- rendering with line tracking -------------------------------------------

type out struct {
	lines []string
}

func (o *out) add(s string) int {
	o.lines = append(o.lines, s)
	return len(o.lines)
}

// exprTwice: set by exprOf when the expression it returned holds the reference twice
var exprTwice bool

func exprOf(r *hx.Rng, ctx string, path []string) string {
	parts := []string{ctx}
	for _, p := range path {
		parts = append(parts, recase(r, p))
	}
	e := strings.Join(parts, ".")
	if len(parts) > 1 && r.Chance(1, 4) {
		// the bracket form of the same reference (the literal keeps the letter case as written)
		e = parts[0] + "['" + parts[1] + "']"
		if len(parts) > 2 {
			e += "." + strings.Join(parts[2:], ".")
		}
	}
	// the reference in other places of an expression: condition of `c && a || b`, under `!`,
	// argument of a function, operand of a comparison
	switch r.Intn(8) {
	case 0:
		e = e + " && 'a' || 'b'"
	case 1:
		e = "!(" + e + " && 1) && 2"
	case 2:
		e = "format('{0}', " + e + ")"
	case 3:
		e = "'x' == " + e
	case 4:
		// right operand of a logical operator whose left operand has an unknown type
		e = "github.event.pull_request.html_url || " + e
	case 5:
		e = "fromJSON(github.event.client_payload.j) && " + e + " || fromJSON(vars.V)[0]"
	case 6:
		// the same reference twice in one expression: when it is out of scope, both occurrences are reported
		e = e + " == 'a' || " + e + " == 'b'"
		exprTwice = true
	}
	return "${{ " + e + " }}"
}

func (w *gwf) render(r *hx.Rng) (string, []*ref) {
	o := &out{}
	var refs []*ref
	plant := func(indent string, name string, rf *ref, ctx string) {
		exprTwice = false
		rf.line = o.add(fmt.Sprintf("%s%s: %s", indent, name, exprOf(r, ctx, rf.path)))
		rf.twice = exprTwice
		exprTwice = false
		refs = append(refs, rf)
	}
	o.add("on:")
	if !w.hasCall && !w.hasDispatch {
		o.add("  push:")
	}
	if w.hasDispatch {
		o.add("  workflow_dispatch:")
		if len(w.dispatchInputs) > 0 {
			o.add("    inputs:")
			for _, n := range w.dispatchInputs {
				o.add("      " + n + ":")
				o.add("        type: string")
			}
		}
	}
	if w.hasCall {
		o.add("  workflow_call:")
		if len(w.callInputs) > 0 {
			o.add("    inputs:")
			aux := hx.NewRng(uint64(len(w.callInputs))*7919 + uint64(len(w.jobs))*104729 + uint64(len(o.lines)))
			for i, n := range w.callInputs {
				o.add("      " + n + ":")
				o.add("        type: string")
				if w.hasDispatch || !aux.Chance(2, 3) {
					continue
				}
				// the default of an input refers to another input (inputs is available there)
				target, kind := "undefined_name", "undeclared"
				switch c := aux.Intn(4); {
				case (c == 0 || c == 3) && i > 0:
					target, kind = w.callInputs[aux.Intn(i)], "earlier"
				case c == 1:
					target, kind = n, "self"
				case c == 2 && i+1 < len(w.callInputs):
					target, kind = w.callInputs[i+1+aux.Intn(len(w.callInputs)-i-1)], "later"
				}
				rf := &ref{kind: refInputs, path: []string{lower(target)}, dflt: kind, dpos: i}
				rf.line = o.add("        default: " + exprOf(aux, "inputs", rf.path))
				refs = append(refs, rf)
			}
		}
		if w.hasSecrets {
			if len(w.secrets) == 0 {
				o.add("    secrets: {}")
			} else {
				o.add("    secrets:")
				for _, n := range w.secrets {
					o.add("      " + n + ":")
					o.add("        required: false")
				}
			}
		}
		if w.callOutputs {
			o.add("    outputs:")
			n := 0
			for ji, j := range w.jobs {
				cands := append([]string{}, j.outputs...)
				cands = append(cands, "nope")
				for _, oname := range cands {
					if r.Chance(1, 2) {
						n++
						o.add(fmt.Sprintf("      o%d:", n))
						rf := &ref{kind: refJobs, job: ji, path: []string{lower(j.id), "outputs", lower(oname)}}
						plant("        ", "value", rf, "jobs")
					}
				}
			}
			n++
			o.add(fmt.Sprintf("      o%d:", n))
			plant("        ", "value", &ref{kind: refJobs, path: []string{"nojob", "outputs", "x"}}, "jobs")
			// the inputs of BOTH events are in scope in an output value (and nothing else)
			auxo := hx.NewRng(uint64(len(o.lines))*31 + 7)
			for _, nm := range append(append(append([]string{}, w.callInputs...), w.dispatchInputs...), "undefined_name") {
				n++
				o.add(fmt.Sprintf("      o%d:", n))
				rf := &ref{kind: refInputs, path: []string{lower(nm)}}
				rf.line = o.add("        value: " + exprOf(auxo, "inputs", rf.path))
				exprTwice = false
				refs = append(refs, rf)
			}
		}
	}
	o.add("jobs:")
	wfNames := func() []string {
		c := append([]string{}, namePool...)
		return append(c, "github_token", "actions_step_debug", "ACTIONS_RUNNER_DEBUG", "undefined_name")
	}
	for ji, j := range w.jobs {
		o.add("  " + j.id + ":")
		if len(j.needs) > 0 {
			o.add("    needs: [" + strings.Join(j.needs, ", ") + "]")
		}
		if j.call != "" {
			o.add("    uses: ./.github/workflows/c_" + j.call + ".yaml")
			// `with:` values of the call are positions like any other: an input the callee
			// declares (`i` of c_noout) and one it does not
			if ji > 0 && r.Chance(2, 3) {
				o.add("    with:")
				for k, key := range []string{"i", "zz"} {
					other := w.jobs[r.Intn(ji)].id
					if r.Chance(1, 4) {
						other = "ghost"
					}
					rf := &ref{kind: refNeeds, job: ji, path: []string{lower(other), "result"}}
					if k == 1 && r.Chance(1, 2) {
						rf = &ref{kind: refMatrix, job: ji, path: []string{"os"}}
						plant("      ", key, rf, "matrix")
						continue
					}
					plant("      ", key, rf, "needs")
				}
			}
			continue
		}
		o.add("    runs-on: ubuntu-latest")
		if j.matrix != nil {
			m := j.matrix
			o.add("    strategy:")
			if m.expr {
				o.add("      matrix: ${{ fromJSON(vars.M) }}")
			} else if m.constExpr {
				var parts []string
				for _, k := range m.rows {
					parts = append(parts, fmt.Sprintf("%q:[\"a\",\"b\"]", k))
				}
				if m.incKind == 2 {
					var cs []string
					for _, c := range m.include {
						var ks []string
						for _, k := range c.keys {
							ks = append(ks, fmt.Sprintf("%q:\"v\"", k))
						}
						cs = append(cs, "{"+strings.Join(ks, ",")+"}")
					}
					parts = append(parts, "\"include\":["+strings.Join(cs, ",")+"]")
				}
				o.add("      matrix: ${{ fromJSON('{" + strings.Join(parts, ",") + "}') }}")
			} else {
				o.add("      matrix:")
				if m.nest {
					// nested array: an element of unknown type first, then references (one per line)
					o.add("        nest:")
					o.add("          - - ${{ fromJSON(vars.N) }}")
					// (every other reference stands inside a longer text: a value is checked whether it is
					// one placeholder or text with placeholders)
					for i, n := range append(append([]string{}, namePool[:2]...), "undefined_name") {
						rf := &ref{kind: refInputs, path: []string{lower(n)}}
						if i%2 == 0 {
							rf.line = o.add("            - ${{ inputs." + recase(r, n) + " }}")
						} else {
							rf.line = o.add("            - v-${{ inputs." + recase(r, n) + " }}-w")
						}
						refs = append(refs, rf)
					}
					for i, other := range append(append([]string{}, idPool[:3]...), "ghost") {
						rf := &ref{kind: refNeeds, job: ji, path: []string{lower(other), "result"}}
						if i%2 == 1 {
							rf.line = o.add("            - ${{ needs." + recase(r, other) + ".result }}")
						} else {
							rf.line = o.add("            - 'is ${{ needs." + recase(r, other) + ".result }}'")
						}
						refs = append(refs, rf)
					}
					// a row whose first values are mappings and whose last value has an unknown shape:
					// nothing is known about the members of matrix.objrow
					// a row of mappings of one shape whose (nested) keys are written with capitals
					o.add("        objs:")
					o.add("          - {Name: a, Deep: {Flags: x, LIST: [{Item: 1}]}}")
					o.add("          - Name: b")
					o.add("            Deep: {Flags: y, LIST: [{Item: 2}]}")
					o.add("        objrow:")
					if r.Chance(1, 2) {
						o.add("          - {name: a}")
						o.add("          - {name: b, os: c}")
						o.add("          - ${{ fromJSON(vars.X) }}")
					} else {
						o.add("          - ${{ fromJSON(vars.X) }}")
						o.add("          - {name: a}")
					}
				}
				for i, k := range m.rows {
					if m.rowExpr[i] {
						o.add("        " + k + ": ${{ fromJSON(vars.R) }}")
					} else {
						o.add("        " + k + ": [a, b]")
					}
				}
				switch m.incKind {
				case 1:
					o.add("        include: " + r.Pick([]string{"${{ fromJSON(vars.I) }}", "${{ github.event.client_payload.inc }}"}))
				case 2:
					o.add("        include:")
					for _, c := range m.include {
						if c.expr {
							o.add("          - " + r.Pick([]string{"${{ fromJSON(vars.C) }}", "${{ vars }}", "${{ github.event }}", "${{ github.event.client_payload }}"}))
							continue
						}
						for i, k := range c.keys {
							lead := "            "
							if i == 0 {
								lead = "          - "
							}
							o.add(lead + k + ": v")
						}
					}
				}
			}
		}
		// references visible to each step
		planted := 0
		refsFor := func(indent string, k int) {
			// steps
			cands := append([]string{}, stepPool...)
			for _, id := range cands {
				if r.Chance(1, 3) {
					planted++
					plant(indent, fmt.Sprintf("R%d", planted), &ref{kind: refSteps, job: ji, k: k, path: []string{lower(id), "outcome"}}, "steps")
				}
			}
			// needs
			for _, other := range append(append([]string{}, idPool...), "ghost") {
				if r.Chance(1, 4) {
					planted++
					if r.Chance(1, 2) {
						plant(indent, fmt.Sprintf("R%d", planted), &ref{kind: refNeeds, job: ji, path: []string{lower(other), "result"}}, "needs")
					} else {
						on := namePool[r.Intn(len(namePool))]
						plant(indent, fmt.Sprintf("R%d", planted), &ref{kind: refNeeds, job: ji, path: []string{lower(other), "outputs", lower(on)}}, "needs")
					}
				}
			}
			// matrix
			for _, key := range append(append([]string{}, keyPool...), "undefkey") {
				if r.Chance(1, 4) {
					planted++
					rf := &ref{kind: refMatrix, job: ji, path: []string{lower(key)}}
					if j.matrix != nil && j.matrix.constExpr {
						// (the rows of a constant matrix are typed as the arrays they are: not embedded in a template)
						rf.line = o.add(fmt.Sprintf("%sR%d: ${{ toJSON(matrix.%s) }}", indent, planted, recase(r, key)))
						refs = append(refs, rf)
					} else {
						plant(indent, fmt.Sprintf("R%d", planted), rf, "matrix")
					}
				}
			}
			if j.matrix != nil && j.matrix.nest && !j.matrix.expr {
				// members of a row whose values are mappings and one value of unknown shape
				for _, mem := range []string{"name", "flags"} {
					planted++
					plant(indent, fmt.Sprintf("R%d", planted), &ref{kind: refMatrix, job: ji, path: []string{"objrow", mem}}, "matrix")
				}
				// the members of the row of same-shaped mappings are defined, however their keys are spelled
				aux := hx.NewRng(uint64(len(o.lines)) + uint64(ji)*1000003)
				for _, pth := range [][]string{{"objs", "name"}, {"objs", "deep", "flags"}} {
					planted++
					rf := &ref{kind: refMatrix, job: ji, path: pth}
					rf.line = o.add(fmt.Sprintf("%sR%d: %s", indent, planted, exprOf(aux, "matrix", pth)))
					refs = append(refs, rf)
				}
			}
			// inputs / secrets
			for _, n := range wfNames() {
				if r.Chance(1, 6) {
					planted++
					plant(indent, fmt.Sprintf("R%d", planted), &ref{kind: refInputs, path: []string{lower(n)}}, "inputs")
				}
				if r.Chance(1, 6) {
					planted++
					plant(indent, fmt.Sprintf("R%d", planted), &ref{kind: refSecrets, path: []string{lower(n)}}, "secrets")
				}
			}
		}
		o.add("    steps:")
		if len(j.steps) == 0 {
			o.add("      - run: echo")
		}
		for k, s := range j.steps {
			o.add("      - run: echo")
			if s.id != "" {
				o.add("        id: " + s.id)
			}
			// references from the other keys of the step (the step's own id is not in scope there either)
			for _, key := range []string{"if", "name", "continue-on-error", "timeout-minutes", "working-directory"} {
				if !r.Chance(1, 3) {
					continue
				}
				id := lower(stepPool[r.Intn(len(stepPool))])
				if s.id != "" && !strings.Contains(s.id, "${{") && r.Chance(1, 2) {
					id = lower(s.id) // the step itself
				}
				rf := &ref{kind: refSteps, job: ji, k: k, path: []string{id, "outputs", "v"}}
				e := "steps." + recase(r, id) + ".outputs.v"
				switch key {
				case "continue-on-error", "timeout-minutes":
					e = "fromJSON(" + e + ")"
				case "if":
					e += " == 'x'"
				}
				rf.line = o.add("        " + key + ": ${{ " + e + " }}")
				refs = append(refs, rf)
			}
			o.add("        env:")
			o.add("          KEEP: x")
			refsFor("          ", k)
		}
		o.add("    outputs:")
		for _, on := range j.outputs {
			o.add("      " + on + ": x")
		}
		o.add("      keep: x")
		refsFor("      ", len(j.steps))
	}
	return strings.Join(o.lines, "\n") + "\n", refs
}

// ---- AST -> Coq shapes -------------------------------------------------------

func coqStrs(ss []string) string {
	xs := []string{}
	for _, s := range ss {
		xs = append(xs, hx.CoqStr(s))
	}
	return hx.CoqList(xs)
}

const mapLeaf = "(map_obj SLeaf)"

type astInfo struct {
	jobs     []*actionlint.Job // in the generator's order
	jobsCoq  string
	stepsCoq []string
	matCoq   []string
}

func dumpAST(w *actionlint.Workflow, g *gwf) (*astInfo, error) {
	ai := &astInfo{}
	var js []string
	for _, gj := range g.jobs {
		j, ok := w.Jobs[lower(gj.id)]
		if !ok {
			return nil, fmt.Errorf("job %s missing in AST", gj.id)
		}
		ai.jobs = append(ai.jobs, j)
		var needs []string
		for _, n := range j.Needs {
			needs = append(needs, n.Value)
		}
		outs := hx.SortedKeys(j.Outputs)
		call := "None"
		if j.WorkflowCall != nil {
			// outputs type of the call: from the callee's metadata (what the project on disk declares)
			if gj.call == "missing" {
				call = "(Some (map_obj SLeaf))"
			} else {
				var ps []string
				for _, o := range calleeOutputs[gj.call] {
					ps = append(ps, "("+hx.CoqStr(lower(o))+", SLeaf)")
				}
				call = "(Some (strict_obj " + hx.CoqList(ps) + "))"
			}
		}
		js = append(js, fmt.Sprintf("Build_jobS %s %s %s %s %s", hx.CoqStr(lower(gj.id)), hx.CoqStr(j.ID.Value), coqStrs(needs), coqStrs(outs), call))
		var ss []string
		for _, s := range j.Steps {
			id := "None"
			if s.ID != nil {
				id = "(Some " + hx.CoqStr(s.ID.Value) + ")"
			}
			ss = append(ss, fmt.Sprintf("Build_stepS %s %s", id, mapLeaf))
		}
		ai.stepsCoq = append(ai.stepsCoq, hx.CoqList(ss))
		m := "None"
		if j.Strategy != nil && j.Strategy.Matrix != nil {
			mm := j.Strategy.Matrix
			inc := "InclNone"
			if mm.Include != nil {
				if mm.Include.Expression != nil {
					inc = "InclExpr"
				} else {
					var cs []string
					for _, c := range mm.Include.Combinations {
						if c.Expression != nil {
							cs = append(cs, "CombExpr")
						} else {
							cs = append(cs, "CombAssigns "+coqStrs(hx.SortedKeys(c.Assigns)))
						}
					}
					inc = "(InclList " + hx.CoqList(cs) + ")"
				}
			}
			m = fmt.Sprintf("(Some (Build_matrixS %s %s %s))", hx.CoqBool(mm.Expression != nil), coqStrs(hx.SortedKeys(mm.Rows)), inc)
			if gm := gj.matrix; gm != nil && gm.constExpr {
				// the whole matrix is fromJSON('<constant>'): its type is statically known, the model gets the
				// matrix the constant denotes (the evaluation of constant JSON is C06's subject)
				var rows []string
				for _, k := range gm.rows {
					rows = append(rows, lower(k))
				}
				sort.Strings(rows)
				inc := "InclNone"
				if gm.incKind == 2 {
					var cs []string
					for _, c := range gm.include {
						var ks []string
						for _, k := range c.keys {
							ks = append(ks, lower(k))
						}
						sort.Strings(ks)
						cs = append(cs, "CombAssigns "+coqStrs(ks))
					}
					inc = "(InclList " + hx.CoqList(cs) + ")"
				}
				m = fmt.Sprintf("(Some (Build_matrixS false %s %s))", coqStrs(rows), inc)
			}
		}
		ai.matCoq = append(ai.matCoq, m)
	}
	ai.jobsCoq = hx.CoqList(js)
	return ai, nil
}

type failure struct {
	What     string `json:"what"`
	Key      string `json:"key"`
	Workflow string `json:"workflow"`
	Line     int    `json:"line"`
	Text     string `json:"text"`
	Got      int    `json:"got"`
	Want     int    `json:"want"`
	Messages string `json:"messages"`
}

func classify(msgs []string) int {
	code := 0
	for _, m := range msgs {
		switch {
		case strings.Contains(m, "by reusable workflow") && strings.Contains(m, "cannot be assigned"):
			// the TYPE of a `with:` value against the callee's declaration: not a scope verdict
		case strings.Contains(m, "is not defined in object type"):
			if code == 0 {
				code = 1
			}
		case strings.Contains(m, "must be type of object"):
			code = 2
		case strings.Contains(m, "undefined variable"):
			code = 3
		case strings.Contains(m, "is not allowed here"):
			code = 4
		default:
			code = 9
		}
	}
	return code
}

func lint(src string) (map[int][]string, *actionlint.Workflow, error) {
	var ob bytes.Buffer
	l, err := actionlint.NewLinter(&ob, &actionlint.LinterOptions{Color: actionlint.ColorOptionKindNever})
	if err != nil {
		return nil, nil, err
	}
	path := filepath.Join(projectDir, ".github", "workflows", "gen.yaml")
	proj, perr := actionlint.NewProjects().At(path)
	if perr != nil || proj == nil {
		return nil, nil, fmt.Errorf("scratch project not found: %v", perr)
	}
	errs, err := l.Lint(path, []byte(src), proj)
	if err != nil {
		return nil, nil, err
	}
	by := map[int][]string{}
	for _, e := range errs {
		if e.Kind == "expression" {
			by[e.Line] = append(by[e.Line], e.Message)
		}
	}
	w, _ := actionlint.Parse([]byte(src))
	return by, w, nil
}

func main() {
	seed := flag.Uint64("seed", 1, "PRNG seed")
	n := flag.Int("n", 300, "number of workflow shapes")
	outDir := flag.String("out", "", "output directory")
	replay := flag.String("replay", "", "replay file")
	flag.Parse()
	projectDir = fmt.Sprintf("/var/tmp/out-c05-%d", os.Getpid())
	hx.Must(os.RemoveAll(projectDir))
	writeProject(projectDir)
	defer os.RemoveAll(projectDir)
	if *replay != "" {
		b, err := os.ReadFile(*replay)
		hx.Must(err)
		var f failure
		hx.Must(json.Unmarshal(b, &f))
		by, _, err := lint(f.Workflow)
		hx.Must(err)
		got := classify(by[f.Line])
		fmt.Printf("line %d: %s\nimplementation verdict %d (messages: %v), property demands %d\n", f.Line, f.Text, got, by[f.Line], f.Want)
		if got != f.Want {
			fmt.Println("REPLAY: property violated")
			os.RemoveAll(projectDir)
			os.Exit(1)
		}
		fmt.Println("REPLAY: property holds on this input")
		return
	}
	hx.Must(os.MkdirAll(*outDir, 0o755))
	r := hx.NewRng(*seed)
	sum := hx.NewSummary("C05")
	sum.Rule = "random workflow shapes: 1-5 jobs with random needs DAGs (direct, transitive, dangling, case variants), 0-4 steps with ids (case variants, expression ids), matrices (rows, expression rows, include lists / expression / expression elements, whole-matrix expression), workflow_call and workflow_dispatch inputs, declared/undeclared secrets, workflow_call outputs; reusable-workflow-call jobs (callee with outputs / without an outputs section / with an empty one / missing file, read from a scratch project on disk); one reference per line from every step's env and from its if / name / continue-on-error / timeout-minutes / working-directory (see earlier steps only), from job outputs (sees all steps), and from on.workflow_call.outputs.*.value (jobs context); non-trivial = a reference whose verdict is 'undefined' or that resolves through a non-empty scope; distinct = distinct (workflow, line)"
	cases, err := os.Create(filepath.Join(*outDir, "cases.txt"))
	hx.Must(err)
	defer cases.Close()
	dcases, err := os.Create(filepath.Join(*outDir, "cases_defaults.txt"))
	hx.Must(err)
	defer dcases.Close()
	nontrivial := 0
	for i := 0; i < *n; i++ {
		g := gen(r)
		src, refs := g.render(r)
		by, w, err := lint(src)
		if err != nil || w == nil {
			sum.Dist["skipped"]++
			continue
		}
		ai, err := dumpAST(w, g)
		if err != nil {
			sum.Dist["skipped_ast"]++
			continue
		}
		lines := strings.Split(src, "\n")
		var rcoq, obs []string
		dcase := map[int][]string{}
		for _, rf := range refs {
			rf.want = g.oracle(rf)
			got := classify(by[rf.line])
			sum.Evaluations++
			sum.Dist[fmt.Sprintf("kind%d_verdict%d", rf.kind, got)]++
			if got == 1 || rf.want == 1 {
				nontrivial++
			}
			if rf.dflt != "" {
				sum.Dist["input_default_reference_"+rf.dflt]++
			}
			if rf.twice {
				sum.Dist["reference_twice_in_one_expression"]++
				n := 0
				for _, m := range by[rf.line] {
					if strings.Contains(m, "is not defined in object type") {
						n++
					}
				}
				if rf.want == 1 && got == 1 && n != 2 {
					sum.OracleFails = append(sum.OracleFails, failure{
						What: fmt.Sprintf("an out-of-scope reference that stands twice in one expression is reported %d time(s)", n),
						Key:  fmt.Sprintf("scope:same-reference-twice:reported-%d", n), Workflow: src, Line: rf.line,
						Text: strings.TrimSpace(lines[rf.line-1]), Got: n, Want: 2, Messages: strings.Join(by[rf.line], " | ")})
				}
			}
			if got != rf.want {
				key := fmt.Sprintf("scope:kind%d:got%d:want%d", rf.kind, got, rf.want)
				what := "a reference is reported (or not) against the scope rule of the property"
				if rf.dflt != "" {
					key = fmt.Sprintf("scope:input-default:%s:got%d:want%d", rf.dflt, got, rf.want)
					what = "a reference from the default of a workflow_call input to an input declared " + rf.dflt + " is reported (or not) against the scope rule of the property (inputs sees exactly the declared names)"
				}
				sum.OracleFails = append(sum.OracleFails, failure{
					What: what, Key: key, Workflow: src, Line: rf.line,
					Text: strings.TrimSpace(lines[rf.line-1]), Got: got, Want: rf.want, Messages: strings.Join(by[rf.line], " | ")})
			}
			if rf.dflt != "" {
				// checked against the model of the declaration-order loop (Wf/InputDefaults.v), not against
				// the scope model of the other positions
				dcase[rf.dpos] = []string{hx.CoqStr(rf.path[0]), fmt.Sprintf("[%d]%%N", got)}
				continue
			}
			var c string
			switch rf.kind {
			case refSteps:
				c = fmt.Sprintf("RSteps %d %d %s", rf.job, rf.k, coqStrs(rf.path))
			case refNeeds:
				c = fmt.Sprintf("RNeeds %d %s", rf.job, coqStrs(rf.path))
			case refMatrix:
				c = fmt.Sprintf("RMatrix %d %s", rf.job, coqStrs(rf.path))
			case refInputs:
				c = "RInputs " + coqStrs(rf.path)
			case refSecrets:
				c = "RSecrets " + coqStrs(rf.path)
			case refJobs:
				c = "RJobs " + coqStrs(rf.path)
			}
			rcoq = append(rcoq, c)
			obs = append(obs, fmt.Sprintf("[%d]%%N", got))
		}
		opt := func(has bool, names []string) string {
			if !has {
				return "None"
			}
			ls := []string{}
			for _, n := range names {
				ls = append(ls, lower(n))
			}
			return "(Some " + coqStrs(ls) + ")"
		}
		term := fmt.Sprintf("(Build_wfS %s %s %s %s %s %s, %s)", ai.jobsCoq, hx.CoqList(ai.stepsCoq), hx.CoqList(ai.matCoq),
			opt(g.hasCall, g.callInputs), opt(g.hasDispatch, g.dispatchInputs), opt(g.hasCall && g.hasSecrets, g.secrets), hx.CoqList(rcoq))
		fmt.Fprintf(cases, "(%s, %s)\n", term, hx.CoqList(obs))
		if len(dcase) > 0 {
			var ds, rows []string
			for di, n := range g.callInputs {
				if c, ok := dcase[di]; ok {
					ds = append(ds, "("+hx.CoqStr(lower(n))+", ["+c[0]+"])")
					rows = append(rows, c[1])
				} else {
					ds = append(ds, "("+hx.CoqStr(lower(n))+", [])")
					rows = append(rows, "[]")
				}
			}
			fmt.Fprintf(dcases, "(%s, %s)\n", hx.CoqList(ds), hx.CoqList(rows))
		}
		if i < 2 {
			sum.Samples = append(sum.Samples, map[string]interface{}{"workflow": src, "references": len(refs)})
		}
	}
	sum.Nontrivial = nontrivial
	sum.Write(filepath.Join(*outDir, "summary.json"))
}
