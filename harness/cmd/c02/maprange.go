package main

// Translator (T) for C02, second part: every `for ... range <map>` of the package.  Go visits a
// map in an unspecified order, so each such loop is a place where the order of something may
// change from run to run.  The loops are listed from the source on every run (go/parser +
// go/types; imports are stubbed, every map the package ranges over is declared in the package
// or built with make / a literal) into coq/Gen/GenMapRange.v; coq/Out/MapRange.v proves that
// each is one of the classified loops.

import (
	"bytes"
	"fmt"
	"go/ast"
	"go/format"
	"go/parser"
	"go/token"
	"go/types"
	"hash/fnv"
	"os"
	"path/filepath"
	"sort"
	"strings"

	"verifharness/hx"
)

type stubImporter struct{ pkgs map[string]*types.Package }

func (s *stubImporter) Import(path string) (*types.Package, error) {
	if p, ok := s.pkgs[path]; ok {
		return p, nil
	}
	name := path[strings.LastIndex(path, "/")+1:]
	if strings.HasPrefix(name, "yaml.") {
		name = "yaml"
	}
	if name == "v4" || name == "v3" || name == "v2" {
		parts := strings.Split(path, "/")
		name = parts[len(parts)-2]
	}
	p := types.NewPackage(path, name)
	p.MarkComplete()
	s.pkgs[path] = p
	return p, nil
}

type rangeSite struct {
	file, fn, expr string
	body           string // FNV-1a of the loop body as gofmt prints it (white space collapsed): the classification is about the body
	line           int    // not part of the generated list (it moves with every edit)
}

func srcOf(fset *token.FileSet, n ast.Node) string {
	var b bytes.Buffer
	format.Node(&b, fset, n)
	return strings.Join(strings.Fields(b.String()), " ")
}

func scanMapRanges(repo string) ([]rangeSite, error) {
	fset := token.NewFileSet()
	names, _ := filepath.Glob(filepath.Join(repo, "*.go"))
	sort.Strings(names)
	var files []*ast.File
	for _, n := range names {
		if strings.HasSuffix(n, "_test.go") {
			continue
		}
		b, err := os.ReadFile(n)
		if err != nil {
			return nil, err
		}
		if bytes.HasPrefix(b, []byte("//go:build verif")) {
			continue
		}
		f, err := parser.ParseFile(fset, n, b, parser.SkipObjectResolution)
		if err != nil {
			return nil, err
		}
		if f.Name.Name != "actionlint" {
			continue
		}
		files = append(files, f)
	}
	info := &types.Info{Types: map[ast.Expr]types.TypeAndValue{}}
	conf := types.Config{Importer: &stubImporter{map[string]*types.Package{}}, Error: func(error) {}, DisableUnusedImportCheck: true}
	conf.Check("actionlint", fset, files, info) // errors from stubbed imports are expected and ignored
	var sites []rangeSite
	for _, f := range files {
		for _, d := range f.Decls {
			fd, ok := d.(*ast.FuncDecl)
			if !ok || fd.Body == nil {
				continue
			}
			fn := fd.Name.Name
			if fd.Recv != nil && len(fd.Recv.List) == 1 {
				t := fd.Recv.List[0].Type
				if st, ok := t.(*ast.StarExpr); ok {
					t = st.X
				}
				if id, ok := t.(*ast.Ident); ok {
					fn = id.Name + "." + fn
				}
			}
			ast.Inspect(fd.Body, func(n ast.Node) bool {
				rs, ok := n.(*ast.RangeStmt)
				if !ok {
					return true
				}
				tv, ok := info.Types[rs.X]
				if !ok || tv.Type == nil {
					// a range whose operand could not be typed is listed too (as unknown): it must be looked at
					sites = append(sites, rangeSite{filepath.Base(fset.Position(rs.Pos()).Filename), fn, "?untyped: " + srcOf(fset, rs.X), "-", fset.Position(rs.Pos()).Line})
					return true
				}
				if _, isMap := tv.Type.Underlying().(*types.Map); isMap {
					h := fnv.New32a()
					h.Write([]byte(srcOf(fset, rs.Body)))
					sites = append(sites, rangeSite{filepath.Base(fset.Position(rs.Pos()).Filename), fn, srcOf(fset, rs.X), fmt.Sprintf("%08x", h.Sum32()), fset.Position(rs.Pos()).Line})
				}
				return true
			})
		}
	}
	sort.SliceStable(sites, func(i, j int) bool {
		a, b := sites[i], sites[j]
		if a.file != b.file {
			return a.file < b.file
		}
		if a.fn != b.fn {
			return a.fn < b.fn
		}
		if a.expr != b.expr {
			return a.expr < b.expr
		}
		return a.line < b.line
	})
	if os.Getenv("C02_DUMP_RANGES") != "" {
		for _, s := range sites {
			fmt.Printf("%s:%d\t%s\t%s\n", s.file, s.line, s.fn, s.expr)
		}
	}
	return sites, nil
}

func doExtractMapRanges(repo, gen string) int {
	sites, err := scanMapRanges(repo)
	if err != nil {
		fmt.Fprintln(os.Stderr, "extract-mapranges:", err)
		return 2
	}
	var sb strings.Builder
	sb.WriteString("(* Gen/GenMapRange.v — GENERATED on every run of ./check C02 from the .go files of the package\n   by harness/cmd/c02 (-extract-mapranges); do not edit.  Every `for ... range <map>` loop:\n   (file, function, ranged expression, occurrence, hash of the loop body), one entry per loop; an operand\n   whose type is not known here (it comes from an imported package) is listed as `?untyped: ...`. *)\n")
	sb.WriteString("From AL Require Import Base.Str.\n\n")
	sb.WriteString("(* the last component numbers the loops of one function over the same expression in source order *)\n")
	sb.WriteString("Definition map_range_sites : list (string * string * string * N * string) := [\n")
	occ := map[[3]string]int{}
	for i, s := range sites {
		sep := ";"
		if i == len(sites)-1 {
			sep = ""
		}
		k := [3]string{s.file, s.fn, s.expr}
		fmt.Fprintf(&sb, "  (%s, %s, %s, %d%%N, %s)%s\n", hx.CoqStr(s.file), hx.CoqStr(s.fn), hx.CoqStr(s.expr), occ[k], hx.CoqStr(s.body), sep)
		occ[k]++
	}
	sb.WriteString("].\n")
	if err := os.WriteFile(gen, []byte(sb.String()), 0o644); err != nil {
		fmt.Fprintln(os.Stderr, "extract-mapranges:", err)
		return 2
	}
	return 0
}
