// Command c02: determinism harness for property C02.
//   - repetition oracle: every corpus input is linted R times on fresh Linter
//     values under varying GOMAXPROCS; all R results ([]*Error and the printed
//     bytes) must be identical;
//   - correspondence cases for the map-iteration sites that the Coq model
//     covers (format() placeholders, missing required inputs of an action,
//     missing inputs/secrets of a reusable-workflow call): the model receives
//     the map entries in a shuffled order and must predict the order in which
//     the implementation reports the same-position diagnostics.
package main

import (
	"bytes"
	"encoding/json"
	"flag"
	"fmt"
	"os"
	"path/filepath"
	"regexp"
	"runtime"
	"sort"
	"strconv"
	"strings"

	"github.com/rhysd/actionlint"

	"verifharness/hx"
)

type result struct {
	Errs string
	Out  string
	Fail string
}

func fmtErrs(errs []*actionlint.Error) string {
	var b strings.Builder
	for _, e := range errs {
		fmt.Fprintf(&b, "%s:%d:%d: %s [%s]\n", e.Filepath, e.Line, e.Column, e.Message, e.Kind)
	}
	return b.String()
}

// userRule: a rule added by the user of the library (LinterOptions.OnRulesCreated); it reports nothing
type userRule struct{ actionlint.RuleBase }

var procs = []int{1, 2, 4, 16}

func newLinter(out *bytes.Buffer) *actionlint.Linter {
	l, err := actionlint.NewLinter(out, &actionlint.LinterOptions{Color: actionlint.ColorOptionKindNever})
	hx.Must(err)
	return l
}

func lintContent(path string, src []byte, rep int) result {
	runtime.GOMAXPROCS(procs[rep%len(procs)])
	var out bytes.Buffer
	l := newLinter(&out)
	errs, err := l.Lint(path, src, nil)
	r := result{Errs: fmtErrs(errs), Out: out.String()}
	if err != nil {
		// the text of a fatal error is part of the result
		r.Fail = "fatal: " + err.Error()
	}
	return r
}

func lintRepo(dir string, rep int) result {
	runtime.GOMAXPROCS(procs[rep%len(procs)])
	var out bytes.Buffer
	l := newLinter(&out)
	errs, err := l.LintRepository(dir)
	r := result{Errs: fmtErrs(errs), Out: out.String()}
	if err != nil {
		// the text of a fatal error is part of the result
		r.Fail = "fatal: " + err.Error()
	}
	return r
}

func lintFiles(files []string, rep int) result {
	runtime.GOMAXPROCS(procs[rep%len(procs)])
	var out bytes.Buffer
	l := newLinter(&out)
	errs, err := l.LintFiles(files, nil)
	r := result{Errs: fmtErrs(errs), Out: out.String()}
	if err != nil {
		// the text of a fatal error is part of the result
		r.Fail = "fatal: " + err.Error()
	}
	return r
}

type failure struct {
	What   string `json:"what"`
	Key    string `json:"key"`
	Input  string `json:"input"`
	First  string `json:"first"`
	Other  string `json:"other"`
	Source string `json:"source,omitempty"`
}

var reLoc = regexp.MustCompile(`^(.*?):(\d+):(\d+): (.*) \[([a-z-]+)\]$`)

// attributionClass returns "once-per-run:[kinds]" when the two outputs contain
// the same set of (message, kind) and the lines that differ (in file/position
// or in how often they occur) all belong to rules `kinds`; "" otherwise.
func attributionClass(a, b string) string {
	split := func(s string) (msgs map[string]bool, byLoc map[string]int) {
		msgs, byLoc = map[string]bool{}, map[string]int{}
		for _, l := range strings.Split(strings.TrimSpace(s), "\n") {
			m := reLoc.FindStringSubmatch(l)
			if m == nil {
				return nil, nil
			}
			msgs[m[4]+" ["+m[5]+"]"] = true
			byLoc[l]++
		}
		return
	}
	ma, la := split(a)
	mb, lb := split(b)
	if ma == nil || mb == nil || len(ma) != len(mb) {
		return ""
	}
	for m := range ma {
		if !mb[m] {
			return ""
		}
	}
	// the recorded finding is about ONE kind of message: the error of a local action / reusable
	// workflow that cannot be read or parsed, which the shared cache hands to its first caller only
	oncePerRun := func(msg string) bool {
		for _, p := range []string{"could not parse action metadata in ", "could not read reusable workflow file for ", "error while parsing reusable workflow "} {
			if strings.HasPrefix(msg, p) {
				return true
			}
		}
		return false
	}
	kinds := map[string]bool{}
	for l, n := range la {
		if lb[l] != n {
			m := reLoc.FindStringSubmatch(l)
			if !oncePerRun(m[4]) {
				return ""
			}
			kinds[m[5]] = true
		}
	}
	for l, n := range lb {
		if la[l] != n {
			m := reLoc.FindStringSubmatch(l)
			if !oncePerRun(m[4]) {
				return ""
			}
			kinds[m[5]] = true
		}
	}
	ks := []string{}
	for k := range kinds {
		ks = append(ks, k)
	}
	sort.Strings(ks)
	return "once-per-run:[" + strings.Join(ks, ",") + "]"
}

// ---- site-targeted workflow generators ------------------------------------

func wfFormat(indices []int, nargs int) string {
	var f strings.Builder
	for _, i := range indices {
		fmt.Fprintf(&f, "{%d} ", i)
	}
	args := ""
	for i := 0; i < nargs; i++ {
		args += ", 'x'"
	}
	return "on: push\njobs:\n  a:\n    runs-on: ubuntu-latest\n    steps:\n      - run: echo ${{ format('" + f.String() + "'" + args + ") }}\n"
}

func wfNeedsCycles(r *hx.Rng) string {
	// 2-3 disjoint cycles, jobs written in a random order
	type job struct{ id, needs string }
	var jobs []job
	n := 2 + r.Intn(2)
	for c := 0; c < n; c++ {
		k := 2 + r.Intn(2)
		for i := 0; i < k; i++ {
			jobs = append(jobs, job{fmt.Sprintf("c%dj%d", c, i), fmt.Sprintf("c%dj%d", c, (i+1)%k)})
		}
	}
	var b strings.Builder
	if r.Chance(1, 3) {
		// flow style: all job ids on ONE line (positions differ in the column only)
		b.WriteString("on: push\njobs: {")
		for k, i := range r.Perm(len(jobs)) {
			if k > 0 {
				b.WriteString(", ")
			}
			fmt.Fprintf(&b, "%s: {needs: [%s], runs-on: ubuntu-latest, steps: [{run: echo}]}", jobs[i].id, jobs[i].needs)
		}
		b.WriteString("}\n")
		return b.String()
	}
	b.WriteString("on: push\njobs:\n")
	for _, i := range r.Perm(len(jobs)) {
		fmt.Fprintf(&b, "  %s:\n    needs: [%s]\n    runs-on: ubuntu-latest\n    steps:\n      - run: echo\n", jobs[i].id, jobs[i].needs)
	}
	return b.String()
}

func wfRunnerLabels(r *hx.Rng) string {
	pool := []string{"linux", "ubuntu-22.04", "ubuntu-latest", "windows-latest", "macos-latest", "self-hosted", "windows-2022", "macos-13", "x64"}
	n := 3 + r.Intn(3)
	var ls []string
	for _, i := range r.Perm(len(pool))[:n] {
		ls = append(ls, pool[i])
	}
	return "on: push\njobs:\n  a:\n    runs-on: [" + strings.Join(ls, ", ") + "]\n    steps:\n      - run: echo\n"
}

// wfEnvOrder: several env:/with: entries of one step whose checks can influence each other only
// through state leaking between expressions (env and with are Go maps: visited in random order)
func wfEnvOrder(r *hx.Rng) string {
	rows := []string{"          - []\n          - [{name: foo}, {name: bar}]\n", "          - [{name: a}]\n          - []\n", "          - [1, 2]\n          - []\n"}
	exprs := []string{"toJSON(matrix.pkgs.*.name)", "toJSON(matrix.pkgs.name)", "matrix.pkgs[0].name", "matrix.pkgs.*", "join(matrix.pkgs.*.name, ',')", "matrix.pkgs.name", "matrix.pkgs.*.id"}
	var b strings.Builder
	b.WriteString("on: push\njobs:\n  build:\n    strategy:\n      matrix:\n        pkgs:\n" + r.Pick(rows))
	b.WriteString("    runs-on: ubuntu-latest\n    steps:\n      - run: echo\n        env:\n")
	n := 3 + r.Intn(4)
	for i := 0; i < n; i++ {
		fmt.Fprintf(&b, "          E%d: ${{ %s }}\n", i, r.Pick(exprs))
	}
	b.WriteString("      - uses: actions/checkout@v4\n        with:\n")
	for i, k := range []string{"ref", "path", "token"} {
		_ = i
		fmt.Fprintf(&b, "          %s: ${{ %s }}\n", k, r.Pick(exprs))
	}
	return b.String()
}

// mostInputs returns the popular action spec with the largest number of required inputs.
func requiredRich() (string, *actionlint.ActionMetadata) {
	best, bn := "", -1
	for _, spec := range hx.SortedKeys(actionlint.PopularActions) {
		m := actionlint.PopularActions[spec]
		n := 0
		for _, i := range m.Inputs {
			if i.Required {
				n++
			}
		}
		if n > bn {
			best, bn = spec, n
		}
	}
	return best, actionlint.PopularActions[best]
}

func writeFile(path, content string) {
	hx.Must(os.MkdirAll(filepath.Dir(path), 0o755))
	hx.Must(os.WriteFile(path, []byte(content), 0o644))
}

type callee struct {
	inputs  []string
	inReq   []bool
	secrets []string
	secReq  []bool
}

var namePool = []string{"alpha", "Beta", "gamma", "delta", "Epsilon", "zeta", "eta", "theta", "Iota", "kappa"}

func genCallee(r *hx.Rng) callee {
	c := callee{}
	p := r.Perm(len(namePool))
	n := 3 + r.Intn(4)
	for i := 0; i < n; i++ {
		c.inputs = append(c.inputs, namePool[p[i]])
		c.inReq = append(c.inReq, r.Chance(3, 4))
	}
	p = r.Perm(len(namePool))
	n = 3 + r.Intn(4)
	for i := 0; i < n; i++ {
		c.secrets = append(c.secrets, namePool[p[i]])
		c.secReq = append(c.secReq, r.Chance(3, 4))
	}
	return c
}

func (c callee) yaml() string {
	var b strings.Builder
	b.WriteString("on:\n  workflow_call:\n    inputs:\n")
	for i, n := range c.inputs {
		fmt.Fprintf(&b, "      %s:\n        type: string\n        required: %v\n", n, c.inReq[i])
	}
	b.WriteString("    secrets:\n")
	for i, n := range c.secrets {
		fmt.Fprintf(&b, "      %s:\n        required: %v\n", n, c.secReq[i])
	}
	b.WriteString("jobs:\n  j:\n    runs-on: ubuntu-latest\n    steps:\n      - run: echo\n")
	return b.String()
}

// ---- Coq case printers ------------------------------------------------------

func bytesTuple(s string) string {
	xs := []string{}
	for _, c := range []byte(s) {
		xs = append(xs, strconv.Itoa(int(c)))
	}
	return "[" + strings.Join(xs, ";") + "]%N"
}

var reMissingPH = regexp.MustCompile(`does not contain placeholder \{(\d+)\}`)
var reExtraPH = regexp.MustCompile(`contains placeholder \{(\d+)\} but only`)
var reMissingInput = regexp.MustCompile(`^missing input "([^"]*)" which is required by action`)
var reReqInput = regexp.MustCompile(`^input "([^"]*)" is required by`)
var reReqSecret = regexp.MustCompile(`^secret "([^"]*)" is required by`)

func main() {
	seed := flag.Uint64("seed", 1, "PRNG seed")
	reps := flag.Int("reps", 24, "repetitions per input")
	extractAmbient := flag.String("extract-ambient", "", "translator mode: list the ambient reads of the package in this directory")
	gen := flag.String("gen", "GenAmbient.v", "output of -extract-ambient / -extract-mapranges")
	extractRanges := flag.String("extract-mapranges", "", "translator mode: list the range-over-map loops of the package in this directory")
	ambientBroken := flag.Bool("ambient-broken", false, "the ambient-read gate (coq/Out/Ambient.v) no longer checks: search for a failing input")
	nsite := flag.Int("nsite", 60, "generated cases per site")
	out := flag.String("out", "", "output directory")
	repo := flag.String("repo", "/repo", "repository root (for testdata)")
	replay := flag.String("replay", "", "replay file")
	flag.Parse()
	if *extractAmbient != "" {
		os.Exit(doExtractAmbient(*extractAmbient, *gen))
	}
	if *extractRanges != "" {
		os.Exit(doExtractMapRanges(*extractRanges, *gen))
	}

	if *replay != "" {
		b, err := os.ReadFile(*replay)
		hx.Must(err)
		var f failure
		hx.Must(json.Unmarshal(b, &f))
		if strings.HasPrefix(f.Key, "clock-dependent:") {
			if g := clockWitness(); g != nil {
				fmt.Println("REPLAY: property violated:", g.What)
				os.Exit(1)
			}
			fmt.Println("REPLAY: every schedule of the three families is reported at this time")
			return
		}
		if f.Source == "" {
			fmt.Println("REPLAY: no inline source in this replay (input:", f.Input, ")")
			os.Exit(2)
		}
		first := lintContent("replay.yaml", []byte(f.Source), 0)
		for i := 1; i < 400; i++ {
			o := lintContent("replay.yaml", []byte(f.Source), i)
			if o != first {
				fmt.Printf("REPLAY: property violated: repetition %d differs\n--- first\n%s--- other\n%s", i, first.Errs, o.Errs)
				os.Exit(1)
			}
		}
		fmt.Println("REPLAY: 400 repetitions identical")
		return
	}

	hx.Must(os.MkdirAll(*out, 0o755))
	r := hx.NewRng(*seed)
	sum := hx.NewSummary("C02")
	sum.Rule = "every input linted R times on fresh Linter values under GOMAXPROCS cycling through 1,2,4,16: corpus files of testdata/{examples,err,ok}, project directories of testdata/projects (LintRepository), multi-file LintFiles runs (one of them over two repositories with different configurations), repeated runs on one Linter value, unknown inputs of actions / workflows with more than 32 inputs (long sorted lists), and generated workflows that put >= 3 entries into every map whose iteration order can reach the output; non-trivial = the input yields >= 2 diagnostics at one position or is a multi-file run; distinct = distinct input"
	nontrivial := 0
	check := func(key, input, source string, run func(rep int) result) {
		first := run(0)
		sum.Evaluations++
		// non-trivial: two diagnostics share a position
		seen := map[string]int{}
		for _, l := range strings.Split(first.Errs, "\n") {
			parts := strings.SplitN(l, ": ", 2)
			if len(parts) == 2 {
				seen[parts[0]]++
			}
		}
		nt := false
		for _, c := range seen {
			if c >= 2 {
				nt = true
			}
		}
		if nt {
			nontrivial++
			sum.Dist["same_position_inputs"]++
		}
		for i := 1; i < *reps; i++ {
			o := run(i)
			if o != first {
				what := "output differs between repetitions of the same run"
				// (only runs over several files can differ by attribution alone: the recorded finding is about
				// which FILE's goroutine reaches a shared cache first; inside one file the order is fixed)
				multi := strings.HasPrefix(key, "multi:") || strings.HasPrefix(key, "project:")
				if k := attributionClass(first.Errs, o.Errs); k != "" && multi {
					// same diagnostics, attributed to different files/positions
					what = "the same messages are attributed to different files (or reported a different number of times) between repetitions of a multi-file run"
					key = k
				}
				sum.OracleFails = append(sum.OracleFails, failure{What: what, Key: key, Input: input, First: first.Errs + first.Fail, Other: o.Errs + o.Fail, Source: source})
				return
			}
		}
	}

	// (1) corpus files
	for _, d := range []string{"examples", "err", "ok"} {
		files, _ := filepath.Glob(filepath.Join(*repo, "testdata", d, "*.yaml"))
		sort.Strings(files)
		for _, f := range files {
			src, err := os.ReadFile(f)
			if err != nil {
				continue
			}
			rel := "testdata/" + d + "/" + filepath.Base(f)
			sum.Dist["corpus_"+d]++
			check("file:"+rel, rel, string(src), func(rep int) result { return lintContent(rel, src, rep) })
		}
	}
	// (2) project directories
	dirs, _ := filepath.Glob(filepath.Join(*repo, "testdata", "projects", "*"))
	sort.Strings(dirs)
	for _, d := range dirs {
		if st, err := os.Stat(filepath.Join(d, "workflows")); err != nil || !st.IsDir() {
			if st, err := os.Stat(filepath.Join(d, ".github", "workflows")); err != nil || !st.IsDir() {
				continue
			}
		}
		d := d
		sum.Dist["project_dirs"]++
		check("project:"+filepath.Base(d), "testdata/projects/"+filepath.Base(d), "", func(rep int) result {
			wd := filepath.Join(d, "workflows")
			if _, err := os.Stat(wd); err != nil {
				return lintRepo(d, rep)
			}
			files, _ := filepath.Glob(filepath.Join(wd, "*.y*ml"))
			sort.Strings(files)
			return lintFiles(files, rep)
		})
	}
	// (3) multi-file runs over the examples (goroutine scheduling)
	ex, _ := filepath.Glob(filepath.Join(*repo, "testdata", "examples", "*.yaml"))
	sort.Strings(ex)
	for k := 0; k < 6 && len(ex) > 8; k++ {
		p := r.Perm(len(ex))
		var fs []string
		for _, i := range p[:8] {
			fs = append(fs, ex[i])
		}
		nontrivial++
		sum.Dist["multi_file_runs"]++
		check("multi:"+strings.Join(fs, ","), strings.Join(fs, ","), "", func(rep int) result { return lintFiles(fs, rep) })
	}

	cases, err := os.Create(filepath.Join(*out, "cases_format.txt"))
	hx.Must(err)
	casesReq, err := os.Create(filepath.Join(*out, "cases_required.txt"))
	hx.Must(err)
	defer cases.Close()
	defer casesReq.Close()

	// (4) site: format() placeholders  (+ K)
	for k := 0; k < *nsite; k++ {
		nargs := 1 + r.Intn(3) // format() needs at least one argument besides the format string
		var idx []int
		for _, i := range r.Perm(12)[:2+r.Intn(6)] {
			idx = append(idx, i)
		}
		src := wfFormat(idx, nargs)
		sum.Dist["site_format"]++
		check("site:format:"+src, "generated format() workflow", src, func(rep int) result { return lintContent("gen.yaml", []byte(src), rep) })
		res := lintContent("gen.yaml", []byte(src), 0)
		obs := []string{}
		for _, l := range strings.Split(res.Errs, "\n") {
			if m := reMissingPH.FindStringSubmatch(l); m != nil {
				obs = append(obs, "[0;"+m[1]+"]%N")
			} else if m := reExtraPH.FindStringSubmatch(l); m != nil {
				obs = append(obs, "[1;"+m[1]+"]%N")
			}
		}
		hs := []string{}
		for _, i := range idx {
			hs = append(hs, fmt.Sprintf("(%d%%N, tt)", i))
		}
		fmt.Fprintf(cases, "((%d%%N, %s), %s)\n", nargs, hx.CoqList(hs), hx.CoqList(obs))
	}
	// (5) site: missing required inputs of an action (+ K)
	spec, meta := requiredRich()
	ids := hx.SortedKeys(meta.Inputs)
	for k := 0; k < *nsite; k++ {
		var with []string
		supplied := []string{}
		for _, i := range r.Perm(len(ids)) {
			if k%6 != 0 && r.Chance(1, 3) { // (every 6th case: no `with:` section at all)
				with = append(with, fmt.Sprintf("          %s: x\n", meta.Inputs[ids[i]].Name))
				supplied = append(supplied, ids[i])
			}
		}
		src := "on: push\njobs:\n  a:\n    runs-on: ubuntu-latest\n    steps:\n      - uses: " + spec + "\n"
		if len(with) > 0 {
			src += "        with:\n" + strings.Join(with, "")
		}
		sum.Dist["site_action_inputs"]++
		check("site:action-inputs:"+src, "generated uses: workflow", src, func(rep int) result { return lintContent("gen.yaml", []byte(src), rep) })
		res := lintContent("gen.yaml", []byte(src), 0)
		obs := []string{}
		for _, l := range strings.Split(res.Errs, "\n") {
			parts := strings.SplitN(l, ": ", 2)
			if len(parts) == 2 {
				if m := reMissingInput.FindStringSubmatch(parts[1]); m != nil {
					obs = append(obs, bytesTuple(strings.ToLower(m[1])))
				}
			}
		}
		decl := []string{}
		for _, i := range r.Perm(len(ids)) {
			decl = append(decl, fmt.Sprintf("(%s, %s)", hx.CoqStr(ids[i]), hx.CoqBool(meta.Inputs[ids[i]].Required)))
		}
		sup := []string{}
		for _, s := range supplied {
			sup = append(sup, hx.CoqStr(s))
		}
		fmt.Fprintf(casesReq, "((%s, %s), %s)\n", hx.CoqList(sup), hx.CoqList(decl), hx.CoqList(obs))
	}
	// (6) site: reusable workflow call (+ K), project on disk
	proj := filepath.Join(*out, "proj")
	hx.Must(os.MkdirAll(filepath.Join(proj, ".git"), 0o755))
	for k := 0; k < *nsite/2; k++ {
		c := genCallee(r)
		wfdir := filepath.Join(proj, ".github", "workflows")
		name := fmt.Sprintf("callee%d.yaml", k)
		writeFile(filepath.Join(wfdir, name), c.yaml())
		var with, secs []string
		supIn, supSec := []string{}, []string{}
		for i, n := range c.inputs {
			if k%5 != 0 && r.Chance(1, 4) { // (every 5th case: neither `with:` nor `secrets:`)
				with = append(with, fmt.Sprintf("      %s: x\n", n))
				supIn = append(supIn, strings.ToLower(c.inputs[i]))
			}
		}
		for i, n := range c.secrets {
			if k%5 != 0 && r.Chance(1, 4) {
				secs = append(secs, fmt.Sprintf("      %s: x\n", n))
				supSec = append(supSec, strings.ToLower(c.secrets[i]))
			}
		}
		src := "on: push\njobs:\n  call:\n    uses: ./.github/workflows/" + name + "\n"
		if len(with) > 0 {
			src += "    with:\n" + strings.Join(with, "")
		}
		if len(secs) > 0 {
			src += "    secrets:\n" + strings.Join(secs, "")
		}
		caller := filepath.Join(wfdir, fmt.Sprintf("caller%d.yaml", k))
		writeFile(caller, src)
		sum.Dist["site_workflow_call"]++
		run := func(rep int) result {
			runtime.GOMAXPROCS(procs[rep%len(procs)])
			var ob bytes.Buffer
			l := newLinter(&ob)
			errs, err := l.LintFile(caller, nil)
			res := result{Errs: fmtErrs(errs), Out: ob.String()}
			if err != nil {
				res.Fail = "fatal"
			}
			// paths are absolute in this run: normalise the scratch prefix away
			res.Errs = strings.ReplaceAll(res.Errs, proj, "<proj>")
			res.Out = strings.ReplaceAll(res.Out, proj, "<proj>")
			return res
		}
		check("site:workflow-call:"+c.yaml()+"---\n"+src, "generated reusable workflow call", c.yaml()+"---\n"+src, run)
		res := run(0)
		obsIn, obsSec := []string{}, []string{}
		for _, l := range strings.Split(res.Errs, "\n") {
			parts := strings.SplitN(l, ": ", 2)
			if len(parts) == 2 {
				if m := reReqInput.FindStringSubmatch(parts[1]); m != nil {
					obsIn = append(obsIn, bytesTuple(strings.ToLower(m[1])))
				} else if m := reReqSecret.FindStringSubmatch(parts[1]); m != nil {
					obsSec = append(obsSec, bytesTuple(strings.ToLower(m[1])))
				}
			}
		}
		emit := func(names []string, req []bool, sup []string, obs []string) {
			decl := []string{}
			for _, i := range r.Perm(len(names)) {
				decl = append(decl, fmt.Sprintf("(%s, %s)", hx.CoqStr(strings.ToLower(names[i])), hx.CoqBool(req[i])))
			}
			ss := []string{}
			for _, s := range sup {
				ss = append(ss, hx.CoqStr(s))
			}
			fmt.Fprintf(casesReq, "((%s, %s), %s)\n", hx.CoqList(ss), hx.CoqList(decl), hx.CoqList(obs))
		}
		emit(c.inputs, c.inReq, supIn, obsIn)
		emit(c.secrets, c.secReq, supSec, obsSec)
	}
	// (7') several jobs with dangling references (each is reported, whatever the visiting order);
	// JSON literals whose keys differ in letter case only (one property: its type is decided by
	// the text)
	for k := 0; k < 6; k++ {
		var b strings.Builder
		b.WriteString("on: push\njobs:\n")
		n := 3 + k
		for _, i := range r.Perm(n) {
			fmt.Fprintf(&b, "  d%d:\n    needs: [ghost%d, other%d]\n    runs-on: ubuntu-latest\n    steps:\n      - run: echo\n", i, i, i)
		}
		src := b.String()
		sum.Dist["site_needs_dangling"]++
		check("site:needs-dangling:"+src, "generated workflow with dangling needs in every job", src, func(rep int) result { return lintContent("gen.yaml", []byte(src), rep) })
	}
	for _, js := range []string{`{"ab":1,"Ab":true,"aB":"s"}`, `{"k":"s","K":1,"kK":true,"Kk":[1]}`, `{"x":{"id":1},"X":{"id":true},"xX":{"ID":"s"}}`, `[{"a":1},{"A":true},{"a":"s"}]`} {
		src := "on: push\njobs:\n  a:\n    runs-on: ubuntu-latest\n    steps:\n      - run: echo ${{ fromJSON('" + js + "').ab.foo }} ${{ fromJSON('[\"p\",\"q\"]')[fromJSON('" + js + "').k] }}\n      - run: echo ${{ fromJSON('" + js + "').x.id.foo }} ${{ fromJSON('" + js + "')[0].a.foo }}\n"
		sum.Dist["site_json_case_keys"]++
		check("site:json-case-keys:"+js, "JSON literal with keys differing in letter case only", src, func(rep int) result { return lintContent("gen.yaml", []byte(src), rep) })
	}
	// (7'') -format templates that list the rule kinds (allKinds walks a map of the registered rules and
	// sorts it by name), with rules of the library user (OnRulesCreated) whose names differ in
	// separators / letter case only
	for ti, tmpl := range []string{"{{range $k := allKinds}}{{$k.Name}}|{{end}}\n", "{{range $i, $k := allKinds}}{{$i}}={{$k.Name}}:{{$k.Description}};{{end}}{{range $ := .}}{{$.Kind}} {{end}}\n"} {
		for oi, names := range [][]string{{"deploy-check", "deploy_check", "DeployCheck", "deploycheck"}, {"syntax_check", "SyntaxCheck", "zz", "Zz", "z-z", "z_z"}, {"b", "a", "B", "A", "a-", "a_"}} {
			tmpl, names := tmpl, names
			src := "on: push\njobs:\n  a:\n    runs-on: ubuntu-latest\n    steps:\n      - run: echo ${{ github.nope }}\n"
			sum.Dist["site_format_all_kinds"]++
			check(fmt.Sprintf("site:format-allkinds:%d:%d", ti, oi), "template "+tmpl+" with the user's rules "+strings.Join(names, ", "), src, func(rep int) result {
				runtime.GOMAXPROCS(procs[rep%len(procs)])
				var out bytes.Buffer
				l, err := actionlint.NewLinter(&out, &actionlint.LinterOptions{Color: actionlint.ColorOptionKindNever, Format: tmpl,
					OnRulesCreated: func(rs []actionlint.Rule) []actionlint.Rule {
						// (registered in another order every time: the order of registration must not show)
						for i := range names {
							rs = append(rs, &userRule{RuleBase: actionlint.NewRuleBase(names[(i+rep)%len(names)], "rule of the user")})
						}
						return rs
					}})
				hx.Must(err)
				errs, err := l.Lint("gen.yaml", []byte(src), nil)
				r := result{Errs: fmtErrs(errs), Out: out.String()}
				if err != nil {
					r.Fail = "fatal: " + err.Error()
				}
				return r
			})
		}
	}
	// (7d) several `choice` inputs whose default is not among the options (each message lists its
	// own options); an index that is not a literal on an object whose members have different types
	for k := 0; k < 4; k++ {
		var b strings.Builder
		b.WriteString("on:\n  workflow_dispatch:\n    inputs:\n")
		for _, i := range r.Perm(3 + k) {
			fmt.Fprintf(&b, "      in%d:\n        type: choice\n        default: nope%d\n        options: [a%d, b%d, c%d]\n", i, i, i, i, i)
		}
		b.WriteString("jobs:\n  a:\n    runs-on: ubuntu-latest\n    steps:\n      - run: echo\n")
		src := b.String()
		sum.Dist["site_choice_defaults"]++
		check("site:choice-defaults:"+src, "several choice inputs with a default outside their options", src, func(rep int) result { return lintContent("gen.yaml", []byte(src), rep) })
	}
	for k, rows := range []string{"        n: [1]\n        b: [true]\n        s: [x]\n", "        s: [x]\n        o: [{a: 1}]\n        n: [1]\n        b: [true]\n", "        l: [[1]]\n        n: [2]\n        s: [y]\n        z: [null]\n"} {
		src := "on: push\njobs:\n  a:\n    runs-on: ubuntu-latest\n    strategy:\n      matrix:\n" + rows + "    steps:\n      - run: echo ${{ matrix[github.job].foo }} ${{ matrix[github.job] == 1 }}\n      - run: echo ${{ matrix[format('{0}', github.job)][0] }} ${{ fromJSON('{\"a\":1,\"b\":true,\"c\":\"s\"}')[github.job].x }}\n"
		sum.Dist["site_dynamic_index"]++
		check(fmt.Sprintf("site:dynamic-index:%d", k), "an object whose members have different types, indexed by a value that is not a literal", src, func(rep int) result { return lintContent("gen.yaml", []byte(src), rep) })
	}
	// (7e) two entries of one flow mapping on one line whose reports COLLIDE in (line, column): the
	// column inside a value counts bytes, the position of the value counts characters, so 15
	// two-byte characters in front of a placeholder move its report 15 columns to the right - onto
	// the placeholder of the next entry. Same-position reports keep their emission order, and the
	// entries of env: / with: are visited in map order (300 repetitions)
	{
		src := "on: push\njobs:\n  a:\n    runs-on: ubuntu-latest\n    env: {A: \"" + strings.Repeat("é", 15) + "${{ x }}\", B: \"${{ y }}\"}\n    steps:\n      - run: echo\n"
		sum.Dist["site_byte_column_collision"]++
		first := lintContent("gen.yaml", []byte(src), 0)
		sum.Evaluations++
		for i := 1; i < 300; i++ {
			if o := lintContent("gen.yaml", []byte(src), i); o != first {
				sum.OracleFails = append(sum.OracleFails, failure{What: "two diagnostics of different entries of one flow mapping are reported at the same line:column (byte-counted column inside a value that holds multi-byte characters) and their order differs between repetitions", Key: "site:same-position-by-byte-columns", Input: "env: {A: \"<15 x é>${{ x }}\", B: \"${{ y }}\"}", First: first.Errs, Other: o.Errs, Source: src})
				break
			}
		}
	}
	// (7) sites without a model: needs cycles, runner label conflicts (repetition only)
	for k := 0; k < *nsite; k++ {
		src := wfNeedsCycles(r)
		sum.Dist["site_needs_cycles"]++
		check("site:needs-cycles:"+src, "generated needs workflow", src, func(rep int) result { return lintContent("gen.yaml", []byte(src), rep) })
		src3 := wfEnvOrder(r)
		sum.Dist["site_env_order"]++
		check("site:env-order:"+src3, "generated env/with workflow", src3, func(rep int) result { return lintContent("gen.yaml", []byte(src3), rep) })
		src2 := wfRunnerLabels(r)
		sum.Dist["site_runner_labels"]++
		check("site:runner-labels:"+src2, "generated runs-on workflow", src2, func(rep int) result { return lintContent("gen.yaml", []byte(src2), rep) })
	}
	// (8) long name lists built from map loops (more than 32 entries): unknown input of the
	// popular actions with the most inputs, of a local action and of a reusable workflow with 45
	specs := hx.SortedKeys(actionlint.PopularActions)
	sort.SliceStable(specs, func(i, j int) bool {
		return len(actionlint.PopularActions[specs[i]].Inputs) > len(actionlint.PopularActions[specs[j]].Inputs)
	})
	for k := 0; k < 4 && k < len(specs); k++ {
		src := "on: push\njobs:\n  a:\n    runs-on: ubuntu-latest\n    steps:\n      - uses: " + specs[k] + "\n        with:\n          no-such-input-zz: x\n"
		sum.Dist["site_long_lists"]++
		sum.Dist[fmt.Sprintf("long_list_len:%d", len(actionlint.PopularActions[specs[k]].Inputs))]++
		check("site:long-list:"+specs[k], "unknown input of "+specs[k], src, func(rep int) result { return lintContent("gen.yaml", []byte(src), rep) })
	}
	{
		lp := filepath.Join(*out, "longproj")
		hx.Must(os.MkdirAll(filepath.Join(lp, ".git"), 0o755))
		var ins, wins strings.Builder
		for i := 0; i < 45; i++ {
			n := fmt.Sprintf("%s_%02d", namePool[(i*7)%len(namePool)], (i*13)%45)
			fmt.Fprintf(&ins, "  %s:\n    description: d\n", n)
			fmt.Fprintf(&wins, "      %s:\n        type: string\n", n)
		}
		writeFile(filepath.Join(lp, "act", "action.yml"), "name: a\ndescription: d\ninputs:\n"+ins.String()+"runs:\n  using: node20\n  main: index.js\n")
		writeFile(filepath.Join(lp, ".github", "workflows", "callee.yaml"), "on:\n  workflow_call:\n    inputs:\n"+wins.String()+"    secrets:\n"+strings.ReplaceAll(wins.String(), "        type: string\n", "        required: false\n")+"jobs:\n  j:\n    runs-on: ubuntu-latest\n    steps:\n      - run: echo\n")
		caller := filepath.Join(lp, ".github", "workflows", "caller.yaml")
		writeFile(caller, "on: push\njobs:\n  a:\n    runs-on: ubuntu-latest\n    steps:\n      - uses: ./act\n        with:\n          no-such-input-zz: x\n  b:\n    uses: ./.github/workflows/callee.yaml\n    with:\n      no-such-input-zz: x\n    secrets:\n      no-such-secret-zz: x\n")
		sum.Dist["site_long_lists"]++
		check("site:long-list:local", "unknown input/secret of a local action and a reusable workflow with 45 inputs", "", func(rep int) result {
			runtime.GOMAXPROCS(procs[rep%len(procs)])
			var ob bytes.Buffer
			l := newLinter(&ob)
			errs, err := l.LintFile(caller, nil)
			res := result{Errs: strings.ReplaceAll(fmtErrs(errs), lp, "<proj>"), Out: strings.ReplaceAll(ob.String(), lp, "<proj>")}
			if err != nil {
				res.Fail = "fatal"
			}
			return res
		})
	}
	// (9) two repositories with different configurations in ONE LintFiles call (project resolved
	// per file): goroutine scheduling must not leak one repository's configuration into the other
	{
		var files []string
		for ri, label := range []string{"runner-of-repo-one", "runner-of-repo-two"} {
			rp := filepath.Join(*out, fmt.Sprintf("tworepos/r%d", ri))
			hx.Must(os.MkdirAll(filepath.Join(rp, ".git"), 0o755))
			writeFile(filepath.Join(rp, ".github", "actionlint.yaml"), "self-hosted-runner:\n  labels:\n    - "+label+"\n")
			for k := 0; k < 6; k++ {
				f := filepath.Join(rp, ".github", "workflows", fmt.Sprintf("w%d.yaml", k))
				writeFile(f, "on: push\njobs:\n  a:\n    runs-on: runner-of-repo-one\n    steps:\n      - run: echo\n  b:\n    runs-on: runner-of-repo-two\n    steps:\n      - run: echo ${{ unknown_zz }}\n")
				files = append(files, f)
			}
		}
		// interleave the two repositories
		sort.SliceStable(files, func(i, j int) bool { return filepath.Base(files[i]) < filepath.Base(files[j]) })
		nontrivial++
		sum.Dist["two_repository_runs"]++
		base := filepath.Join(*out, "tworepos")
		check("multi:two-repositories", "12 files of two repositories with different actionlint.yaml in one LintFiles call", "", func(rep int) result {
			res := lintFiles(files, rep)
			res.Errs = strings.ReplaceAll(res.Errs, base, "<base>")
			res.Out = strings.ReplaceAll(res.Out, base, "<base>")
			return res
		})
	}
	// (9') one repository: files with a malformed call `<callee>@ref` of a local workflow next to files
	// that call the same workflow properly but forget its required input
	{
		pp := filepath.Join(*out, "poisonproj")
		hx.Must(os.MkdirAll(filepath.Join(pp, ".git"), 0o755))
		wd := filepath.Join(pp, ".github", "workflows")
		writeFile(filepath.Join(wd, "callee.yml"), "on:\n  workflow_call:\n    inputs:\n      name:\n        type: string\n        required: true\njobs:\n  j:\n    runs-on: ubuntu-latest\n    steps:\n      - run: echo\n")
		var files []string
		for k := 0; k < 5; k++ {
			a := filepath.Join(wd, fmt.Sprintf("a%d.yml", k))
			// (the malformed call comes last in a large file: in a parallel run the small files are checked
			// before it is reached, in a sequential run after it)
			var big strings.Builder
			big.WriteString("on: push\njobs:\n")
			for q := 0; q < 150*(k%2); q++ {
				fmt.Fprintf(&big, "  j%d:\n    runs-on: ubuntu-latest\n    steps:\n      - run: echo ${{ github.sha }}\n", q)
			}
			big.WriteString("  zc:\n    uses: ./.github/workflows/callee.yml@main\n")
			writeFile(a, big.String())
			b := filepath.Join(wd, fmt.Sprintf("b%d.yml", k))
			writeFile(b, "on: push\njobs:\n  c:\n    uses: ./.github/workflows/callee.yml\n")
			files = append(files, a, b)
		}
		nontrivial++
		sum.Dist["malformed_and_proper_call_runs"]++
		check("multi:malformed-and-proper-calls", "10 files: malformed `callee.yml@main` calls next to proper calls of the same local workflow", "", func(rep int) result {
			res := lintFiles(files, rep)
			res.Errs = strings.ReplaceAll(res.Errs, pp, "<proj>")
			res.Out = strings.ReplaceAll(res.Out, pp, "<proj>")
			return res
		})
	}
	// (9b) callees of every input shape linted in ONE run with their callers: what a caller is told
	// about a required input must not depend on whether the callee's file or the callee's syntax
	// tree reached the shared cache first (one small callee with large callers, one large callee
	// with small callers; five runs per repetition)
	{
		cp := filepath.Join(*out, "calleeproj")
		hx.Must(os.MkdirAll(filepath.Join(cp, ".git"), 0o755))
		wd := filepath.Join(cp, ".github", "workflows")
		inputs := "    inputs:\n      a:\n        type: string\n        required: true\n        default: ''\n      b:\n        type: string\n        required: true\n        default: null\n      c:\n        type: string\n        required: true\n" +
			"      d:\n        type: boolean\n        required: true\n      e:\n        type: number\n        required: true\n        default: 0\n      f:\n        type: string\n        required: ${{ true }}\n      g:\n        required: True\n      h:\n        type: boolean\n        required: true\n        default: false\n" +
			"    secrets:\n      s:\n        required: true\n      t:\n        required: ${{ true }}\n      u:\n"
		var pad strings.Builder
		for q := 0; q < 150; q++ {
			fmt.Fprintf(&pad, "  j%d:\n    runs-on: ubuntu-latest\n    steps:\n      - run: echo ${{ github.sha }}\n", q)
		}
		writeFile(filepath.Join(wd, "small.yml"), "on:\n  workflow_call:\n"+inputs+"jobs:\n  j:\n    runs-on: ubuntu-latest\n    steps:\n      - run: echo\n")
		writeFile(filepath.Join(wd, "large.yml"), "on:\n  workflow_call:\n"+inputs+"jobs:\n"+pad.String())
		var files []string
		for k := 0; k < 3; k++ {
			a := filepath.Join(wd, fmt.Sprintf("calls-small-%d.yml", k))
			writeFile(a, "on: push\njobs:\n"+pad.String()+"  zc:\n    uses: ./.github/workflows/small.yml\n")
			b := filepath.Join(wd, fmt.Sprintf("calls-large-%d.yml", k))
			writeFile(b, "on: push\njobs:\n  c:\n    uses: ./.github/workflows/large.yml\n    with:\n      c: x\n")
			files = append(files, a, b)
		}
		files = append(files, filepath.Join(wd, "small.yml"), filepath.Join(wd, "large.yml"))
		sort.Strings(files)
		nontrivial++
		sum.Dist["callee_and_callers_runs"]++
		check("multi:callees-and-callers", "8 files: two callees declaring inputs of every shape (empty / null / zero / false default, required given by a placeholder, no type) and their callers", "", func(rep int) result {
			var res result
			for k := 0; k < 5; k++ {
				r := lintFiles(files, rep+k)
				res.Errs += strings.ReplaceAll(r.Errs, cp, "<proj>")
				res.Out += strings.ReplaceAll(r.Out, cp, "<proj>")
				res.Fail += r.Fail
			}
			return res
		})
	}
	// (9c) a configuration that lists a self-hosted runner label (and a broken pattern) more than once
	{
		lp := filepath.Join(*out, "labelproj")
		hx.Must(os.MkdirAll(filepath.Join(lp, ".git"), 0o755))
		writeFile(filepath.Join(lp, ".github", "actionlint.yaml"), "self-hosted-runner:\n  labels:\n    - zeta\n    - alpha\n    - zeta\n    - 'bad['\n    - mid-*\n    - alpha\n    - 'worse['\n    - 'bad['\n    - omega\n    - mid-*\n")
		wf := filepath.Join(lp, ".github", "workflows", "w.yaml")
		writeFile(wf, "on: push\njobs:\n  a:\n    runs-on: nosuch-label\n    steps:\n      - run: echo\n  b:\n    runs-on: [self-hosted, other-unknown]\n    steps:\n      - run: echo\n")
		nontrivial++
		sum.Dist["duplicate_config_label_runs"]++
		check("multi:duplicate-config-labels", "a configuration listing labels and broken patterns more than once; two unknown labels", "", func(rep int) result {
			res := lintFiles([]string{wf}, rep)
			res.Errs = strings.ReplaceAll(res.Errs, lp, "<proj>")
			res.Out = strings.ReplaceAll(res.Out, lp, "<proj>")
			return res
		})
	}
	// (9d) a configuration with SEVERAL invalid entries: the fatal error names the same one every time
	{
		fp := filepath.Join(*out, "badcfgproj")
		hx.Must(os.MkdirAll(filepath.Join(fp, ".git"), 0o755))
		writeFile(filepath.Join(fp, ".github", "actionlint.yaml"), "paths:\n  'a[':\n    ignore: [x]\n  'b[':\n    ignore: [y]\n  'c[':\n    ignore: [z]\n  'd[':\n    ignore: [z]\n")
		wf := filepath.Join(fp, ".github", "workflows", "w.yaml")
		writeFile(wf, "on: push\njobs:\n  a:\n    runs-on: ubuntu-latest\n    steps:\n      - run: echo\n")
		sum.Dist["invalid_config_runs"]++
		check("multi:config-with-several-invalid-globs", "a configuration whose `paths` section has four invalid glob patterns", "", func(rep int) result {
			res := lintFiles([]string{wf}, rep)
			res.Fail = strings.ReplaceAll(res.Fail, fp, "<proj>")
			return res
		})
	}
	casesFatal, err := os.Create(filepath.Join(*out, "cases_fatal.txt"))
	hx.Must(err)
	defer casesFatal.Close()
	// (9') several files of one run end in a fatal error (unreadable files; files of a repository whose
	// configuration is broken): the fatal error that is returned is the same one every time
	{
		fp := filepath.Join(*out, "fatalproj")
		hx.Must(os.MkdirAll(filepath.Join(fp, ".git"), 0o755))
		var good, missing []string
		for i := 0; i < 5; i++ {
			g := filepath.Join(fp, ".github", "workflows", fmt.Sprintf("w%d.yaml", i))
			writeFile(g, "on: push\njobs:\n  a:\n    runs-on: ubuntu-latest\n    steps:\n      - run: echo ${{ nope }}\n")
			good = append(good, g)
			missing = append(missing, filepath.Join(fp, ".github", "workflows", fmt.Sprintf("absent%d.yaml", i)))
		}
		hx.Must(os.MkdirAll(filepath.Join(fp, ".github", "workflows", "dir.yaml"), 0o755))
		for ci, fs := range [][]string{
			{missing[0], missing[1], missing[2]},
			{good[0], missing[3], good[1], missing[1], good[2], missing[4]},
			{missing[2], good[0], filepath.Join(fp, ".github", "workflows", "dir.yaml"), missing[0]},
			{good[0], good[1], good[2], good[3], missing[4], missing[3]},
		} {
			fs := fs
			sum.Dist["several_fatal_errors_runs"]++
			{
				// K: which file the fatal error names, against the model (first failing file in argument order)
				res := lintFiles(fs, ci)
				named := 0
				var rs []string
				for i, f := range fs {
					if _, err := os.ReadFile(f); err != nil {
						rs = append(rs, fmt.Sprintf("Some %d%%N", i+1))
						if named == 0 && strings.Contains(res.Fail, "\""+f+"\"") {
							named = i + 1
						}
					} else {
						rs = append(rs, "None")
					}
				}
				if strings.HasPrefix(res.Fail, "fatal") && named == 0 {
					// the error names a file that is not the first unreadable one: find which
					for i, f := range fs {
						if strings.Contains(res.Fail, "\""+f+"\"") {
							named = i + 1
						}
					}
				}
				fmt.Fprintf(casesFatal, "(%s, [[%d]]%%N)\n", hx.CoqList(rs), named)
			}
			check(fmt.Sprintf("multi-fatal:several-unreadable-files:%d", ci), fmt.Sprintf("%d files of which two or more cannot be read", len(fs)), strings.ReplaceAll(strings.Join(fs, "\n"), fp, "<proj>"), func(rep int) result {
				res := lintFiles(fs, rep)
				res.Fail = strings.ReplaceAll(res.Fail, fp, "<proj>")
				res.Errs = strings.ReplaceAll(res.Errs, fp, "<proj>")
				return res
			})
		}
	}
	// (10) "how many times the run is repeated": the SAME Linter value lints the same file again;
	// every run must report what the first one reported (a broken local action and a broken
	// reusable workflow are reported once per RUN, not once per Linter)
	{
		bp := filepath.Join(*out, "reuseproj")
		hx.Must(os.MkdirAll(filepath.Join(bp, ".git"), 0o755))
		writeFile(filepath.Join(bp, "broken", "action.yml"), "name: b\ninputs: 42\nruns:\n  using: node20\n  main: index.js\n")
		writeFile(filepath.Join(bp, "fine", "action.yml"), "name: f\ndescription: d\ninputs:\n  must:\n    required: true\nruns:\n  using: node20\n  main: index.js\n")
		writeFile(filepath.Join(bp, ".github", "workflows", "brokencallee.yaml"), "on:\n  workflow_call:\n    inputs: 42\njobs: {}\n")
		wf := filepath.Join(bp, ".github", "workflows", "w.yaml")
		writeFile(wf, "on: push\njobs:\n  a:\n    runs-on: ubuntu-latest\n    steps:\n      - uses: ./broken\n      - uses: ./fine\n      - uses: ./missing\n      - run: echo ${{ unknown_zz }}\n  b:\n    uses: ./.github/workflows/brokencallee.yaml\n  c:\n    uses: ./.github/workflows/nosuch.yaml\n")
		src, err := os.ReadFile(wf)
		hx.Must(err)
		sum.Dist["linter_reuse_runs"]++
		for mode := 0; mode < 3; mode++ {
			var ob bytes.Buffer
			l := newLinter(&ob)
			var first string
			for i := 0; i < 4; i++ {
				ob.Reset()
				var errs []*actionlint.Error
				var err error
				switch mode {
				case 0:
					errs, err = l.LintFile(wf, nil)
				case 1:
					errs, err = l.Lint(wf, src, nil)
				default:
					errs, err = l.LintFiles([]string{wf}, nil)
				}
				cur := strings.ReplaceAll(fmtErrs(errs)+"\x00"+ob.String(), bp, "<proj>")
				if err != nil {
					cur += "\x00fatal"
				}
				sum.Evaluations++
				if i == 0 {
					first = cur
				} else if cur != first {
					sum.OracleFails = append(sum.OracleFails, failure{What: fmt.Sprintf("run %d on the same Linter value (mode %d: LintFile/Lint/LintFiles) reports something else than the first run", i+1, mode),
						Key: fmt.Sprintf("linter-reuse:mode%d", mode), Input: "scratch project with a broken local action / reusable workflow", First: first, Other: cur, Source: string(src)})
					break
				}
			}
		}
	}
	// (11) jobs written as a flow mapping over several lines with DEcreasing indentation: the job
	// order is by (line, column) lexicographically; the first job using a broken local action is
	// the one that reports it
	{
		fp := filepath.Join(*out, "flowproj")
		hx.Must(os.MkdirAll(filepath.Join(fp, ".git"), 0o755))
		writeFile(filepath.Join(fp, "broken", "action.yml"), "name: b\ninputs: 42\nruns:\n  using: node20\n  main: index.js\n")
		wf := filepath.Join(fp, ".github", "workflows", "w.yaml")
		writeFile(wf, "on: push\njobs: {\n            zed: {runs-on: ubuntu-latest, steps: [{uses: ./broken}, {run: 'echo ${{ nope1 }}'}]},\n        yak: {runs-on: ubuntu-latest, steps: [{uses: ./broken}]},\n    xen: {runs-on: ubuntu-latest, needs: [wax], steps: [{uses: ./broken}]},\n  wax: {runs-on: ubuntu-latest, needs: [xen], steps: [{uses: ./broken}, {run: 'echo ${{ nope2 }}'}]}\n}\n")
		sum.Dist["site_multiline_flow_jobs"]++
		check("site:multiline-flow-jobs", "jobs as a flow mapping over several lines with decreasing indentation, every job uses the same broken local action", "", func(rep int) result {
			runtime.GOMAXPROCS(procs[rep%len(procs)])
			var ob bytes.Buffer
			l := newLinter(&ob)
			errs, err := l.LintFile(wf, nil)
			res := result{Errs: strings.ReplaceAll(fmtErrs(errs), fp, "<proj>"), Out: strings.ReplaceAll(ob.String(), fp, "<proj>")}
			if err != nil {
				res.Fail = "fatal"
			}
			return res
		})
	}
	// (12) matrix: a row given by an expression, include entries assigning that row together with
	// include-only keys, exclude entries on those keys (rule_matrix.go ranges over the assigns map)
	for k := 0; k < *nsite; k++ {
		keys := []string{"gui", "extra2", "flavor", "zeta", "alpha"}
		var b strings.Builder
		b.WriteString("on: push\njobs:\n  a:\n    runs-on: ubuntu-latest\n    strategy:\n      matrix:\n        os: ${{ fromJSON('[\"a\"]') }}\n        ver: [1, 2]\n        include:\n")
		var used []string
		for i := 0; i < 2+r.Intn(2); i++ {
			b.WriteString("          - os: linux\n")
			for _, j := range r.Perm(len(keys))[:1+r.Intn(3)] {
				fmt.Fprintf(&b, "            %s: v%d\n", keys[j], i)
				used = append(used, fmt.Sprintf("%s: v%d", keys[j], i))
			}
			if r.Chance(1, 2) {
				b.WriteString("            ver: 3\n")
			}
		}
		b.WriteString("        exclude:\n")
		for _, u := range used {
			if r.Chance(2, 3) {
				b.WriteString("          - " + u + "\n")
			}
		}
		b.WriteString("          - ver: 1\n    steps:\n      - run: echo\n")
		src := b.String()
		sum.Dist["site_matrix_expression_row"]++
		check("site:matrix-expr-row:"+src, "generated matrix with an expression row", src, func(rep int) result { return lintContent("gen.yaml", []byte(src), rep) })
	}
	// (K-sort) the comparison of the final sort: sort.Stable(ByErrorPosition) on generated lists of one
	// file against the stable sort by (line, column) of the model (Out/StableSort.v pos_leb).  Lines and
	// columns are taken around powers of two and far apart, so that a comparison through a packed or
	// truncated key shows.
	{
		casesSort, err := os.Create(filepath.Join(*out, "cases_sort.txt"))
		hx.Must(err)
		defer casesSort.Close()
		rs := hx.NewRng(*seed + 77)
		var pool []int
		for _, sh := range []uint{0, 1, 2, 7, 8, 10, 12, 15, 16, 20, 24, 31, 32, 40} {
			for _, d := range []int{-1, 0, 1, 15} {
				if v := (1 << sh) + d; v >= 1 {
					pool = append(pool, v)
				}
			}
		}
		for ci := 0; ci < 400; ci++ {
			n := 2 + rs.Intn(7)
			base := pool[rs.Intn(len(pool))]
			var errs []*actionlint.Error
			var in []string
			for i := 0; i < n; i++ {
				var l, c int
				switch rs.Intn(4) {
				case 0:
					l, c = pool[rs.Intn(len(pool))], pool[rs.Intn(len(pool))]
				case 1: // same line, columns a power of two apart
					l, c = base, 1+rs.Intn(3)+(1<<uint(rs.Intn(34)))*rs.Intn(3)
				case 2: // neighbouring lines, any column
					l, c = base+rs.Intn(2), pool[rs.Intn(len(pool))]
				default:
					l, c = 1+rs.Intn(4), 1+rs.Intn(4)
				}
				errs = append(errs, &actionlint.Error{Message: strconv.Itoa(i), Filepath: "f.yaml", Line: l, Column: c, Kind: "k"})
				in = append(in, fmt.Sprintf("(%d, %d, %d)", l, c, i))
			}
			sort.Stable(actionlint.ByErrorPosition(errs))
			var tags []string
			for _, e := range errs {
				tags = append(tags, e.Message)
			}
			fmt.Fprintf(casesSort, "([%s]%%N, [[%s]]%%N)\n", strings.Join(in, "; "), strings.Join(tags, "; "))
			sum.Dist["final_sort_lists"]++
		}
	}
	runtime.GOMAXPROCS(runtime.NumCPU())
	if *ambientBroken {
		sum.Dist["clock_witness_search"]++
		if f := clockWitness(); f != nil {
			sum.OracleFails = append(sum.OracleFails, *f)
		}
	}
	sum.Nontrivial = nontrivial
	sum.Extra["repetitions_per_input"] = *reps
	sum.Samples = append(sum.Samples, map[string]interface{}{"site": "format", "workflow": wfFormat([]int{0, 3, 5, 7}, 1)})
	sum.Samples = append(sum.Samples, map[string]interface{}{"site": "action-inputs", "spec": spec, "required_inputs": len(ids)})
	sum.Write(filepath.Join(*out, "summary.json"))
}
