package main

// Translator (T) for C02: the determinism theorems take every rule as a function of the
// workflow, the configuration and the options.  That assumption is re-checked on every run:
// this file lists, with go/parser + go/ast, every place of the package (test files excluded)
// that reads something else — the clock, the environment, the process, the machine, a random
// source — and writes the list as coq/Gen/GenAmbient.v.  coq/Out/Ambient.v proves that every
// listed site is one of the known ones (elapsed-time logging, the default working directory,
// the size of the process pool).

import (
	"fmt"
	"go/ast"
	"go/parser"
	"go/token"
	"os"
	"path/filepath"
	"sort"
	"strings"

	"verifharness/hx"
)

// package (by import path) -> functions that read ambient state ("*" = every function)
var ambientFuncs = map[string][]string{
	"time":         {"Now", "Since", "Until", "After", "Tick", "NewTimer", "NewTicker", "Sleep", "AfterFunc"},
	"os":           {"Getenv", "LookupEnv", "Environ", "ExpandEnv", "Hostname", "Getpid", "Getppid", "Getuid", "Geteuid", "Getgid", "Getegid", "Getwd", "UserHomeDir", "UserCacheDir", "UserConfigDir", "TempDir", "Executable", "Getpagesize"},
	"os/user":      {"*"},
	"runtime":      {"NumCPU", "GOMAXPROCS", "NumGoroutine", "NumCgoCall", "Caller", "Callers", "Stack", "ReadMemStats"},
	"math/rand":    {"*"},
	"math/rand/v2": {"*"},
	"crypto/rand":  {"*"},
	"net":          {"*"},
	"net/http":     {"*"},
	"syscall":      {"Getenv", "Getpid", "Gettimeofday", "Time"},
}

type ambientSite struct{ file, fn, callee string }

func scanAmbient(repo string) ([]ambientSite, error) {
	files, err := filepath.Glob(filepath.Join(repo, "*.go"))
	if err != nil {
		return nil, err
	}
	sort.Strings(files)
	var sites []ambientSite
	fset := token.NewFileSet()
	for _, f := range files {
		if strings.HasSuffix(f, "_test.go") {
			continue
		}
		af, err := parser.ParseFile(fset, f, nil, parser.ParseComments)
		if err != nil {
			return nil, err
		}
		// build-tag guarded hook files of the verification are not part of the shipped package
		guarded := false
		for _, cg := range af.Comments {
			for _, c := range cg.List {
				if strings.HasPrefix(c.Text, "//go:build") && strings.Contains(c.Text, "verif") && !strings.Contains(c.Text, "!verif") && c.Pos() < af.Package {
					guarded = true
				}
			}
		}
		if guarded {
			continue
		}
		local := map[string]string{} // local package name -> import path
		for _, im := range af.Imports {
			p := strings.Trim(im.Path.Value, "\"")
			name := p[strings.LastIndex(p, "/")+1:]
			if name == "v2" {
				name = "rand"
			}
			if im.Name != nil {
				name = im.Name.Name
			}
			local[name] = p
		}
		for _, d := range af.Decls {
			fd, ok := d.(*ast.FuncDecl)
			fn := "<package level>"
			var body ast.Node = d
			if ok {
				fn = fd.Name.Name
				if fd.Recv != nil && len(fd.Recv.List) == 1 {
					t := fd.Recv.List[0].Type
					if st, ok := t.(*ast.StarExpr); ok {
						t = st.X
					}
					if id, ok := t.(*ast.Ident); ok {
						fn = id.Name + "." + fn
					}
				}
				if fd.Body == nil {
					continue
				}
				body = fd.Body
			}
			ast.Inspect(body, func(n ast.Node) bool {
				se, ok := n.(*ast.SelectorExpr)
				if !ok {
					return true
				}
				id, ok := se.X.(*ast.Ident)
				if !ok || id.Obj != nil { // a local variable shadows the package name
					return true
				}
				path, ok := local[id.Name]
				if !ok {
					return true
				}
				for _, f := range ambientFuncs[path] {
					if f == "*" || f == se.Sel.Name {
						sites = append(sites, ambientSite{filepath.Base(fset.Position(se.Pos()).Filename), fn, path + "." + se.Sel.Name})
					}
				}
				return true
			})
		}
	}
	// one entry per (file, function, callee)
	seen := map[ambientSite]bool{}
	var out []ambientSite
	for _, s := range sites {
		if !seen[s] {
			seen[s] = true
			out = append(out, s)
		}
	}
	sort.Slice(out, func(i, j int) bool {
		a, b := out[i], out[j]
		if a.file != b.file {
			return a.file < b.file
		}
		if a.fn != b.fn {
			return a.fn < b.fn
		}
		return a.callee < b.callee
	})
	return out, nil
}

func doExtractAmbient(repo, gen string) int {
	sites, err := scanAmbient(repo)
	if err != nil {
		fmt.Fprintln(os.Stderr, "extract-ambient:", err)
		return 2
	}
	var sb strings.Builder
	sb.WriteString("(* Gen/GenAmbient.v — GENERATED on every run of ./check C02 from the .go files of the package\n   by harness/cmd/c02 (-extract-ambient); do not edit.  Every place that reads the clock, the\n   environment, the process, the machine or a random source: (file, function, callee). *)\n")
	sb.WriteString("From AL Require Import Base.Str.\n\n")
	sb.WriteString("Definition ambient_sites : list (string * string * string) := [\n")
	for i, s := range sites {
		sep := ";"
		if i == len(sites)-1 {
			sep = ""
		}
		fmt.Fprintf(&sb, "  (%s, %s, %s)%s\n", hx.CoqStr(s.file), hx.CoqStr(s.fn), hx.CoqStr(s.callee), sep)
	}
	sb.WriteString("].\n")
	if err := os.WriteFile(gen, []byte(sb.String()), 0o644); err != nil {
		fmt.Fprintln(os.Stderr, "extract-ambient:", err)
		return 2
	}
	return 0
}

// clockWitness is the search for a failing input that goes with a broken ambient-read gate: when
// the source reads the clock at a new place, look for a schedule whose verdict differs from the
// one computed from a FIXED instant (the epoch, like the shipped rule): irregular schedules
// "0,2 H * * *", "0,2 0 D * *", "0,2 0 1 M *" run 2 minutes apart whatever the instant, so every
// one of them must be reported as too frequent; a rule that measures from "now" loses the report
// for the hour / day / month it is run in.
func clockWitness() *failure {
	var b strings.Builder
	b.WriteString("on:\n  schedule:\n")
	var specs []string
	for h := 0; h < 24; h++ {
		specs = append(specs, fmt.Sprintf("0,2 %d * * *", h))
	}
	for d := 1; d <= 28; d++ {
		specs = append(specs, fmt.Sprintf("0,2 0 %d * *", d))
	}
	for m := 1; m <= 12; m++ {
		specs = append(specs, fmt.Sprintf("0,2 0 1 %d *", m))
	}
	for _, s := range specs {
		b.WriteString("    - cron: '" + s + "'\n")
	}
	b.WriteString("jobs:\n  a:\n    runs-on: ubuntu-latest\n    steps:\n      - run: echo\n")
	src := b.String()
	res := lintContent("cron.yaml", []byte(src), 0)
	var missing []string
	for i, s := range specs {
		if !strings.Contains(res.Errs, fmt.Sprintf("cron.yaml:%d:", 3+i)) {
			missing = append(missing, s)
		}
	}
	if len(missing) == 0 {
		return nil
	}
	return &failure{
		What:   "the verdict on a schedule depends on the time of the run: these schedules run 2 minutes apart at every instant, but are not reported at this hour / day / month (all the others of the same shape are): " + strings.Join(missing, " ; "),
		Key:    "clock-dependent:schedule",
		Input:  "schedules 0,2 H * * * (every H), 0,2 0 D * * (every D), 0,2 0 1 M * (every M) in one workflow",
		First:  res.Errs,
		Source: src,
	}
}
