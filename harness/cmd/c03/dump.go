package main

// Dumps an *actionlint.Workflow as a term of the Coq type AL.Wf.WfAst.workflow.
// Every field of the Coq records is read from the Go field of the same name;
// maps are dumped in sorted key order, jobs in visiting order (by position).

import (
	"fmt"
	"sort"
	"strings"

	"github.com/rhysd/actionlint"

	"verifharness/hx"
)

func dPos(p *actionlint.Pos) string {
	if p == nil {
		return "(0%N,0%N)"
	}
	return hx.CoqPos(p.Line, p.Col)
}

func dStr(s *actionlint.String) string {
	return fmt.Sprintf("(Str %s %s %s)", hx.CoqStr(s.Value), hx.CoqBool(s.Quoted), dPos(s.Pos))
}

func dOStr(s *actionlint.String) string {
	if s == nil {
		return "None"
	}
	return "(Some " + dStr(s) + ")"
}

func dStrs(ss []*actionlint.String) string {
	out := []string{}
	for _, s := range ss {
		if s != nil {
			out = append(out, dStr(s))
		}
	}
	return hx.CoqList(out)
}

func dBool(b *actionlint.Bool) string {
	if b == nil {
		return "None"
	}
	return fmt.Sprintf("(Some (BoolV %s %s))", dOStr(b.Expression), dPos(b.Pos))
}

func dInt(b *actionlint.Int) string {
	if b == nil {
		return "None"
	}
	return fmt.Sprintf("(Some (IntV %s %s))", dOStr(b.Expression), dPos(b.Pos))
}

func dFloat(b *actionlint.Float) string {
	if b == nil {
		return "None"
	}
	return fmt.Sprintf("(Some (FloatV %s %s))", dOStr(b.Expression), dPos(b.Pos))
}

func dRaw(v actionlint.RawYAMLValue) string {
	switch v := v.(type) {
	case *actionlint.RawYAMLString:
		return fmt.Sprintf("(RawStr %s %s)", hx.CoqStr(v.Value), dPos(v.Pos()))
	case *actionlint.RawYAMLArray:
		es := []string{}
		for _, e := range v.Elems {
			es = append(es, dRaw(e))
		}
		return fmt.Sprintf("(RawArr %s %s)", hx.CoqList(es), dPos(v.Pos()))
	case *actionlint.RawYAMLObject:
		ps := []string{}
		for _, k := range hx.SortedKeys(v.Props) {
			ps = append(ps, fmt.Sprintf("(%s, %s)", hx.CoqStr(k), dRaw(v.Props[k])))
		}
		return fmt.Sprintf("(RawObj %s %s)", hx.CoqList(ps), dPos(v.Pos()))
	}
	panic("unknown RawYAMLValue")
}

func dMap[V any](m map[string]V, f func(V) string) string {
	out := []string{}
	for _, k := range hx.SortedKeys(m) {
		out = append(out, fmt.Sprintf("(%s, %s)", hx.CoqStr(k), f(m[k])))
	}
	return hx.CoqList(out)
}

func dFilter(f *actionlint.WebhookEventFilter) string {
	if f == nil {
		return "None"
	}
	return fmt.Sprintf("(Some (Filter %s %s))", dOStr(f.Name), dStrs(f.Values))
}

func dEvent(e actionlint.Event) string {
	switch e := e.(type) {
	case *actionlint.WebhookEvent:
		return fmt.Sprintf("(EWebhook (WebhookEvent %s %s %s %s %s %s %s %s %s))", dOStr(e.Hook), dStrs(e.Types),
			dFilter(e.Branches), dFilter(e.BranchesIgnore), dFilter(e.Tags), dFilter(e.TagsIgnore), dFilter(e.Paths), dFilter(e.PathsIgnore), dStrs(e.Workflows))
	case *actionlint.ScheduledEvent:
		return fmt.Sprintf("(ESchedule %s)", dStrs(e.Cron))
	case *actionlint.WorkflowDispatchEvent:
		return fmt.Sprintf("(EDispatch %s)", dMap(e.Inputs, func(i *actionlint.DispatchInput) string {
			return fmt.Sprintf("(DispatchInput %s %s %s %s %s)", dOStr(i.Name), dOStr(i.Description), dBool(i.Required), dOStr(i.Default), dStrs(i.Options))
		}))
	case *actionlint.RepositoryDispatchEvent:
		return fmt.Sprintf("(ERepoDispatch %s)", dStrs(e.Types))
	case *actionlint.WorkflowCallEvent:
		ins := []string{}
		for _, i := range e.Inputs {
			ins = append(ins, fmt.Sprintf("(CallInput %s %s %s %s %s)", dOStr(i.Name), dOStr(i.Description), dOStr(i.Default), dBool(i.Required), hx.CoqStr(i.ID)))
		}
		secrets := "None"
		if e.Secrets != nil {
			secrets = "(Some " + dMap(e.Secrets, func(s *actionlint.WorkflowCallEventSecret) string {
				return fmt.Sprintf("(CallSecret %s %s %s)", dOStr(s.Name), dOStr(s.Description), dBool(s.Required))
			}) + ")"
		}
		outs := dMap(e.Outputs, func(o *actionlint.WorkflowCallEventOutput) string {
			return fmt.Sprintf("(CallOutput %s %s %s)", dOStr(o.Name), dOStr(o.Description), dOStr(o.Value))
		})
		return fmt.Sprintf("(ECall (CallEvent %s %s %s))", hx.CoqList(ins), secrets, outs)
	}
	panic("unknown Event")
}

func dPermissions(p *actionlint.Permissions) string {
	if p == nil {
		return "None"
	}
	return fmt.Sprintf("(Some (Permissions %s %s))", dOStr(p.All), dMap(p.Scopes, func(s *actionlint.PermissionScope) string {
		return fmt.Sprintf("(PermScope %s %s)", dOStr(s.Name), dOStr(s.Value))
	}))
}

func dEnv(e *actionlint.Env) string {
	if e == nil {
		return "None"
	}
	vars := "None"
	if e.Vars != nil {
		vars = "(Some " + dMap(e.Vars, func(v *actionlint.EnvVar) string {
			return fmt.Sprintf("(EnvVar %s %s)", dOStr(v.Name), dOStr(v.Value))
		}) + ")"
	}
	return fmt.Sprintf("(Some (Env %s %s))", vars, dOStr(e.Expression))
}

func dDefaults(d *actionlint.Defaults) string {
	if d == nil {
		return "None"
	}
	run := "None"
	if d.Run != nil {
		run = fmt.Sprintf("(Some (DefaultsRun %s %s))", dOStr(d.Run.Shell), dOStr(d.Run.WorkingDirectory))
	}
	return fmt.Sprintf("(Some (Defaults %s))", run)
}

func dConcurrency(c *actionlint.Concurrency) string {
	if c == nil {
		return "None"
	}
	return fmt.Sprintf("(Some (Concurrency %s %s))", dOStr(c.Group), dBool(c.CancelInProgress))
}

func dCombinations(cs *actionlint.MatrixCombinations) string {
	if cs == nil {
		return "None"
	}
	combos := []string{}
	for _, c := range cs.Combinations {
		combos = append(combos, fmt.Sprintf("(MatrixCombination %s %s)", dMap(c.Assigns, func(a *actionlint.MatrixAssign) string {
			return fmt.Sprintf("(MatrixAssign %s %s)", dOStr(a.Key), dRaw(a.Value))
		}), dOStr(c.Expression)))
	}
	return fmt.Sprintf("(Some (MatrixCombinations %s %s))", hx.CoqList(combos), dOStr(cs.Expression))
}

func dStrategy(s *actionlint.Strategy) string {
	if s == nil {
		return "None"
	}
	mat := "None"
	if m := s.Matrix; m != nil {
		rows := dMap(m.Rows, func(r *actionlint.MatrixRow) string {
			vs := []string{}
			for _, v := range r.Values {
				vs = append(vs, dRaw(v))
			}
			return fmt.Sprintf("(MatrixRow %s %s %s)", dOStr(r.Name), hx.CoqList(vs), dOStr(r.Expression))
		})
		mat = fmt.Sprintf("(Some (Matrix %s %s %s %s))", rows, dCombinations(m.Include), dCombinations(m.Exclude), dOStr(m.Expression))
	}
	return fmt.Sprintf("(Some (Strategy %s %s %s))", mat, dBool(s.FailFast), dInt(s.MaxParallel))
}

func dContainer(c *actionlint.Container) string {
	if c == nil {
		return "None"
	}
	cred := "None"
	if c.Credentials != nil {
		cred = fmt.Sprintf("(Some (Credentials %s %s))", dOStr(c.Credentials.Username), dOStr(c.Credentials.Password))
	}
	return fmt.Sprintf("(Some (Container %s %s %s %s %s %s))", dOStr(c.Image), cred, dEnv(c.Env), dStrs(c.Ports), dStrs(c.Volumes), dOStr(c.Options))
}

func dStep(s *actionlint.Step) string {
	exec := "None"
	switch e := s.Exec.(type) {
	case *actionlint.ExecRun:
		exec = fmt.Sprintf("(Some (ExecRun %s %s %s))", dOStr(e.Run), dOStr(e.Shell), dOStr(e.WorkingDirectory))
	case *actionlint.ExecAction:
		exec = fmt.Sprintf("(Some (ExecAction %s %s %s %s))", dOStr(e.Uses), dMap(e.Inputs, func(i *actionlint.Input) string {
			return fmt.Sprintf("(Input %s %s)", dOStr(i.Name), dOStr(i.Value))
		}), dOStr(e.Entrypoint), dOStr(e.Args))
	}
	return fmt.Sprintf("(Step %s %s %s %s %s %s %s)", dOStr(s.ID), dOStr(s.If), dOStr(s.Name), exec, dEnv(s.Env), dBool(s.ContinueOnError), dFloat(s.TimeoutMinutes))
}

func dJob(j *actionlint.Job) string {
	runner := "None"
	if r := j.RunsOn; r != nil {
		runner = fmt.Sprintf("(Some (Runner %s %s %s))", dStrs(r.Labels), dOStr(r.LabelsExpr), dOStr(r.Group))
	}
	envr := "None"
	if e := j.Environment; e != nil {
		envr = fmt.Sprintf("(Some (Environment %s %s))", dOStr(e.Name), dOStr(e.URL))
	}
	outputs := dMap(j.Outputs, func(o *actionlint.Output) string {
		return fmt.Sprintf("(Output %s %s)", dOStr(o.Name), dOStr(o.Value))
	})
	steps := []string{}
	for _, s := range j.Steps {
		steps = append(steps, dStep(s))
	}
	svcs := "None"
	if s := j.Services; s != nil {
		svcs = fmt.Sprintf("(Some (Services %s %s))", dMap(s.Value, func(v *actionlint.Service) string {
			return fmt.Sprintf("(Service %s %s)", dOStr(v.Name), dContainer(v.Container))
		}), dOStr(s.Expression))
	}
	call := "None"
	if c := j.WorkflowCall; c != nil {
		call = fmt.Sprintf("(Some (WorkflowCall %s %s %s))", dOStr(c.Uses), dMap(c.Inputs, func(i *actionlint.WorkflowCallInput) string {
			return fmt.Sprintf("(WCallInput %s %s)", dOStr(i.Name), dOStr(i.Value))
		}), dMap(c.Secrets, func(i *actionlint.WorkflowCallSecret) string {
			return fmt.Sprintf("(WCallSecret %s %s)", dOStr(i.Name), dOStr(i.Value))
		}))
	}
	return fmt.Sprintf("(Job %s %s %s %s %s %s %s %s %s %s %s %s %s %s %s %s %s %s)",
		dOStr(j.ID), dOStr(j.Name), dStrs(j.Needs), runner, dPermissions(j.Permissions), envr, dConcurrency(j.Concurrency), outputs,
		dEnv(j.Env), dDefaults(j.Defaults), dOStr(j.If), hx.CoqList(steps), dFloat(j.TimeoutMinutes), dStrategy(j.Strategy),
		dBool(j.ContinueOnError), dContainer(j.Container), svcs, call)
}

func dumpWorkflow(w *actionlint.Workflow) string {
	evs := []string{}
	for _, e := range w.On {
		evs = append(evs, dEvent(e))
	}
	type kj struct {
		k string
		j *actionlint.Job
	}
	var js []kj
	for k, j := range w.Jobs {
		js = append(js, kj{k, j})
	}
	sort.SliceStable(js, func(a, b int) bool {
		p, q := js[a].j.Pos, js[b].j.Pos
		if p == nil || q == nil {
			return p == nil && q != nil
		}
		if *p == *q {
			return js[a].k < js[b].k
		}
		return p.IsBefore(q)
	})
	jobs := []string{}
	for _, x := range js {
		jobs = append(jobs, fmt.Sprintf("(%s, %s)", hx.CoqStr(x.k), dJob(x.j)))
	}
	s := fmt.Sprintf("(Workflow %s %s %s %s %s %s %s %s)", dOStr(w.Name), dOStr(w.RunName), hx.CoqList(evs), dPermissions(w.Permissions),
		dEnv(w.Env), dDefaults(w.Defaults), dConcurrency(w.Concurrency), hx.CoqList(jobs))
	// cases are one term per line: a line break inside a string value (block
	// scalars) is written as the two characters \n — the model never looks at it
	return strings.ReplaceAll(s, "\n", "\\n")
}
