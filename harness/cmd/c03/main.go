// Command c03: harness of property C03 (every ${{ }} placeholder is checked).
//   -gen FILE    translator: writes coq/Gen/GenRouteChecks.v (call sites of
//                rule_expression.go, fields of ast.go, parsed every-key ASTs)
//   default      injection oracle over the corpus + every-key workflows and
//                the correspondence cases (mutated ASTs) for the Coq model
package main

import (
	"encoding/json"
	"flag"
	"fmt"
	"os"
	"path/filepath"
	"sort"
	"strings"

	"github.com/rhysd/actionlint"
	"gopkg.in/yaml.v3"

	"verifharness/hx"
)

type failure struct {
	What     string `json:"what"`
	Key      string `json:"key"`
	File     string `json:"file"`
	Path     string `json:"path"`
	Shape    string `json:"shape"`
	Exempt   string `json:"exempt,omitempty"`
	Line     int    `json:"line"`
	Col      int    `json:"col"`
	Diags    string `json:"diagnostics"`
	Workflow string `json:"workflow"`
}

// canonical key of a failing position: path with map ids / indices abstracted
func canonPath(keys []string) string {
	out := make([]string, len(keys))
	copy(out, keys)
	// abstract identifiers under id-keyed mappings
	idParents := map[string]bool{"jobs": true, "inputs": true, "secrets": true, "outputs": true, "services": true, "env": true, "with": true, "matrix": true}
	for i := 1; i < len(out); i++ {
		if idParents[out[i-1]] && out[i] != "[]" {
			if out[i-1] == "matrix" && (out[i] == "include" || out[i] == "exclude") {
				continue
			}
			if out[i-1] == "secrets" && i == 2 {
				continue
			}
			out[i] = "<id>"
		}
	}
	return strings.Join(out, ".")
}

type source struct {
	Name string
	Src  []byte
}

type candidate struct{ Name, Src string }

const candHead = "on: push\njobs:\n  test:\n    runs-on: ubuntu-latest\n"

var candidates = []candidate{
	{"candidate/matrix-row-mapping-keys-differ-in-case", candHead + "    strategy:\n      matrix:\n        os:\n          - {opt: a, Opt: b}\n    steps:\n      - run: echo\n"},
	{"candidate/matrix-include-mapping-keys-differ-in-case", candHead + "    strategy:\n      matrix:\n        os: [a]\n        include:\n          - cfg: {k: v, K: w}\n    steps:\n      - run: echo\n"},
	{"candidate/matrix-exclude-nested-keys-differ-in-case", candHead + "    strategy:\n      matrix:\n        os: [{deep: {x: a}}]\n        exclude:\n          - os: {deep: {x: a, X: a}}\n    steps:\n      - run: echo\n"},
	{"candidate/env-keys-differ-in-case", candHead + "    env:\n      foo: a\n      FOO: b\n    steps:\n      - run: echo\n"},
	{"candidate/with-keys-differ-in-case", candHead + "    steps:\n      - uses: actions/checkout@v4\n        with:\n          ref: a\n          REF: b\n"},
	{"candidate/job-ids-differ-in-case", candHead + "    steps:\n      - run: echo\n  TEST:\n    runs-on: ubuntu-latest\n    steps:\n      - run: echo hello\n"},
	{"candidate/outputs-differ-in-case", candHead + "    outputs:\n      out: a\n      OUT: b\n    steps:\n      - run: echo\n"},
	{"candidate/services-differ-in-case", candHead + "    services:\n      db:\n        image: a\n      DB:\n        image: b\n    steps:\n      - run: echo\n"},
	{"candidate/dispatch-inputs-differ-in-case", "on:\n  workflow_dispatch:\n    inputs:\n      name:\n        description: a\n      NAME:\n        description: b\njobs:\n  test:\n    runs-on: ubuntu-latest\n    steps:\n      - run: echo\n"},
}

func corpus(repo string) []source {
	var out []source
	for _, k := range everyKey {
		out = append(out, source{k.Name, []byte(k.Src)})
	}
	dirs := []string{"testdata/ok", "testdata/examples", ".github/workflows"}
	// workflows of the test projects (clean ones only are used)
	more, _ := filepath.Glob(filepath.Join(repo, "testdata/projects/*/workflows"))
	more2, _ := filepath.Glob(filepath.Join(repo, "testdata/projects/*/.github/workflows"))
	for _, m := range append(more, more2...) {
		if r, err := filepath.Rel(repo, m); err == nil {
			dirs = append(dirs, r)
		}
	}
	for _, d := range dirs {
		fs, _ := filepath.Glob(filepath.Join(repo, d, "*.yaml"))
		fs2, _ := filepath.Glob(filepath.Join(repo, d, "*.yml"))
		fs = append(fs, fs2...)
		sort.Strings(fs)
		for _, f := range fs {
			b, err := os.ReadFile(f)
			if err != nil {
				continue
			}
			out = append(out, source{d + "/" + filepath.Base(f), b})
		}
	}
	return out
}

func main() {
	seed := flag.Uint64("seed", 1, "seed")
	out := flag.String("out", ".", "output directory")
	tier := flag.String("tier", "quick", "quick|thorough")
	repo := flag.String("repo", "/repo", "actionlint source tree (corpus, translator input)")
	gen := flag.String("gen", "", "write the generated Coq file and exit")
	replay := flag.String("replay", "", "replay file")
	one := flag.String("file", "", "only this workflow file (debugging)")
	flag.Parse()

	if *gen != "" {
		hx.Must(writeGen(*repo, *gen))
		return
	}
	if *replay != "" {
		os.Exit(doReplay(*replay))
	}

	rng := hx.NewRng(*seed)
	sum := hx.NewSummary("C03")
	sum.Rule = "a case is non-trivial when the injected scalar is routed (an expression syntax error was reported inside it); distinct = distinct (file, path, shape)"
	var srcs []source
	if *one != "" {
		b, err := os.ReadFile(*one)
		hx.Must(err)
		srcs = []source{{*one, b}}
	} else {
		srcs = corpus(*repo)
	}
	cases, err := os.Create(filepath.Join(*out, "cases.txt"))
	hx.Must(err)
	defer cases.Close()
	srcsOut, err := os.Create(filepath.Join(*out, "sources.jsonl"))
	hx.Must(err)
	defer srcsOut.Close()

	budget := 6000 // positions in the quick tier (every-key workflows always complete)
	if *tier == "thorough" {
		budget = 1 << 30
	}
	nclean, nskipped, npos := 0, 0, 0
	canonSeen := map[string]int{}
	var skipped []string
	// deterministic order; in the quick tier corpus files after the every-key
	// workflows are visited in a seeded order until the budget is used up
	order := make([]int, len(srcs))
	for i := range order {
		order[i] = i
	}
	if *tier != "thorough" && len(srcs) > len(everyKey) && *one == "" {
		p := rng.Perm(len(srcs) - len(everyKey))
		for i, j := range p {
			order[len(everyKey)+i] = len(everyKey) + j
		}
	}
	// runSource: precondition (clean, also when re-encoded), then every
	// position x every selected shape
	var keysFilter func(keys []string) bool // when set: only the positions it accepts are explored
	hasPrefix := func(keys, prefix []string) bool {
		if len(keys) < len(prefix) {
			return false
		}
		for i := range prefix {
			if keys[i] != prefix[i] {
				return false
			}
		}
		return true
	}
	runSource := func(s source, isEvery bool, shapeSel func(pi, shi int) bool, emitSel func(pi, shi int) bool, keySuffix string) {
		var doc yaml.Node
		if err := yaml.Unmarshal(s.Src, &doc); err != nil {
			nskipped++
			return
		}
		errs, err := lint(s.Src)
		if err != nil || len(errs) > 0 {
			nskipped++
			if isEvery && keySuffix == "" {
				sum.OracleFails = append(sum.OracleFails, failure{What: "the synthetic every-key workflow does not lint clean (harness precondition)", Key: "precondition:" + s.Name, File: s.Name, Diags: fmtErrs(errs)})
			}
			return
		}
		// the re-encoded (unmutated) workflow must be clean too
		re, err := marshal(&doc)
		if err != nil {
			nskipped++
			return
		}
		if errs, err := lint(re); err != nil || len(errs) > 0 {
			nskipped++
			skipped = append(skipped, s.Name+" (re-encoded form not clean)")
			return
		}
		nclean++
		poss := scalarPositions(&doc)
		for pi, pos := range poss {
			if keysFilter != nil && !keysFilter(pos.Keys) {
				continue
			}
			if npos >= budget && !isEvery {
				break
			}
			npos++
			canon := canonPath(pos.Keys)
			canonSeen[canon]++
			for shi, shape := range shapes {
				if !shapeSel(pi, shi) {
					continue
				}
				inj := inject(&doc, pos, shape)
				sum.Evaluations++
				var fail *failure
				mk := func(what, key string) *failure {
					return &failure{What: what, Key: key + keySuffix, File: s.Name, Path: pos.Path, Shape: shape, Exempt: inj.Exempt,
						Line: inj.Line, Col: inj.Col, Diags: fmtErrs(inj.Errs), Workflow: string(inj.Src)}
				}
				switch {
				case inj.Fatal != "":
					if strings.HasPrefix(inj.Fatal, "lint:") {
						fail = mk("actionlint failed on the mutated workflow: "+inj.Fatal, "fatal:"+canon)
					} else {
						sum.Dist["mutation not applicable ("+strings.SplitN(inj.Fatal, ":", 2)[0]+")"]++
						continue
					}
				case len(inj.AtScalar) == 0:
					fail = mk("a malformed ${{ }} placeholder at "+canon+" draws no diagnostic at the scalar: the placeholder is silently skipped", "unreported:"+canon)
				case inj.Exempt == "" && !inj.Syntax && !strings.HasSuffix(shape, "}}"):
					// a placeholder that is never closed (`${{ x }`, `${{ x`): positions that demand exactly
					// one placeholder (bool / number / whole-section values) report it in their own words;
					// for these shapes only "some diagnostic at the scalar" is demanded
				case inj.Exempt == "" && !inj.Syntax:
					fail = mk("a malformed ${{ }} placeholder at "+canon+" is not reported as an expression syntax error (only other diagnostics at the scalar)", "no-syntax-error:"+canon)
				}
				if fail != nil {
					sum.OracleFails = append(sum.OracleFails, *fail)
					sum.Dist["FAIL "+fail.Key]++
				}
				cls := "routed (expression syntax error at the scalar)"
				if inj.Exempt != "" {
					cls = "exempt: " + inj.Exempt
				}
				if keySuffix != "" {
					cls = "sibling configuration, " + cls
				}
				if fail == nil {
					sum.Dist[cls]++
					if inj.Syntax {
						sum.Nontrivial++
					}
				}
				// correspondence case: the AST the real parser produces for the
				// mutated workflow, and the scalars at which an expression
				// syntax error was observed
				if emitSel(pi, shi) {
					w, perrs := actionlint.Parse(inj.Src)
					if w != nil {
						obs := [][2]int{}
						if inj.Syntax {
							obs = append(obs, [2]int{inj.Line, inj.Col})
						}
						obs = append(obs, inj.StrayS...)
						var os_ []string
						for _, o := range obs {
							os_ = append(os_, fmt.Sprintf("[%d%%N;%d%%N]", o[0], o[1]))
						}
						fmt.Fprintf(cases, "(%s, %s)\n", dumpWorkflow(w), hx.CoqList(os_))
						j, _ := json.Marshal(map[string]interface{}{"file": s.Name, "path": pos.Path, "shape": shape, "line": inj.Line, "col": inj.Col,
							"parse_errors": len(perrs), "workflow": string(inj.Src), "diagnostics": fmtErrs(inj.Errs)})
						srcsOut.Write(append(j, '\n'))
					}
				}
				if len(sum.Samples) < 6 && fail == nil && pi%17 == 3 && shi == 0 {
					sum.Samples = append(sum.Samples, map[string]interface{}{"file": s.Name, "path": pos.Path, "shape": shape, "exempt": inj.Exempt,
						"scalar_at": []int{inj.Line, inj.Col}, "diagnostics_at_scalar": fmtErrs(inj.AtScalar)})
				}
			}
		}
	}
	all := func(int, int) bool { return true }
	none := func(int, int) bool { return false }
	for _, si := range order {
		s := srcs[si]
		isEvery := *one == "" && si < len(everyKey)
		if npos >= budget && !isEvery {
			continue
		}
		emit := none
		if isEvery {
			// (the correspondence cases use the three closed shapes: the model's theorem is about them)
			emit = func(pi, shi int) bool { return shi < 3 && (*tier == "thorough" || shi == pi%3) }
		}
		runSource(s, isEvery, all, emit, "")
	}

	// candidates: workflows that do NOT lint clean on the pinned tree because two keys of a mapping
	// differ in letter case only ("key is duplicated").  Should a change make one of them clean, the
	// property applies to it: every scalar of it is a position as well
	if *one == "" {
		ncand := 0
		for _, c := range candidates {
			before := nclean
			runSource(source{c.Name, []byte(c.Src)}, false, all, none, "")
			if nclean > before {
				ncand++
			}
		}
		sum.Extra["candidate_workflows"] = len(candidates)
		sum.Extra["candidate_workflows_clean_on_this_tree"] = ncand
	}

	// sibling configurations: every-key workflows with one key (and its value)
	// removed — e.g. a container with `volumes` but no `ports` —, kept when the
	// result still lints clean.  Thorough: all of them x all positions x all
	// shapes; quick: a seeded sample, one shape per position.
	nsib := 0
	if *one == "" {
		type del struct {
			src    source
			what   string
			parent []string // key path of the mapping that lost the key / was re-ordered
			only   [][]string // when set: only the positions below these key paths
		}
		var dels []del
		for _, k := range everyKey {
			var doc yaml.Node
			if yaml.Unmarshal([]byte(k.Src), &doc) != nil {
				continue
			}
			var walk func(n *yaml.Node, keys []string)
			walk = func(n *yaml.Node, keys []string) {
				switch n.Kind {
				case yaml.DocumentNode, yaml.SequenceNode:
					for _, c := range n.Content {
						k2 := keys
						if n.Kind == yaml.SequenceNode {
							k2 = append(append([]string{}, keys...), "[]")
						}
						walk(c, k2)
					}
				case yaml.MappingNode:
					for i := 0; i+1 < len(n.Content); i += 2 {
						saved := n.Content
						nc := append(append([]*yaml.Node{}, n.Content[:i]...), n.Content[i+2:]...)
						ks := append(append([]string{}, keys...), saved[i].Value)
						n.Content = nc
						if b, err := marshal(&doc); err == nil {
							dels = append(dels, del{source{k.Name + " without " + strings.Join(ks, "."), b}, canonPath(ks), append([]string{}, keys...), nil})
						}
						n.Content = saved
						walk(saved[i+1], ks)
					}
					// the same keys in another order (reversed; rotated by one): which key comes first
					// must not decide whether a sibling is checked
					if len(n.Content) >= 4 {
						saved := n.Content
						for v := 0; v < 2; v++ {
							var nc []*yaml.Node
							if v == 0 {
								for i := len(saved) - 2; i >= 0; i -= 2 {
									nc = append(nc, saved[i], saved[i+1])
								}
							} else {
								nc = append(append([]*yaml.Node{}, saved[2:]...), saved[0], saved[1])
							}
							n.Content = nc
							if b, err := marshal(&doc); err == nil {
								dels = append(dels, del{source{k.Name + " with " + strings.Join(keys, ".") + " re-ordered", b}, "reordered:" + canonPath(keys), append([]string{}, keys...), nil})
							}
						}
						n.Content = saved
						// two neighbouring keys swapped (a key that used to come after another now comes before it)
						for i := 0; i+3 < len(saved); i += 2 {
							nc := append([]*yaml.Node{}, saved...)
							nc[i], nc[i+1], nc[i+2], nc[i+3] = saved[i+2], saved[i+3], saved[i], saved[i+1]
							n.Content = nc
							if b, err := marshal(&doc); err == nil {
								ka := append(append([]string{}, keys...), saved[i].Value)
								kb := append(append([]string{}, keys...), saved[i+2].Value)
								dels = append(dels, del{source{k.Name + " with " + strings.Join(kb, ".") + " moved before " + saved[i].Value, b}, "swapped:" + canonPath(kb), append([]string{}, keys...), [][]string{ka, kb}})
							}
						}
						n.Content = saved
					}
				}
			}
			walk(&doc, nil)
		}
		idx := make([]int, len(dels))
		for i := range idx {
			idx[i] = i
		}
		// quick: EVERY derived workflow, but only the positions inside the mapping that changed (the
		// siblings), one shape each; thorough: every position x every shape
		for _, i := range idx {
			d := dels[i]
			sel := all
			// thorough: a removed key is explored at every position x every shape; a re-ordering or a
			// swap at the positions near the change (every shape); quick: near positions, one shape
			near := *tier != "thorough" || strings.HasPrefix(d.what, "reordered:") || strings.HasPrefix(d.what, "swapped:")
			if *tier != "thorough" {
				sel = func(pi, shi int) bool { return shi == (pi+i)%len(shapes) }
			}
			if near {
				parent := d.parent
				depth := 3
				if len(parent) < 2 {
					depth = 2 // (the root mapping and `jobs`: the near siblings only)
				}
				only := d.only
				keysFilter = func(keys []string) bool {
					if len(only) > 0 {
						for _, o := range only {
							if hasPrefix(keys, o) && len(keys) <= len(o)+1 {
								return true
							}
						}
						return false
					}
					return hasPrefix(keys, parent) && len(keys) <= len(parent)+depth
				}
			}
			before := nclean
			runSource(d.src, true, sel, none, " without:"+d.what)
			keysFilter = nil
			if nclean > before {
				nsib++
			}
		}
		sum.Extra["sibling_configurations_derived"] = len(dels)
		sum.Extra["sibling_configurations_clean_and_explored"] = nsib
	}
	sum.Extra["clean_workflows"] = nclean
	sum.Extra["skipped_workflows"] = nskipped
	sum.Extra["skipped_reencoded"] = skipped
	sum.Extra["positions"] = npos
	sum.Extra["distinct_canonical_positions"] = len(canonSeen)
	sum.Extra["shapes"] = shapes
	cp := hx.SortedKeys(canonSeen)
	sum.Extra["canonical_positions"] = cp
	sum.Write(filepath.Join(*out, "summary.json"))
}

func doReplay(path string) int {
	b, err := os.ReadFile(path)
	hx.Must(err)
	var f failure
	hx.Must(json.Unmarshal(b, &f))
	if f.Workflow == "" {
		fmt.Println("replay file has no workflow (broken obligation without failing input):")
		fmt.Println(string(b))
		return 1
	}
	errs, err := lint([]byte(f.Workflow))
	if err != nil {
		fmt.Println("lint failed:", err)
		return 1
	}
	fmt.Printf("workflow (%s, %s replaced by %q at %d:%d):\n%s\ndiagnostics:\n%s", f.File, f.Path, f.Shape, f.Line, f.Col, f.Workflow, fmtErrs(errs))
	at, syn := 0, false
	for _, e := range errs {
		if e.Line == f.Line && e.Column >= f.Col && e.Column <= f.Col+scalarExtent([]byte(f.Workflow), f.Line, f.Col, len(f.Shape)) {
			at++
			syn = syn || isSyntaxError(e)
		}
	}
	if at == 0 || (f.Exempt == "" && !syn) {
		fmt.Printf("REPLAY: still failing (%d diagnostics at the scalar, expression syntax error: %v)\n", at, syn)
		return 1
	}
	fmt.Println("REPLAY: no longer failing")
	return 0
}
