package main

// Translator: structural facts about /repo extracted with go/parser + go/types
// on every run and written to coq/Gen/GenRouteChecks.v:
//   sites       every call rule.check*(...) in rule_expression.go: enclosing
//               function, callee, the AST field the first argument is read from
//               (resolved with go/types; range variables are traced to the
//               ranged-over field), and the source text of all arguments;
//   ast_fields  every field of every struct of ast.go with its type;
//   everykey    the ASTs actionlint.Parse produces for the every-key workflows.

import (
	"bytes"
	"fmt"
	"go/ast"
	"go/format"
	"go/parser"
	"go/token"
	"go/types"
	"os"
	"path/filepath"
	"sort"
	"strings"

	"github.com/rhysd/actionlint"

	"verifharness/hx"
)

type stubImporter struct{ pkgs map[string]*types.Package }

func (s *stubImporter) Import(path string) (*types.Package, error) {
	if p, ok := s.pkgs[path]; ok {
		return p, nil
	}
	name := path[strings.LastIndex(path, "/")+1:]
	if strings.HasPrefix(name, "yaml.") {
		name = "yaml"
	}
	if name == "v4" || name == "v3" {
		parts := strings.Split(path, "/")
		name = parts[len(parts)-2]
	}
	p := types.NewPackage(path, name)
	p.MarkComplete()
	s.pkgs[path] = p
	return p, nil
}

func src(fset *token.FileSet, n ast.Node) string {
	var b bytes.Buffer
	format.Node(&b, fset, n)
	return strings.Join(strings.Fields(b.String()), " ")
}

// fieldOf describes the struct field an expression selects: "Struct.Field".
func fieldOf(info *types.Info, e ast.Expr) string {
	switch e := e.(type) {
	case *ast.SelectorExpr:
		if sel, ok := info.Selections[e]; ok && sel.Kind() == types.FieldVal {
			recv := sel.Recv()
			for {
				if p, ok := recv.(*types.Pointer); ok {
					recv = p.Elem()
					continue
				}
				break
			}
			if n, ok := recv.(*types.Named); ok {
				return n.Obj().Name() + "." + sel.Obj().Name()
			}
		}
	case *ast.IndexExpr:
		return fieldOf(info, e.X) + "[i]"
	case *ast.SliceExpr:
		return fieldOf(info, e.X) + "[i:]"
	case *ast.ParenExpr:
		return fieldOf(info, e.X)
	}
	return ""
}

type site struct {
	Func, Callee, Origin string
	Args                 []string
}

func extractSites(repo string) ([]site, [][3]string, error) {
	fset := token.NewFileSet()
	names, _ := filepath.Glob(filepath.Join(repo, "*.go"))
	sort.Strings(names)
	var files []*ast.File
	var ruleFile, astFile *ast.File
	for _, n := range names {
		if strings.HasSuffix(n, "_test.go") {
			continue
		}
		b, err := os.ReadFile(n)
		if err != nil {
			return nil, nil, err
		}
		if bytes.HasPrefix(b, []byte("//go:build verif")) {
			continue
		}
		f, err := parser.ParseFile(fset, n, b, parser.SkipObjectResolution)
		if err != nil {
			return nil, nil, err
		}
		if f.Name.Name != "actionlint" {
			continue
		}
		files = append(files, f)
		switch filepath.Base(n) {
		case "rule_expression.go":
			ruleFile = f
		case "ast.go":
			astFile = f
		}
	}
	if ruleFile == nil || astFile == nil {
		return nil, nil, fmt.Errorf("rule_expression.go / ast.go not found in %s", repo)
	}
	info := &types.Info{
		Selections: map[*ast.SelectorExpr]*types.Selection{},
		Defs:       map[*ast.Ident]types.Object{},
		Uses:       map[*ast.Ident]types.Object{},
		Implicits:  map[ast.Node]types.Object{},
	}
	conf := types.Config{Importer: &stubImporter{map[string]*types.Package{}}, Error: func(error) {}, DisableUnusedImportCheck: true}
	conf.Check("actionlint", fset, files, info) // errors from stubbed imports are expected and ignored

	// range variables -> ranged-over expression
	rangeOf := map[types.Object]ast.Expr{}
	ast.Inspect(ruleFile, func(n ast.Node) bool {
		if r, ok := n.(*ast.RangeStmt); ok {
			if id, ok := r.Value.(*ast.Ident); ok && id.Name != "_" {
				if o := info.Defs[id]; o != nil {
					rangeOf[o] = r.X
				}
			}
		}
		return true
	})
	origin := func(e ast.Expr) string {
		if id, ok := e.(*ast.Ident); ok {
			o := info.Uses[id]
			if o != nil {
				if x, ok := rangeOf[o]; ok {
					if f := fieldOf(info, x); f != "" {
						return f + "[]"
					}
					return "range " + src(fset, x)
				}
				if v, ok := o.(*types.Var); ok {
					return "var:" + strings.TrimPrefix(types.TypeString(v.Type(), func(*types.Package) string { return "" }), "")
				}
			}
			return ""
		}
		return fieldOf(info, e)
	}

	var sites []site
	for _, d := range ruleFile.Decls {
		fd, ok := d.(*ast.FuncDecl)
		if !ok || fd.Body == nil {
			continue
		}
		ast.Inspect(fd.Body, func(n ast.Node) bool {
			c, ok := n.(*ast.CallExpr)
			if !ok {
				return true
			}
			sel, ok := c.Fun.(*ast.SelectorExpr)
			if !ok {
				return true
			}
			if id, ok := sel.X.(*ast.Ident); !ok || id.Name != "rule" || !strings.HasPrefix(sel.Sel.Name, "check") {
				return true
			}
			s := site{Func: fd.Name.Name, Callee: sel.Sel.Name}
			for _, a := range c.Args {
				s.Args = append(s.Args, src(fset, a))
			}
			if len(c.Args) > 0 {
				s.Origin = origin(c.Args[0])
			}
			sites = append(sites, s)
			return true
		})
	}
	sort.SliceStable(sites, func(i, j int) bool { return false }) // source order kept

	var fields [][3]string
	for _, d := range astFile.Decls {
		gd, ok := d.(*ast.GenDecl)
		if !ok || gd.Tok != token.TYPE {
			continue
		}
		for _, sp := range gd.Specs {
			ts := sp.(*ast.TypeSpec)
			st, ok := ts.Type.(*ast.StructType)
			if !ok {
				continue
			}
			for _, f := range st.Fields.List {
				ty := src(fset, f.Type)
				for _, n := range f.Names {
					fields = append(fields, [3]string{ts.Name.Name, n.Name, ty})
				}
				if len(f.Names) == 0 {
					fields = append(fields, [3]string{ts.Name.Name, "(embedded)", ty})
				}
			}
		}
	}
	return sites, fields, nil
}

func writeGen(repo, path string) error {
	sites, fields, err := extractSites(repo)
	if err != nil {
		return err
	}
	var b strings.Builder
	b.WriteString("(* GENERATED by harness/cmd/c03 -gen from rule_expression.go, ast.go and parse.go of the\n   actionlint tree under check; rewritten on every run of ./check C03.  Do not edit. *)\n")
	b.WriteString("From AL Require Import Base.Str Wf.WfAst.\nFrom Coq Require Import NArith.\n\n")
	b.WriteString("(* (enclosing function, callee, field the first argument is read from, source text of the arguments) *)\n")
	b.WriteString("Definition sites : list (string * string * string * list string) := [\n")
	for i, s := range sites {
		args := []string{}
		for _, a := range s.Args {
			args = append(args, hx.CoqStr(a))
		}
		sep := ";"
		if i == len(sites)-1 {
			sep = ""
		}
		fmt.Fprintf(&b, "  (%s, %s, %s, %s)%s\n", hx.CoqStr(s.Func), hx.CoqStr(s.Callee), hx.CoqStr(s.Origin), hx.CoqList(args), sep)
	}
	b.WriteString("].\n\n(* (struct, field, Go type) of every struct field declared in ast.go *)\n")
	b.WriteString("Definition ast_fields : list (string * string * string) := [\n")
	for i, f := range fields {
		sep := ";"
		if i == len(fields)-1 {
			sep = ""
		}
		fmt.Fprintf(&b, "  (%s, %s, %s)%s\n", hx.CoqStr(f[0]), hx.CoqStr(f[1]), hx.CoqStr(f[2]), sep)
	}
	b.WriteString("].\n\n(* ASTs produced by actionlint.Parse for the synthetic every-key workflows *)\n")
	names := []string{}
	for _, k := range everyKey {
		w, _ := actionlint.Parse([]byte(k.Src))
		id := "everykey_" + strings.ToLower(k.Name[len(k.Name)-1:])
		names = append(names, id)
		if w == nil {
			fmt.Fprintf(&b, "Definition %s : workflow := Workflow None None [] None None None None [].\n", id)
			continue
		}
		fmt.Fprintf(&b, "Definition %s : workflow :=\n  %s.\n", id, dumpWorkflow(w))
	}
	fmt.Fprintf(&b, "Definition everykey : list workflow := %s.\n", hx.CoqList(names))
	// write only when changed
	if old, err := os.ReadFile(path); err == nil && string(old) == b.String() {
		return nil
	}
	return os.WriteFile(path, []byte(b.String()), 0o644)
}
