package main

// Synthetic "every-key" workflows: together they populate every section of the
// workflow syntax, including the rarely used ones, in the mapping forms (A) and
// in the scalar / expression forms (B).  Both must lint clean.

const everyKeyA = `name: every key A
run-name: run by ${{ github.actor }}
on:
  push:
    branches: [main, 'release/**']
    tags: [v1, "v2"]
    paths: ['src/**']
  pull_request:
    types: [opened, synchronize]
    branches-ignore: [wip]
    paths-ignore: ['docs/**']
  workflow_run:
    workflows: [build]
    types: [completed]
    branches: [main]
  schedule:
    - cron: '0 3 * * *'
    - cron: '0 4 * * 1'
  workflow_dispatch:
    inputs:
      level:
        description: log level
        required: true
        default: warning
        type: choice
        options: [info, warning]
      dry:
        description: dry run
        required: false
        type: boolean
        default: false
  repository_dispatch:
    types: [deploy, rollback]
  workflow_call:
    inputs:
      target:
        description: target name
        required: true
        type: string
      count:
        description: how many
        required: false
        default: 3
        type: number
    secrets:
      token:
        description: access token
        required: true
    outputs:
      result:
        description: the result
        value: ${{ jobs.build.outputs.artifact }}
permissions:
  contents: read
  issues: write
env:
  TOP: level
  OTHER: ${{ github.sha }}
defaults:
  run:
    shell: bash
    working-directory: src
concurrency:
  group: ci-${{ github.ref }}
  cancel-in-progress: true
jobs:
  build:
    name: Build ${{ matrix.os }}
    needs: [prepare, lint]
    runs-on:
      group: big-runners
      labels: [ubuntu-latest, self-hosted]
    permissions:
      contents: read
    environment:
      name: production
      url: https://example.com/${{ github.sha }}
    concurrency:
      group: build-${{ github.ref }}
      cancel-in-progress: false
    outputs:
      artifact: ${{ steps.pack.outputs.name }}
      other: plain
    env:
      JOB_ENV: one
    defaults:
      run:
        shell: sh
        working-directory: pkg
    if: github.event_name == 'push'
    timeout-minutes: 30
    strategy:
      fail-fast: false
      max-parallel: 2
      matrix:
        os: [ubuntu-latest, macos-latest]
        node: [14, 16]
        cfg:
          - name: a
            flags: [x, y]
          - name: b
            flags: [z]
        include:
          - os: ubuntu-latest
            node: 18
            extra: yes
          - os: windows-latest
            cfg:
              name: c
              flags: [w]
        exclude:
          - os: macos-latest
            node: 14
    continue-on-error: true
    container:
      image: node:18
      credentials:
        username: user
        password: ${{ secrets.token }}
      env:
        IN_CONTAINER: yes
      ports: [80, '443:443']
      volumes: ['/data:/data', my_volume:/vol]
      options: --cpus 1
    services:
      redis:
        image: redis:7
        credentials:
          username: svc
          password: ${{ secrets.token }}
        env:
          SVC_ENV: value
        ports: ['6379:6379']
        volumes: ['/cache:/cache']
        options: --health-cmd "redis-cli ping"
      db: postgres:15
    steps:
      - id: pack
        if: success()
        name: Pack it
        env:
          STEP_ENV: s
        continue-on-error: false
        timeout-minutes: 5.5
        run: echo "name=pkg" >> "$GITHUB_OUTPUT"
        shell: bash
        working-directory: dist
      - name: Use action
        uses: my-org/my-action@v1
        with:
          first: one
          second: ${{ github.ref }}
      - uses: docker://alpine:3.8
        with:
          entrypoint: /bin/echo
          args: hello world
      - uses: actions/github-script@v7
        with:
          script: console.log('hi')
      - run: |
          echo one
          echo two
  prepare:
    runs-on: ubuntu-latest
    environment: staging
    concurrency: prepare-group
    steps:
      - run: echo prepare
  lint:
    needs: prepare
    runs-on: [ubuntu-latest]
    steps:
      - run: echo lint
  call:
    name: Call
    needs: [build]
    if: ${{ always() }}
    permissions: read-all
    uses: owner/repo/.github/workflows/reusable.yml@v1
    with:
      first: value
      second: ${{ github.sha }}
    secrets:
      token: ${{ secrets.TOKEN }}
  call2:
    uses: owner/repo/.github/workflows/other.yml@main
    secrets: inherit
  call3:
    uses: owner/repo/.github/workflows/third.yml@${{ 'v1' }}
    with:
      alpha: value
      beta: ${{ github.ref }}
    secrets:
      key: ${{ secrets.TOKEN }}
`

const everyKeyB = `name: every key B
on: [push, workflow_dispatch]
permissions: read-all
env: ${{ fromJSON('{"A":"b"}') }}
concurrency: only-one
jobs:
  dyn:
    runs-on: ${{ matrix.os }}
    env: ${{ fromJSON('{"J":"k"}') }}
    timeout-minutes: ${{ fromJSON('10') }}
    continue-on-error: ${{ github.event_name == 'push' }}
    strategy:
      fail-fast: ${{ github.event_name == 'push' }}
      max-parallel: ${{ fromJSON('2') }}
      matrix: ${{ fromJSON('{"os":["ubuntu-latest"]}') }}
    container: node:18
    services: ${{ fromJSON('{}') }}
    concurrency:
      group: g
      cancel-in-progress: ${{ github.event_name == 'push' }}
    steps:
      - run: echo ${{ toJSON(matrix.os) }}
        continue-on-error: ${{ github.event_name == 'push' }}
        timeout-minutes: ${{ fromJSON('3') }}
        env: ${{ fromJSON('{"S":"t"}') }}
  rows:
    runs-on:
      group: row-runners
      labels: ${{ matrix.os }}
    strategy:
      matrix:
        os: ${{ fromJSON('["ubuntu-latest"]') }}
        v: [1, '${{ github.run_number }}']
        mix:
          - ['${{ fromJSON(vars.X) }}', tail1, tail2]
          - [1, a, {k: w}, x, y]
          - [{k: 1}, s, [t, u]]
        include:
          - ${{ fromJSON('{"os":"ubuntu-latest"}') }}
          - os: ubuntu-latest
            v: ${{ github.run_id }}
        exclude:
          - ${{ fromJSON('{"os":"none"}') }}
    container:
      image: node:18
      env: ${{ fromJSON('{"C":"d"}') }}
    steps:
      - run: echo rows
  combos:
    runs-on: ubuntu-latest
    strategy:
      matrix:
        a: [1, 2]
        include: ${{ fromJSON('[{"a":3}]') }}
        exclude: ${{ fromJSON('[{"a":1}]') }}
    steps:
      - run: echo combos
`

const everyKeyC = `on:
  push:
    branches-ignore: [wip]
    tags-ignore: [old]
    paths-ignore: ['docs/**']
  workflow_dispatch:
    inputs:
      a:
        type: string
        required: ${{ true }}
      b:
        type: number
      c:
        type: environment
  workflow_call:
    inputs:
      flag:
        type: boolean
        default: ${{ true }}
        required: ${{ true }}
    secrets:
      s:
        required: ${{ false }}
  repository_dispatch:
    types: one
jobs:
  j:
    runs-on: ubuntu-latest
    needs: k
    steps:
      - run: echo j
  k:
    runs-on: ubuntu-latest
    steps:
      - run: echo k
`

var everyKey = []struct{ Name, Src string }{
	{"every-key-A", everyKeyA},
	{"every-key-B", everyKeyB},
	{"every-key-C", everyKeyC},
}
