package main

// Injection oracle: the property C03 verbatim.  Every scalar value position of
// a clean workflow (mapping values and sequence elements at any depth, found
// by walking the yaml.v3 node tree) is replaced in turn by a malformed
// placeholder; the mutated workflow is linted with actionlint.Linter.Lint and
// at least one diagnostic must be located inside the replaced scalar; unless
// the position is exempt by the property text, one of them must be an
// expression syntax error.

import (
	"bytes"
	"fmt"
	"io"
	"strings"

	"github.com/rhysd/actionlint"
	"gopkg.in/yaml.v3"
)

// the three malformed placeholder shapes (fixed by the work package)
var shapes = []string{"${{ 1 + }}", "${{ a b }}", "${{ 'x }}", "${{ github.sha }", "v-${{ github.sha", "${{}}", "${{  }}"}

type position struct {
	Path  string // canonical path: keys joined by '.', sequence indices as [i]
	Index []int  // child indices from the document's root node
	Keys  []string
	Node  *yaml.Node
}

// scalarPositions walks the node tree and returns every scalar that is a
// mapping value or a sequence element.  Null scalars (a key without a value)
// are not scalar values and are skipped; alias nodes are skipped (the anchored
// node itself is visited where it is defined).
func scalarPositions(doc *yaml.Node) []position {
	var out []position
	var walk func(n *yaml.Node, path string, idx []int, keys []string)
	add := func(n *yaml.Node, path string, idx []int, keys []string) {
		if n.Kind == yaml.ScalarNode {
			if n.Tag == "!!null" {
				return
			}
			out = append(out, position{path, append([]int{}, idx...), append([]string{}, keys...), n})
			return
		}
		walk(n, path, idx, keys)
	}
	walk = func(n *yaml.Node, path string, idx []int, keys []string) {
		switch n.Kind {
		case yaml.DocumentNode:
			for i, c := range n.Content {
				walk(c, path, append(idx, i), keys)
			}
		case yaml.MappingNode:
			for i := 0; i+1 < len(n.Content); i += 2 {
				k := n.Content[i].Value
				p := k
				if path != "" {
					p = path + "." + k
				}
				add(n.Content[i+1], p, append(idx, i+1), append(keys, k))
			}
		case yaml.SequenceNode:
			for i, c := range n.Content {
				add(c, fmt.Sprintf("%s[%d]", path, i), append(idx, i), append(keys, "[]"))
			}
		}
	}
	walk(doc, "", nil, nil)
	return out
}

func nodeAt(doc *yaml.Node, idx []int) *yaml.Node {
	n := doc
	for _, i := range idx {
		if i >= len(n.Content) {
			return nil
		}
		n = n.Content[i]
	}
	return n
}

func marshal(doc *yaml.Node) ([]byte, error) {
	var b bytes.Buffer
	enc := yaml.NewEncoder(&b)
	enc.SetIndent(2)
	if err := enc.Encode(doc); err != nil {
		return nil, err
	}
	enc.Close()
	return b.Bytes(), nil
}

// exemptKind classifies a position from its path ALONE (property text: event
// names, input `type`, `permissions` values, `secrets: inherit`).
func exemptKind(keys []string) string {
	n := len(keys)
	if n == 0 {
		return ""
	}
	// event names: `on: push` / `on: [push, ...]`
	if keys[0] == "on" && (n == 1 || (n == 2 && keys[1] == "[]")) {
		return "event-name"
	}
	// input type of workflow_dispatch / workflow_call
	if n == 5 && keys[0] == "on" && (keys[1] == "workflow_dispatch" || keys[1] == "workflow_call") && keys[2] == "inputs" && keys[4] == "type" {
		return "input-type"
	}
	// permissions values (workflow level and job level, scalar and mapping form)
	if keys[0] == "permissions" && n <= 2 {
		return "permissions"
	}
	if n >= 3 && n <= 4 && keys[0] == "jobs" && keys[2] == "permissions" {
		return "permissions"
	}
	// secrets: inherit
	if n == 3 && keys[0] == "jobs" && keys[2] == "secrets" {
		return "secrets-inherit"
	}
	return ""
}

// syntax error classes of expr_lexer.go / expr_parser.go, by message prefix
var syntaxPrefixes = []string{
	"got unexpected ",
	"unexpected EOF while lexing",
	"unexpected end of input while parsing",
	"unexpected token ",
	"parser did not reach end of input",
	"parsing invalid integer literal",
	"parsing invalid float literal",
}

func isSyntaxError(e *actionlint.Error) bool {
	if e.Kind != "expression" {
		return false
	}
	for _, p := range syntaxPrefixes {
		if strings.HasPrefix(e.Message, p) {
			return true
		}
	}
	return false
}

var theLinter *actionlint.Linter

func lint(src []byte) ([]*actionlint.Error, error) {
	if theLinter == nil {
		l, err := actionlint.NewLinter(io.Discard, &actionlint.LinterOptions{Color: actionlint.ColorOptionKindNever})
		if err != nil {
			return nil, err
		}
		theLinter = l
	}
	return theLinter.Lint("c03-input.yaml", src, nil)
}

// extent of the scalar that starts at (line, col) (1-based) in src: number of
// source columns it occupies on that line.
func scalarExtent(src []byte, line, col int, plainLen int) int {
	lines := strings.Split(string(src), "\n")
	if line < 1 || line > len(lines) {
		return plainLen
	}
	l := lines[line-1]
	if col < 1 || col > len(l) {
		return plainLen
	}
	rest := l[col-1:]
	switch rest[0] {
	case '\'':
		i := 1
		for i < len(rest) {
			if rest[i] == '\'' {
				if i+1 < len(rest) && rest[i+1] == '\'' {
					i += 2
					continue
				}
				return i + 1
			}
			i++
		}
		return len(rest)
	case '"':
		i := 1
		for i < len(rest) {
			if rest[i] == '\\' {
				i += 2
				continue
			}
			if rest[i] == '"' {
				return i + 1
			}
			i++
		}
		return len(rest)
	}
	return plainLen
}

type injection struct {
	Path     string
	Exempt   string
	Shape    string
	Src      []byte // mutated workflow
	Line     int    // position of the replaced scalar in Src
	Col      int
	Extent   int
	Errs     []*actionlint.Error
	AtScalar []*actionlint.Error // diagnostics located inside the scalar
	Syntax   bool                // one of them is an expression syntax error
	StrayS   [][2]int            // expression syntax errors elsewhere
	Fatal    string
}

// inject replaces the scalar at pos by shape (node level: the tree is
// re-encoded, so the YAML around the scalar stays well formed whatever its
// original style was), lints the result and locates the diagnostics.
func inject(doc *yaml.Node, pos position, shape string) injection {
	n := pos.Node
	saved := *n
	n.Value = shape
	n.Tag = "!!str"
	if n.Style&(yaml.SingleQuotedStyle|yaml.DoubleQuotedStyle) == 0 {
		n.Style = 0 // plain (block scalars become one-line plain scalars)
	}
	n.Anchor = saved.Anchor
	src, err := marshal(doc)
	*n = saved
	inj := injection{Path: pos.Path, Exempt: exemptKind(pos.Keys), Shape: shape, Src: src}
	if err != nil {
		inj.Fatal = "marshal: " + err.Error()
		return inj
	}
	var doc2 yaml.Node
	if err := yaml.Unmarshal(src, &doc2); err != nil {
		inj.Fatal = "re-parse: " + err.Error()
		return inj
	}
	m := nodeAt(&doc2, pos.Index)
	if m == nil || m.Kind != yaml.ScalarNode || m.Value != shape {
		inj.Fatal = "re-parse: the replaced scalar was not found again at " + pos.Path
		return inj
	}
	inj.Line, inj.Col = m.Line, m.Column
	inj.Extent = scalarExtent(src, m.Line, m.Column, len(shape))
	errs, err := lint(src)
	if err != nil {
		inj.Fatal = "lint: " + err.Error()
		return inj
	}
	inj.Errs = errs
	for _, e := range errs {
		// inside the scalar: same line, from its first column up to one past
		// its last column (where "unexpected end of input" is reported)
		in := e.Line == inj.Line && e.Column >= inj.Col && e.Column <= inj.Col+inj.Extent
		if in {
			inj.AtScalar = append(inj.AtScalar, e)
			if isSyntaxError(e) {
				inj.Syntax = true
			}
		} else if isSyntaxError(e) {
			inj.StrayS = append(inj.StrayS, [2]int{e.Line, e.Column})
		}
	}
	return inj
}

func fmtErrs(errs []*actionlint.Error) string {
	var b strings.Builder
	for _, e := range errs {
		fmt.Fprintf(&b, "%d:%d: %s [%s]\n", e.Line, e.Column, e.Message, e.Kind)
	}
	return b.String()
}
