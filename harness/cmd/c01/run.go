package main

// Running one case against the implementation: the property oracle (no
// panic, no fatal error for malformed workflow / action / reusable-workflow
// input, exit status in {0,1,2,3}) and the observations of the
// correspondence check.

import (
	"runtime"
	"bytes"
	"fmt"
	"io"
	"os"
	"path/filepath"
	"regexp"
	"runtime/debug"
	"strconv"
	"strings"
	"time"

	"github.com/rhysd/actionlint"
	"gopkg.in/yaml.v3"

	"verifharness/hx"
)

type result struct {
	Stream string `json:"stream,omitempty"`
	Idx    int    `json:"i"`
	Skip   string `json:"skip,omitempty"`
	Panic  string `json:"panic,omitempty"`
	Stack  string `json:"stack,omitempty"`
	Key    string `json:"key,omitempty"`
	Fatal  string `json:"fatal,omitempty"`  // fatal error on a channel where malformed input must become diagnostics
	CfgErr bool   `json:"cfgerr,omitempty"` // fatal configuration error (allowed)
	Status int    `json:"status"`
	BadSt  string `json:"badstatus,omitempty"`
	NDiag  int    `json:"ndiag"`
	YamlEr bool   `json:"yamlerr,omitempty"`
	DurMs  int64  `json:"ms"`
	KTerm  string `json:"k,omitempty"`
	YTerm  string `json:"y,omitempty"`
	ETerm  string `json:"e,omitempty"`
	KSkip  string `json:"kskip,omitempty"`
	WfBad  string `json:"wfbad,omitempty"` // the library handed over a tree violating wf_ynode
}

type runner struct {
	scratch string
	written map[string]string
	project *actionlint.Project
}

func newRunner(scratch string) *runner {
	r := &runner{scratch: scratch, written: map[string]string{}}
	os.RemoveAll(scratch) // nothing of an earlier child may leak into this one
	hx.Must(os.MkdirAll(filepath.Join(scratch, ".git"), 0o755))
	hx.Must(os.MkdirAll(filepath.Join(scratch, ".github", "workflows"), 0o755))
	hx.Must(os.MkdirAll(filepath.Join(scratch, "act"), 0o755))
	return r
}

func (r *runner) wfPath() string { return filepath.Join(r.scratch, ".github", "workflows", "test.yml") }

func (r *runner) put(rel string, data []byte) {
	p := filepath.Join(r.scratch, rel)
	if data == nil {
		if _, ok := r.written[rel]; ok {
			os.Remove(p)
			delete(r.written, rel)
		}
		return
	}
	if prev, ok := r.written[rel]; ok && prev == string(data) {
		return
	}
	hx.Must(os.WriteFile(p, data, 0o644))
	r.written[rel] = string(data)
}

// prepare writes the files of the scratch project for a case and returns the
// bytes of the workflow to lint.
func (r *runner) prepare(ch int, data []byte) []byte {
	act, callee, wf := []byte(synthAction), []byte(synthCallee), data
	var cfg []byte
	switch ch {
	case chAction:
		act, wf = data, []byte(callerWorkflow)
	case chCallee:
		callee, wf = data, []byte(callerWorkflow)
	case chConfig:
		cfg, wf = data, []byte(configWorkflow)
	}
	r.put(filepath.Join("act", "action.yml"), act)
	r.put(filepath.Join(".github", "workflows", "callee.yml"), callee)
	r.put(filepath.Join(".github", "actionlint.yaml"), cfg)
	return wf
}

func optionsFor(idx int, log io.Writer) *actionlint.LinterOptions {
	o := &actionlint.LinterOptions{Shellcheck: "", Pyflakes: "", Color: actionlint.ColorOptionKindNever}
	switch idx % 8 {
	case 3:
		o.Oneline = true
	case 4:
		o.Format = "{{json .}}"
	case 5:
		o.Format = "{{range $ := .}}{{$.Filepath}}:{{$.Line}}:{{$.Column}}:{{$.Kind}}:{{$.Message}}\n{{$.Snippet}}\n{{$.EndColumn}}{{end}}{{range $i, $k := allKinds}}{{$k.Name}}{{end}}"
	case 6:
		o.Debug, o.LogWriter = true, log
	case 7:
		o.Verbose, o.LogWriter, o.Color = true, log, actionlint.ColorOptionKindAlways
	}
	return o
}

func topFrame(stack string) string {
	// first frame inside actionlint (or yaml.v3 when actionlint is not on the stack top)
	lines := strings.Split(stack, "\n")
	pick := func(prefix string) string {
		for _, l := range lines {
			if strings.HasPrefix(l, prefix) {
				if i := strings.LastIndex(l, "("); i > 0 {
					l = l[:i]
				}
				return l
			}
		}
		return ""
	}
	if f := pick("github.com/rhysd/actionlint."); f != "" {
		return f
	}
	if f := pick("gopkg.in/yaml.v3."); f != "" {
		return f
	}
	return "unknown"
}

func (r *runner) protect(res *result, f func()) {
	defer func() {
		if p := recover(); p != nil {
			st := string(debug.Stack())
			res.Panic = fmt.Sprint(p)
			res.Stack = trunc(st, 6000)
			res.Key = "panic:" + topFrame(st)
		}
	}()
	f()
}

func isIOErr(err error) bool {
	s := err.Error()
	return strings.Contains(s, "could not read") || strings.Contains(s, "no such file") || strings.Contains(s, "permission denied")
}

func (r *runner) run(c *Case) *result {
	res := &result{Stream: c.Stream, Idx: c.Idx}
	if c.Skip != "" {
		res.Skip = c.Skip
		return res
	}
	t0 := time.Now()
	if c.Stream == "main" {
		r.runMain(c, res)
	} else {
		r.runLint(c, res)
	}
	res.DurMs = time.Since(t0).Milliseconds()
	if c.Channel == chWorkflow && c.Stream != "main" {
		r.observe(c, res)
	}
	return res
}

func (r *runner) runLint(c *Case, res *result) {
	wf := r.prepare(c.Channel, c.Data)
	var out, log bytes.Buffer
	r.protect(res, func() {
		opts := optionsFor(c.Idx, &log)
		var proj *actionlint.Project
		if c.Channel == chConfig {
			if _, err := actionlint.ParseConfig(c.Data); err != nil {
				res.CfgErr = true
			}
			if c.Idx%5 == 4 {
				opts.ConfigFile = filepath.Join(r.scratch, ".github", "actionlint.yaml")
			}
			p, err := actionlint.NewProject(r.scratch)
			if err != nil {
				res.CfgErr = true
				// the fatal configuration error must also surface through the linter
				l, lerr := actionlint.NewLinter(&out, opts)
				if lerr == nil {
					if _, err2 := l.LintFile(r.mustWf(wf), nil); err2 == nil {
						res.Fatal = "NewProject rejects the configuration but LintFile succeeded"
					}
				}
				return
			}
			proj = p
		} else {
			if r.project == nil {
				p, err := actionlint.NewProject(r.scratch)
				hx.Must(err)
				r.project = p
			}
			proj = r.project
		}
		l, err := actionlint.NewLinter(&out, opts)
		if err != nil {
			if c.Channel == chConfig {
				res.CfgErr = true
				return
			}
			res.Fatal = "NewLinter: " + err.Error()
			return
		}
		errs, err := l.Lint(r.wfPath(), wf, proj)
		if err != nil {
			if !isIOErr(err) {
				res.Fatal = err.Error()
			}
			return
		}
		res.NDiag = len(errs)
		if c.Channel == chWorkflow && c.Idx%4 == 0 {
			// the same workflow as two files OUTSIDE any repository, linted in one LintFiles call:
			// no project, so the null caches are in use (multi-file code path of linter.go)
			dir := filepath.Join(filepath.Dir(r.scratch), "noproject")
			hx.Must(os.MkdirAll(dir, 0o755))
			f1, f2 := filepath.Join(dir, "a.yml"), filepath.Join(dir, "b.yml")
			hx.Must(os.WriteFile(f1, wf, 0o644))
			hx.Must(os.WriteFile(f2, wf, 0o644))
			l2, err := actionlint.NewLinter(&out, opts)
			if err == nil {
				if _, err := l2.LintFiles([]string{f1, f2}, nil); err != nil && !isIOErr(err) {
					res.Fatal = err.Error()
				}
			}
		}
		if c.Channel == chCallee {
			// the called file is itself a workflow: lint it as one, too
			if _, err := l.Lint(filepath.Join(r.scratch, ".github", "workflows", "callee.yml"), c.Data, proj); err != nil && !isIOErr(err) {
				res.Fatal = err.Error()
			}
		}
	})
}

func (r *runner) mustWf(wf []byte) string {
	r.put(filepath.Join(".github", "workflows", "test.yml"), wf)
	return r.wfPath()
}

func (r *runner) runMain(c *Case, res *result) {
	wf := r.prepare(c.Channel, c.Data)
	path := r.mustWf(wf)
	defer r.put(filepath.Join(".github", "workflows", "test.yml"), nil)
	args := []string{"actionlint", "-shellcheck=", "-pyflakes=", "-no-color"}
	fl, ver := "FlagsOk", false
	nfiles := 1
	variant := c.Idx % 12
	switch variant {
	case 7:
		args = append(args, "-no-such-flag", path)
		fl = "FlagsBad"
	case 8:
		args = append(args, "-h")
		fl = "FlagsHelp"
	case 9:
		args = append(args, "-version")
		ver = true
	case 10:
		args = append(args, filepath.Join(r.scratch, "does-not-exist.yml"))
		if c.Idx%24 == 10 {
			// more unreadable files than CPUs, and readable ones queued behind them: a fatal error, no hang
			for k := 0; k < runtime.NumCPU()+2; k++ {
				args = append(args, filepath.Join(r.scratch, fmt.Sprintf("does-not-exist-%d.yml", k)))
			}
			args = append(args, path, path)
			nfiles = runtime.NumCPU() + 5
		}
	case 11:
		args = append(args, "-format", "{{json .}}", path)
	default:
		args = append(args, path)
	}
	var so, se bytes.Buffer
	status := -1
	r.protect(res, func() {
		cmd := actionlint.Command{Stdin: strings.NewReader(""), Stdout: &so, Stderr: &se}
		status = cmd.Main(args)
	})
	if res.Panic != "" {
		return
	}
	res.Status = status
	if status < 0 || status > 3 {
		res.BadSt = fmt.Sprintf("Command.Main returned %d", status)
	}
	if strings.Contains(se.String(), "panic:") || strings.Contains(se.String(), "fatal error:") && !strings.Contains(se.String(), "fatal error while checking") {
		res.BadSt = "Command.Main printed a Go runtime failure: " + trunc(se.String(), 300)
	}
	// what a fresh linter says about the same files: fatal? how many diagnostics?
	fatal, ndiag := false, 0
	if fl == "FlagsOk" && !ver {
		r.protect(res, func() {
			opts := &actionlint.LinterOptions{Shellcheck: "", Pyflakes: "", Color: actionlint.ColorOptionKindNever}
			l, err := actionlint.NewLinter(io.Discard, opts)
			if err != nil {
				fatal = true
				return
			}
			files := []string{args[len(args)-1]}
			if nfiles > 1 {
				files = args[len(args)-nfiles:]
			}
			errs, err := l.LintFiles(files, nil)
			if err != nil {
				fatal = true
				return
			}
			ndiag = len(errs)
		})
		if fatal && status != 3 {
			res.BadSt = fmt.Sprintf("fatal error but exit status %d", status)
		}
		if !fatal && status == 3 {
			res.BadSt = "exit status 3 without a fatal error"
		}
	}
	res.NDiag = ndiag
	res.ETerm = fmt.Sprintf("((%s, %s, %s, %d), [[%s]])", fl, hx.CoqBool(ver), hx.CoqBool(fatal), ndiag, hx.CoqN(status))
}

// ------------------------------------------------------- correspondence

func classify(msg string) int {
	switch {
	case strings.HasPrefix(msg, `"`) && strings.Contains(msg, `" section must be sequence node but got `):
		return 1
	case strings.HasPrefix(msg, `"`) && strings.HasSuffix(msg, `" section should not be empty`):
		return 2
	case strings.HasPrefix(msg, "expected scalar node for string value but found "):
		return 3
	case msg == "string should not be empty":
		return 4
	case strings.HasPrefix(msg, "expecting a single ${{...}} expression or "):
		return 5
	case strings.HasPrefix(msg, "expected bool value but found "):
		return 6
	case strings.HasPrefix(msg, "expected scalar node for integer value but found "):
		return 7
	case strings.HasPrefix(msg, "invalid integer value: "):
		return 8
	case strings.HasPrefix(msg, "expected scalar node for float value but found "):
		return 9
	case strings.HasPrefix(msg, "invalid float value: ") && strings.HasSuffix(msg, ": not a number"):
		return 11
	case strings.HasPrefix(msg, "invalid float value: "):
		return 10
	case strings.HasPrefix(msg, `value at "max-parallel" must be greater than zero`):
		return 12
	case strings.HasPrefix(msg, `value at "timeout-minutes" must be greater than zero`):
		return 13
	case strings.HasPrefix(msg, "could not parse as YAML: "):
		return 14
	}
	return 0
}

func coqOK(s string) bool {
	if !hx.CoqStrOK(s) || strings.ContainsAny(s, "\n\r") || len(s) > 400 {
		return false
	}
	for i := 0; i < len(s); i++ {
		if s[i] < 0x20 || s[i] == 0x7f {
			return false
		}
	}
	return true
}

// coqNode renders the node as the model's input, with the results of the
// library calls parse.go would make on it; count limits the size.
func coqNode(n *yaml.Node, count *int, posset map[[2]int]bool, wfbad *string) (string, bool) {
	*count++
	if *count > 60 || !coqOK(n.Tag) || !coqOK(n.Value) {
		return "", false
	}
	switch n.Kind {
	case yaml.DocumentNode, yaml.SequenceNode, yaml.MappingNode, yaml.ScalarNode, yaml.AliasNode:
	default:
		*wfbad = fmt.Sprintf("node kind %d at %d:%d", n.Kind, n.Line, n.Column)
	}
	if n.Kind == yaml.MappingNode && len(n.Content)%2 != 0 {
		*wfbad = fmt.Sprintf("mapping with %d children at %d:%d", len(n.Content), n.Line, n.Column)
	}
	posset[[2]int{n.Line, n.Column}] = true
	i, ierr := strconv.Atoi(n.Value)
	f, ferr := strconv.ParseFloat(n.Value, 64)
	cls := "FGt0"
	if f != f {
		cls = "FNaN"
	} else if f <= 0.0 {
		cls = "FLe0"
	}
	var kids []string
	for _, c := range n.Content {
		if c == nil {
			*wfbad = "nil child"
			return "", false
		}
		s, ok := coqNode(c, count, posset, wfbad)
		if !ok {
			return "", false
		}
		kids = append(kids, s)
	}
	return fmt.Sprintf("(SNode %d%%N %s %s %d%%N %d%%N %d%%N %s (PF %s %s) %s)",
		n.Kind, hx.CoqStr(n.Tag), hx.CoqStr(n.Value), n.Style, n.Line, n.Column,
		coqAI(i, ierr != nil), cls, hx.CoqBool(ferr != nil), hx.CoqList(kids)), true
}

func coqAI(v int, e bool) string {
	if v < 0 {
		return fmt.Sprintf("(AI true %d%%N %s)", uint64(-(v+1))+1, hx.CoqBool(e))
	}
	return fmt.Sprintf("(AI false %d%%N %s)", v, hx.CoqBool(e))
}

// checkWf: kinds are yaml.v3's five constants, mappings have an even number
// of children, documents at most one, no nil child, scalars and aliases no children.
func checkWf(n *yaml.Node, depth int) string {
	if n == nil {
		return "nil node"
	}
	if depth == 0 && n.Kind == 0 && len(n.Content) == 0 {
		return "" // the zero Node of an empty document
	}
	switch n.Kind {
	case yaml.DocumentNode:
		if len(n.Content) > 1 {
			return fmt.Sprintf("document with %d children", len(n.Content))
		}
	case yaml.MappingNode:
		if len(n.Content)%2 != 0 {
			return fmt.Sprintf("mapping with %d children at %d:%d", len(n.Content), n.Line, n.Column)
		}
	case yaml.SequenceNode:
	case yaml.ScalarNode, yaml.AliasNode:
		if len(n.Content) != 0 {
			return fmt.Sprintf("scalar/alias with children at %d:%d", n.Line, n.Column)
		}
	default:
		return fmt.Sprintf("node kind %d at %d:%d", n.Kind, n.Line, n.Column)
	}
	for _, c := range n.Content {
		if bad := checkWf(c, depth+1); bad != "" {
			return bad
		}
	}
	return ""
}

var yamlLineRe = regexp.MustCompile(`\bline (\d+):`)

func (r *runner) observe(c *Case, res *result) {
	wantY := c.Stream == "byte-workflow" || c.Stream == "node-wf" || c.Stream == "node-k"
	if c.K == nil && !wantY {
		if c.Idx%16 == 0 {
			var d yaml.Node
			if yaml.Unmarshal(c.Data, &d) == nil {
				res.WfBad = checkWf(&d, 0)
			}
		}
		return
	}
	var doc yaml.Node
	uerr := yaml.Unmarshal(c.Data, &doc)
	var errs []*actionlint.Error
	pres := &result{}
	r.protect(pres, func() { _, errs = actionlint.Parse(c.Data) })
	panicked := pres.Panic != ""
	if panicked && res.Panic == "" {
		res.Panic, res.Stack, res.Key = pres.Panic, pres.Stack, pres.Key
	}
	if uerr != nil {
		res.YamlEr = true
		if !wantY {
			return
		}
		// model input for handleYAMLError
		mk := func(msg string) string {
			ss := yamlLineRe.FindStringSubmatch(msg)
			v, e := 0, true
			if len(ss) > 1 {
				var err error
				v, err = strconv.Atoi(ss[1])
				e = err != nil
			}
			var xs []string
			for _, s := range ss {
				if !coqOK(s) {
					return ""
				}
				xs = append(xs, hx.CoqStr(s))
			}
			return fmt.Sprintf("{| ym_submatch := %s; ym_atoi := %s |}", hx.CoqList(xs), coqAI(v, e))
		}
		var term string
		if te, ok := uerr.(*yaml.TypeError); ok {
			var ms []string
			for _, m := range te.Errors {
				t := mk(m)
				if t == "" {
					return
				}
				ms = append(ms, t)
			}
			term = "(YTypeError " + hx.CoqList(ms) + ")"
		} else {
			t := mk(uerr.Error())
			if t == "" {
				return
			}
			term = "(YOther " + t + ")"
		}
		var obs []string
		if panicked {
			obs = []string{"[999%N]"}
		}
		for _, e := range errs {
			obs = append(obs, fmt.Sprintf("[%s; %s; %s]", hx.CoqN(e.Line), hx.CoqN(e.Column), hx.CoqN(classify(e.Message))))
		}
		res.YTerm = "(" + term + ", " + hx.CoqList(obs) + ")"
		return
	}
	// hypothesis wf_ynode, asserted on every tree yaml.v3 hands over
	if bad := checkWf(&doc, 0); bad != "" {
		res.WfBad = bad
	}
	if c.K == nil {
		return
	}
	if doc.Kind != yaml.DocumentNode || len(doc.Content) != 1 {
		res.KSkip = "not a single document"
		return
	}
	n := nodeAt(doc.Content[0], c.K.Path)
	if n == nil {
		res.KSkip = "path lost after re-serialisation"
		return
	}
	count := 0
	posset := map[[2]int]bool{}
	wfbad := ""
	term, ok := coqNode(n, &count, posset, &wfbad)
	if wfbad != "" {
		res.WfBad = wfbad
	}
	if !ok {
		res.KSkip = "node not expressible as a one-line Coq term"
		return
	}
	var obs []string
	if panicked {
		obs = []string{"[999%N]"}
	} else {
		for _, e := range errs {
			if posset[[2]int{e.Line, e.Column}] {
				obs = append(obs, fmt.Sprintf("[%s; %s; %s]", hx.CoqN(e.Line), hx.CoqN(e.Column), hx.CoqN(classify(e.Message))))
			}
		}
	}
	res.KTerm = fmt.Sprintf("((%s, %s), %s)", c.K.Which, term, hx.CoqList(obs))
}
