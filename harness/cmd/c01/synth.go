package main

// Synthetic documents: one per input channel, each using every key the
// corresponding decoder knows, so that node substitution reaches every
// section parser / UnmarshalYAML method.

const synthWorkflow = `name: every key
run-name: run ${{ github.actor }}
on:
  push:
    branches: [main]
    tags: ['v*']
    paths: ['**.go']
  pull_request:
    types: [opened]
    branches-ignore: [x]
    paths-ignore: ['docs/**']
  schedule:
    - cron: '0 0 * * *'
  workflow_dispatch:
    inputs:
      level:
        description: lvl
        required: true
        default: warning
        type: choice
        options: [info, warning]
  workflow_call:
    inputs:
      in1:
        description: d
        required: false
        default: x
        type: string
    secrets:
      tok:
        description: d
        required: true
    outputs:
      out1:
        description: d
        value: ${{ jobs.build.outputs.o }}
  repository_dispatch:
    types: [a]
  workflow_run:
    workflows: [w]
    types: [completed]
permissions:
  contents: read
env:
  A: b
defaults:
  run:
    shell: bash
    working-directory: .
concurrency:
  group: g
  cancel-in-progress: true
jobs:
  build:
    name: Build
    runs-on: ubuntu-latest
    permissions:
      contents: read
    environment:
      name: prod
      url: https://example.com
    concurrency:
      group: g2
      cancel-in-progress: false
    outputs:
      o: ${{ steps.s1.outputs.x }}
    env:
      B: c
    defaults:
      run:
        shell: bash
    if: always()
    timeout-minutes: 10
    continue-on-error: false
    strategy:
      fail-fast: true
      max-parallel: 2
      matrix:
        os: [a, b]
        pair: [[1, 2], [3, [4, 5]], {k: [6, 7]}]
        trio: [[1, 2, 3], [1], []]
        include:
          - os: c
        exclude:
          - os: a
          - trio: [1, 2]
          - trio: [1, 2, 3, 4]
          - pair: [3]
          - pair: {k: [6]}
    container:
      image: node:18
      credentials:
        username: u
        password: ${{ secrets.P }}
      env:
        C: d
      ports: [80]
      volumes: ['/a:/b']
      options: --cpus 1
    services:
      db:
        image: pg
        ports: ['5432:5432']
    steps:
      - id: s1
        name: step
        if: success()
        run: echo hi ${{ matrix.os }}
        shell: bash
        working-directory: .
        env:
          D: e
        continue-on-error: true
        timeout-minutes: 5
      - uses: actions/checkout@v4
        with:
          fetch-depth: 0
      - uses: ./act
        id: la
        with:
          in1: x
      - run: echo ${{ steps.la.outputs.out1 }}
      - uses: docker://alpine
        with:
          entrypoint: /bin/sh
          args: -c ls
      - uses: actions/github-script@v7
        with:
          script: console.log(1)
          Result-Encoding: string
  call:
    needs: [build]
    uses: ./.github/workflows/callee.yml
    with:
      in1: v
    secrets:
      tok: ${{ secrets.T }}
  after:
    needs: build
    runs-on: [self-hosted, linux]
    steps:
      - run: echo ${{ needs.build.outputs.o }}
`

// caller used for the action-metadata and reusable-workflow channels
const callerWorkflow = `on: push
jobs:
  a:
    runs-on: ubuntu-latest
    steps:
      - uses: ./act
        id: la
        with:
          in1: x
          in2: y
      - run: echo ${{ steps.la.outputs.out1 }} ${{ steps.la.outputs.nope }}
  before:
    needs: call
    runs-on: ubuntu-latest
    steps:
      - run: echo ${{ needs.call.outputs.out1 }} ${{ needs.call.outputs.nope }}
  call:
    uses: ./.github/workflows/callee.yml
    with:
      in1: v
      in2: 1
    secrets:
      tok: ${{ secrets.T }}
  after:
    needs: call
    runs-on: ubuntu-latest
    steps:
      - run: echo ${{ needs.call.outputs.out1 }} ${{ needs.call.outputs.nope }}
`

const synthAction = `name: my action
author: me
description: does things
inputs:
  in1:
    description: first
    required: true
    default: a
    deprecationMessage: old
  in2:
    description: second
    required: false
outputs:
  out1:
    description: o
    value: ${{ steps.x.outputs.y }}
runs:
  using: composite
  steps:
    - run: echo hi
      shell: bash
      id: x
branding:
  icon: activity
  color: blue
`

const synthActionJS = `name: js action
description: d
inputs:
  in1:
    required: true
outputs:
  out1:
    description: o
runs:
  using: node20
  main: index.js
  pre: pre.js
  pre-if: always()
  post: post.js
  post-if: always()
`

const synthActionDocker = `name: docker action
description: d
inputs:
  in1:
    default: x
runs:
  using: docker
  image: Dockerfile
  pre-entrypoint: pre.sh
  entrypoint: main.sh
  post-entrypoint: post.sh
  args: [a, b]
  env:
    K: v
`

const synthCallee = `name: callee
on:
  workflow_call:
    inputs:
      in1:
        description: d
        required: true
        type: string
      in2:
        required: false
        default: 1
        type: number
      in3:
        type: boolean
        default: false
    secrets:
      tok:
        description: t
        required: true
      opt:
        required: false
    outputs:
      out1:
        description: o
        value: ${{ jobs.j.outputs.o }}
jobs:
  j:
    runs-on: ubuntu-latest
    outputs:
      o: ${{ steps.s.outputs.v }}
    steps:
      - id: s
        run: echo "v=${{ inputs.in1 }}" >> "$GITHUB_OUTPUT"
`

const synthConfig = `self-hosted-runner:
  labels:
    - linux.2xlarge
    - windows-latest-xl
    - 'gpu-*'
config-variables:
  - DEFAULT_RUNNER
  - JOB_NAME
paths:
  .github/workflows/**/*.yaml:
    ignore:
      - 'unknown Webhook event ".+"'
  .github/workflows/test.yml:
    ignore:
      - shellcheck reported issue .+
      - 'label ".+" is unknown'
`

// workflow linted under a mutated actionlint.yaml
const configWorkflow = `on: push
jobs:
  a:
    runs-on: [self-hosted, linux.2xlarge]
    steps:
      - run: echo ${{ vars.DEFAULT_RUNNER }} ${{ vars.OTHER }}
  b:
    runs-on: gpu-1
    steps:
      - run: echo
`
