package main

// cron.go — correspondence cases for coq/Wf/CronGuard.v: for generated schedule specs, whether
// robfig/cron itself panics on the spec (the model's lib_panics, read from the library's source)
// and what RuleEvents does with it (passes it on / reports the missing fields itself / panics).

import (
	"fmt"
	"io"
	"strings"

	"github.com/rhysd/actionlint"
	"github.com/robfig/cron/v3"

	"verifharness/hx"
)

func libPanics(spec string) (p bool) {
	defer func() {
		if recover() != nil {
			p = true
		}
	}()
	cron.NewParser(cron.Minute | cron.Hour | cron.Dom | cron.Month | cron.Dow).Parse(spec)
	return false
}

// ruleOutcome: 0 the spec was handed to the library (any diagnostic or none), 1 the rule reported
// the missing fields itself, 2 panic
func ruleOutcome(spec string) (code int) {
	defer func() {
		if recover() != nil {
			code = 2
		}
	}()
	src := "on:\n  schedule:\n    - cron: " + yamlDQ(spec) + "\njobs:\n  a:\n    runs-on: ubuntu-latest\n    steps:\n      - run: echo\n"
	l, err := actionlint.NewLinter(io.Discard, &actionlint.LinterOptions{})
	hx.Must(err)
	errs, _ := l.Lint("cron.yaml", []byte(src), nil)
	for _, e := range errs {
		if e.Kind == "events" && strings.Contains(e.Message, "time zone must be followed by") {
			return 1
		}
	}
	return 0
}

func cronCases(seed uint64, n int) (terms []string, fails []map[string]interface{}) {
	r := hx.NewRng(seed ^ 0xC401)
	fixed := []string{"TZ=UTC", "CRON_TZ=UTC", "TZ=", "CRON_TZ=", "TZ=UTC 0 0 * * *", "CRON_TZ=Asia/Tokyo 0 0 * * *", "TZ= 0 0 * * *", "tz=UTC", "TZ", "TZ=UTC\t0 0 * * *",
		"CRON_TZ=UTC\n0 0 * * *", " TZ=UTC", "XTZ=UTC", "0 0 * * *", "", "@daily", "@every 1h", "TZ=UTC @daily", "TZ=@daily", "CRON_TZ", "CRON_TZ =UTC", "TZ=a=b", "TZ=a b"}
	parts := []string{"TZ=", "CRON_TZ=", "UTC", "Asia/Tokyo", " ", "  ", "0", "*", "*/5", "@daily", "=", "tz=", "\t", "1-5", ","}
	specs := append([]string{}, fixed...)
	for len(specs) < n {
		k := 1 + r.Intn(6)
		var b strings.Builder
		for i := 0; i < k; i++ {
			b.WriteString(r.Pick(parts))
		}
		specs = append(specs, b.String())
	}
	seen := map[string]bool{}
	for _, s := range specs {
		if seen[s] || !hx.CoqStrOK(hx.CoqStr(s)) {
			continue
		}
		seen[s] = true
		lp, ro := libPanics(s), ruleOutcome(s)
		b := 0
		if lp {
			b = 1
		}
		terms = append(terms, fmt.Sprintf("(%s, [[%d; %d]%%N])", hx.CoqStr(s), b, ro))
		if ro == 2 {
			fails = append(fails, map[string]interface{}{"what": "Go runtime panic while linting a schedule: cron spec " + fmt.Sprintf("%q", s), "key": "panic:cron-spec", "desc": "cron: " + fmt.Sprintf("%q", s)})
		}
	}
	return
}
