// Command c01: the failing-input search and the correspondence observations
// for property C01 (no input makes actionlint panic, crash or hang).
//
// Streams (see plan.go): (i) YAML-node substitution on all four input
// channels — every other node kind, explicit tags x adversarial scalar texts,
// aliases / anchors / merge keys, depth-200 nesting — obtained by
// re-serialising the mutated yaml.v3 node tree; (ii) expression text: all
// strings up to a length over a 24-symbol alphabet plus random longer ones,
// inside ${{ }} in run: and in if:; (iii) byte-level damage on all four
// channels; plus a sample through actionlint.Command.Main.
//
// Process structure: the parent splits every stream into index ranges and
// runs each range in a child process (this binary with -child).  The child
// runs every case under recover() with a per-case watchdog and reports
// progress; a child that dies (Go runtime fatal error: stack overflow,
// concurrent map access, out of memory — recover() cannot catch those), exits
// non-zero or exceeds the limits makes the parent narrow the range down to
// the single failing input (last started case first, then bisection).
//
// Oracle (the property verbatim): no panic; no crash; termination within
// the limit; a fatal error only as a returned error value (exit status 3),
// and for malformed workflow / action / reusable-workflow input not at all
// (diagnostics instead); Command.Main's status in {0,1,2,3}.
//
// Correspondence output: cases_scalar.txt (value parser in charge x the node
// found at a position -> diagnostics at that node), cases_yamlerr.txt
// (handleYAMLError), cases_exit.txt (Command.Main's status).
package main

import (
	"bufio"
	"bytes"
	"encoding/base64"
	"encoding/json"
	"flag"
	"fmt"
	"os"
	"os/exec"
	"path/filepath"
	"runtime"
	"sort"
	"strconv"
	"strings"
	"sync"
	"time"

	"github.com/rhysd/actionlint"

	"verifharness/hx"
)

var (
	fSeed    = flag.Uint64("seed", 1, "seed")
	fTier    = flag.String("tier", "quick", "quick|thorough")
	fOut     = flag.String("out", "", "output directory")
	fRepo    = flag.String("repo", "", "actionlint working tree (testdata); default $VERIF_REPO or /repo")
	fReplay  = flag.String("replay", "", "replay file")
	fChild   = flag.Bool("child", false, "internal: run a range of one stream")
	fStream  = flag.String("stream", "", "internal: stream name")
	fLo      = flag.Int("lo", 0, "internal")
	fHi      = flag.Int("hi", 0, "internal")
	fRes     = flag.String("res", "", "internal: result file")
	fScratch = flag.String("scratch", "", "internal: scratch project directory")
	fLimit   = flag.Int("limit", 0, "per-case wall-clock limit in seconds (default 30 quick, 60 thorough)")
	fWorkers = flag.Int("workers", 8, "parallel child processes")
	fList    = flag.Bool("list", false, "print the streams and exit")
	fShow    = flag.Int("show", -1, "print case number N of -stream with the parser's diagnostics and exit")
	fPanics  = flag.String("extract-panics", "", "translator mode: list the panic / unchecked assertion / goroutine sites of the package in this directory")
	fGen     = flag.String("gen", "GenPanicSites.v", "output of -extract-panics")
)

func repoDir() string {
	if *fRepo != "" {
		return *fRepo
	}
	if r := os.Getenv("VERIF_REPO"); r != "" {
		return r
	}
	return "/repo"
}

func mkPlan() *plan {
	pl := &plan{repo: repoDir(), tier: *fTier, seed: *fSeed}
	pl.bases, pl.rawOnly = loadBases(pl.repo)
	pl.build()
	return pl
}

func (pl *plan) stream(name string) *Stream {
	for _, s := range pl.streams {
		if s.Name == name {
			return s
		}
	}
	return nil
}

func limit() time.Duration {
	if *fLimit > 0 {
		return time.Duration(*fLimit) * time.Second
	}
	if *fTier == "thorough" {
		return 60 * time.Second
	}
	return 30 * time.Second
}

// ------------------------------------------------------------------ child

func childMain() {
	pl := mkPlan()
	s := pl.stream(*fStream)
	if s == nil {
		fmt.Fprintln(os.Stderr, "unknown stream", *fStream)
		os.Exit(2)
	}
	rf, err := os.Create(*fRes)
	hx.Must(err)
	w := bufio.NewWriter(rf)
	enc := json.NewEncoder(w)
	r := newRunner(*fScratch)
	cur := -1
	wd := time.AfterFunc(time.Hour, func() {})
	lim := limit()
	for i := *fLo; i < *fHi && i < s.N; i++ {
		c := s.Get(i)
		cur = i
		fmt.Printf("S %d\n", i) // progress: the case about to run (os.Stdout is unbuffered)
		wd.Stop()
		idx := i
		wd = time.AfterFunc(lim, func() {
			fmt.Printf("HANG %d\n", idx)
			w.Flush()
			// where is it stuck: all goroutine stacks, for the parent
			buf := make([]byte, 1<<20)
			os.Stderr.Write(buf[:runtime.Stack(buf, true)])
			os.Exit(3)
		})
		res := r.run(c)
		// keep the file small: only what the parent needs
		if res.Panic != "" || res.Fatal != "" || res.BadSt != "" || res.KTerm != "" || res.YTerm != "" || res.ETerm != "" || res.WfBad != "" || res.DurMs > 2000 {
			hx.Must(enc.Encode(res))
		} else {
			hx.Must(enc.Encode(&result{Idx: res.Idx, Skip: res.Skip, NDiag: res.NDiag, CfgErr: res.CfgErr, YamlEr: res.YamlEr, KSkip: res.KSkip, DurMs: res.DurMs}))
		}
	}
	wd.Stop()
	_ = cur
	hx.Must(w.Flush())
	rf.Close()
	fmt.Println("DONE")
}

// ----------------------------------------------------------------- parent

type job struct {
	stream string
	lo, hi int
}

type failure struct {
	What    string `json:"what"`
	Key     string `json:"key"`
	Stream  string `json:"stream"`
	Idx     int    `json:"index"`
	Channel string `json:"channel"`
	Desc    string `json:"desc"`
	DataB64 string `json:"data_b64"`
	Text    string `json:"text_head"`
	Detail  string `json:"detail"`
	Seed    uint64 `json:"seed"`
	Tier    string `json:"tier"`
}

type parent struct {
	pl       *plan
	mu       sync.Mutex
	results  map[string][]*result
	fails    []failure
	children int
	narrowed int
	skipped  int
	seq      int
}

func (p *parent) spawn(j job, id int) (rs []*result, lastStarted int, rc int, hang bool, tail string) {
	resFile := filepath.Join(*fOut, "res", fmt.Sprintf("%s.%d.%d.%d.jsonl", j.stream, j.lo, j.hi, id))
	scratch := filepath.Join(*fOut, "scratch", fmt.Sprintf("p%d", id))
	args := []string{"-child", "-stream", j.stream, "-lo", strconv.Itoa(j.lo), "-hi", strconv.Itoa(j.hi), "-seed", strconv.FormatUint(*fSeed, 10),
		"-tier", *fTier, "-repo", repoDir(), "-res", resFile, "-scratch", scratch, "-limit", strconv.Itoa(int(limit() / time.Second))}
	cmd := exec.Command(os.Args[0], args...)
	var so, se bytes.Buffer
	cmd.Stdout, cmd.Stderr = &so, &se
	cmd.Env = append(os.Environ(), "GOTRACEBACK=single")
	hx.Must(cmd.Start())
	p.mu.Lock()
	p.children++
	p.mu.Unlock()
	done := make(chan error, 1)
	go func() { done <- cmd.Wait() }()
	// backstop far above the sum of the in-child limits' normal use
	backstop := time.Duration(j.hi-j.lo)*limit()/4 + 10*time.Minute
	var werr error
	select {
	case werr = <-done:
	case <-time.After(backstop):
		cmd.Process.Kill()
		werr = <-done
		hang = true
	}
	rc = 0
	if werr != nil {
		rc = 1
		if ee, ok := werr.(*exec.ExitError); ok {
			rc = ee.ExitCode()
			if rc == 0 {
				rc = 1
			}
		}
	}
	lastStarted = -1
	for _, l := range strings.Split(so.String(), "\n") {
		if strings.HasPrefix(l, "S ") {
			lastStarted, _ = strconv.Atoi(l[2:])
		}
		if strings.HasPrefix(l, "HANG ") {
			hang = true
			lastStarted, _ = strconv.Atoi(l[5:])
		}
	}
	if f, err := os.Open(resFile); err == nil {
		sc := bufio.NewScanner(f)
		sc.Buffer(make([]byte, 1<<20), 64<<20)
		for sc.Scan() {
			var r result
			if json.Unmarshal(sc.Bytes(), &r) == nil {
				r.Stream = j.stream
				rs = append(rs, &r)
			}
		}
		f.Close()
		os.Remove(resFile)
	}
	tail = se.String()
	if len(tail) > 6500 {
		// the head names the fatal error, the tail the goroutine
		tail = tail[:5000] + "\n…\n" + tail[len(tail)-1200:]
	}
	return
}

func (p *parent) nextID() int {
	p.mu.Lock()
	defer p.mu.Unlock()
	p.seq++
	return p.seq
}

// maxFails bounds the search after failures were found: every hang costs a
// full wall-clock limit, so the run stops exploring once it has this many.
const maxFails = 6

func (p *parent) enough() bool {
	p.mu.Lock()
	defer p.mu.Unlock()
	return len(p.fails) >= maxFails
}

// runRange runs [lo,hi) of a stream, narrowing down to single failing inputs
// when a child dies.
func (p *parent) runRange(j job, slot int) {
	for j.lo < j.hi {
		if p.enough() {
			p.mu.Lock()
			p.skipped += j.hi - j.lo
			p.mu.Unlock()
			return
		}
		rs, last, rc, hang, tail := p.spawn(j, slot)
		if rc == 0 && !hang {
			p.keep(j.stream, rs)
			return
		}
		// keep what completed before the failure
		var completed []*result
		for _, r := range rs {
			if r.Idx < last || last < 0 {
				completed = append(completed, r)
			}
		}
		p.keep(j.stream, completed)
		if last < j.lo {
			p.addFail(j.stream, j.lo, "crash", "the child process failed before starting a case (rc "+strconv.Itoa(rc)+")", tail)
			return
		}
		p.mu.Lock()
		p.narrowed++
		p.mu.Unlock()
		culprit := last
		kind := "crash"
		if hang {
			// the child's watchdog names the case that exceeded the limit
			kind = "hang"
		} else {
			// confirm on the single input
			_, _, rc1, hang1, tail1 := p.spawn(job{j.stream, last, last + 1}, slot)
			if rc1 == 0 && !hang1 {
				// not reproducible alone: bisect [lo, last+1) for the smallest failing suffix
				lo, hi := j.lo, last+1
				for hi-lo > 1 {
					mid := (lo + hi) / 2
					_, _, rcm, hm, _ := p.spawn(job{j.stream, mid, hi}, slot)
					if rcm != 0 || hm {
						lo = mid
					} else {
						hi = mid
					}
				}
				culprit = lo
				tail += "\n[not reproducible on the single input; the failing suffix of the batch starts at this index]"
			} else {
				tail = tail1
				if hang1 {
					kind = "hang"
				}
			}
		}
		p.addFail(j.stream, culprit, kind, fmt.Sprintf("child exit status %d", rc), tail)
		j.lo = last + 1
	}
}

func (p *parent) keep(stream string, rs []*result) {
	p.mu.Lock()
	p.results[stream] = append(p.results[stream], rs...)
	p.mu.Unlock()
}

func crashKey(tail string) string {
	for _, l := range strings.Split(tail, "\n") {
		if strings.HasPrefix(l, "fatal error:") || strings.HasPrefix(l, "runtime:") || strings.HasPrefix(l, "panic:") {
			return trunc(l, 120)
		}
	}
	return "unknown"
}

func (p *parent) mkFail(stream string, idx int, what, key, detail string) failure {
	s := p.pl.stream(stream)
	c := s.Get(idx)
	data := c.Data
	f := failure{What: what, Key: key, Stream: stream, Idx: idx, Channel: channelNames[c.Channel], Desc: c.Desc,
		Detail: detail, Seed: *fSeed, Tier: *fTier, Text: trunc(string(data), 1500)}
	if len(data) <= 256*1024 {
		f.DataB64 = base64.StdEncoding.EncodeToString(data)
	}
	return f
}

func (p *parent) addFail(stream string, idx int, kind, what, tail string) {
	key := kind + ":" + crashKey(tail)
	if kind == "hang" {
		key = "hang:" + topFrame(tail)
	}
	f := p.mkFail(stream, idx, fmt.Sprintf("%s of the linting process on a %s input (%s)", kind, stream, what), key, tail)
	p.mu.Lock()
	p.fails = append(p.fails, f)
	p.mu.Unlock()
}

func parentMain() {
	hx.Must(os.MkdirAll(filepath.Join(*fOut, "res"), 0o755))
	hx.Must(os.MkdirAll(filepath.Join(*fOut, "scratch"), 0o755))
	pl := mkPlan()
	p := &parent{pl: pl, results: map[string][]*result{}}
	batch := 400
	if *fTier == "thorough" {
		batch = 4000
	}
	var jobs []job
	for _, s := range pl.streams {
		for lo := 0; lo < s.N; lo += batch {
			hi := lo + batch
			if hi > s.N {
				hi = s.N
			}
			jobs = append(jobs, job{s.Name, lo, hi})
		}
	}
	ch := make(chan job)
	var wg sync.WaitGroup
	for w := 0; w < *fWorkers; w++ {
		wg.Add(1)
		slot := w
		go func() {
			defer wg.Done()
			for j := range ch {
				p.nextID()
				p.runRange(j, slot)
			}
		}()
	}
	for _, j := range jobs {
		ch <- j
	}
	close(ch)
	wg.Wait()

	sum := hx.NewSummary("C01")
	sum.Rule = "every generated input (YAML-node substitution, expression text, byte damage on the four channels) is linted in a child process under recover() and a per-case wall-clock limit; no panic, no crash, no hang, fatal errors only as returned errors (never for malformed workflow/action/reusable-workflow input), Command.Main status in {0,1,2,3}; the value parser in charge of a scalar position is compared with the model on the node found there"
	var kterms, yterms, eterms []string
	var ksrc []string
	distinct := map[string]bool{}
	slow := 0
	var slowDesc []string
	var slowest int64
	streamNames := []string{}
	for _, s := range pl.streams {
		streamNames = append(streamNames, s.Name)
	}
	for _, name := range streamNames {
		rs := p.results[name]
		sort.Slice(rs, func(a, b int) bool { return rs[a].Idx < rs[b].Idx })
		seen := map[int]bool{}
		for _, r := range rs {
			if seen[r.Idx] {
				continue
			}
			seen[r.Idx] = true
			if r.Skip != "" {
				sum.Dist[name+":not-materialised"]++
				continue
			}
			sum.Evaluations++
			sum.Dist[name]++
			if r.YamlEr {
				sum.Dist[name+":yaml-error"]++
			}
			if r.CfgErr {
				sum.Dist[name+":fatal-config-error(allowed)"]++
			}
			if r.NDiag > 0 {
				sum.Dist[name+":with-diagnostics"]++
			}
			if r.DurMs > slowest {
				slowest = r.DurMs
			}
			if r.DurMs > 2000 {
				slow++
				if len(slowDesc) < 8 {
					slowDesc = append(slowDesc, fmt.Sprintf("%d ms: %s#%d %s", r.DurMs, name, r.Idx, trunc(pl.stream(name).Get(r.Idx).Desc, 160)))
				}
			}
			switch {
			case r.Panic != "":
				p.fails = append(p.fails, p.mkFail(name, r.Idx, "Go runtime panic while linting: "+trunc(r.Panic, 200), r.Key, r.Stack))
			case r.Fatal != "":
				p.fails = append(p.fails, p.mkFail(name, r.Idx, "fatal error instead of diagnostics for a malformed "+channelNames[pl.stream(name).Get(r.Idx).Channel]+" input: "+trunc(r.Fatal, 200), "fatal:"+name+":"+trunc(r.Fatal, 80), r.Fatal))
			case r.BadSt != "":
				p.fails = append(p.fails, p.mkFail(name, r.Idx, r.BadSt, "status:"+trunc(r.BadSt, 80), r.BadSt))
			}
			if r.WfBad != "" {
				p.fails = append(p.fails, p.mkFail(name, r.Idx, "yaml.v3 delivered a node tree violating the hypothesis wf_ynode: "+r.WfBad, "wf_ynode:"+r.WfBad, r.WfBad))
			}
			if r.KTerm != "" {
				kterms = append(kterms, r.KTerm)
				ksrc = append(ksrc, fmt.Sprintf("%s#%d", name, r.Idx))
				distinct[r.KTerm] = true
			}
			if r.KSkip != "" {
				sum.Dist["k-skipped:"+r.KSkip]++
			}
			if r.YTerm != "" {
				yterms = append(yterms, r.YTerm)
				distinct[r.YTerm] = true
			}
			if r.ETerm != "" {
				eterms = append(eterms, r.ETerm)
				distinct[r.ETerm] = true
			}
		}
	}
	// yaml-error cases are plentiful in thorough runs; keep a bounded prefix per run
	maxY := 1500
	if *fTier == "thorough" {
		maxY = 12000
	}
	if len(yterms) > maxY {
		yterms = yterms[:maxY]
	}
	maxK := 6000
	if *fTier == "thorough" {
		maxK = 40000
	}
	if len(kterms) > maxK {
		kterms, ksrc = kterms[:maxK], ksrc[:maxK]
	}
	write := func(name string, lines []string) {
		hx.Must(os.WriteFile(filepath.Join(*fOut, name), []byte(strings.Join(lines, "\n")+"\n"), 0o644))
	}
	write("cases_scalar.txt", kterms)
	write("cases_scalar_src.txt", ksrc)
	write("cases_yamlerr.txt", yterms)
	write("cases_exit.txt", eterms)
	cterms, cfails := cronCases(*fSeed, 400)
	write("cases_cron.txt", cterms)
	sum.Dist["cron_specs"] = len(cterms)
	for _, f := range cfails {
		sum.OracleFails = append(sum.OracleFails, f)
	}
	sum.Nontrivial = len(distinct)
	for _, f := range p.fails {
		sum.OracleFails = append(sum.OracleFails, f)
	}
	for i, t := range kterms {
		if i%(len(kterms)/4+1) == 0 {
			sum.Samples = append(sum.Samples, trunc(t, 300))
		}
	}
	if s := pl.stream("node-wf"); s != nil && s.N > 0 {
		c := s.Get(0)
		sum.Samples = append(sum.Samples, map[string]string{"stream": "node-wf", "desc": c.Desc})
	}
	sum.Extra["children"] = p.children
	sum.Extra["narrowed_failures"] = p.narrowed
	sum.Extra["cases_not_run_after_failure_budget"] = p.skipped
	sum.Extra["slow_cases_over_2s"] = slow
	sum.Extra["slowest_case_ms"] = slowest
	sum.Extra["slow_cases"] = slowDesc
	sum.Extra["per_case_limit_s"] = int(limit() / time.Second)
	sum.Extra["bases"] = map[string]int{"workflow": len(pl.bases[0]), "action": len(pl.bases[1]), "callee": len(pl.bases[2]), "config": len(pl.bases[3])}
	sum.Extra["substitutions_per_position"] = len(pl.subs)
	sum.Extra["k_cases"] = map[string]int{"scalar": len(kterms), "yamlerr": len(yterms), "exit": len(eterms)}
	sum.Write(filepath.Join(*fOut, "summary.json"))
	os.RemoveAll(filepath.Join(*fOut, "scratch"))
	os.RemoveAll(filepath.Join(*fOut, "res"))
	fmt.Printf("c01: %d cases, %d children, %d failures, slowest %d ms\n", sum.Evaluations, p.children, len(p.fails), slowest)
}

// ----------------------------------------------------------------- replay

func replayMain(path string) int {
	b, err := os.ReadFile(path)
	hx.Must(err)
	var f failure
	hx.Must(json.Unmarshal(b, &f))
	if f.DataB64 == "" && f.Stream == "" {
		fmt.Println(string(b))
		fmt.Println("REPLAY: the file names a broken proof obligation / correspondence, not an input")
		return 1
	}
	ch := 0
	for i, n := range channelNames {
		if n == f.Channel {
			ch = i
		}
	}
	data, _ := base64.StdEncoding.DecodeString(f.DataB64)
	if f.DataB64 == "" {
		// regenerate from (seed, tier, stream, index)
		*fSeed, *fTier = f.Seed, f.Tier
		pl := mkPlan()
		if s := pl.stream(f.Stream); s != nil && f.Idx < s.N {
			data = s.Get(f.Idx).Data
		}
	}
	fmt.Printf("REPLAY C01: channel=%s stream=%s index=%d\n  %s\n  recorded: %s\n--- input (%d bytes) ---\n%s\n---\n", f.Channel, f.Stream, f.Idx, f.Desc, f.What, len(data), trunc(string(data), 2000))
	dir, err := os.MkdirTemp("/var/tmp", "c01-replay-")
	hx.Must(err)
	defer os.RemoveAll(dir)
	// run in a child so that a crash or hang is reported rather than suffered
	stream := f.Stream
	if stream != "main" {
		stream = "replay"
	}
	caseFile := filepath.Join(dir, "case.json")
	cb, _ := json.Marshal(map[string]interface{}{"stream": stream, "channel": ch, "data": base64.StdEncoding.EncodeToString(data), "idx": f.Idx})
	hx.Must(os.WriteFile(caseFile, cb, 0o644))
	cmd := exec.Command(os.Args[0], "-replay-child", caseFile, "-scratch", filepath.Join(dir, "scratch"))
	var out bytes.Buffer
	cmd.Stdout, cmd.Stderr = &out, &out
	hx.Must(cmd.Start())
	done := make(chan error, 1)
	go func() { done <- cmd.Wait() }()
	select {
	case err = <-done:
	case <-time.After(60 * time.Second):
		cmd.Process.Kill()
		<-done
		fmt.Println(trunc(out.String(), 3000))
		fmt.Println("REPLAY RESULT: HANG (no result within 60 s) — the property is violated on this input")
		return 1
	}
	fmt.Println(trunc(out.String(), 6000))
	if err != nil {
		fmt.Println("REPLAY RESULT: the linting process crashed — the property is violated on this input")
		return 1
	}
	if strings.Contains(out.String(), "VIOLATED") {
		return 1
	}
	return 0
}

var fReplayChild = flag.String("replay-child", "", "internal")

func replayChild(path string) {
	b, err := os.ReadFile(path)
	hx.Must(err)
	var m struct {
		Stream  string `json:"stream"`
		Channel int    `json:"channel"`
		Data    string `json:"data"`
		Idx     int    `json:"idx"`
	}
	hx.Must(json.Unmarshal(b, &m))
	data, _ := base64.StdEncoding.DecodeString(m.Data)
	r := newRunner(*fScratch)
	c := &Case{Stream: m.Stream, Idx: m.Idx, Channel: m.Channel, Data: data}
	bad := false
	// all option variants, so that the replay does not depend on the index
	n := 8
	if m.Stream == "main" {
		n = 1
	}
	for v := 0; v < n; v++ {
		if m.Stream != "main" {
			c.Idx = v
		}
		res := r.run(c)
		switch {
		case res.Panic != "":
			fmt.Printf("variant %d: PANIC %s\n%s\n", v, res.Panic, res.Stack)
			bad = true
		case res.Fatal != "":
			fmt.Printf("variant %d: FATAL ERROR instead of diagnostics: %s\n", v, res.Fatal)
			bad = true
		case res.BadSt != "":
			fmt.Printf("variant %d: %s\n", v, res.BadSt)
			bad = true
		default:
			fmt.Printf("variant %d: ok (%d diagnostics, status %d, config error %v, %d ms)\n", v, res.NDiag, res.Status, res.CfgErr, res.DurMs)
		}
		if bad {
			break
		}
	}
	if bad {
		fmt.Println("REPLAY RESULT: property VIOLATED on this input")
	} else {
		fmt.Println("REPLAY RESULT: property holds on this input")
	}
}

func main() {
	flag.Parse()
	if *fPanics != "" {
		os.Exit(doExtractPanics(*fPanics, *fGen))
	}
	switch {
	case *fReplayChild != "":
		replayChild(*fReplayChild)
	case *fReplay != "":
		os.Exit(replayMain(*fReplay))
	case *fChild:
		childMain()
	case *fShow >= 0:
		pl := mkPlan()
		st := pl.stream(*fStream)
		if st == nil || *fShow >= st.N {
			fmt.Println("no such case")
			os.Exit(2)
		}
		c := st.Get(*fShow)
		fmt.Printf("%s#%d channel=%s\n%s\nskip=%q\n---\n%s\n---\n", c.Stream, c.Idx, channelNames[c.Channel], c.Desc, c.Skip, trunc(string(c.Data), 6000))
		if c.Channel == chWorkflow {
			_, errs := actionlint.Parse(c.Data)
			for _, e := range errs {
				fmt.Printf("%d:%d [class %d] %s\n", e.Line, e.Column, classify(e.Message), trunc(e.Message, 200))
			}
		}
	case *fList:
		pl := mkPlan()
		for _, s := range pl.streams {
			fmt.Printf("%-28s %d\n", s.Name, s.N)
		}
	default:
		if *fOut == "" {
			fmt.Fprintln(os.Stderr, "usage: c01 -out DIR [-tier quick|thorough] [-seed N]")
			os.Exit(2)
		}
		parentMain()
	}
}
