package main

// Planning: the set of input streams of a run is a deterministic function of
// (repository working tree, tier, seed).  A stream is a lazily materialised
// indexed family of cases, so that parent and children agree on what case
// number i of a stream is without shipping the inputs between processes.

import (
	"bytes"
	"fmt"
	"os"
	"path/filepath"
	"sort"
	"strings"

	"github.com/rhysd/actionlint"
	"gopkg.in/yaml.v3"

	"verifharness/hx"
)

const (
	chWorkflow = 0
	chAction   = 1
	chCallee   = 2
	chConfig   = 3
)

var channelNames = []string{"workflow", "action.yml", "reusable-workflow", "actionlint.yaml"}

// KInfo: what the correspondence check needs to know about a node-substitution
// case at a position that is handled by a value parser of parse.go.
type KInfo struct {
	Which string // Coq constructor application, e.g. "WString true"
	Path  []int  // child indices from the document's root mapping
}

type Case struct {
	Stream  string
	Idx     int
	Channel int
	Data    []byte
	Desc    string
	K       *KInfo
	Skip    string // non-empty: the case could not be materialised (reason)
}

type Stream struct {
	Name string
	N    int
	Get  func(i int) *Case
}

// ------------------------------------------------------------------ bases

type position struct {
	path    []int  // child indices from root mapping (doc.Content[0])
	keyPath string // dotted key path, "[]" for sequence elements
	isKey   bool
	kind    yaml.Kind
}

type base struct {
	name      string
	channel   int
	src       []byte
	positions []position
	kpos      []int // indices into positions with a value parser in charge
}

func parseDoc(src []byte) *yaml.Node {
	var doc yaml.Node
	if err := yaml.Unmarshal(src, &doc); err != nil {
		return nil
	}
	if doc.Kind != yaml.DocumentNode || len(doc.Content) != 1 {
		return nil
	}
	return &doc
}

func walk(n *yaml.Node, path []int, keyPath string, isKey bool, out *[]position) {
	p := make([]int, len(path))
	copy(p, path)
	*out = append(*out, position{p, keyPath, isKey, n.Kind})
	switch n.Kind {
	case yaml.MappingNode:
		for i := 0; i+1 < len(n.Content); i += 2 {
			k := n.Content[i]
			kp := keyPath
			if kp != "" {
				kp += "."
			}
			name := k.Value
			if k.Kind != yaml.ScalarNode || strings.ContainsAny(name, ".[]*") || name == "" {
				name = "?"
			}
			walk(k, append(path, i), kp+name+"#key", true, out)
			walk(n.Content[i+1], append(path, i+1), kp+name, false, out)
		}
	case yaml.SequenceNode:
		for i, c := range n.Content {
			kp := keyPath
			if kp != "" {
				kp += "."
			}
			walk(c, append(path, i), kp+"[]", false, out)
		}
	}
}

// value parser in charge of a key path of a workflow file (read off parse.go;
// the correspondence check verifies the table: a wrong row shows up as a
// disagreement).  First match wins.
var whichTable = []struct{ pat, which string }{
	{"name", "WString true"},
	{"run-name", "WString false"},
	{"concurrency.group", "WString false"},
	{"concurrency.cancel-in-progress", "WBool"},
	{"defaults.run.shell", "WString false"},
	{"defaults.run.working-directory", "WString false"},
	{"env.*", "WString true"},
	{"permissions.*", "WString false"},
	{"on.workflow_dispatch.inputs.*.description", "WString true"},
	{"on.workflow_dispatch.inputs.*.required", "WBool"},
	{"on.workflow_dispatch.inputs.*.default", "WString true"},
	{"on.workflow_dispatch.inputs.*.options", "WStrSeq false false"},
	{"on.workflow_dispatch.**", ""},
	{"on.workflow_call.inputs.*.description", "WString true"},
	{"on.workflow_call.inputs.*.required", "WBool"},
	{"on.workflow_call.secrets.*.description", "WString true"},
	{"on.workflow_call.secrets.*.required", "WBool"},
	{"on.workflow_call.outputs.*.description", "WString true"},
	{"on.workflow_call.outputs.*.value", "WString false"},
	{"on.workflow_call.**", ""},
	{"on.schedule.[].cron", "WString false"},
	{"on.schedule.**", ""},
	{"on.repository_dispatch.types", "WStrOrSeq false false"},
	{"on.repository_dispatch.**", ""},
	{"on.*.types", "WStrOrSeq false false"},
	{"on.*.branches", "WStrOrSeq false false"},
	{"on.*.branches-ignore", "WStrOrSeq false false"},
	{"on.*.tags", "WStrOrSeq false false"},
	{"on.*.tags-ignore", "WStrOrSeq false false"},
	{"on.*.paths", "WStrOrSeq false false"},
	{"on.*.paths-ignore", "WStrOrSeq false false"},
	{"on.*.workflows", "WStrOrSeq false false"},
	{"jobs.*.name", "WString true"},
	{"jobs.*.if", "WString false"},
	{"jobs.*.timeout-minutes", "WTimeout"},
	{"jobs.*.continue-on-error", "WBool"},
	{"jobs.*.strategy.fail-fast", "WBool"},
	{"jobs.*.strategy.max-parallel", "WMaxParallel"},
	{"jobs.*.needs", "WStrOrSeq false false"},
	{"jobs.*.env.*", "WString true"},
	{"jobs.*.outputs.*", "WString true"},
	{"jobs.*.permissions.*", "WString false"},
	{"jobs.*.concurrency.group", "WString false"},
	{"jobs.*.concurrency.cancel-in-progress", "WBool"},
	{"jobs.*.environment.name", "WString false"},
	{"jobs.*.environment.url", "WString false"},
	{"jobs.*.defaults.run.shell", "WString false"},
	{"jobs.*.defaults.run.working-directory", "WString false"},
	{"jobs.*.container.image", "WString false"},
	{"jobs.*.container.options", "WString true"},
	{"jobs.*.container.ports", "WStrSeq true false"},
	{"jobs.*.container.volumes", "WStrSeq true false"},
	{"jobs.*.container.env.*", "WString true"},
	{"jobs.*.container.credentials.username", "WString false"},
	{"jobs.*.container.credentials.password", "WString false"},
	{"jobs.*.services.*.image", "WString false"},
	{"jobs.*.services.*.options", "WString true"},
	{"jobs.*.services.*.ports", "WStrSeq true false"},
	{"jobs.*.services.*.volumes", "WStrSeq true false"},
	{"jobs.*.uses", "WString false"},
	{"jobs.*.with.*", "WString true"},
	{"jobs.*.secrets.*", "WString true"},
	{"jobs.*.steps.[].id", "WString false"},
	{"jobs.*.steps.[].if", "WString false"},
	{"jobs.*.steps.[].name", "WString true"},
	{"jobs.*.steps.[].run", "WString false"},
	{"jobs.*.steps.[].uses", "WString false"},
	{"jobs.*.steps.[].shell", "WString false"},
	{"jobs.*.steps.[].working-directory", "WString false"},
	{"jobs.*.steps.[].continue-on-error", "WBool"},
	{"jobs.*.steps.[].timeout-minutes", "WTimeout"},
	{"jobs.*.steps.[].env.*", "WString true"},
	{"jobs.*.steps.[].with.entrypoint", "WString false"},
	{"jobs.*.steps.[].with.args", "WString true"},
	{"jobs.*.steps.[].with.*", "WString true"},
}

func matchPat(pat, kp string) bool {
	ps := strings.Split(pat, ".")
	ks := strings.Split(kp, ".")
	for i, p := range ps {
		if p == "**" {
			return true
		}
		if i >= len(ks) {
			return false
		}
		if p != "*" && p != ks[i] {
			return false
		}
	}
	return len(ps) == len(ks)
}

func whichFor(kp string) string {
	for _, r := range whichTable {
		if matchPat(r.pat, kp) {
			return r.which
		}
	}
	return ""
}

func newBase(name string, channel int, src []byte) *base {
	doc := parseDoc(src)
	if doc == nil || doc.Content[0].Kind != yaml.MappingNode {
		return nil
	}
	b := &base{name: name, channel: channel, src: src}
	walk(doc.Content[0], nil, "", false, &b.positions)
	// positions are attributed to value parsers only in documents the parser
	// accepts without a diagnostic (in a document with, say, a duplicated job
	// key the section is skipped and the position is dead)
	if _, errs := actionlint.Parse(src); channel == chWorkflow && len(errs) == 0 {
		for i, p := range b.positions {
			if !p.isKey && whichFor(p.keyPath) != "" {
				b.kpos = append(b.kpos, i)
			}
		}
	}
	return b
}

func readDirBases(dir, prefix string, channel int, suffixes []string, out *[]*base) {
	ents, err := os.ReadDir(dir)
	if err != nil {
		return
	}
	names := []string{}
	for _, e := range ents {
		if e.IsDir() {
			continue
		}
		for _, s := range suffixes {
			if strings.HasSuffix(e.Name(), s) {
				names = append(names, e.Name())
				break
			}
		}
	}
	sort.Strings(names)
	for _, n := range names {
		src, err := os.ReadFile(filepath.Join(dir, n))
		if err != nil {
			continue
		}
		if b := newBase(prefix+n, channel, src); b != nil {
			*out = append(*out, b)
		}
	}
}

type plan struct {
	repo    string
	tier    string
	seed    uint64
	bases   [4][]*base // per channel, synthetic first
	rawOnly [4][][]byte
	subs    []subst
	streams []*Stream
}

func loadBases(repo string) (bs [4][]*base, raw [4][][]byte) {
	add := func(ch int, name, src string) {
		b := newBase(name, ch, []byte(src))
		if b == nil {
			hx.Must(fmt.Errorf("synthetic base %s does not parse", name))
		}
		bs[ch] = append(bs[ch], b)
	}
	add(chWorkflow, "synthetic/every-key.yml", synthWorkflow)
	add(chWorkflow, "synthetic/caller.yml", callerWorkflow)
	add(chWorkflow, "synthetic/callee.yml", synthCallee)
	readDirBases(filepath.Join(repo, "testdata", "ok"), "testdata/ok/", chWorkflow, []string{".yaml", ".yml"}, &bs[chWorkflow])
	readDirBases(filepath.Join(repo, "testdata", "examples"), "testdata/examples/", chWorkflow, []string{".yaml", ".yml"}, &bs[chWorkflow])
	add(chAction, "synthetic/action-composite.yml", synthAction)
	add(chAction, "synthetic/action-js.yml", synthActionJS)
	add(chAction, "synthetic/action-docker.yml", synthActionDocker)
	// local actions of the test projects
	var acts []string
	filepath.Walk(filepath.Join(repo, "testdata"), func(p string, info os.FileInfo, err error) error {
		if err == nil && !info.IsDir() && (info.Name() == "action.yml" || info.Name() == "action.yaml") {
			acts = append(acts, p)
		}
		return nil
	})
	sort.Strings(acts)
	for _, p := range acts {
		src, err := os.ReadFile(p)
		if err != nil {
			continue
		}
		rel, _ := filepath.Rel(repo, p)
		if b := newBase(rel, chAction, src); b != nil {
			bs[chAction] = append(bs[chAction], b)
		} else {
			raw[chAction] = append(raw[chAction], src)
		}
	}
	add(chCallee, "synthetic/callee.yml", synthCallee)
	readDirBases(filepath.Join(repo, "testdata", "reusable_workflow_metadata"), "testdata/reusable_workflow_metadata/", chCallee, []string{".yaml", ".yml"}, &bs[chCallee])
	add(chConfig, "synthetic/actionlint.yaml", synthConfig)
	readDirBases(filepath.Join(repo, "testdata", "config"), "testdata/config/", chConfig, []string{".yaml", ".yml"}, &bs[chConfig])
	for _, p := range []string{"user_defined_runner_label", "paths_config", "config_variables"} {
		src, err := os.ReadFile(filepath.Join(repo, "testdata", "projects", p, "actionlint.yaml"))
		if err == nil {
			if b := newBase("testdata/projects/"+p+"/actionlint.yaml", chConfig, src); b != nil {
				bs[chConfig] = append(bs[chConfig], b)
			}
		}
	}
	return
}

// ---------------------------------------------------------- substitutions

type subst struct {
	name string
	make func(anchorS, anchorM *yaml.Node) *yaml.Node
	big  bool // too large for a correspondence case
	// nullAlias: the value becomes an ALIAS to an anchored null node (a pair `x-null-anchor: &vnull`
	// is put in front of the document's root mapping)
	nullAlias bool
}

var scalarPool = []string{"TZ=UTC", "CRON_TZ=UTC", "TZ=", "CRON_TZ=", "TZ=UTC 0 0 * * *", "TZ= 0 0 * * *", "@every 1h", "@every", "@", "@daily", "*/0 * * * *", "0- * * * *", "1-0 * * * *", "? ? ? ? ?", "99999999999999999999 * * * *", "0 0 * * * *", "* * * *", "docker:", "docker:/", "docker:x", "docker", ".", "..", "./.", "a/b@c:d", "docker://a:", "./x.yml@main", "./", "docker://", "owner/repo@", "checkout@feature/x", "a@b/c", "@/", "/@", "@", "a/b/c@", "a//b@c", "./@x/", "nan", ".nan", ".inf", "-.inf", "inf", "-0", "0x10", "0o17", "1e400", "1_000", "", "~", "true",
	"123456789012345678901234567890123456789012345678901234567890", "NaN", "0", "-1", "1.5", "${{ x }}", " ${{ x }} ", "${{ a }} ${{ b }}", "a b"}

var tagPool = []string{"!!float", "!!int", "!!bool", "!!null", "!!str", "!!binary"}

func sc(tag, val string, style yaml.Style) *yaml.Node {
	return &yaml.Node{Kind: yaml.ScalarNode, Tag: tag, Value: val, Style: style}
}

func nest(depth int, mapping bool) *yaml.Node {
	cur := sc("!!str", "x", 0)
	for i := 0; i < depth; i++ {
		if mapping {
			cur = &yaml.Node{Kind: yaml.MappingNode, Tag: "!!map", Style: yaml.FlowStyle, Content: []*yaml.Node{sc("!!str", "a", 0), cur}}
		} else {
			cur = &yaml.Node{Kind: yaml.SequenceNode, Tag: "!!seq", Style: yaml.FlowStyle, Content: []*yaml.Node{cur}}
		}
	}
	return cur
}

func buildSubs() []subst {
	var ss []subst
	fixed := func(name string, f func() *yaml.Node) {
		ss = append(ss, subst{name: name, make: func(_, _ *yaml.Node) *yaml.Node { return f() }})
	}
	// every other node kind, empty ones
	fixed("seq-empty", func() *yaml.Node { return &yaml.Node{Kind: yaml.SequenceNode, Tag: "!!seq"} })
	fixed("map-empty", func() *yaml.Node { return &yaml.Node{Kind: yaml.MappingNode, Tag: "!!map"} })
	fixed("seq-of-empty-string", func() *yaml.Node {
		return &yaml.Node{Kind: yaml.SequenceNode, Tag: "!!seq", Style: yaml.FlowStyle, Content: []*yaml.Node{sc("!!str", "", 0)}}
	})
	fixed("seq-2", func() *yaml.Node {
		return &yaml.Node{Kind: yaml.SequenceNode, Tag: "!!seq", Content: []*yaml.Node{sc("!!str", "a", 0), sc("!!int", "1", 0)}}
	})
	fixed("seq-mixed", func() *yaml.Node {
		return &yaml.Node{Kind: yaml.SequenceNode, Tag: "!!seq", Content: []*yaml.Node{
			sc("!!null", "", 0), sc("!!float", "nan", yaml.TaggedStyle), {Kind: yaml.SequenceNode, Tag: "!!seq", Style: yaml.FlowStyle},
			{Kind: yaml.MappingNode, Tag: "!!map", Style: yaml.FlowStyle}, sc("!!str", "", yaml.DoubleQuotedStyle), sc("!!str", "ok", 0)}}
	})
	fixed("seq-nested", func() *yaml.Node { return nest(2, false) })
	fixed("map-1", func() *yaml.Node {
		return &yaml.Node{Kind: yaml.MappingNode, Tag: "!!map", Content: []*yaml.Node{sc("!!str", "a", 0), sc("!!str", "b", 0)}}
	})
	fixed("map-nested", func() *yaml.Node { return nest(2, true) })
	fixed("map-dup-keys", func() *yaml.Node {
		return &yaml.Node{Kind: yaml.MappingNode, Tag: "!!map", Content: []*yaml.Node{sc("!!str", "a", 0), sc("!!str", "b", 0), sc("!!str", "A", 0), sc("!!str", "c", 0)}}
	})
	fixed("map-nonscalar-key", func() *yaml.Node {
		return &yaml.Node{Kind: yaml.MappingNode, Tag: "!!map", Content: []*yaml.Node{{Kind: yaml.SequenceNode, Tag: "!!seq", Style: yaml.FlowStyle, Content: []*yaml.Node{sc("!!str", "k", 0)}}, sc("!!str", "b", 0)}}
	})
	fixed("map-null-key", func() *yaml.Node {
		return &yaml.Node{Kind: yaml.MappingNode, Tag: "!!map", Content: []*yaml.Node{sc("!!null", "~", 0), sc("!!str", "b", 0)}}
	})
	fixed("null-plain", func() *yaml.Node { return sc("!!null", "", 0) })
	fixed("null-tilde", func() *yaml.Node { return sc("!!null", "~", 0) })
	fixed("anchored-scalar", func() *yaml.Node { n := sc("!!str", "v", 0); n.Anchor = "nx"; return n })
	fixed("multiline-literal", func() *yaml.Node { return sc("!!str", "a\nb ${{ x }}\n", yaml.LiteralStyle) })
	fixed("folded", func() *yaml.Node { return sc("!!str", "a b\n\nc", yaml.FoldedStyle) })
	fixed("single-quoted-empty", func() *yaml.Node { return sc("!!str", "", yaml.SingleQuotedStyle) })
	fixed("double-quoted-expr", func() *yaml.Node { return sc("!!str", "${{ github.event }}", yaml.DoubleQuotedStyle) })
	// aliases and merge keys (the anchors are put on the first key of the
	// document and on its first mapping/sequence value)
	ss = append(ss, subst{name: "alias-scalar", make: func(as, _ *yaml.Node) *yaml.Node {
		return &yaml.Node{Kind: yaml.AliasNode, Value: as.Anchor, Alias: as}
	}})
	ss = append(ss, subst{name: "alias-collection", make: func(_, am *yaml.Node) *yaml.Node {
		if am == nil {
			return nil
		}
		return &yaml.Node{Kind: yaml.AliasNode, Value: am.Anchor, Alias: am}
	}})
	ss = append(ss, subst{name: "map-merge-collection", make: func(_, am *yaml.Node) *yaml.Node {
		if am == nil {
			return nil
		}
		return &yaml.Node{Kind: yaml.MappingNode, Tag: "!!map", Content: []*yaml.Node{
			sc("!!merge", "<<", 0), {Kind: yaml.AliasNode, Value: am.Anchor, Alias: am}, sc("!!str", "k", 0), sc("!!str", "v", 0)}}
	}})
	ss = append(ss, subst{name: "map-merge-scalar", make: func(as, _ *yaml.Node) *yaml.Node {
		return &yaml.Node{Kind: yaml.MappingNode, Tag: "!!map", Content: []*yaml.Node{
			sc("!!merge", "<<", 0), {Kind: yaml.AliasNode, Value: as.Anchor, Alias: as}}}
	}})
	ss = append(ss, subst{name: "map-merge-seq-of-aliases", make: func(as, am *yaml.Node) *yaml.Node {
		if am == nil {
			return nil
		}
		return &yaml.Node{Kind: yaml.MappingNode, Tag: "!!map", Content: []*yaml.Node{
			sc("!!merge", "<<", 0), {Kind: yaml.SequenceNode, Tag: "!!seq", Style: yaml.FlowStyle, Content: []*yaml.Node{
				{Kind: yaml.AliasNode, Value: am.Anchor, Alias: am}, {Kind: yaml.AliasNode, Value: as.Anchor, Alias: as}}}}}
	}})
	ss = append(ss, subst{name: "alias-null", nullAlias: true})
	// size and depth
	ss = append(ss, subst{name: "seq-depth-200", big: true, make: func(_, _ *yaml.Node) *yaml.Node { return nest(200, false) }})
	ss = append(ss, subst{name: "map-depth-200", big: true, make: func(_, _ *yaml.Node) *yaml.Node { return nest(200, true) }})
	// (a filter pattern of n bytes with n/9 offending characters costs O(n^2): one diagnostic per character, each
	// carrying the pattern; 4.5 KB take about 0.5 s, 36 KB about 30 s — sizes are chosen to stay far below the limit)
	ss = append(ss, subst{name: "scalar-4k", big: true, make: func(_, _ *yaml.Node) *yaml.Node { return sc("!!str", strings.Repeat("a${{ x }}", 500), 0) }})
	ss = append(ss, subst{name: "scalar-60k-plain", big: true, make: func(_, _ *yaml.Node) *yaml.Node { return sc("!!str", strings.Repeat("a", 60000), 0) }})
	ss = append(ss, subst{name: "digits-5k", big: true, make: func(_, _ *yaml.Node) *yaml.Node { return sc("!!int", strings.Repeat("9", 5000), yaml.TaggedStyle) }})
	ss = append(ss, subst{name: "seq-1000", big: true, make: func(_, _ *yaml.Node) *yaml.Node {
		n := &yaml.Node{Kind: yaml.SequenceNode, Tag: "!!seq", Style: yaml.FlowStyle}
		for i := 0; i < 1000; i++ {
			n.Content = append(n.Content, sc("!!str", "a", 0))
		}
		return n
	}})
	// node kind x explicit tag of ANOTHER kind: collections tagged as scalars / as the other
	// collection kind (odd and even lengths), scalars tagged as collections
	for _, t := range []string{"!!null", "!!str", "!!map", "!!seq", "!!int", "!!bool", "!!merge"} {
		for _, k := range []int{1, 2, 3} {
			t, k := t, k
			fixed(fmt.Sprintf("seq%d-tagged:%s", k, t), func() *yaml.Node {
				n := &yaml.Node{Kind: yaml.SequenceNode, Tag: t, Style: yaml.FlowStyle}
				for i := 0; i < k; i++ {
					n.Content = append(n.Content, sc("!!str", []string{"main", "b", "c"}[i], 0))
				}
				return n
			})
		}
		t := t
		fixed("seq0-tagged:"+t, func() *yaml.Node { return &yaml.Node{Kind: yaml.SequenceNode, Tag: t, Style: yaml.FlowStyle} })
		fixed("map1-tagged:"+t, func() *yaml.Node {
			return &yaml.Node{Kind: yaml.MappingNode, Tag: t, Style: yaml.FlowStyle, Content: []*yaml.Node{sc("!!str", "a", 0), sc("!!str", "b", 0)}}
		})
		fixed("map0-tagged:"+t, func() *yaml.Node { return &yaml.Node{Kind: yaml.MappingNode, Tag: t, Style: yaml.FlowStyle} })
	}
	for _, t := range []string{"!!map", "!!seq", "!!merge"} {
		t := t
		fixed("scalar-tagged:"+t, func() *yaml.Node { return sc(t, "x", yaml.TaggedStyle) })
		fixed("empty-scalar-tagged:"+t, func() *yaml.Node { return sc(t, "", yaml.TaggedStyle) })
	}
	// explicit tags x adversarial scalar texts
	for _, t := range tagPool {
		for _, v := range scalarPool {
			t, v := t, v
			fixed("tag:"+t+":"+v, func() *yaml.Node { return sc(t, v, yaml.TaggedStyle) })
		}
	}
	// the same texts without an explicit tag (resolved by yaml.v3) and quoted
	for _, v := range scalarPool {
		v := v
		fixed("plain:"+v, func() *yaml.Node { return sc("", v, 0) })
		fixed("dq:"+v, func() *yaml.Node { return sc("!!str", v, yaml.DoubleQuotedStyle) })
	}
	return ss
}

func nodeAt(root *yaml.Node, path []int) *yaml.Node {
	n := root
	for _, i := range path {
		if i >= len(n.Content) {
			return nil
		}
		n = n.Content[i]
	}
	return n
}

// mutate: parse the base, install the anchors, substitute, re-serialise.
// op: 0 substitute, 1 insert a merge key into the mapping at the position.
func mutate(b *base, pos position, s subst, op int) (out []byte, reason string) {
	defer func() {
		if r := recover(); r != nil {
			out, reason = nil, fmt.Sprintf("yaml.v3 encoder panicked: %v", r)
		}
	}()
	doc := parseDoc(b.src)
	root := doc.Content[0]
	if len(root.Content) < 2 {
		return nil, "empty root"
	}
	as := root.Content[0]
	if as.Anchor == "" {
		as.Anchor = "vas"
	}
	var am *yaml.Node
	for i := 1; i < len(root.Content); i += 2 {
		if k := root.Content[i].Kind; k == yaml.MappingNode || k == yaml.SequenceNode {
			am = root.Content[i]
			if am.Anchor == "" {
				am.Anchor = "vam"
			}
			break
		}
	}
	if len(pos.path) == 0 {
		return nil, "root"
	}
	var anull *yaml.Node
	if s.nullAlias {
		if root.Kind != yaml.MappingNode {
			return nil, "root is not a mapping"
		}
		anull = sc("!!null", "", 0)
		anull.Anchor = "vnull"
		root.Content = append([]*yaml.Node{sc("!!str", "x-null-anchor", 0), anull}, root.Content...)
		p2 := append([]int{}, pos.path...)
		p2[0] += 2
		pos = position{path: p2, keyPath: pos.keyPath, isKey: pos.isKey, kind: pos.kind}
	}
	parent := nodeAt(root, pos.path[:len(pos.path)-1])
	last := pos.path[len(pos.path)-1]
	if parent == nil || last >= len(parent.Content) {
		return nil, "path"
	}
	var repl *yaml.Node
	if s.nullAlias {
		repl = &yaml.Node{Kind: yaml.AliasNode, Value: "vnull", Alias: anull}
	} else {
		repl = s.make(as, am)
	}
	if repl == nil {
		return nil, "no collection to alias"
	}
	if op == 2 {
		// delete the element: a key together with its value in a mapping, an item of a sequence
		switch parent.Kind {
		case yaml.MappingNode:
			k := last - last%2
			if k+1 >= len(parent.Content) {
				return nil, "path"
			}
			parent.Content = append(parent.Content[:k:k], parent.Content[k+2:]...)
		case yaml.SequenceNode:
			parent.Content = append(parent.Content[:last:last], parent.Content[last+1:]...)
		default:
			return nil, "not in a collection"
		}
	} else if op == 1 {
		target := parent.Content[last]
		if target.Kind != yaml.MappingNode {
			return nil, "not a mapping"
		}
		target.Content = append([]*yaml.Node{sc("!!merge", "<<", 0), repl}, target.Content...)
	} else {
		if parent.Content[last] == as {
			// the anchor itself is being replaced: aliases to it dangle
			if repl.Kind == yaml.AliasNode && repl.Alias == as {
				return nil, "alias to itself"
			}
		}
		parent.Content[last] = repl
	}
	var buf bytes.Buffer
	enc := yaml.NewEncoder(&buf)
	enc.SetIndent(2)
	if err := enc.Encode(doc); err != nil {
		return nil, "yaml.v3 encoder: " + err.Error()
	}
	enc.Close()
	return buf.Bytes(), ""
}

// ------------------------------------------------------------- streams

type triple struct{ b, p, s, op int }

func nodeStream(name string, pl *plan, ch int, ts []triple) *Stream {
	return &Stream{Name: name, N: len(ts), Get: func(i int) *Case {
		t := ts[i]
		b := pl.bases[ch][t.b]
		pos := b.positions[t.p]
		s := pl.subs[t.s]
		c := &Case{Stream: name, Idx: i, Channel: ch}
		opn := "subst"
		if t.op == 1 {
			opn = "insert-merge"
		}
		if t.op == 2 {
			opn = "delete"
		}
		c.Desc = fmt.Sprintf("%s %s at %s (%v) := %s", opn, b.name, pos.keyPath, pos.path, s.name)
		data, why := mutate(b, pos, s, t.op)
		if data == nil {
			c.Skip = why
			return c
		}
		c.Data = data
		if ch == chWorkflow && t.op == 0 && !pos.isKey && !s.big && len(b.kpos) > 0 {
			if w := whichFor(pos.keyPath); w != "" {
				kp := pos.path
				if s.nullAlias {
					// mutate() puts the anchored null pair in front of the root mapping
					kp = append([]int{}, pos.path...)
					kp[0] += 2
				}
				c.K = &KInfo{Which: w, Path: kp}
			}
		}
		return c
	}}
}

func (pl *plan) build() {
	quick := pl.tier != "thorough"
	rng := hx.NewRng(pl.seed ^ 0xC01)
	pl.subs = buildSubs()
	nsub := len(pl.subs)

	// (i-a) every value-parser position of the synthetic every-key workflow x every substitution
	{
		b := pl.bases[chWorkflow][0]
		var ts []triple
		seen := map[string]int{}
		for _, pi := range b.kpos {
			w := whichFor(b.positions[pi].keyPath)
			seen[w]++
			if quick && seen[w] > 2 {
				// quick: two positions per value parser exhaustively, the rest sampled below
				for k := 0; k < 12; k++ {
					ts = append(ts, triple{0, pi, rng.Intn(nsub), 0})
				}
				continue
			}
			for si := 0; si < nsub; si++ {
				ts = append(ts, triple{0, pi, si, 0})
			}
		}
		pl.streams = append(pl.streams, nodeStream("node-k", pl, chWorkflow, ts))
	}
	// (i-a') EVERY position of the synthetic every-key workflow x the collections that carry the tag
	// of another kind (a sequence / mapping tagged !!null, !!str, ...): the places where a mapping
	// that may be empty, a null or a scalar is expected are not value-parser positions
	{
		b := pl.bases[chWorkflow][0]
		var ts []triple
		for si, sb := range pl.subs {
			if !strings.Contains(sb.name, "-tagged:") {
				continue
			}
			if quick && !(strings.HasSuffix(sb.name, ":!!null") || strings.HasSuffix(sb.name, ":!!str")) {
				continue
			}
			for pi := 1; pi < len(b.positions); pi++ {
				ts = append(ts, triple{0, pi, si, 0})
			}
		}
		pl.streams = append(pl.streams, nodeStream("node-tagged", pl, chWorkflow, ts))
	}
	// (i-b) sampled (file, position, substitution) over all bases of every channel
	counts := [4]int{1500, 400, 400, 400}
	if !quick {
		counts = [4]int{100000, 16000, 16000, 16000}
	}
	names := [4]string{"node-wf", "node-action", "node-callee", "node-config"}
	for ch := 0; ch < 4; ch++ {
		var ts []triple
		nb := len(pl.bases[ch])
		for k := 0; k < counts[ch]; k++ {
			var bi int
			if rng.Chance(1, 4) {
				bi = 0 // the synthetic every-key document
			} else {
				bi = rng.Intn(nb)
			}
			b := pl.bases[ch][bi]
			if len(b.positions) < 2 {
				continue
			}
			var pi int
			if len(b.kpos) > 0 && rng.Chance(1, 3) {
				pi = b.kpos[rng.Intn(len(b.kpos))]
			} else {
				pi = 1 + rng.Intn(len(b.positions)-1)
			}
			op := 0
			if b.positions[pi].kind == yaml.MappingNode && rng.Chance(1, 3) {
				op = 1
			}
			ts = append(ts, triple{bi, pi, rng.Intn(nsub), op})
		}
		pl.streams = append(pl.streams, nodeStream(names[ch], pl, ch, ts))
	}
	// (i-c) deletion of every key / item, in turn, of the synthetic every-key document of every channel
	for ch := 0; ch < 4; ch++ {
		if len(pl.bases[ch]) == 0 {
			continue
		}
		b := pl.bases[ch][0]
		var ts []triple
		for pi := 1; pi < len(b.positions); pi++ {
			ts = append(ts, triple{0, pi, 0, 2})
		}
		pl.streams = append(pl.streams, nodeStream("delete-"+names[ch], pl, ch, ts))
	}
	// (i-d) an alias (to a scalar / to a collection) at every position of the synthetic every-key documents
	for ch := 0; ch < 4; ch++ {
		if len(pl.bases[ch]) == 0 {
			continue
		}
		b := pl.bases[ch][0]
		var ts []triple
		for si, sb := range pl.subs {
			if sb.name != "alias-scalar" && sb.name != "alias-collection" && sb.name != "alias-null" {
				continue
			}
			for pi := 1; pi < len(b.positions); pi++ {
				ts = append(ts, triple{0, pi, si, 0})
			}
		}
		pl.streams = append(pl.streams, nodeStream("alias-"+names[ch], pl, ch, ts))
	}
	// (ii) expression text
	maxLen := 3
	nrand := 3000
	if !quick {
		maxLen = 4
		nrand = 150000
	}
	pl.streams = append(pl.streams, exprEnumStream(maxLen))
	pl.streams = append(pl.streams, exprRandStream(pl.seed, nrand))
	pl.streams = append(pl.streams, exprTypedStream())
	pl.streams = append(pl.streams, exprSectionStream())
	pl.streams = append(pl.streams, runScriptStream())
	pl.streams = append(pl.streams, configGlobStream())
	// (iii) byte level, all four channels
	per := 70
	if !quick {
		per = 1500
	}
	for ch := 0; ch < 4; ch++ {
		pl.streams = append(pl.streams, byteStream(pl, ch, per))
	}
	// Command.Main sample
	nmain := 60
	if !quick {
		nmain = 600
	}
	pl.streams = append(pl.streams, mainStream(pl, nmain))
	pl.streams = append(pl.streams, structStream())
}

// ------------------------------------------------------ large structures
//
// "terminates in bounded time": documents whose size is modest but whose STRUCTURE makes a naive
// traversal exponential or deeply recursive: layered needs graphs (3^L paths) with and without a
// cycle, long needs chains, complete DAGs, deeply nested expressions and YAML collections, very
// many steps.

func needsGraph(layers, width int, cycle int) []byte {
	var b strings.Builder
	b.WriteString("on: push\njobs:\n")
	job := func(id string, needs []string) {
		b.WriteString("  " + id + ":\n")
		if len(needs) > 0 {
			b.WriteString("    needs: [" + strings.Join(needs, ", ") + "]\n")
		}
		b.WriteString("    runs-on: ubuntu-latest\n    steps:\n      - run: echo\n")
	}
	layer := func(l int) []string {
		var ids []string
		for k := 0; k < width; k++ {
			ids = append(ids, fmt.Sprintf("l%d_%d", l, k))
		}
		return ids
	}
	top := layer(layers - 1)
	switch cycle {
	case 1: // the cycle is written first; its first job lists the top of the layers BEFORE its cyclic dependency
		job("ca", append(append([]string{}, top...), "cb"))
		job("cb", []string{"ca"})
	}
	for l := 0; l < layers; l++ {
		for _, id := range layer(l) {
			if l == 0 {
				job(id, nil)
			} else {
				job(id, layer(l-1))
			}
		}
	}
	if cycle == 2 { // the cycle is written last and reaches the layers through its second job
		job("za", []string{"zb"})
		job("zb", append([]string{"za"}, top...))
	}
	if cycle == 3 { // a self loop on a job that needs the top of the layers
		job("zs", append(append([]string{}, top...), "zs"))
	}
	return []byte(b.String())
}

func structDocs() []struct {
	desc string
	data []byte
} {
	type doc = struct {
		desc string
		data []byte
	}
	var ds []doc
	for _, l := range []int{12, 30, 60} {
		for c := 0; c <= 3; c++ {
			ds = append(ds, doc{fmt.Sprintf("needs graph of %d layers x 3 jobs (3^%d paths), cycle variant %d", l, l, c), needsGraph(l, 3, c)})
		}
	}
	{ // chain of 400 jobs, closed to a cycle or not
		for c := 0; c < 2; c++ {
			var b strings.Builder
			b.WriteString("on: push\njobs:\n")
			for i := 0; i < 400; i++ {
				fmt.Fprintf(&b, "  c%d:\n", i)
				if i > 0 {
					fmt.Fprintf(&b, "    needs: c%d\n", i-1)
				} else if c == 1 {
					b.WriteString("    needs: c399\n")
				}
				b.WriteString("    runs-on: ubuntu-latest\n    steps:\n      - run: echo\n")
			}
			ds = append(ds, doc{fmt.Sprintf("needs chain of 400 jobs (closed: %v)", c == 1), []byte(b.String())})
		}
	}
	{ // complete DAG of 45 jobs + one back edge
		for c := 0; c < 2; c++ {
			var b strings.Builder
			b.WriteString("on: push\njobs:\n")
			for i := 0; i < 45; i++ {
				fmt.Fprintf(&b, "  d%d:\n", i)
				var ns []string
				for k := 0; k < i; k++ {
					ns = append(ns, fmt.Sprintf("d%d", k))
				}
				if i == 0 && c == 1 {
					ns = append(ns, "d44")
				}
				if len(ns) > 0 {
					b.WriteString("    needs: [" + strings.Join(ns, ", ") + "]\n")
				}
				b.WriteString("    runs-on: ubuntu-latest\n    steps:\n      - run: echo\n")
			}
			ds = append(ds, doc{fmt.Sprintf("complete needs DAG of 45 jobs (back edge: %v)", c == 1), []byte(b.String())})
		}
	}
	hdr := "on: push\njobs:\n  j:\n    runs-on: ubuntu-latest\n    steps:\n"
	for _, d := range []int{50, 500, 3000} {
		ds = append(ds,
			doc{fmt.Sprintf("%d nested parentheses", d), []byte(hdr + "      - run: echo ${{ " + strings.Repeat("(", d) + "1" + strings.Repeat(")", d) + " }}\n")},
			doc{fmt.Sprintf("%d nested calls", d), []byte(hdr + "      - run: echo ${{ " + strings.Repeat("format(", d) + "'x'" + strings.Repeat(")", d) + " }}\n")},
			doc{fmt.Sprintf("%d nested index brackets", d), []byte(hdr + "      - run: echo ${{ github" + strings.Repeat("[github", d) + strings.Repeat("]", d) + " }}\n")},
			doc{fmt.Sprintf("%d negations", d), []byte(hdr + "      - run: echo ${{ " + strings.Repeat("!", d) + "true }}\n")},
			doc{fmt.Sprintf("%d operands of &&", d), []byte(hdr + "      - run: echo ${{ true" + strings.Repeat(" && github.sha", d) + " }}\n")},
			doc{fmt.Sprintf("%d dereferences", d), []byte(hdr + "      - run: echo ${{ github.event" + strings.Repeat(".a", d) + " }}\n")},
			doc{fmt.Sprintf("%d placeholders in one scalar", d), []byte(hdr + "      - run: echo" + strings.Repeat(" ${{ github.sha }}", d) + "\n")},
			doc{fmt.Sprintf("%d unclosed parentheses", d), []byte(hdr + "      - run: echo ${{ " + strings.Repeat("(", d) + " }}\n")},
			doc{fmt.Sprintf("flow sequence nested %d deep as a matrix value", d), []byte("on: push\njobs:\n  j:\n    runs-on: ubuntu-latest\n    strategy:\n      matrix:\n        v: [" + strings.Repeat("[", d) + "1" + strings.Repeat("]", d) + "]\n    steps:\n      - run: echo ${{ matrix.v }}\n")},
			doc{fmt.Sprintf("flow mapping nested %d deep as a matrix value", d), []byte("on: push\njobs:\n  j:\n    runs-on: ubuntu-latest\n    strategy:\n      matrix:\n        v: [" + strings.Repeat("{a: ", d) + "1" + strings.Repeat("}", d) + "]\n    steps:\n      - run: echo ${{ matrix.v }}\n")},
		)
	}
	{
		var b strings.Builder
		b.WriteString(hdr)
		for i := 0; i < 1500; i++ {
			fmt.Fprintf(&b, "      - id: s%d\n        run: echo ${{ steps.s%d.outputs.x }}\n", i, (i+1)/2)
		}
		ds = append(ds, doc{"1500 steps with ids, each reading an earlier one", []byte(b.String())})
	}
	return ds
}

func structStream() *Stream {
	ds := structDocs()
	return &Stream{Name: "structures", N: len(ds), Get: func(i int) *Case {
		return &Case{Stream: "structures", Idx: i, Channel: chWorkflow, Data: ds[i].data, Desc: ds[i].desc}
	}}
}

// ------------------------------------------------------ expression text

var exprAlphabet = []string{"a", "e", "x", "_", "-", "0", "1", ".", "'", "(", ")", "[", "]", ",", "!", "=", "<", ">", "&", "|", "*", " ", "}", "{"}

func exprWorkflow(s string) []byte {
	q := func(t string) string { return yamlDQ(t) }
	var b strings.Builder
	b.WriteString("on: push\njobs:\n  j:\n    runs-on: ubuntu-latest\n    steps:\n")
	b.WriteString("      - run: " + q("echo ${{ "+s+" }}") + "\n")
	b.WriteString("      - if: " + q(s) + "\n        run: echo\n")
	b.WriteString("      - if: " + q("${{ "+s+" }}") + "\n        run: echo\n")
	// the text as the very END of the scalar: placeholder never closed, no space after it
	b.WriteString("      - run: " + q("echo ${{ "+s) + "\n")
	b.WriteString("      - if: " + q("${{"+s) + "\n        run: echo\n")
	b.WriteString("        env:\n          A: " + q("${{ "+s+"}}") + "\n          B: " + q("x ${{ 1 }} ${{ "+s) + "\n")
	return []byte(b.String())
}

// yamlDQ renders s as a YAML double-quoted scalar (JSON-style escapes).
func yamlDQ(s string) string {
	var b strings.Builder
	b.WriteByte('"')
	for i := 0; i < len(s); i++ {
		c := s[i]
		switch {
		case c == '"':
			b.WriteString(`\"`)
		case c == '\\':
			b.WriteString(`\\`)
		case c == '\n':
			b.WriteString(`\n`)
		case c == '\t':
			b.WriteString(`\t`)
		case c == '\r':
			b.WriteString(`\r`)
		case c < 0x20 || c == 0x7f:
			fmt.Fprintf(&b, `\x%02x`, c)
		default:
			b.WriteByte(c)
		}
	}
	b.WriteByte('"')
	return b.String()
}

func exprEnumStream(maxLen int) *Stream {
	k := len(exprAlphabet)
	n := 0
	pow := 1
	for l := 1; l <= maxLen; l++ {
		pow *= k
		n += pow
	}
	return &Stream{Name: fmt.Sprintf("expr-enum-%d", maxLen), N: n, Get: func(i int) *Case {
		j := i
		l := 1
		p := k
		for j >= p {
			j -= p
			p *= k
			l++
		}
		var sb strings.Builder
		for d := 0; d < l; d++ {
			sb.WriteString(exprAlphabet[j%k])
			j /= k
		}
		s := sb.String()
		return &Case{Stream: "expr-enum", Idx: i, Channel: chWorkflow, Data: exprWorkflow(s), Desc: fmt.Sprintf("expression text %q in run:, if: and if: ${{ }}", s)}
	}}
}

var exprTokens = []string{"github", "github.event", ".", "..", "*", ".*", "[", "]", "(", ")", ",", "!", "!=", "==", "<", "<=", ">", ">=", "&&", "||", "&", "|", "=",
	"'", "''", "'a'", "'{0}'", "'{0} {1}'", "'{'", "'{0'", "'}}'", "0", "1", "-1", "0x", "0xff", "0o7", "1e", "1e+5", "1e400", "1.", ".5", "1_0", "-", "+", "true", "false", "null", "NaN", "Infinity",
	"fromJSON(", "fromjson('", "toJSON(", "format(", "format('{0}',", "contains(", "startsWith(", "endsWith(", "join(", "hashFiles(", "success()", "always()", "failure()", "cancelled()",
	"matrix", "matrix.os", "steps", "steps.a.outputs.b", "needs", "needs.j.outputs", "inputs", "secrets", "env", "vars", "job", "runner", "strategy", "jobs", "github.event.issue.title", "github.event.pull_request.head.ref",
	"github['event']", "['", "']", "[0]", "[*]", "}}", "${{", "}", "{", "#", "\\", "\"", "\n", "\t", " ", "  ", "\x00", "\xff", "é", "日本", "\u2028", "$", "%", "@", "~", "^", "`", ";", ":", "?", "\r", "\r\n", "\v", "\f",
	"fromJSON('[1,2]')", "fromJSON('{\"a\":[1,null,true,\"x\",{}]}')", "fromJSON('null')", "github.event.commits", "steps.*.outputs.*", "needs.*.result", "format('{0}{1}', 1)", "contains(github.event.labels.*.name, 'x')"}

func exprRandStream(seed uint64, n int) *Stream {
	return &Stream{Name: "expr-rand", N: n, Get: func(i int) *Case {
		r := hx.NewRng(seed*1000003 + uint64(i)*7919 + 17)
		var sb strings.Builder
		l := 1 + r.Intn(12)
		if r.Chance(1, 50) {
			l = 200 + r.Intn(400)
		}
		for d := 0; d < l; d++ {
			if r.Chance(1, 6) {
				sb.WriteString(exprAlphabet[r.Intn(len(exprAlphabet))])
			} else {
				sb.WriteString(exprTokens[r.Intn(len(exprTokens))])
			}
			if r.Chance(1, 4) {
				sb.WriteByte(' ')
			}
		}
		if r.Chance(1, 100) {
			// deep nesting of parentheses / indexing / negation
			d := 1000 + r.Intn(4000)
			switch r.Intn(3) {
			case 0:
				sb.Reset()
				sb.WriteString(strings.Repeat("(", d) + "a" + strings.Repeat(")", d))
			case 1:
				sb.Reset()
				sb.WriteString(strings.Repeat("!", d) + "a")
			default:
				sb.Reset()
				sb.WriteString("a" + strings.Repeat("[0]", d))
			}
		}
		s := sb.String()
		return &Case{Stream: "expr-rand", Idx: i, Channel: chWorkflow, Data: exprWorkflow(s), Desc: fmt.Sprintf("random expression text %q", trunc(s, 200))}
	}}
}

// operands of every static type the checker knows, combined with every
// operator, postfix form and built-in function: reaches every arm of the type
// switches of expr_sema.go / expr_type.go
var typedOperands = []string{"null", "true", "1", "1.5", "0xff", "'s'", "''", "fromJSON('[1,2]')", "fromJSON('[[\"a\"]]')", "fromJSON('{\"a\":{\"b\":null}}')",
	"fromJSON('null')", "fromJSON('[{\"a\":1},{\"a\":2}]')", "fromJSON('[{\"a\":1}]').*.zz", "fromJSON('1e999')", "fromJSON('[1,2,-1e400]')", "fromJSON('[')",
	"github", "env", "steps", "matrix", "github.event", "github.event.commits", "steps.*.outputs", "github.event.foo.*.bar", "secrets.x", "inputs", "vars", "needs", "job.services", "strategy", "runner"}

var typedOps = []string{"==", "!=", "<", "<=", ">", ">=", "&&", "||"}

var typedFuncs = []string{"contains", "startsWith", "endsWith", "format", "join", "toJSON", "fromJSON", "hashFiles", "success", "always", "cancelled", "failure", "nosuchfunc", "FORMAT"}

func exprTypedStream() *Stream {
	var exprs []string
	o := typedOperands
	for _, l := range o {
		for _, op := range typedOps {
			for _, r := range o {
				exprs = append(exprs, l+" "+op+" "+r)
			}
		}
		exprs = append(exprs, "!"+l, "("+l+")", l+".a", l+".*", l+".*.a", l+"[0]", l+"['a']", l+"[*]", l+".a.b.c", "!!"+l,
			l+".*.zz.y", l+".*.a.*.b", "join("+l+".*.zz, ',')", l+".*.zz == 1", l+"[0].zz.y")
		for _, r := range o {
			exprs = append(exprs, l+"["+r+"]")
		}
	}
	for _, f := range typedFuncs {
		exprs = append(exprs, f+"()")
		for _, a := range o {
			exprs = append(exprs, f+"("+a+")")
			for _, b := range o {
				exprs = append(exprs, f+"("+a+", "+b+")")
			}
			exprs = append(exprs, f+"('{0} {1} {2}', "+a+", 1, "+a+")", f+"("+a+", "+a+", "+a+", "+a+")")
		}
	}
	for _, fmtS := range []string{"'{0}'", "'{1}'", "'{'", "'{0'", "'}'", "'{{0}}'", "'{-1}'", "'{99999999999999999999}'", "'{0}{0}{0}'", "'{a}'", "''"} {
		exprs = append(exprs, "format("+fmtS+")", "format("+fmtS+", 1)", "format("+fmtS+", 1, 2)")
	}
	return &Stream{Name: "expr-typed", N: len(exprs), Get: func(i int) *Case {
		return &Case{Stream: "expr-typed", Idx: i, Channel: chWorkflow, Data: exprWorkflow(exprs[i]), Desc: fmt.Sprintf("typed expression %q in run:, if: and if: ${{ }}", exprs[i])}
	}}
}

// operands of every static type as the WHOLE value of the sections that may be given by one
// placeholder (matrix, its rows / include / exclude and their elements, env, services, container,
// runs-on, with / secrets of a call, ...): the arms that look INTO the type of such a value
var sectionOperands = append(append([]string{}, typedOperands...),
	"fromJSON('{\"include\": []}')", "fromJSON('{\"include\": [1]}')", "fromJSON('{\"Include\": [[1]]}')", "fromJSON('{\"include\": {\"a\": 1}}')",
	"fromJSON('{\"include\": null}')", "fromJSON('{\"include\": \"x\"}')", "fromJSON('{\"include\": [{\"a\": 1}]}')", "fromJSON('{\"include\": [{\"a\": 1}, 2]}')",
	"fromJSON('{\"exclude\": [1], \"os\": [1]}')", "fromJSON('{\"os\": 1}')", "fromJSON('{\"os\": [], \"INCLUDE\": [null]}')", "fromJSON('{}')", "fromJSON('[]')",
	"fromJSON('{\"image\": 1, \"ports\": 2, \"credentials\": []}')", "fromJSON('{\"db\": 1}')", "fromJSON('{\"db\": {\"image\": []}}')", "fromJSON('[[]]')")

func sectionWorkflow(x string) []byte {
	e := yamlDQ("${{ " + x + " }}")
	var b strings.Builder
	b.WriteString("on: push\nenv: " + e + "\nconcurrency: " + e + "\njobs:\n")
	b.WriteString("  a:\n    runs-on: " + e + "\n    strategy:\n      matrix: " + e + "\n    env: " + e + "\n    services: " + e + "\n    container: " + e + "\n    environment: " + e + "\n    concurrency: " + e + "\n    steps:\n      - run: echo ${{ matrix.os }} ${{ matrix.include }} ${{ env.A }} ${{ job.services.db.id }}\n        env: " + e + "\n")
	b.WriteString("  b:\n    runs-on: ubuntu-latest\n    strategy:\n      matrix:\n        os: " + e + "\n        include: " + e + "\n        exclude: " + e + "\n    container:\n      image: x\n      env: " + e + "\n    services:\n      db:\n        image: x\n        env: " + e + "\n    steps:\n      - run: echo ${{ matrix.os.a }} ${{ matrix.a }}\n")
	b.WriteString("  c:\n    runs-on: [self-hosted, " + e + "]\n    strategy:\n      matrix:\n        os: [" + e + ", 1]\n        include:\n          - " + e + "\n          - a: " + e + "\n        exclude:\n          - " + e + "\n          - os: " + e + "\n    steps:\n      - run: echo ${{ matrix.os }} ${{ matrix.a.b }}\n")
	b.WriteString("  d:\n    uses: ./.github/workflows/x.yml\n    with:\n      v: " + e + "\n    secrets:\n      s: " + e + "\n")
	return []byte(b.String())
}

func exprSectionStream() *Stream {
	o := sectionOperands
	return &Stream{Name: "expr-section", N: len(o), Get: func(i int) *Case {
		return &Case{Stream: "expr-section", Idx: i, Channel: chWorkflow, Data: sectionWorkflow(o[i]), Desc: fmt.Sprintf("expression %q as the whole value of every section that may be given by one placeholder", o[i])}
	}}
}

// run: scripts that hold what the script-scanning rules look for (deprecated workflow commands in
// every letter case and with odd arguments, shell syntax the commands rule splits on)
func runScriptStream() *Stream {
	var scripts []string
	for _, c := range []string{"set-output", "save-state", "set-env", "add-path"} {
		for _, sp := range []string{c, strings.ToUpper(c), strings.ToUpper(c[:1]) + c[1:], strings.ReplaceAll(c, "-", "_"), c + "x", ""} {
			for _, arg := range []string{" name=a::b", "::/x", "", " name=::", "::", " name=a", " NAME=a::b::c"} {
				scripts = append(scripts, "echo \"::"+sp+arg+"\"", "::"+sp+arg, "echo '::"+sp+arg+"' >> $GITHUB_OUTPUT\necho ::"+sp+arg)
			}
		}
	}
	return &Stream{Name: "run-scripts", N: len(scripts), Get: func(i int) *Case {
		src := "on: push\njobs:\n  j:\n    runs-on: ubuntu-latest\n    steps:\n      - run: " + yamlDQ(scripts[i]) + "\n      - run: |\n          " + strings.ReplaceAll(scripts[i], "\n", "\n          ") + "\n"
		return &Case{Stream: "run-scripts", Idx: i, Channel: chWorkflow, Data: []byte(src), Desc: fmt.Sprintf("run: script %q", scripts[i])}
	}}
}

// `paths` globs of the configuration that are built from the path of the linted workflow
// (.github/workflows/test.yml): every character doubled into an alternation {c,c}, with and
// without a mismatch at the end; n = number of alternation groups
func configGlobStream() *Stream {
	path := ".github/workflows/test.yml"
	mk := func(n int, tail string) []byte {
		var b strings.Builder
		for i, c := range path {
			if i < n {
				fmt.Fprintf(&b, "{%c,%c}", c, c)
			} else {
				b.WriteRune(c)
			}
		}
		return []byte("paths:\n  \"" + b.String() + tail + "\":\n    ignore: []\n")
	}
	var cfgs [][]byte
	var desc []string
	ns := []int{4, 12, 20, 24}
	if *fTier == "thorough" {
		// (2^n steps: 24 groups take seconds, 32 do not finish within the limit of a case)
		ns = append(ns, 32)
	}
	for _, n := range ns {
		for _, tail := range []string{"", "X"} {
			cfgs = append(cfgs, mk(n, tail))
			desc = append(desc, fmt.Sprintf("%d alternation groups {c,c} over the path of the workflow, tail %q", n, tail))
		}
	}
	return &Stream{Name: "config-globs", N: len(cfgs), Get: func(i int) *Case {
		return &Case{Stream: "config-globs", Idx: i, Channel: chConfig, Data: cfgs[i], Desc: "configuration whose paths glob has " + desc[i]}
	}}
}

func trunc(s string, n int) string {
	if len(s) > n {
		return s[:n] + "…"
	}
	return s
}

// ----------------------------------------------------------- byte level

func byteStream(pl *plan, ch int, per int) *Stream {
	var srcs [][]byte
	for i, b := range pl.bases[ch] {
		if i < 3 || i%7 == 0 {
			srcs = append(srcs, b.src)
		}
	}
	srcs = append(srcs, pl.rawOnly[ch]...)
	n := per * len(srcs)
	name := "byte-" + channelNames[ch]
	return &Stream{Name: name, N: n, Get: func(i int) *Case {
		src := srcs[i/per]
		k := i % per
		r := hx.NewRng(pl.seed*31 + uint64(ch)*1000003 + uint64(i)*104729)
		data := append([]byte(nil), src...)
		var what string
		switch {
		case k < per*35/100: // truncation at (sampled) offsets; the first ones systematic
			off := 0
			if per >= len(src) {
				off = k % (len(src) + 1)
			} else {
				off = r.Intn(len(src) + 1)
			}
			data = data[:off]
			what = fmt.Sprintf("truncate at %d", off)
		case k < per*60/100: // bit flips
			nf := 1 + r.Intn(3)
			for j := 0; j < nf && len(data) > 0; j++ {
				p := r.Intn(len(data))
				data[p] ^= 1 << uint(r.Intn(8))
			}
			what = fmt.Sprintf("%d bit flips", nf)
		case k < per*72/100: // invalid UTF-8
			bad := [][]byte{{0xff}, {0xc0, 0x80}, {0x80}, {0xed, 0xa0, 0x80}, {0xf8, 0x88, 0x80, 0x80, 0x80}, {0xe2, 0x28, 0xa1}, {0xfe, 0xff}}
			p := r.Intn(len(data) + 1)
			ins := bad[r.Intn(len(bad))]
			data = append(data[:p:p], append(append([]byte(nil), ins...), data[p:]...)...)
			what = fmt.Sprintf("invalid UTF-8 % x at %d", ins, p)
		case k < per*82/100: // NUL and control bytes
			ctl := []byte{0, 0, 0, 1, 7, 8, 0x0b, 0x0c, 0x1b, 0x7f, 0x85}
			p := r.Intn(len(data) + 1)
			c := ctl[r.Intn(len(ctl))]
			if r.Chance(1, 2) && len(data) > 0 {
				data[p%len(data)] = c
			} else {
				data = append(data[:p:p], append([]byte{c}, data[p:]...)...)
			}
			what = fmt.Sprintf("control byte %#x at %d", c, p)
		case k < per*88/100: // byte order marks and encodings
			boms := [][]byte{{0xef, 0xbb, 0xbf}, {0xff, 0xfe}, {0xfe, 0xff}, {0xff, 0xfe, 0, 0}, {0, 0, 0xfe, 0xff}}
			bom := boms[r.Intn(len(boms))]
			data = append(append([]byte(nil), bom...), data...)
			what = fmt.Sprintf("BOM % x", bom)
		case k < per*93/100: // line structure
			switch r.Intn(4) {
			case 0:
				data = bytes.ReplaceAll(data, []byte("\n"), []byte("\r\n"))
				what = "CRLF"
			case 1:
				data = bytes.ReplaceAll(data, []byte("\n"), []byte("\r"))
				what = "CR only"
			case 2:
				data = bytes.Replace(data, []byte("  "), []byte("\t"), 1+r.Intn(5))
				what = "tabs for indentation"
			default:
				data = bytes.ReplaceAll(data, []byte("\n"), []byte("\n\n---\n"))
				what = "document separators"
			}
		case k < per*97/100: // splice two random halves / duplicate a chunk
			if len(data) > 2 {
				a, b2 := r.Intn(len(data)), r.Intn(len(data))
				if a > b2 {
					a, b2 = b2, a
				}
				chunk := append([]byte(nil), data[a:b2]...)
				p := r.Intn(len(data))
				data = append(data[:p:p], append(chunk, data[p:]...)...)
			}
			what = "duplicate a chunk"
		default: // 64 KiB: repeat the document, or one very long line
			if r.Chance(1, 2) {
				for len(data) < 64*1024 && len(src) > 0 {
					data = append(data, src...)
				}
				data = data[:64*1024]
				what = "repeated to 64 KiB"
			} else {
				p := r.Intn(len(data) + 1)
				long := bytes.Repeat([]byte{"a${{[(' \"#:-"[r.Intn(12)]}, 60000)
				data = append(data[:p:p], append(long, data[p:]...)...)
				what = "60000 identical bytes inserted"
			}
		}
		return &Case{Stream: name, Idx: i, Channel: ch, Data: data, Desc: fmt.Sprintf("bytes of base #%d: %s", i/per, what)}
	}}
}

// ---------------------------------------------------------- Command.Main

func mainStream(pl *plan, n int) *Stream {
	return &Stream{Name: "main", N: n, Get: func(i int) *Case {
		// the case data is produced by another stream; the runner decides by
		// Stream == "main" to go through Command.Main
		var src *Stream
		cands := []string{"node-wf", "node-config", "byte-workflow", "byte-actionlint.yaml", "node-action", "node-callee"}
		want := cands[i%len(cands)]
		for _, s := range pl.streams {
			if s.Name == want {
				src = s
			}
		}
		c := &Case{Stream: "main", Idx: i, Channel: chWorkflow, Desc: "Command.Main"}
		if src == nil || src.N == 0 {
			c.Skip = "no source stream"
			return c
		}
		r := hx.NewRng(pl.seed*77 + uint64(i))
		inner := src.Get(r.Intn(src.N))
		if inner.Skip != "" {
			c.Skip = inner.Skip
			return c
		}
		c.Channel = inner.Channel
		c.Data = inner.Data
		c.Desc = "Command.Main on: " + inner.Desc
		return c
	}}
}
