package main

// Translator (T) for C01: the places of the package that can raise a Go panic by construction —
// explicit panic(...) calls and type assertions without the comma-ok form — and the places that
// start a goroutine (a panic there cannot be recovered by the caller).  They are listed from the
// source on every run (go/parser; test files and verif-tagged files excluded) into
// coq/Gen/GenPanicSites.v; coq/Wf/PanicSites.v proves that each is a known one.

import (
	"bytes"
	"fmt"
	"go/ast"
	"go/format"
	"go/parser"
	"go/token"
	"os"
	"path/filepath"
	"sort"
	"strings"

	"verifharness/hx"
)

type panicSite struct{ kind, file, fn, text string }

func scanPanicSites(repo string) ([]panicSite, error) {
	names, _ := filepath.Glob(filepath.Join(repo, "*.go"))
	sort.Strings(names)
	fset := token.NewFileSet()
	var out []panicSite
	src := func(n ast.Node) string {
		var tb bytes.Buffer
		format.Node(&tb, fset, n)
		s := strings.Join(strings.Fields(tb.String()), " ")
		if len(s) > 120 {
			s = s[:120]
		}
		return s
	}
	for _, n := range names {
		if strings.HasSuffix(n, "_test.go") {
			continue
		}
		b, err := os.ReadFile(n)
		if err != nil {
			return nil, err
		}
		if bytes.HasPrefix(b, []byte("//go:build verif")) {
			continue
		}
		f, err := parser.ParseFile(fset, n, b, parser.SkipObjectResolution)
		if err != nil {
			return nil, err
		}
		if f.Name.Name != "actionlint" {
			continue
		}
		base := filepath.Base(n)
		for _, d := range f.Decls {
			fd, ok := d.(*ast.FuncDecl)
			if !ok || fd.Body == nil {
				continue
			}
			fn := fd.Name.Name
			if fd.Recv != nil && len(fd.Recv.List) == 1 {
				t := fd.Recv.List[0].Type
				if st, ok := t.(*ast.StarExpr); ok {
					t = st.X
				}
				if id, ok := t.(*ast.Ident); ok {
					fn = id.Name + "." + fn
				}
			}
			safe := map[*ast.TypeAssertExpr]bool{}
			ast.Inspect(fd.Body, func(x ast.Node) bool {
				switch s := x.(type) {
				case *ast.AssignStmt:
					if len(s.Lhs) == 2 && len(s.Rhs) == 1 {
						if ta, ok := s.Rhs[0].(*ast.TypeAssertExpr); ok {
							safe[ta] = true
						}
					}
				case *ast.ValueSpec:
					if len(s.Names) == 2 && len(s.Values) == 1 {
						if ta, ok := s.Values[0].(*ast.TypeAssertExpr); ok {
							safe[ta] = true
						}
					}
				}
				return true
			})
			ast.Inspect(fd.Body, func(x ast.Node) bool {
				switch s := x.(type) {
				case *ast.CallExpr:
					if id, ok := s.Fun.(*ast.Ident); ok && id.Name == "panic" {
						out = append(out, panicSite{"panic", base, fn, src(s)})
					}
					if se, ok := s.Fun.(*ast.SelectorExpr); ok && se.Sel.Name == "Go" && len(s.Args) == 1 {
						if _, ok := s.Args[0].(*ast.FuncLit); ok {
							out = append(out, panicSite{"goroutine", base, fn, src(se)})
						}
					}
				case *ast.GoStmt:
					out = append(out, panicSite{"goroutine", base, fn, "go " + src(s.Call.Fun)})
				case *ast.TypeAssertExpr:
					if s.Type != nil && !safe[s] { // (Type == nil: the x.(type) of a type switch)
						out = append(out, panicSite{"assert", base, fn, src(s)})
					}
				}
				return true
			})
		}
	}
	sort.SliceStable(out, func(i, j int) bool {
		a, b := out[i], out[j]
		if a.kind != b.kind {
			return a.kind < b.kind
		}
		if a.file != b.file {
			return a.file < b.file
		}
		if a.fn != b.fn {
			return a.fn < b.fn
		}
		return a.text < b.text
	})
	return out, nil
}

func doExtractPanics(repo, gen string) int {
	ps, err := scanPanicSites(repo)
	if err != nil {
		fmt.Fprintln(os.Stderr, "extract-panics:", err)
		return 2
	}
	var sb strings.Builder
	sb.WriteString("(* Gen/GenPanicSites.v — GENERATED on every run of ./check C01 from the .go files of the package\n   by harness/cmd/c01 (-extract-panics); do not edit.  (kind, file, function, text, occurrence):\n   explicit panic calls, type assertions without comma-ok, goroutine starts. *)\n")
	sb.WriteString("From AL Require Import Base.Str.\n\n")
	sb.WriteString("Definition panic_sites : list (string * string * string * string * N) := [\n")
	occ := map[panicSite]int{}
	for i, p := range ps {
		sep := ";"
		if i == len(ps)-1 {
			sep = ""
		}
		fmt.Fprintf(&sb, "  (%s, %s, %s, %s, %d%%N)%s\n", hx.CoqStr(p.kind), hx.CoqStr(p.file), hx.CoqStr(p.fn), hx.CoqStr(p.text), occ[p], sep)
		occ[p]++
	}
	sb.WriteString("].\n")
	if err := os.WriteFile(gen, []byte(sb.String()), 0o644); err != nil {
		fmt.Fprintln(os.Stderr, "extract-panics:", err)
		return 2
	}
	return 0
}
