// Command c19: correspondence and oracle harness for property C19
// (matrix duplicate / exclude checks).  It generates matrices as workflow
// YAML, parses them with actionlint.Parse, runs RuleMatrix through the
// exported visitor, dumps the Matrix AST as a Coq term for the model and
// evaluates the property itself (reference equality / subset written from the
// property text) on the implementation's output.
package main

import (
	"encoding/json"
	"flag"
	"fmt"
	"io"
	"os"
	"path/filepath"
	"regexp"
	"sort"
	"strings"

	"github.com/rhysd/actionlint"

	"verifharness/hx"
)

// ---- abstract values and YAML rendering ---------------------------------

type val struct {
	kind  int // 0 scalar, 1 array, 2 object
	s     string
	elems []*val
	keys  []string
	vals  []*val
	qk    bool // object: member keys written in double quotes (JSON style)
}

var scalarPool = []string{"a", "b", "1", "x y", "true", "null", "~", "a ", " a",
	// numbers spelled differently are different scalars
	"1.0", "01", "3.1", "3.10", "1e1", "10", "0x1",
	// spellings that differ from a YAML keyword in letter case only: other strings
	"True", "tRuE", "FALSE", "false", "fALSE", "Null", "A"}
var exprPool = []string{"${{ matrix.v }}", "${{ fromJSON(env.X) }}", "pre-${{ github.sha }}",
	// closing braces in the text before the placeholder (a Go template, JSON)
	"c }} ${{ github.ref }}", "{{.x}} ${{ github.sha }}",
	// a complete placeholder followed by one that is never closed
	"${{ matrix.v }} ${{", "a ${{ github.sha }} b ${{ c"}
var objKeyPool = []string{"name", "m", "ver", "Name", "z"}
var rowKeyPool = []string{"os", "ver", "arch", "OS", "node"}

func genVal(r *hx.Rng, depth int, exprPct int) *val {
	c := r.Intn(10)
	if depth <= 0 || c < 5 {
		if r.Intn(100) < exprPct {
			return &val{kind: 0, s: r.Pick(exprPool)}
		}
		return &val{kind: 0, s: r.Pick(scalarPool)}
	}
	if c < 7 {
		n := r.Intn(4)
		v := &val{kind: 1}
		for i := 0; i < n; i++ {
			v.elems = append(v.elems, genVal(r, depth-1, exprPct))
		}
		return v
	}
	n := r.Intn(4)
	v := &val{kind: 2, qk: r.Chance(1, 4)}
	perm := r.Perm(len(objKeyPool))
	seen := map[string]bool{}
	for i := 0; i < n; i++ {
		k := objKeyPool[perm[i]]
		if seen[strings.ToLower(k)] {
			continue
		}
		seen[strings.ToLower(k)] = true
		v.keys = append(v.keys, k)
		v.vals = append(v.vals, genVal(r, depth-1, exprPct))
	}
	return v
}

// mutate returns a value near v: equal copy, member-permuted copy, a sub- or
// super-object, an element changed — the shapes on which Equals/subset differ.
func mutate(r *hx.Rng, v *val) *val {
	switch v.kind {
	case 0:
		if r.Chance(1, 3) {
			return &val{kind: 0, s: r.Pick(scalarPool)}
		}
		if r.Chance(1, 6) {
			// the scalar wrapped into a sequence of one element: another value
			return &val{kind: 1, elems: []*val{{kind: 0, s: v.s}}}
		}
		if r.Chance(1, 4) {
			// the same text in another letter case: another value
			sw := strings.ToUpper(v.s)
			if sw == v.s {
				sw = strings.ToLower(v.s)
			}
			if r.Chance(1, 2) && len(v.s) > 1 {
				sw = strings.ToLower(v.s[:1]) + strings.ToUpper(v.s[1:2]) + v.s[2:]
			}
			return &val{kind: 0, s: sw}
		}
		return &val{kind: 0, s: v.s}
	case 1:
		if len(v.elems) == 1 && v.elems[0].kind == 0 && r.Chance(1, 4) {
			// the only element of a sequence on its own: another value
			return &val{kind: 0, s: v.elems[0].s}
		}
		w := &val{kind: 1}
		for _, e := range v.elems {
			if r.Chance(1, 4) {
				w.elems = append(w.elems, mutate(r, e))
			} else {
				w.elems = append(w.elems, e)
			}
		}
		if r.Chance(1, 5) && len(w.elems) > 0 {
			w.elems = w.elems[:len(w.elems)-1]
		}
		return w
	default:
		w := &val{kind: 2, qk: v.qk != r.Chance(1, 4)}
		perm := r.Perm(len(v.keys))
		for _, i := range perm {
			if r.Chance(1, 4) {
				continue // drop a member: sub-object
			}
			k := v.keys[i]
			if r.Chance(1, 4) {
				k = strings.ToUpper(k)
			}
			x := v.vals[i]
			if r.Chance(1, 5) {
				x = mutate(r, x)
			}
			w.keys = append(w.keys, k)
			w.vals = append(w.vals, x)
		}
		if r.Chance(1, 4) {
			have := map[string]bool{}
			for _, k := range w.keys {
				have[strings.ToLower(k)] = true
			}
			k := r.Pick(objKeyPool)
			if !have[strings.ToLower(k)] {
				w.keys = append(w.keys, k)
				w.vals = append(w.vals, genVal(r, 1, 0))
			}
		}
		return w
	}
}

func yamlScalar(s string) string {
	plain := true
	for _, c := range s {
		if !(c >= 'a' && c <= 'z' || c >= 'A' && c <= 'Z' || c >= '0' && c <= '9') {
			plain = false
		}
	}
	if plain && s != "" {
		return s
	}
	return "'" + strings.ReplaceAll(s, "'", "''") + "'"
}

func (v *val) yaml() string {
	switch v.kind {
	case 0:
		return yamlScalar(v.s)
	case 1:
		parts := []string{}
		for _, e := range v.elems {
			parts = append(parts, e.yaml())
		}
		return "[" + strings.Join(parts, ", ") + "]"
	default:
		parts := []string{}
		for i, k := range v.keys {
			if v.qk {
				k = "\"" + k + "\""
			}
			parts = append(parts, k+": "+v.vals[i].yaml())
		}
		return "{" + strings.Join(parts, ", ") + "}"
	}
}

type genRow struct {
	key   string
	expr  string // non-empty: row given by an expression
	style int    // how the expression is written: 0 plain, 1 folded block, 2 literal block, 3 double-quoted, 4 literal block keeping the final line breaks
	qk    bool   // the key is written in double quotes
	vals  []*val
}

type genComb struct {
	expr string
	qk   bool
	keys []string
	vals []*val
}

// exprScalar writes a value that is one placeholder in the given style, as the value of a key
// whose line starts with ind
func exprScalar(ind, expr string, style int) string {
	switch style {
	case 1:
		return ">\n" + ind + "  " + expr
	case 2:
		return "|\n" + ind + "  " + expr
	case 3:
		return "\"" + expr + "\""
	case 4:
		return "|+\n" + ind + "  " + expr + "\n"
	}
	return expr
}

func quoteKey(k string, q bool) string {
	if q {
		return "\"" + k + "\""
	}
	return k
}

type genMatrix struct {
	expr    string
	rows    []genRow
	incExpr string
	include []genComb
	hasInc  bool
	excExpr string
	exclude []genComb
	hasExc  bool
	kwCase  int // spelling of the include / exclude keywords
}

func genMatrixCase(r *hx.Rng) *genMatrix {
	m := &genMatrix{}
	if r.Chance(1, 4) {
		m.kwCase = 1 + r.Intn(2)
	}
	if r.Chance(1, 40) {
		m.expr = "${{ fromJSON(env.M) }}"
		return m
	}
	exprPct := 0
	if r.Chance(1, 3) {
		exprPct = 10
	}
	nrows := r.Intn(4)
	perm := r.Perm(len(rowKeyPool))
	used := map[string]bool{}
	var pool []*val // values seen so far, to draw near-copies from
	for i := 0; i < nrows; i++ {
		k := rowKeyPool[perm[i]]
		if used[strings.ToLower(k)] {
			continue
		}
		used[strings.ToLower(k)] = true
		row := genRow{key: k, qk: r.Chance(1, 6)}
		if r.Chance(1, 8) {
			row.expr = "${{ fromJSON(env.R) }}"
			if r.Chance(1, 2) {
				row.style = 1 + r.Intn(4)
			} else if i%2 == 1 {
				// one placeholder whose body has doubled braces (format's escapes)
				row.expr = "${{ fromJSON(format('[{{\"name\":\"{0}\"}}]', github.ref_name)) }}"
			}
		} else {
			n := r.Intn(5)
			for j := 0; j < n; j++ {
				var v *val
				if len(row.vals) > 0 && r.Chance(1, 2) {
					v = mutate(r, row.vals[r.Intn(len(row.vals))])
				} else {
					v = genVal(r, 3, exprPct)
				}
				row.vals = append(row.vals, v)
				pool = append(pool, v)
			}
		}
		m.rows = append(m.rows, row)
	}
	genCombs := func(isExclude bool) []genComb {
		n := r.Intn(3) + 1
		if isExclude && r.Chance(1, 10) {
			n = 0
		}
		var cs []genComb
		for i := 0; i < n; i++ {
			if r.Chance(1, 12) {
				cs = append(cs, genComb{expr: "${{ fromJSON(env.C) }}"})
				continue
			}
			c := genComb{qk: r.Chance(1, 6)}
			nk := r.Intn(3) + 1
			p := r.Perm(len(rowKeyPool))
			seen := map[string]bool{}
			for j := 0; j < nk; j++ {
				k := rowKeyPool[p[j]]
				if seen[strings.ToLower(k)] {
					continue
				}
				seen[strings.ToLower(k)] = true
				var v *val
				if len(pool) > 0 && r.Chance(3, 4) {
					v = mutate(r, pool[r.Intn(len(pool))])
				} else {
					v = genVal(r, 2, exprPct)
				}
				if !isExclude {
					pool = append(pool, v)
				}
				c.keys = append(c.keys, k)
				c.vals = append(c.vals, v)
			}
			cs = append(cs, c)
		}
		return cs
	}
	if r.Chance(1, 2) {
		m.hasInc = true
		if r.Chance(1, 15) {
			m.incExpr = "${{ fromJSON(env.I) }}"
		} else {
			m.include = genCombs(false)
		}
	}
	if r.Chance(4, 5) {
		m.hasExc = true
		if r.Chance(1, 20) {
			m.excExpr = "${{ fromJSON(env.E) }}"
		} else {
			m.exclude = genCombs(true)
		}
	}
	return m
}

func (m *genMatrix) workflow() string {
	var b strings.Builder
	b.WriteString("on: push\njobs:\n  test:\n    runs-on: ubuntu-latest\n    strategy:\n")
	if m.expr != "" {
		b.WriteString("      matrix: " + m.expr + "\n")
	} else {
		b.WriteString("      matrix:\n")
		empty := true
		for _, r := range m.rows {
			empty = false
			if r.expr != "" {
				fmt.Fprintf(&b, "        %s: %s\n", quoteKey(r.key, r.qk), exprScalar("        ", r.expr, r.style))
				continue
			}
			parts := []string{}
			for _, v := range r.vals {
				parts = append(parts, v.yaml())
			}
			fmt.Fprintf(&b, "        %s: [%s]\n", quoteKey(r.key, r.qk), strings.Join(parts, ", "))
		}
		writeCombs := func(name, expr string, cs []genComb) {
			empty = false
			if expr != "" {
				fmt.Fprintf(&b, "        %s: %s\n", name, expr)
				return
			}
			if len(cs) == 0 {
				fmt.Fprintf(&b, "        %s: []\n", name)
				return
			}
			fmt.Fprintf(&b, "        %s:\n", name)
			for _, c := range cs {
				if c.expr != "" {
					fmt.Fprintf(&b, "          - %s\n", c.expr)
					continue
				}
				for i, k := range c.keys {
					lead := "            "
					if i == 0 {
						lead = "          - "
					}
					fmt.Fprintf(&b, "%s%s: %s\n", lead, quoteKey(k, c.qk), c.vals[i].yaml())
				}
			}
		}
		// (the section keywords are matrix keys like any other: compared case-insensitively)
		if m.hasInc {
			writeCombs([]string{"include", "Include", "INCLUDE"}[m.kwCase%3], m.incExpr, m.include)
		}
		if m.hasExc {
			writeCombs([]string{"exclude", "EXCLUDE", "Exclude"}[m.kwCase%3], m.excExpr, m.exclude)
		}
		if empty {
			b.WriteString("        dummy: [1]\n")
		}
	}
	b.WriteString("    steps:\n      - run: echo\n")
	return b.String()
}

// ---- AST -> Coq term ------------------------------------------------------

func coqPos(p *actionlint.Pos) string {
	if p == nil {
		return hx.CoqPos(0, 0)
	}
	return hx.CoqPos(p.Line, p.Col)
}

func coqVal(v actionlint.RawYAMLValue) string {
	switch v := v.(type) {
	case *actionlint.RawYAMLString:
		return "(YStr " + coqPos(v.Pos()) + " " + hx.CoqStr(v.Value) + ")"
	case *actionlint.RawYAMLArray:
		xs := []string{}
		for _, e := range v.Elems {
			xs = append(xs, coqVal(e))
		}
		return "(YArr " + coqPos(v.Pos()) + " " + hx.CoqList(xs) + ")"
	case *actionlint.RawYAMLObject:
		xs := []string{}
		for _, k := range hx.SortedKeys(v.Props) {
			xs = append(xs, "("+hx.CoqStr(k)+", "+coqVal(v.Props[k])+")")
		}
		return "(YObj " + coqPos(v.Pos()) + " " + hx.CoqList(xs) + ")"
	}
	panic("unknown RawYAMLValue implementation")
}

func coqCombs(cs *actionlint.MatrixCombinations) string {
	if cs == nil {
		return "None"
	}
	xs := []string{}
	for _, c := range cs.Combinations {
		as := []string{}
		for _, k := range hx.SortedKeys(c.Assigns) {
			a := c.Assigns[k]
			as = append(as, fmt.Sprintf("(%s, Build_assign %s %s)", hx.CoqStr(k), coqPos(a.Key.Pos), coqVal(a.Value)))
		}
		xs = append(xs, fmt.Sprintf("Build_comb %s %s", hx.CoqBool(c.Expression != nil), hx.CoqList(as)))
	}
	return fmt.Sprintf("(Some (Build_combs %s %s))", hx.CoqBool(cs.Expression != nil), hx.CoqList(xs))
}

func coqMatrix(m *actionlint.Matrix) string {
	rows := []string{}
	for _, k := range hx.SortedKeys(m.Rows) {
		r := m.Rows[k]
		vals := "None"
		if r.Values != nil {
			xs := []string{}
			for _, v := range r.Values {
				xs = append(xs, coqVal(v))
			}
			vals = "(Some " + hx.CoqList(xs) + ")"
		}
		rows = append(rows, fmt.Sprintf("(%s, Build_row %s %s)", hx.CoqStr(k), hx.CoqBool(r.Expression != nil), vals))
	}
	return fmt.Sprintf("(Build_matrix %s %s %s %s %s)", hx.CoqBool(m.Expression != nil), coqPos(m.Pos),
		hx.CoqList(rows), coqCombs(m.Include), coqCombs(m.Exclude))
}

// ---- implementation run ---------------------------------------------------

type obs struct {
	Kind, Line, Col, RefLine, RefCol int
}

func (o obs) coq() string {
	return fmt.Sprintf("[%d;%d;%d;%d;%d]%%N", o.Kind, o.Line, o.Col, o.RefLine, o.RefCol)
}

func classify(e *actionlint.Error) (obs, bool) {
	o := obs{Line: e.Line, Col: e.Column}
	switch {
	case strings.HasPrefix(e.Message, "duplicate value "):
		o.Kind = 0
		i := strings.LastIndex(e.Message, "the same value is at line:")
		if i < 0 {
			return o, false
		}
		if _, err := fmt.Sscanf(e.Message[i:], "the same value is at line:%d,col:%d", &o.RefLine, &o.RefCol); err != nil {
			return o, false
		}
	case strings.HasPrefix(e.Message, "\"exclude\" section exists but no matrix variation exists"):
		o.Kind = 1
	case strings.Contains(e.Message, "in \"exclude\" section does not exist in matrix"):
		o.Kind = 2
	case strings.Contains(e.Message, "in \"exclude\" does not match in matrix"):
		o.Kind = 3
	default:
		return o, false
	}
	return o, true
}

func sortObs(os []obs) {
	sort.Slice(os, func(i, j int) bool {
		a, b := os[i], os[j]
		if a.Kind != b.Kind {
			return a.Kind < b.Kind
		}
		if a.Line != b.Line {
			return a.Line < b.Line
		}
		if a.Col != b.Col {
			return a.Col < b.Col
		}
		if a.RefLine != b.RefLine {
			return a.RefLine < b.RefLine
		}
		return a.RefCol < b.RefCol
	})
}

func runRule(w *actionlint.Workflow) ([]obs, error) {
	rule := actionlint.NewRuleMatrix()
	v := actionlint.NewVisitor()
	v.AddPass(rule)
	if err := v.Visit(w); err != nil {
		return nil, err
	}
	var out []obs
	for _, e := range rule.Errs() {
		o, ok := classify(e)
		if !ok {
			return nil, fmt.Errorf("unclassified diagnostic of rule matrix: %q", e.Message)
		}
		out = append(out, o)
	}
	sortObs(out)
	return out, nil
}

// ---- the property oracle, written from the property text ------------------

func isExpr(v actionlint.RawYAMLValue) bool {
	s, ok := v.(*actionlint.RawYAMLString)
	if !ok {
		return false
	}
	// (from the property text, not from the implementation: a placeholder is `${{` with `}}` after it)
	i := strings.Index(s.Value, "${{")
	return i >= 0 && strings.Contains(s.Value[i+3:], "}}")
}

// structural equality, mappings as finite maps
func refEq(a, b actionlint.RawYAMLValue) bool {
	switch a := a.(type) {
	case *actionlint.RawYAMLString:
		b, ok := b.(*actionlint.RawYAMLString)
		return ok && a.Value == b.Value
	case *actionlint.RawYAMLArray:
		b, ok := b.(*actionlint.RawYAMLArray)
		if !ok || len(a.Elems) != len(b.Elems) {
			return false
		}
		for i := range a.Elems {
			if !refEq(a.Elems[i], b.Elems[i]) {
				return false
			}
		}
		return true
	case *actionlint.RawYAMLObject:
		b, ok := b.(*actionlint.RawYAMLObject)
		if !ok {
			return false
		}
		for k, x := range a.Props {
			y, ok := b.Props[k]
			if !ok || !refEq(x, y) {
				return false
			}
		}
		for k := range b.Props {
			if _, ok := a.Props[k]; !ok {
				return false
			}
		}
		return true
	}
	return false
}

// "candidate v contains entry value sub": mappings by subset, sequences
// element-wise, scalars by equality; an expression on either side matches.
func refContains(v, sub actionlint.RawYAMLValue) bool {
	if isExpr(sub) || isExpr(v) {
		return true
	}
	switch v := v.(type) {
	case *actionlint.RawYAMLString:
		s, ok := sub.(*actionlint.RawYAMLString)
		return ok && v.Value == s.Value
	case *actionlint.RawYAMLArray:
		s, ok := sub.(*actionlint.RawYAMLArray)
		if !ok || len(v.Elems) != len(s.Elems) {
			return false
		}
		for i := range v.Elems {
			if !refContains(v.Elems[i], s.Elems[i]) {
				return false
			}
		}
		return true
	case *actionlint.RawYAMLObject:
		s, ok := sub.(*actionlint.RawYAMLObject)
		if !ok {
			return false
		}
		for k, x := range s.Props {
			y, ok := v.Props[k]
			if !ok || !refContains(y, x) {
				return false
			}
		}
		return true
	}
	return false
}

// oracle computes the verdicts the property demands for matrix m.
func oracle(m *actionlint.Matrix) []obs {
	var out []obs
	if m.Expression != nil {
		return out
	}
	for _, r := range m.Rows {
		if r.Values == nil {
			continue
		}
		for i, v := range r.Values {
			for j := 0; j < i; j++ {
				if refEq(r.Values[j], v) {
					// the first equal earlier value that is itself not a duplicate is cited
					out = append(out, obs{Kind: 0, Line: v.Pos().Line, Col: v.Pos().Col})
					break
				}
			}
		}
	}
	if m.Exclude == nil || len(m.Exclude.Combinations) == 0 {
		return out
	}
	if m.Include != nil && m.Include.ContainsExpression() {
		return out
	}
	ninc := 0
	if m.Include != nil {
		ninc = len(m.Include.Combinations)
	}
	if len(m.Rows) == 0 && ninc == 0 {
		out = append(out, obs{Kind: 1, Line: m.Pos.Line, Col: m.Pos.Col})
		return out
	}
	cands := map[string][]actionlint.RawYAMLValue{}
	ignored := map[string]bool{}
	for k, r := range m.Rows {
		if r.Expression != nil {
			ignored[k] = true
			continue
		}
		cands[k] = append(cands[k], r.Values...)
	}
	if m.Include != nil {
		for _, c := range m.Include.Combinations {
			for k, a := range c.Assigns {
				if !ignored[k] {
					cands[k] = append(cands[k], a.Value)
				}
			}
		}
	}
	for _, c := range m.Exclude.Combinations {
		for k, a := range c.Assigns {
			if ignored[k] {
				continue
			}
			vs, ok := cands[k]
			if !ok {
				out = append(out, obs{Kind: 2, Line: a.Key.Pos.Line, Col: a.Key.Pos.Col})
				continue
			}
			found := false
			for _, v := range vs {
				if refContains(v, a.Value) {
					found = true
					break
				}
			}
			if !found {
				out = append(out, obs{Kind: 3, Line: a.Value.Pos().Line, Col: a.Value.Pos().Col})
			}
		}
	}
	return out
}

func stripRef(os []obs) []obs {
	out := make([]obs, len(os))
	for i, o := range os {
		o.RefLine, o.RefCol = 0, 0
		out[i] = o
	}
	sortObs(out)
	return out
}

func sameObs(a, b []obs) bool {
	if len(a) != len(b) {
		return false
	}
	for i := range a {
		if a[i] != b[i] {
			return false
		}
	}
	return true
}

// permuted returns the same matrix written in another order of keys, object
// members, include/exclude entries (not of row values: see DESIGN).
func permuteVal(r *hx.Rng, v *val) *val {
	switch v.kind {
	case 1:
		w := &val{kind: 1}
		for _, e := range v.elems {
			w.elems = append(w.elems, permuteVal(r, e))
		}
		return w
	case 2:
		w := &val{kind: 2, qk: v.qk}
		for _, i := range r.Perm(len(v.keys)) {
			w.keys = append(w.keys, v.keys[i])
			w.vals = append(w.vals, permuteVal(r, v.vals[i]))
		}
		return w
	}
	return v
}

func permuteMatrix(r *hx.Rng, m *genMatrix) *genMatrix {
	n := *m
	n.rows = nil
	for _, i := range r.Perm(len(m.rows)) {
		row := m.rows[i]
		nr := genRow{key: row.key, expr: row.expr, style: row.style, qk: row.qk}
		for _, v := range row.vals {
			nr.vals = append(nr.vals, permuteVal(r, v))
		}
		n.rows = append(n.rows, nr)
	}
	pc := func(cs []genComb) []genComb {
		var out []genComb
		for _, c := range cs {
			nc := genComb{expr: c.expr, qk: c.qk}
			for _, i := range r.Perm(len(c.keys)) {
				nc.keys = append(nc.keys, c.keys[i])
				nc.vals = append(nc.vals, permuteVal(r, c.vals[i]))
			}
			out = append(out, nc)
		}
		return out
	}
	n.include = pc(m.include)
	n.exclude = pc(m.exclude)
	return &n
}

// verdictShape: what must be invariant under re-ordering of keys/members:
// per kind, the multiset of diagnosed *contents* (here: count per kind).
func verdictShape(os []obs) [4]int {
	var c [4]int
	for _, o := range os {
		c[o.Kind]++
	}
	return c
}

var lineRefRe = regexp.MustCompile(`line:\d+`)

type failure struct {
	What     string `json:"what"`
	Key      string `json:"key"`
	Workflow string `json:"workflow"`
	Impl     []obs  `json:"impl"`
	Want     []obs  `json:"want"`
}

// evalSource lints one workflow source and applies the oracle.
func evalSource(src string) (m *actionlint.Matrix, impl []obs, want []obs, err error) {
	w, _ := actionlint.Parse([]byte(src))
	if w == nil {
		return nil, nil, nil, fmt.Errorf("workflow does not parse")
	}
	for _, j := range w.Jobs {
		if j.Strategy != nil && j.Strategy.Matrix != nil {
			m = j.Strategy.Matrix
		}
	}
	if m == nil {
		return nil, nil, nil, fmt.Errorf("no matrix in AST")
	}
	impl, err = runRule(w)
	if err != nil {
		return nil, nil, nil, err
	}
	want = oracle(m)
	sortObs(want)
	return
}

// sameTree: the parsed value has the shape and the scalars of the generated one
func sameTree(v *val, raw actionlint.RawYAMLValue) bool {
	switch v.kind {
	case 0:
		s, ok := raw.(*actionlint.RawYAMLString)
		return ok && s.Value == v.s
	case 1:
		a, ok := raw.(*actionlint.RawYAMLArray)
		if !ok || len(a.Elems) != len(v.elems) {
			return false
		}
		for i, e := range v.elems {
			if !sameTree(e, a.Elems[i]) {
				return false
			}
		}
		return true
	}
	o, ok := raw.(*actionlint.RawYAMLObject)
	if !ok || len(o.Props) != len(v.keys) {
		return false
	}
	for i, k := range v.keys {
		p, ok := o.Props[strings.ToLower(k)]
		if !ok || !sameTree(v.vals[i], p) {
			return false
		}
	}
	return true
}

func fidelity(g *genMatrix, m *actionlint.Matrix) string {
	if g.expr != "" || m == nil {
		return ""
	}
	for _, r := range g.rows {
		if r.expr != "" {
			// a row given by one placeholder is an expression row however the scalar is written
			if row, ok := m.Rows[strings.ToLower(r.key)]; !ok || row.Expression == nil {
				return "row " + r.key + " given by an expression is not read as one"
			}
			continue
		}
		if len(r.vals) == 0 {
			continue // (an empty row is a syntax error of the workflow)
		}
		row, ok := m.Rows[strings.ToLower(r.key)]
		if !ok || len(row.Values) != len(r.vals) {
			return "row " + r.key + " lost or its length changed"
		}
		for i, v := range r.vals {
			if !sameTree(v, row.Values[i]) {
				return fmt.Sprintf("row %s value %d (%s)", r.key, i, v.yaml())
			}
		}
	}
	combs := func(name string, gs []genComb, cs *actionlint.MatrixCombinations) string {
		if cs == nil {
			if len(gs) == 0 {
				return "" // (an empty section is a syntax error of the workflow)
			}
			return name + " section lost"
		}
		if cs.Expression != nil {
			return ""
		}
		if len(cs.Combinations) != len(gs) {
			return name + " length changed"
		}
		for i, gc := range gs {
			if gc.expr != "" {
				continue
			}
			c := cs.Combinations[i]
			if len(c.Assigns) != len(gc.keys) {
				return fmt.Sprintf("%s entry %d: number of keys changed", name, i)
			}
			for j, k := range gc.keys {
				a, ok := c.Assigns[strings.ToLower(k)]
				if !ok || !sameTree(gc.vals[j], a.Value) {
					return fmt.Sprintf("%s entry %d key %s (%s)", name, i, k, gc.vals[j].yaml())
				}
			}
		}
		return ""
	}
	if g.hasInc && g.incExpr == "" {
		if msg := combs("include", g.include, m.Include); msg != "" {
			return msg
		}
	}
	if g.hasExc && g.excExpr == "" {
		if msg := combs("exclude", g.exclude, m.Exclude); msg != "" {
			return msg
		}
	}
	return ""
}

func main() {
	seed := flag.Uint64("seed", 1, "PRNG seed")
	n := flag.Int("n", 1000, "number of generated matrices")
	out := flag.String("out", "", "output directory")
	replay := flag.String("replay", "", "replay file (JSON with a 'workflow' field)")
	flag.Parse()

	if *replay != "" {
		b, err := os.ReadFile(*replay)
		hx.Must(err)
		var f failure
		hx.Must(json.Unmarshal(b, &f))
		_, impl, want, err := evalSource(f.Workflow)
		hx.Must(err)
		fmt.Printf("impl=%v\nwant=%v\n", stripRef(impl), want)
		if !sameObs(stripRef(impl), want) {
			fmt.Println("REPLAY: property violated")
			os.Exit(1)
		}
		fmt.Println("REPLAY: property holds on this input")
		return
	}

	hx.Must(os.MkdirAll(*out, 0o755))
	r := hx.NewRng(*seed)
	sum := hx.NewSummary("C19")
	sum.Rule = "random matrices (values nested to depth 3, objects 0-3 members, arrays 0-3, scalars from a pool of 7 incl. null, near-copies by mutation, expressions at 10% in a third of the cases); non-trivial = the rule or the oracle reports at least one diagnostic; distinct = distinct workflow text"
	cases, err := os.Create(filepath.Join(*out, "cases.txt"))
	hx.Must(err)
	defer cases.Close()
	srcs, err := os.Create(filepath.Join(*out, "sources.jsonl"))
	hx.Must(err)
	defer srcs.Close()
	seen := map[string]bool{}
	nontrivial := map[string]bool{}
	for i := 0; i < *n; i++ {
		gm := genMatrixCase(r)
		src := gm.workflow()
		m, impl, want, err := evalSource(src)
		if err != nil {
			sum.Dist["skipped:"+err.Error()]++
			continue
		}
		sum.Evaluations++
		seen[src] = true
		if len(impl) > 0 || len(want) > 0 {
			nontrivial[src] = true
		}
		for _, o := range impl {
			sum.Dist[fmt.Sprintf("impl_kind_%d", o.Kind)]++
		}
		if len(impl) == 0 {
			sum.Dist["impl_clean"]++
		}
		// K: model input + implementation observable
		exp := []string{}
		for _, o := range impl {
			exp = append(exp, o.coq())
		}
		term := fmt.Sprintf("(%s, %s)", coqMatrix(m), hx.CoqList(exp))
		if hx.CoqStrOK(term) {
			fmt.Fprintln(cases, term)
			sb, _ := json.Marshal(map[string]interface{}{"workflow": src})
			fmt.Fprintln(srcs, string(sb))
		}
		// oracle 0: the matrix the rule sees IS the matrix as written (every member, element and
		// scalar of every value; keys lower-cased): the reference below works on the parsed tree
		if msg := fidelity(gm, m); msg != "" {
			sum.OracleFails = append(sum.OracleFails, failure{What: "the parsed matrix does not carry the values as written: " + msg, Key: "fidelity:" + msg, Workflow: src})
		}
		// oracle 1: verdicts demanded by the property text
		if !sameObs(stripRef(impl), want) {
			sum.OracleFails = append(sum.OracleFails, failure{What: "verdicts differ from the property's reference", Key: "verdict:" + src, Workflow: src, Impl: stripRef(impl), Want: want})
		}
		// oracle 2: order insensitivity (keys, members, entries)
		pm := permuteMatrix(r, gm)
		psrc := pm.workflow()
		_, pimpl, _, perr := evalSource(psrc)
		if perr == nil && verdictShape(pimpl) != verdictShape(impl) {
			sum.OracleFails = append(sum.OracleFails, failure{What: "verdict counts change when keys/members/entries are re-ordered", Key: "perm:" + src, Workflow: src + "\n---\n" + psrc, Impl: stripRef(impl), Want: stripRef(pimpl)})
		}
		if i < 3 {
			sum.Samples = append(sum.Samples, map[string]interface{}{"workflow": src, "impl": impl})
		}
	}
	// two jobs in one workflow: the verdicts on the second job's matrix are those it gets alone,
	// whatever the first job's matrix looks like (rows given by expressions, excludes, includes)
	{
		lint := func(src string) []string {
			l, err := actionlint.NewLinter(io.Discard, &actionlint.LinterOptions{Shellcheck: "", Pyflakes: ""})
			hx.Must(err)
			errs, err := l.Lint("test.yaml", []byte(src), nil)
			hx.Must(err)
			var ms []string
			for _, e := range errs {
				if e.Kind == "matrix" {
					ms = append(ms, lineRefRe.ReplaceAllString(e.Message, "line:N"))
				}
			}
			sort.Strings(ms)
			return ms
		}
		job := func(id, matrix string) string {
			return "  " + id + ":\n    runs-on: ubuntu-latest\n    strategy:\n      matrix:\n" + matrix + "    steps:\n      - run: echo\n"
		}
		firsts := []string{
			"        k: ${{ fromJSON(env.R) }}\n        other: [a]\n        exclude:\n          - other: a\n",
			"        k: ${{ fromJSON(env.R) }}\n        v: ${{ fromJSON(env.S) }}\n        exclude:\n          - k: 1\n          - v: 2\n",
			"        k: [1, 1]\n        include: ${{ fromJSON(env.I) }}\n        exclude:\n          - k: 2\n",
			"        other: [a]\n        include:\n          - ${{ fromJSON(env.C) }}\n          - k: 5\n        exclude:\n          - k: 6\n",
		}
		seconds := []string{
			"        other: [a]\n        exclude:\n          - k: x\n",
			"        v: [1, 2, 2]\n        exclude:\n          - v: 3\n          - k: 1\n",
			"        k: [1, 1]\n        exclude:\n          - k: 2\n",
		}
		for fi, f := range firsts {
			for si, sd := range seconds {
				alone := lint("on: push\njobs:\n" + job("second", sd))
				firstAlone := lint("on: push\njobs:\n" + job("first", f))
				both := lint("on: push\njobs:\n" + job("first", f) + job("second", sd))
				want := append(append([]string{}, firstAlone...), alone...)
				sort.Strings(want)
				sum.Evaluations++
				sum.Dist["two_job_workflows"]++
				if strings.Join(both, "\n") != strings.Join(want, "\n") {
					sum.OracleFails = append(sum.OracleFails, failure{What: fmt.Sprintf("the matrix diagnostics of a workflow with two jobs are not those of the two jobs alone: together %q, alone %q and %q", both, firstAlone, alone),
						Key: fmt.Sprintf("two-jobs:%d:%d", fi, si), Workflow: "on: push\njobs:\n" + job("first", f) + job("second", sd)})
				}
			}
		}
	}
	sum.Nontrivial = len(nontrivial)
	sum.Extra["distinct_sources"] = len(seen)
	sum.Write(filepath.Join(*out, "summary.json"))
}
