package main

// Reference for the documented expression language, written from the
// property text and the grammar of DESIGN.md section 6 (C04) — not from
// expr_lexer.go / expr_parser.go:
//
//	tokens   whitespace [ \t\r\n]*; `}}` ends the placeholder;
//	         IDENT  [A-Za-z_][A-Za-z0-9_-]*
//	         NUMBER JSON number  -?(0|[1-9][0-9]*)(\.[0-9]+)?([eE][+-]?[0-9]+)?   or  -?0x[0-9a-fA-F]+
//	         STRING '...' with '' the only escape
//	         ( ) [ ] . * , ! != < <= > >= == && ||
//	The tokenizer commits to the longest prefix of the input that can still
//	be extended to a lexeme; that prefix must itself be a lexeme (so `1.`,
//	`1e`, `&`, `'abc` are errors), and a number must not be directly followed
//	by a letter or digit.
//	grammar  or ::= and ('||' and)* ; and ::= cmp ('&&' cmp)* ; cmp ::= pre (cmpop pre)* ;
//	         pre ::= '!'* post ; post ::= prim ('.' IDENT | '.' '*' | '[' or ']')* ;
//	         prim ::= IDENT | IDENT '(' (or (',' or)*)? ')' | '(' or ')' | NUMBER | STRING
//	         binary operators nest to the right (Appendix B).
//
// The recogniser also builds the tree the sentence denotes, serialised like
// Expr/ParseSrc.v `ser`, so that "analysed according to that structure" can
// be compared with the implementation's tree.

import (
	"math/big"
	"regexp"
	"strings"
)

type refTok struct {
	kind string // "id" "num" "str" or the operator text
	text string
	off  int
	line int
	col  int
}

type lexClass struct {
	kind   string
	viable *regexp.Regexp
	full   *regexp.Regexp
}

func mustLongest(s string) *regexp.Regexp {
	r := regexp.MustCompile(`^(?:` + s + `)`)
	r.Longest()
	return r
}

var refClasses = []lexClass{
	{"id", mustLongest(`[A-Za-z_][A-Za-z0-9_-]*`), mustLongest(`[A-Za-z_][A-Za-z0-9_-]*`)},
	{"num", mustLongest(`-?(?:(?:0|[1-9][0-9]*)(?:\.[0-9]*)?(?:[eE][+-]?[0-9]*)?)?`), mustLongest(`-?(?:0|[1-9][0-9]*)(?:\.[0-9]+)?(?:[eE][+-]?[0-9]+)?`)},
	{"num", mustLongest(`-?0x[0-9a-fA-F]*`), mustLongest(`-?0x[0-9a-fA-F]+`)},
	{"str", mustLongest(`'(?:[^']|'')*'?`), mustLongest(`'(?:[^']|'')*'`)},
	{"op", mustLongest(`\(|\)|\[|\]|\.|\*|,|!=?|<=?|>=?|==?|&&?|\|\|?|\}\}?`), mustLongest(`\(|\)|\[|\]|\.|\*|,|!=|!|<=|<|>=|>|==|&&|\|\||\}\}`)},
}

var numFraction = regexp.MustCompile(`^-?(?:0|[1-9][0-9]*)\.$`)

func isAlnumByte(b byte) bool {
	return b >= '0' && b <= '9' || b >= 'a' && b <= 'z' || b >= 'A' && b <= 'Z'
}

// refLex tokenizes up to and including the first `}}`.  ok=false: lexical error
// (or no end marker).
func refLex(src string) (toks []refTok, ok bool) {
	i, line, col := 0, 1, 1
	adv := func(n int) {
		for _, r := range src[i : i+n] {
			if r == '\n' {
				line++
				col = 1
			} else {
				col++
			}
		}
		i += n
	}
	for {
		for i < len(src) && strings.IndexByte(" \t\r\n", src[i]) >= 0 {
			adv(1)
		}
		if i >= len(src) {
			return toks, false
		}
		rest := src[i:]
		best, bestKind, bestFull := 0, "", false
		for _, c := range refClasses {
			v := len(c.viable.FindString(rest))
			if v == 0 {
				continue
			}
			f := len(c.full.FindString(rest))
			// a `'...'` candidate: the viable expression may stop right after a
			// closing quote that is followed by another quote; Longest() takes care.
			if v > best || (v == best && f == v && !bestFull) {
				best, bestKind, bestFull = v, c.kind, f == v
			}
		}
		if best == 0 || !bestFull {
			return toks, false
		}
		text := rest[:best]
		if bestKind == "num" && best < len(rest) && isAlnumByte(rest[best]) {
			return toks, false
		}
		kind := bestKind
		if kind == "op" {
			kind = text
		}
		toks = append(toks, refTok{kind, text, i, line, col})
		adv(best)
		if kind == "}}" {
			return toks, true
		}
	}
}

type refParser struct {
	toks []refTok
	pos  int
	bad  bool
}

func (p *refParser) peek() string { return p.toks[p.pos].kind }
func (p *refParser) take() refTok  { t := p.toks[p.pos]; p.pos++; return t }
func (p *refParser) expect(k string) {
	if p.peek() == k {
		p.pos++
	} else {
		p.bad = true
	}
}

func serPos(t refTok) []int { return []int{t.off, t.line, t.col} }
func serStr(s string) []int {
	r := []int{len(s)}
	for i := 0; i < len(s); i++ {
		r = append(r, int(s[i]))
	}
	return r
}
func lowerASCII(s string) string {
	b := []byte(s)
	for i, c := range b {
		if c >= 'A' && c <= 'Z' {
			b[i] = c + 32
		}
	}
	return string(b)
}
func cat(parts ...[]int) []int {
	r := []int{}
	for _, p := range parts {
		r = append(r, p...)
	}
	return r
}

var cmpCode = map[string]int{"<": 1, "<=": 2, ">": 3, ">=": 4, "==": 5, "!=": 6}

// rightFold builds op(l1, op(l2, ... ln)) from operands and operator codes.
func rightFold(tag int, operands [][]int, ops []int) []int {
	n := len(operands)
	acc := operands[n-1]
	for i := n - 2; i >= 0; i-- {
		acc = cat([]int{tag, ops[i]}, operands[i], acc)
	}
	return acc
}

func (p *refParser) or() []int {
	xs := [][]int{p.and()}
	ops := []int{}
	for !p.bad && p.peek() == "||" {
		p.pos++
		ops = append(ops, 2)
		xs = append(xs, p.and())
	}
	if p.bad {
		return nil
	}
	return rightFold(12, xs, ops)
}

func (p *refParser) and() []int {
	xs := [][]int{p.cmp()}
	ops := []int{}
	for !p.bad && p.peek() == "&&" {
		p.pos++
		ops = append(ops, 1)
		xs = append(xs, p.cmp())
	}
	if p.bad {
		return nil
	}
	return rightFold(12, xs, ops)
}

func (p *refParser) cmp() []int {
	xs := [][]int{p.pre()}
	ops := []int{}
	for !p.bad {
		c, isCmp := cmpCode[p.peek()]
		if !isCmp {
			break
		}
		p.pos++
		ops = append(ops, c)
		xs = append(xs, p.pre())
	}
	if p.bad {
		return nil
	}
	return rightFold(11, xs, ops)
}

func (p *refParser) pre() []int {
	nots := []refTok{}
	for p.peek() == "!" {
		nots = append(nots, p.take())
	}
	e := p.post()
	if p.bad {
		return nil
	}
	for i := len(nots) - 1; i >= 0; i-- {
		e = cat([]int{10}, serPos(nots[i]), e)
	}
	return e
}

func (p *refParser) post() []int {
	e := p.prim()
	for !p.bad {
		switch p.peek() {
		case ".":
			p.pos++
			switch p.peek() {
			case "id":
				t := p.take()
				e = cat([]int{7}, serStr(lowerASCII(t.text)), e)
			case "*":
				p.pos++
				e = cat([]int{8}, e)
			default:
				p.bad = true
			}
		case "[":
			p.pos++
			idx := p.or()
			p.expect("]")
			if !p.bad {
				e = cat([]int{9}, e, idx)
			}
		default:
			return e
		}
	}
	return nil
}

// numValue: value of an integer literal text (decimal or 0x hex, optional '-')
func numValue(text string) *big.Int {
	neg := strings.HasPrefix(text, "-")
	t := strings.TrimPrefix(text, "-")
	v := new(big.Int)
	if strings.HasPrefix(t, "0x") {
		v.SetString(t[2:], 16)
	} else {
		v.SetString(t, 10)
	}
	if neg {
		v.Neg(v)
	}
	return v
}

func isIntText(text string) bool {
	return strings.Contains(text, "0x") || !strings.ContainsAny(text, ".eE")
}

func (p *refParser) prim() []int {
	switch p.peek() {
	case "id":
		t := p.take()
		if p.peek() == "(" {
			p.pos++
			args := [][]int{}
			if p.peek() == ")" {
				p.pos++
			} else {
				for {
					a := p.or()
					if p.bad {
						return nil
					}
					args = append(args, a)
					if p.peek() == "," {
						p.pos++
						continue
					}
					p.expect(")")
					break
				}
			}
			if p.bad {
				return nil
			}
			r := cat([]int{13}, serPos(t), serStr(t.text), []int{len(args)})
			for _, a := range args {
				r = append(r, a...)
			}
			return r
		}
		switch t.text {
		case "null":
			return cat([]int{2}, serPos(t))
		case "true":
			return cat([]int{3}, serPos(t), []int{1})
		case "false":
			return cat([]int{3}, serPos(t), []int{0})
		}
		return cat([]int{1}, serPos(t), serStr(lowerASCII(t.text)))
	case "(":
		p.pos++
		e := p.or()
		p.expect(")")
		return e
	case "num":
		t := p.take()
		if isIntText(t.text) {
			v := numValue(t.text)
			sign := 0
			if v.Sign() < 0 {
				sign = 1
			}
			abs := new(big.Int).Abs(v)
			a := -1 // does not fit: never equal to an implementation value
			if abs.IsInt64() {
				a = int(abs.Int64())
			}
			return cat([]int{4}, serPos(t), []int{sign, a})
		}
		return cat([]int{5}, serPos(t), serStr(t.text))
	case "str":
		t := p.take()
		body := t.text[1 : len(t.text)-1]
		return cat([]int{6}, serPos(t), serStr(strings.ReplaceAll(body, "''", "'")))
	default:
		p.bad = true
		return nil
	}
}

// refParse decides whether the text up to the first `}}` is a sentence; if so
// it returns its tree.
func refParse(src string) (tree []int, toks []refTok, ok bool) {
	toks, lexOK := refLex(src)
	if !lexOK {
		return nil, toks, false
	}
	p := &refParser{toks: toks}
	tree = p.or()
	if p.bad || p.peek() != "}}" {
		return nil, toks, false
	}
	return tree, toks, true
}
