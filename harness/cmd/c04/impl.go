package main

// Observables of the implementation (actionlint.LexExpression, ExprParser.Parse),
// rendered exactly like Expr/ParseSrc.v renders the model's.

import (
	"fmt"
	"regexp"
	"strconv"
	"strings"

	"github.com/rhysd/actionlint"
)

func tokPos(t *actionlint.Token) []int { return []int{t.Offset, t.Line, t.Column} }

func b2i(b bool) int {
	if b {
		return 1
	}
	return 0
}

func serNode(n actionlint.ExprNode) []int {
	switch n := n.(type) {
	case *actionlint.VariableNode:
		return cat([]int{1}, tokPos(n.Token()), serStr(n.Name))
	case *actionlint.NullNode:
		return cat([]int{2}, tokPos(n.Token()))
	case *actionlint.BoolNode:
		return cat([]int{3}, tokPos(n.Token()), []int{b2i(n.Value)})
	case *actionlint.IntNode:
		a := n.Value
		if a < 0 {
			a = -a
		}
		return cat([]int{4}, tokPos(n.Token()), []int{b2i(n.Value < 0), a})
	case *actionlint.FloatNode:
		return cat([]int{5}, tokPos(n.Token()), serStr(n.Token().Value))
	case *actionlint.StringNode:
		return cat([]int{6}, tokPos(n.Token()), serStr(n.Value))
	case *actionlint.ObjectDerefNode:
		return cat([]int{7}, serStr(n.Property), serNode(n.Receiver))
	case *actionlint.ArrayDerefNode:
		return cat([]int{8}, serNode(n.Receiver))
	case *actionlint.IndexAccessNode:
		return cat([]int{9}, serNode(n.Operand), serNode(n.Index))
	case *actionlint.NotOpNode:
		return cat([]int{10}, tokPos(n.Token()), serNode(n.Operand))
	case *actionlint.CompareOpNode:
		return cat([]int{11, int(n.Kind)}, serNode(n.Left), serNode(n.Right))
	case *actionlint.LogicalOpNode:
		return cat([]int{12, int(n.Kind)}, serNode(n.Left), serNode(n.Right))
	case *actionlint.FuncCallNode:
		r := cat([]int{13}, tokPos(n.Token()), serStr(n.Callee), []int{len(n.Args)})
		for _, a := range n.Args {
			r = append(r, serNode(a)...)
		}
		return r
	default:
		return []int{-1}
	}
}

var lexWheres = []struct {
	prefix string
	cls    int
}{
	{"expression,", 1}, {"integer part of number", 2}, {"fraction part of float number", 3},
	{"exponent part of float number", 4}, {"character following number ", 5}, {"hex integer,", 6},
	{"character following hex integer ", 7}, {"end of string literal", 8}, {"end marker }}", 9},
	{"== operator", 10}, {"&& operator", 11}, {"|| operator", 12},
}

// lexErrClass: class of a lexer diagnostic; -1 = not a lexer diagnostic
func lexErrClass(msg string) int {
	if strings.HasPrefix(msg, "unexpected EOF while lexing expression") {
		return 0
	}
	if !strings.HasPrefix(msg, "got unexpected ") {
		return -1
	}
	i := strings.Index(msg, " while lexing ")
	if i < 0 {
		return -1
	}
	where := msg[i+len(" while lexing "):]
	for _, w := range lexWheres {
		if strings.HasPrefix(where, w.prefix) {
			return w.cls
		}
	}
	return -1
}

var parseWheres = []struct {
	prefix string
	site   int
}{
	{"variable access, function call, null, bool, int, float or string", 1},
	{"arguments of function call", 2}, {"closing ')' of nested expression", 3},
	{"object property dereference like 'a.b' or array element dereference like 'a.*'", 4},
	{"closing bracket ']' for index access", 5},
}

var remainingRe = regexp.MustCompile(`^parser did not reach end of input after parsing the expression\. (\d+) remaining token\(s\)`)

// parseErrClass: (class, argument) of a parser diagnostic; class -1 = unknown
func parseErrClass(msg string) (int, int) {
	if strings.HasPrefix(msg, "unexpected ") {
		i := strings.Index(msg, " while parsing ")
		if i >= 0 {
			where := msg[i+len(" while parsing "):]
			for _, w := range parseWheres {
				if strings.HasPrefix(where, w.prefix) {
					return 1, w.site
				}
			}
		}
		return -1, 0
	}
	if strings.HasPrefix(msg, "parsing invalid integer literal") {
		return 2, 0
	}
	if strings.HasPrefix(msg, "parsing invalid float literal") {
		return 3, 0
	}
	if m := remainingRe.FindStringSubmatch(msg); m != nil {
		c, _ := strconv.Atoi(m[1])
		return 4, c
	}
	return -1, 0
}

// implLex: observable of LexExpression
func implLex(src string) [][]int {
	ts, off, err := actionlint.LexExpression(src)
	if err != nil {
		return [][]int{{12, lexErrClass(err.Message), err.Offset, err.Line, err.Column}}
	}
	obs := [][]int{}
	for _, t := range ts {
		obs = append(obs, []int{10, int(t.Kind), t.Offset, t.Line, t.Column, len(t.Value)})
	}
	obs = append(obs, []int{11, off})
	return obs
}

type implResult struct {
	accepted bool
	tree     []int
	err      *actionlint.ExprError
	obs      []int
}

// implParse: observable of ExprParser.Parse(NewExprLexer(src)) on a fresh parser
func implParse(src string) implResult { return implParseWith(actionlint.NewExprParser(), src) }

// implParseWith: the same on a parser value that has parsed other texts before
func implParseWith(p *actionlint.ExprParser, src string) implResult {
	n, err := p.Parse(actionlint.NewExprLexer(src))
	if err == nil {
		t := serNode(n)
		return implResult{accepted: true, tree: t, obs: cat([]int{20}, t)}
	}
	if c := lexErrClass(err.Message); c >= 0 {
		return implResult{err: err, obs: []int{22, c, err.Offset, err.Line, err.Column}}
	}
	c, a := parseErrClass(err.Message)
	return implResult{err: err, obs: []int{21, c, a, err.Offset, err.Line, err.Column}}
}

// badFloats: the FLOAT literal texts of src that strconv.ParseFloat rejects —
// the oracle input of the model (strconv is not modelled)
func badFloats(src string) []string {
	var bad []string
	l := actionlint.NewExprLexer(src)
	for i := 0; i <= len(src); i++ {
		t := l.Next()
		if t.Kind == actionlint.TokenKindEnd {
			break
		}
		if t.Kind == actionlint.TokenKindFloat {
			if _, err := strconv.ParseFloat(t.Value, 64); err != nil {
				dup := false
				for _, b := range bad {
					dup = dup || b == t.Value
				}
				if !dup {
					bad = append(bad, t.Value)
				}
			}
		}
	}
	return bad
}

func renderObs(obs [][]int) string {
	var sb strings.Builder
	for i, t := range obs {
		if i > 0 {
			sb.WriteByte(';')
		}
		for j, x := range t {
			if j > 0 {
				sb.WriteByte(',')
			}
			sb.WriteString(strconv.Itoa(x))
		}
	}
	return sb.String()
}

func coqObs(obs [][]int) string {
	ts := make([]string, len(obs))
	for i, t := range obs {
		xs := make([]string, len(t))
		for j, x := range t {
			xs[j] = fmt.Sprintf("%d%%N", x)
		}
		ts[i] = "[" + strings.Join(xs, ";") + "]"
	}
	return "[" + strings.Join(ts, "; ") + "]"
}
