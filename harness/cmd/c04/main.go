// Command c04 — correspondence harness and property oracle for C04 (the
// expression parser accepts exactly the documented grammar).
//
// For every generated input it (1) runs the implementation (LexExpression and
// ExprParser.Parse) and renders the observables, (2) feeds input + observable
// to the extracted Coq model (-model, one process per worker) which reports
// every disagreement, (3) evaluates the property on the implementation with
// the reference of ref.go: same accept/reject verdict, same tree, one
// diagnostic positioned inside the text.  A seeded sample is written as Coq
// terms (cases.txt) for evaluation by vm_compute.
package main

import (
	"bufio"
	"encoding/hex"
	"encoding/json"
	"flag"
	"fmt"
	"hash/fnv"
	"io"
	"os"
	"os/exec"
	"path/filepath"
	"sort"
	"strconv"
	"strings"
	"sync"
	"unicode/utf8"

	"github.com/rhysd/actionlint"

	"verifharness/hx"
)

// ---------------------------------------------------------------- inputs

var alphabet = []string{"a", "_", "-", "0", "1", "x", "e", "E", ".", "'", "(", ")", "[", "]", "!", "<", ">", "=", "&", "|", "*", ",", " ", "}", "+", "é", "\"", "$"}

var tokenLexemes = []string{"a", "'s'", "1", "1.5", "(", ")", "[", "]", ".", "!", "<", "<=", ">", ">=", "==", "!=", "&&", "||", "*", ",", "}}"}

type input struct {
	src  string
	kind string
}

func enumerate(syms []string, maxLen int, sep, suffix, kind string, emit func(input)) {
	idx := make([]int, maxLen)
	for n := 0; n <= maxLen; n++ {
		for i := 0; i < n; i++ {
			idx[i] = 0
		}
		for {
			parts := make([]string, n)
			for i := 0; i < n; i++ {
				parts[i] = syms[idx[i]]
			}
			emit(input{strings.Join(parts, sep) + suffix, kind})
			k := n - 1
			for k >= 0 {
				idx[k]++
				if idx[k] < len(syms) {
					break
				}
				idx[k] = 0
				k--
			}
			if k < 0 {
				break
			}
		}
	}
}

// random sentences of the grammar, as lexeme lists
var (
	identPool  = []string{"a", "github", "Foo", "steps", "x-y", "_u", "a_b-c", "TRUE", "true", "false", "null", "Null", "e1", "x0"}
	numberPool = []string{"0", "1", "42", "-1", "-0", "0x1f", "-0xA", "0x0", "1.5", "0.25", "-3.5", "1e5", "1E5", "1e-5", "1e+5", "2.5e+10", "0e0", "1.0e3", "2147483647", "-2147483648"}
	stringPool = []string{"''", "'s'", "'it''s'", "'}}'", "' a b '", "'\"'", "'''x'''", "'é'", "'a\nb'"}
	rareNumber = []string{"1e05", "0e00", "0x0a", "0x00", "2147483648", "-2147483649", "0xffffffff", "99999999999999999999", "1e999", "-1e999", "1.5e+0"}
	cmpOps     = []string{"<", "<=", ">", ">=", "==", "!="}
	spaces     = []string{"", "", " ", " ", "  ", "\t", "\n", "\r\n"}
)

func genExpr(r *hx.Rng, depth int, level int, out *[]string) {
	if depth <= 0 {
		level = 5
	}
	switch level {
	case 0: // or
		genExpr(r, depth-1, 1, out)
		if r.Chance(1, 3) {
			*out = append(*out, "||")
			genExpr(r, depth-1, 0, out)
		}
	case 1: // and
		genExpr(r, depth-1, 2, out)
		if r.Chance(1, 3) {
			*out = append(*out, "&&")
			genExpr(r, depth-1, 1, out)
		}
	case 2: // cmp
		genExpr(r, depth-1, 3, out)
		if r.Chance(1, 3) {
			*out = append(*out, r.Pick(cmpOps))
			genExpr(r, depth-1, 2, out)
		}
	case 3: // pre
		for r.Chance(1, 5) {
			*out = append(*out, "!")
		}
		genExpr(r, depth-1, 4, out)
	case 4: // post
		genExpr(r, depth-1, 5, out)
		for r.Chance(2, 5) {
			switch r.Intn(4) {
			case 0:
				*out = append(*out, ".", "*")
			case 1:
				*out = append(*out, "[")
				genExpr(r, depth-2, 0, out)
				*out = append(*out, "]")
			default:
				*out = append(*out, ".", r.Pick(identPool))
			}
		}
	default: // prim
		c := r.Intn(10)
		if depth <= 0 && (c == 3 || c == 4) {
			c = 0
		}
		switch c {
		case 0, 1, 2:
			*out = append(*out, r.Pick(identPool))
		case 3:
			*out = append(*out, r.Pick(identPool), "(")
			n := r.Intn(4)
			for i := 0; i < n; i++ {
				if i > 0 {
					*out = append(*out, ",")
				}
				genExpr(r, depth-2, 0, out)
			}
			*out = append(*out, ")")
		case 4:
			*out = append(*out, "(")
			genExpr(r, depth-1, 0, out)
			*out = append(*out, ")")
		case 5, 6:
			if r.Chance(1, 12) {
				*out = append(*out, r.Pick(rareNumber))
			} else {
				*out = append(*out, r.Pick(numberPool))
			}
		case 7:
			*out = append(*out, strconv.Itoa(r.Intn(1000)))
		default:
			*out = append(*out, r.Pick(stringPool))
		}
	}
}

func joinRandom(r *hx.Rng, lex []string) string {
	var sb strings.Builder
	sb.WriteString(r.Pick(spaces))
	for _, l := range lex {
		sb.WriteString(l)
		sb.WriteString(r.Pick(spaces))
	}
	sb.WriteString("}}")
	return sb.String()
}

func mutateLex(r *hx.Rng, lex []string) []string {
	out := append([]string{}, lex...)
	if len(out) == 0 {
		return []string{r.Pick(tokenLexemes)}
	}
	i := r.Intn(len(out))
	switch r.Intn(6) {
	case 0: // drop
		out = append(out[:i], out[i+1:]...)
	case 1: // duplicate
		out = append(out[:i+1], out[i:]...)
	case 2: // swap with neighbour
		if i+1 < len(out) {
			out[i], out[i+1] = out[i+1], out[i]
		}
	case 3: // replace
		out[i] = r.Pick(tokenLexemes[:20])
	case 4: // insert
		out = append(out[:i], append([]string{r.Pick(tokenLexemes[:20])}, out[i:]...)...)
	default: // damage one lexeme
		out[i] = out[i] + r.Pick(alphabet)
	}
	return out
}

// ---------------------------------------------------------------- oracle

const bom = "\ufeff"

// 1/n of the inputs of a stream go through Linter.Lint as well
var lintMods = map[string]uint32{"corpus": 1, "strings": 400, "tokens": 100, "random": 20, "mutant": 20, "ascii": 20, "raw": 40, "open": 1}

type failure struct {
	What  string `json:"what"`
	Key   string `json:"key"`
	Input string `json:"input"`
	Kind  string `json:"kind"`
	Impl  string `json:"impl"`
	Want  string `json:"want"`
	Prev  string `json:"previous_input,omitempty"` // key history: the text the same parser value parsed before
}

func sameInts(a, b []int) bool {
	if len(a) != len(b) {
		return false
	}
	for i := range a {
		if a[i] != b[i] {
			return false
		}
	}
	return true
}

// positionOK: the diagnostic lies inside the text and its line/column describe its offset
func positionOK(src string, off, line, col int) bool {
	if off < 0 || off > len(src) {
		return false
	}
	l, c := 1, 1
	for _, r := range src[:off] {
		if r == '\n' {
			l++
			c = 1
		} else {
			c++
		}
	}
	return l == line && c == col
}

// number-literal classes in which the implementation is known to be narrower
// than "JSON number forms plus 0x hex"; normalise rewrites such literals into
// an equivalent admitted form so that the rest of the input can be judged.
func literalClass(text string) (string, string) {
	neg := ""
	t := text
	if strings.HasPrefix(t, "-") {
		neg, t = "-", t[1:]
	}
	if strings.HasPrefix(t, "0x") {
		d := t[2:]
		if len(d) > 1 && d[0] == '0' {
			d2 := strings.TrimLeft(d, "0")
			if d2 == "" {
				d2 = "0"
			}
			if v := numValue(neg + "0x" + d2); v.IsInt64() && v.Int64() >= -2147483648 && v.Int64() <= 2147483647 {
				return "hex-leading-zero", neg + "0x" + d2
			}
			return "hex-leading-zero+int32-range", "0x1"
		}
		if v := numValue(text); !v.IsInt64() || v.Int64() < -2147483648 || v.Int64() > 2147483647 {
			return "int32-range", "0x1"
		}
		return "", text
	}
	if i := strings.IndexAny(t, "eE"); i >= 0 {
		mant, exp := t[:i+1], t[i+1:]
		sign := ""
		if exp != "" && (exp[0] == '+' || exp[0] == '-') {
			sign, exp = exp[:1], exp[1:]
		}
		if len(exp) > 1 && exp[0] == '0' {
			e2 := strings.TrimLeft(exp, "0")
			if e2 == "" {
				e2 = "0"
			}
			norm := neg + mant + sign + e2
			if _, err := strconv.ParseFloat(norm, 64); err != nil {
				return "exp-leading-zero+float-range", "1.5"
			}
			return "exp-leading-zero", norm
		}
	}
	if isIntText(text) {
		if v := numValue(text); !v.IsInt64() || v.Int64() < -2147483648 || v.Int64() > 2147483647 {
			return "int32-range", "0x1"
		}
		return "", text
	}
	if _, err := strconv.ParseFloat(text, 64); err != nil {
		return "float-range", "1.5"
	}
	return "", text
}

func normaliseLiterals(src string, toks []refTok) (string, []string) {
	classes := map[string]bool{}
	var sb strings.Builder
	last := 0
	for _, t := range toks {
		if t.kind != "num" {
			continue
		}
		c, repl := literalClass(t.text)
		if c == "" {
			continue
		}
		for _, x := range strings.Split(c, "+") {
			classes[x] = true
		}
		sb.WriteString(src[last:t.off])
		sb.WriteString(repl)
		last = t.off + len(t.text)
	}
	sb.WriteString(src[last:])
	return sb.String(), hx.SortedKeys(classes)
}

// stripPositions removes nothing: trees of the normalised text are compared
// between implementation and reference on the same text, so positions agree.
func checkProperty(in input, ir implResult) *failure {
	src := in.src
	refTree, toks, refOK := refParse(src)
	mk := func(what, key, want string) *failure {
		return &failure{What: what, Key: key, Input: src, Kind: in.kind, Impl: renderObs([][]int{ir.obs}), Want: want}
	}
	switch {
	case refOK && ir.accepted:
		if !sameInts(refTree, ir.tree) {
			return mk("accepted text is analysed with a different structure than the documented grammar gives", "tree:"+src, renderObs([][]int{refTree}))
		}
	case !refOK && ir.accepted:
		if strings.HasPrefix(src, bom) {
			// text/scanner silently drops a byte order mark in front of the first character
			if _, _, ok := refParse(src[len(bom):]); ok && implParse(src[len(bom):]).accepted {
				return mk("a byte order mark directly in front of the expression text is skipped (and becomes part of the first token's text)", "leading-bom", "reject")
			}
		}
		return mk("text outside the documented grammar is accepted", "accepts:"+src, "reject")
	case refOK && !ir.accepted:
		norm, classes := normaliseLiterals(src, toks)
		if len(classes) > 0 {
			nr := implParse(norm)
			nt, _, nok := refParse(norm)
			if nr.accepted && nok && sameInts(nt, nr.tree) {
				return mk("sentence rejected only because of a number literal of class "+strings.Join(classes, "+"), "number-literal:"+strings.Join(classes, "+"), "accept")
			}
		}
		return mk("sentence of the documented grammar is rejected", "rejects:"+src, "accept")
	}
	if !ir.accepted {
		if ir.err == nil {
			return mk("rejected without a diagnostic", "nodiag:"+src, "one diagnostic")
		}
		if !positionOK(src, ir.err.Offset, ir.err.Line, ir.err.Column) {
			return mk("diagnostic is not positioned inside the text", "position:"+src, "0 <= offset <= len, line/column of that offset")
		}
		if len(ir.obs) > 1 && ir.obs[1] < 0 {
			return mk("diagnostic of an unknown class", "class:"+src, "a lexer or parser syntax diagnostic")
		}
	}
	return nil
}

// ---------------------------------------------------------------- workers

type worker struct {
	model  *exec.Cmd
	stdin  *bufio.Writer
	closer io.Closer
	outBuf *strings.Builder
	done   chan struct{}

	evals      int
	skipped    int
	linted     int
	linter     *actionlint.Linter
	parser     *actionlint.ExprParser // one value for all the texts of the worker
	prev       string
	accepted   int
	dist       map[string]int
	fails      []failure
	coqCases   []string
	coqSources []string
}

func startWorker(modelPath string) *worker {
	w := &worker{dist: map[string]int{}, outBuf: &strings.Builder{}, done: make(chan struct{}), linter: newLinter()}
	if modelPath != "" {
		w.model = exec.Command(modelPath)
		in, err := w.model.StdinPipe()
		hx.Must(err)
		out, err := w.model.StdoutPipe()
		hx.Must(err)
		w.model.Stderr = os.Stderr
		hx.Must(w.model.Start())
		w.stdin = bufio.NewWriterSize(in, 1<<16)
		w.closer = in
		go func() {
			b, _ := io.ReadAll(out)
			w.outBuf.Write(b)
			close(w.done)
		}()
	} else {
		close(w.done)
	}
	return w
}

func coqOK(s string) bool {
	for i := 0; i < len(s); i++ {
		if (s[i] < 32 && s[i] != '\t') || s[i] == 127 {
			return false
		}
	}
	return hx.CoqStrOK(s) && utf8.ValidString(s)
}

func (w *worker) process(in input, seed uint64, sampleMod uint32) {
	src := in.src
	lo := implLex(src)
	ir := implParse(src)
	obs := append(append([][]int{}, lo...), ir.obs)
	bad := badFloats(src)
	w.evals++
	w.dist["kind:"+in.kind]++
	if ir.accepted {
		w.accepted++
		w.dist["accept"]++
	} else if ir.obs[0] == 22 {
		w.dist["reject:lexer"]++
	} else {
		w.dist["reject:parser"]++
	}
	if strings.HasPrefix(src, bom) {
		// outside the model's domain (docs/C04.md): text/scanner's BOM skipping
		w.dist["not_sent_to_model:leading_bom"]++
		w.skipped++
	} else if w.stdin != nil {
		hb := make([]string, len(bad))
		for i, b := range bad {
			hb[i] = hex.EncodeToString([]byte(b))
		}
		fmt.Fprintf(w.stdin, "%s\t%s\t%s\n", hex.EncodeToString([]byte(src)), strings.Join(hb, ","), renderObs(obs))
	}
	// one parser value for all the texts of this worker: what it parsed before (accepted or rejected)
	// does not change what it says about this text
	if w.parser == nil {
		w.parser = actionlint.NewExprParser()
	}
	if ir2 := implParseWith(w.parser, src); !sameInts(ir.obs, ir2.obs) {
		if len(w.fails) < 2000 {
			w.fails = append(w.fails, failure{What: "a parser value that has parsed other texts before gives another answer than a fresh one (previous text: " + strconv.Quote(w.prev) + ")",
				Key: "history:" + src, Input: src, Kind: in.kind, Impl: renderObs([][]int{ir2.obs}), Want: renderObs([][]int{ir.obs}), Prev: w.prev})
		}
		w.dist["oracle_failure"]++
		w.parser = actionlint.NewExprParser()
	}
	w.prev = src
	if f := checkProperty(in, ir); f != nil {
		if len(w.fails) < 2000 {
			w.fails = append(w.fails, *f)
		}
		w.dist["oracle_failure"]++
	}
	// Linter-level oracle on a deterministic subset (all corpus inputs, ~1/lintMod of the others)
	closed := embeddable(src)
	if lm := lintMods[in.kind]; lm > 0 && (closed || embeddableOpen(src)) {
		h := fnv.New32a()
		fmt.Fprintf(h, "lint|%d|%s", seed, src)
		if h.Sum32()%lm == 0 {
			w.linted++
			lr := lintOracle(w.linter, src, ir)
			if !closed {
				w.dist["linted_unterminated"]++
			}
			if lr.ok && closed && h.Sum32()%(lm*3) == 0 && ir.err != nil == !ir.accepted && (ir.accepted || ir.err.Line == 1) {
				w.dist["linted_at_other_sites"]++
				lr = siteOracle(w.linter, src, ir)
			}
			if lr.ok && closed {
				if _, ok := ifEmbeddable(src); ok {
					w.dist["linted_as_if_condition"]++
					lr = ifOracle(w.linter, src, ir)
				} else if _, _, ok := ifQuoted(src); ok {
					w.dist["linted_as_quoted_if_condition"]++
					lr = ifOracle(w.linter, src, ir)
				}
			}
			if !lr.ok {
				if len(w.fails) < 2000 {
					w.fails = append(w.fails, failure{What: lr.what, Key: "lint:" + src, Input: src, Kind: in.kind, Impl: lr.got, Want: "exactly one expression diagnostic inside the placeholder iff the text is rejected"})
				}
				w.dist["oracle_failure"]++
			}
		}
	}
	if sampleMod > 0 && coqOK(src) && !strings.HasPrefix(src, bom) {
		h := fnv.New32a()
		fmt.Fprintf(h, "%d|%s", seed, src)
		if h.Sum32()%sampleMod == 0 {
			bs := make([]string, len(bad))
			for i, b := range bad {
				bs[i] = hx.CoqStr(b)
			}
			w.coqCases = append(w.coqCases, fmt.Sprintf("((%s, %s), %s)", hx.CoqStr(src), hx.CoqList(bs), coqObs(obs)))
			w.coqSources = append(w.coqSources, src)
		}
	}
}

type modelMismatch struct {
	Input string `json:"input"`
	Impl  string `json:"impl"`
	Model string `json:"model"`
}

func (w *worker) finish() (evaluated int, mism []modelMismatch, errText string) {
	if w.stdin == nil {
		return 0, nil, ""
	}
	w.stdin.Flush()
	w.closer.Close()
	<-w.done
	err := w.model.Wait()
	sawDone := false
	for _, l := range strings.Split(w.outBuf.String(), "\n") {
		f := strings.Split(l, "\t")
		switch {
		case f[0] == "MISMATCH" && len(f) == 4:
			b, _ := hex.DecodeString(f[1])
			mism = append(mism, modelMismatch{string(b), f[2], f[3]})
		case f[0] == "DONE" && len(f) >= 2:
			evaluated, _ = strconv.Atoi(f[1])
			sawDone = true
		}
	}
	if err != nil || !sawDone {
		errText = fmt.Sprintf("model process failed: %v (output tail: %.300s)", err, w.outBuf.String())
	}
	return
}

// ---------------------------------------------------------------- main

func main() {
	seed := flag.Uint64("seed", 1, "PRNG seed")
	n := flag.Int("n", 20000, "number of random sentences (each also mutated twice)")
	out := flag.String("out", "", "output directory")
	replay := flag.String("replay", "", "replay file (JSON with an 'input' field)")
	tier := flag.String("tier", "quick", "quick|thorough")
	model := flag.String("model", "", "path of the extracted model evaluator (ocaml/c04)")
	workers := flag.Int("workers", 16, "parallel workers")
	flag.Parse()

	if *replay != "" {
		b, err := os.ReadFile(*replay)
		hx.Must(err)
		var f failure
		hx.Must(json.Unmarshal(b, &f))
		ir := implParse(f.Input)
		if strings.HasPrefix(f.Key, "history:") {
			p := actionlint.NewExprParser()
			first := implParseWith(p, f.Prev)
			second := implParseWith(p, f.Input)
			fmt.Printf("one parser value: %q -> %s, then %q -> %s; a fresh parser value on the second text: %s\n", f.Prev, renderObs([][]int{first.obs}), f.Input, renderObs([][]int{second.obs}), renderObs([][]int{ir.obs}))
			if !sameInts(second.obs, ir.obs) {
				fmt.Println("REPLAY: property violated: the answer depends on what the parser value parsed before")
				os.Exit(1)
			}
			fmt.Println("REPLAY: property holds on this input")
			return
		}
		tree, _, ok := refParse(f.Input)
		fmt.Printf("input: %q\nimplementation: lex=%s parse=%s\n", f.Input, renderObs(implLex(f.Input)), renderObs([][]int{ir.obs}))
		if ir.err != nil {
			fmt.Printf("implementation diagnostic: %d:%d (offset %d): %s\n", ir.err.Line, ir.err.Column, ir.err.Offset, ir.err.Message)
		}
		fmt.Printf("reference (documented grammar): accept=%v tree=%s\n", ok, renderObs([][]int{tree}))
		if fl := checkProperty(input{f.Input, "replay"}, ir); fl != nil {
			fmt.Printf("REPLAY: property violated: %s (key %s)\n", fl.What, fl.Key)
			os.Exit(1)
		}
		if embeddable(f.Input) {
			lr := lintOracle(newLinter(), f.Input, ir)
			fmt.Printf("through Linter.Lint (text embedded after ${{ in a workflow): %s\n", lr.got)
			if lr.ok && ir.err != nil == !ir.accepted && (ir.accepted || ir.err.Line == 1) {
				lr = siteOracle(newLinter(), f.Input, ir)
				fmt.Printf("through Linter.Lint (nested matrix array / include array / with: input): %s\n", lr.got)
			}
			if lr.ok {
				_, okp := ifEmbeddable(f.Input)
				_, _, okq := ifQuoted(f.Input)
				if okp || okq {
					lr = ifOracle(newLinter(), f.Input, ir)
					fmt.Printf("through Linter.Lint (text as an if: condition): %s\n", lr.got)
				}
			}
			if !lr.ok {
				fmt.Printf("REPLAY: property violated: %s\n", lr.what)
				os.Exit(1)
			}
		}
		fmt.Println("REPLAY: property holds on this input")
		return
	}

	hx.Must(os.MkdirAll(*out, 0o755))
	strLen, tokLen, rawLen := 4, 4, 3
	if *tier == "thorough" {
		strLen, tokLen, rawLen = 5, 5, 4
	}

	ws := make([]*worker, *workers)
	chans := make([]chan []input, *workers)
	var wg sync.WaitGroup
	// expected sample sizes ~120 per stream
	sampleMods := map[string]uint32{"open": 1, "strings": 5000, "raw": 400, "tokens": 1700, "random": 160, "mutant": 330, "corpus": 1, "ascii": 150}
	if *tier == "thorough" {
		sampleMods = map[string]uint32{"open": 1, "strings": 140000, "raw": 11000, "tokens": 34000, "random": 160 * 8, "mutant": 330 * 8, "corpus": 1, "ascii": 150}
	}
	for i := range ws {
		ws[i] = startWorker(*model)
		chans[i] = make(chan []input, 4)
		wg.Add(1)
		go func(w *worker, c chan []input) {
			defer wg.Done()
			for batch := range c {
				for _, in := range batch {
					w.process(in, *seed, sampleMods[in.kind])
				}
			}
		}(ws[i], chans[i])
	}
	// deterministic distribution: batch k goes to worker k mod W
	batch := make([]input, 0, 512)
	nb := 0
	flush := func() {
		if len(batch) > 0 {
			chans[nb%len(chans)] <- batch
			nb++
			batch = make([]input, 0, 512)
		}
	}
	emit := func(in input) {
		batch = append(batch, in)
		if len(batch) == 512 {
			flush()
		}
	}

	// corpus: the inputs the design names, always part of the Coq sample
	for _, s := range []string{"1e+5", "1E+5", "1e05", "0e00", "0x0a", "0x00", "2147483648", "-2147483649", "1e999", "a.1", "f(a,)", "0123", "1.", "1.a", "a b $", "a $", "TRUE", "true", "a && b || c", "a || b && c", "!a == b", "a < b < c", "a.b.*[0].c", "f()", "f(1, 'x', g(h))", "(a)", "((a)", "a[", "a.*.b", "-", "--1", "0x", "0x1g", "'it''s'", "'abc", "\"s\"", "a\tb", "1e+", "1e+5x", "a }} b"} {
		emit(input{s + "}}", "corpus"})
		emit(input{" " + s + " }}", "corpus"})
	}
	// placeholders that are never closed
	for _, s := range []string{"", " a", " github.sha", " a.b", " a }", " f(a", " 'abc", " a &&", " a } }", " a.b.*", " (a)", "a", " 1e+5", " a == 'x'"} {
		emit(input{s, "open"})
	}
	// deep nesting of parentheses, calls and index brackets (no bound on the depth)
	for _, d := range []int{8, 16, 24, 31, 32, 33, 48, 64, 100, 200} {
		emit(input{strings.Repeat("(", d) + "a" + strings.Repeat(")", d) + "}}", "corpus"})
		emit(input{strings.Repeat("f(", d) + "a" + strings.Repeat(")", d) + "}}", "corpus"})
		emit(input{"a" + strings.Repeat("[a", d) + strings.Repeat("]", d) + "}}", "corpus"})
		emit(input{strings.Repeat("!(", d) + "a" + strings.Repeat(")", d) + " }}", "corpus"})
		emit(input{strings.Repeat("(", d) + "a" + strings.Repeat(")", d-1) + "}}", "corpus"})
	}
	// white space only, and white space around the smallest sentences (as an if: condition these
	// are written as quoted scalars)
	for _, s := range []string{" ", "  ", "   ", "     ", " a", "a ", "  a  ", " ! a ", " 1", " 'x' ", " ( a ) ", " a .b", " a . b ", "a. b", "a [ 0 ]", " f ( ) ", " a&& b", " ) ", " , ", " && "} {
		emit(input{s + "}}", "corpus"})
	}
	// every ASCII character (and a few non-ASCII ones) in every lexical context,
	// and every pair of ASCII characters: catches changes of a character class
	// outside the enumeration alphabet (e.g. another whitespace character)
	wide := []string{}
	for c := 1; c < 128; c++ {
		wide = append(wide, string(rune(c)))
	}
	wide = append(wide, "é", "\u00a0", "€", "\u2028", "\ufeff")
	for _, c := range wide {
		for _, tpl := range []string{"%s", "%sa", "a%s", "a%sb", "a %s b", "1%s", "1%s2", "a.%sb", "a%s.b", "'%s'", "f(%s)", "f(a%s)", "a%s=b", "!%sa", "a[%s0]", "0x1%s", "1.5%s", "1e%s5", "a &&%s b", "(%sa)"} {
			emit(input{fmt.Sprintf(tpl, c) + "}}", "ascii"})
		}
	}
	for _, c := range wide[:127] {
		for _, d := range wide[:127] {
			emit(input{c + d + "}}", "ascii"})
		}
	}
	enumerate(alphabet, strLen, "", "}}", "strings", emit)
	enumerate(alphabet, rawLen, "", "", "raw", emit)
	enumerate(tokenLexemes, tokLen, " ", " }}", "tokens", emit)
	r := hx.NewRng(*seed)
	samples := []interface{}{}
	for i := 0; i < *n; i++ {
		lex := []string{}
		genExpr(r, 2+r.Intn(7), 0, &lex)
		s := joinRandom(r, lex)
		emit(input{s, "random"})
		if i < 3 {
			samples = append(samples, s)
		}
		for k := 0; k < 2; k++ {
			m := mutateLex(r, lex)
			if r.Chance(1, 3) {
				m = mutateLex(r, m)
			}
			emit(input{joinRandom(r, m), "mutant"})
		}
	}
	flush()
	for _, c := range chans {
		close(c)
	}
	wg.Wait()

	sum := hx.NewSummary("C04")
	sum.Rule = fmt.Sprintf("every string of length <= %d over the %d-symbol lexical alphabet followed by }} (and of length <= %d without it); every sequence of <= %d canonical lexemes over the 20 token kinds and }}; every ASCII character (and 5 non-ASCII ones) in 20 lexical contexts and every pair of ASCII characters; %d random sentences of the grammar (depth <= 8, random whitespace) and 2 mutants of each; non-trivial = accepted by the implementation (a tree is compared); distinct inputs by construction of the enumerations", strLen, len(alphabet), rawLen, tokLen, *n)
	sum.Samples = samples
	var fails []failure
	var mism []modelMismatch
	var coqCases, coqSources []string
	modelEvaluated := 0
	modelErr := ""
	skippedModel := 0
	linted := 0
	for _, w := range ws {
		ev, mm, et := w.finish()
		modelEvaluated += ev
		mism = append(mism, mm...)
		if et != "" {
			modelErr = et
		}
		sum.Evaluations += w.evals
		linted += w.linted
		skippedModel += w.skipped
		sum.Nontrivial += w.accepted
		for k, v := range w.dist {
			sum.Dist[k] += v
		}
		fails = append(fails, w.fails...)
		coqCases = append(coqCases, w.coqCases...)
		coqSources = append(coqSources, w.coqSources...)
	}
	// canonical order: shortest input first
	sort.SliceStable(fails, func(i, j int) bool {
		if len(fails[i].Input) != len(fails[j].Input) {
			return len(fails[i].Input) < len(fails[j].Input)
		}
		return fails[i].Input < fails[j].Input
	})
	sort.SliceStable(mism, func(i, j int) bool {
		if len(mism[i].Input) != len(mism[j].Input) {
			return len(mism[i].Input) < len(mism[j].Input)
		}
		return mism[i].Input < mism[j].Input
	})
	perKey := map[string]int{}
	for _, f := range fails {
		k := f.Key
		if !strings.HasPrefix(k, "number-literal:") {
			k = "other"
		}
		perKey[k]++
		// keep one representative per known class and the 50 shortest others
		if f.Key == "leading-bom" {
			k = f.Key
			perKey["other"]--
			perKey[k]++
		}
		if (strings.HasPrefix(f.Key, "number-literal:") || f.Key == "leading-bom") && perKey[k] > 1 {
			continue
		}
		if k == "other" && perKey[k] > 50 {
			continue
		}
		sum.OracleFails = append(sum.OracleFails, f)
	}
	// bare `if:` conditions (no placeholder) that are sentences of the language and hold the characters
	// `${{` inside a string literal: accepted as they are
	for _, cond := range []string{"contains(github.event.head_commit.message, '${{')", "github.ref == '${{ x'", "startsWith('${{', 'a') || endsWith(github.ref, '${{ ')", "'${{' != github.sha"} {
		for _, lvl := range []string{"    if: ", "    steps:\n      - run: echo\n        if: "} {
			src := "on: push\njobs:\n  j:\n    runs-on: ubuntu-latest\n" + lvl + "\"" + cond + "\"\n"
			if !strings.Contains(lvl, "steps") {
				src += "    steps:\n      - run: echo\n"
			}
			errs, err := newLinter().Lint("<stdin>", []byte(src), nil)
			sum.Dist["bare_if_with_placeholder_opening_in_a_string"]++
			got := ""
			bad := err != nil
			for _, e := range errs {
				got += e.Error() + " | "
				if e.Kind == "expression" {
					bad = true
				}
			}
			if bad {
				sum.OracleFails = append(sum.OracleFails, failure{What: "a bare if: condition that is a sentence of the language (the characters ${{ stand inside a string literal) draws an expression diagnostic", Key: "bare-if:placeholder-opening-in-string", Input: cond, Kind: "bare-if", Impl: got, Want: "no expression diagnostic"})
			}
		}
	}
	sum.Extra["oracle_failures_total"] = len(fails)
	sum.Extra["oracle_failures_by_class"] = perKey
	sum.Extra["model_evaluated"] = modelEvaluated
	sum.Extra["model_skipped"] = skippedModel
	sum.Extra["linted_through_Linter.Lint"] = linted
	sum.Extra["model_mismatches_total"] = len(mism)
	if len(mism) > 20 {
		mism = mism[:20]
	}
	sum.Extra["model_mismatches"] = mism
	sum.Extra["model_error"] = modelErr

	// Coq sample, sorted for determinism
	idx := make([]int, len(coqCases))
	for i := range idx {
		idx[i] = i
	}
	sort.Slice(idx, func(a, b int) bool { return coqSources[idx[a]] < coqSources[idx[b]] })
	cf, err := os.Create(filepath.Join(*out, "cases.txt"))
	hx.Must(err)
	sf, err := os.Create(filepath.Join(*out, "sources.jsonl"))
	hx.Must(err)
	for _, i := range idx {
		fmt.Fprintln(cf, coqCases[i])
		b, _ := json.Marshal(map[string]string{"input": coqSources[i]})
		fmt.Fprintln(sf, string(b))
	}
	cf.Close()
	sf.Close()
	sum.Write(filepath.Join(*out, "summary.json"))
}
