package main

// Linter-level oracle: "rejected text yields exactly one syntax diagnostic
// positioned within the placeholder".  The text is embedded after `${{` in a
// one-line plain scalar of a minimal workflow and linted with Linter.Lint;
// when ExprParser rejects the text there must be exactly one diagnostic, of
// kind "expression", carrying the parser's message, at the column of the
// offending character inside the placeholder; when it accepts the text no
// lexer/parser diagnostic may appear.

import (
	"io"
	"strings"
	"unicode/utf8"

	"github.com/rhysd/actionlint"
)

const lintPrefix = "on: push\njobs:\n  j:\n    runs-on: ubuntu-latest\n    steps:\n      - run: echo\n        env:\n          X: ${{"
const lintLine = 8
const lintValueCol = 14 // column of `$` in the line `          X: ${{...`

// embeddable: the text survives as the tail of a one-line plain YAML scalar
func embeddable(src string) bool {
	if !strings.HasSuffix(src, "}}") || !utf8.ValidString(src) {
		return false
	}
	for _, r := range src {
		if r < 32 || r == 127 || r == '#' || r == ':' || r == 0xfeff || r == 0x2028 || r == 0x85 || r == 0xa0 {
			return false
		}
	}
	return !strings.Contains(src, "${{")
}

type lintResult struct {
	ok   bool
	what string
	got  string
}

func lintOracle(l *actionlint.Linter, src string, ir implResult) lintResult {
	errs, err := l.Lint("<stdin>", []byte(lintPrefix+src+"\n"), nil)
	if err != nil {
		return lintResult{false, "Linter.Lint failed: " + err.Error(), ""}
	}
	var sb strings.Builder
	for _, e := range errs {
		sb.WriteString(e.Kind + "@" + itoa(e.Line) + ":" + itoa(e.Column) + " " + e.Message + " | ")
	}
	got := sb.String()
	if ir.accepted {
		for _, e := range errs {
			if c, _ := parseErrClass(e.Message); lexErrClass(e.Message) >= 0 || c >= 0 {
				return lintResult{false, "accepted text produces a syntax diagnostic through Linter.Lint", got}
			}
		}
		return lintResult{true, "", got}
	}
	if len(errs) != 1 {
		return lintResult{false, "rejected text does not yield exactly one diagnostic through Linter.Lint", got}
	}
	e := errs[0]
	wantCol := lintValueCol + 3 + ir.err.Column - 1
	if e.Kind != "expression" || e.Message != ir.err.Message || e.Line != lintLine || e.Column != wantCol || ir.err.Line != 1 {
		return lintResult{false, "the diagnostic of rejected text is not the parser's diagnostic at the offending character of the placeholder (want line " + itoa(lintLine) + " column " + itoa(wantCol) + ")", got}
	}
	// inside the placeholder: between `${{` and the end of the scalar
	if e.Column < lintValueCol+3 || e.Column > lintValueCol+3+utf8.RuneCountInString(src) {
		return lintResult{false, "the diagnostic lies outside the placeholder", got}
	}
	return lintResult{true, "", got}
}

func itoa(i int) string {
	return strings.TrimSpace(strings.Join([]string{"", fmtInt(i)}, ""))
}

func fmtInt(i int) string {
	if i == 0 {
		return "0"
	}
	neg := i < 0
	if neg {
		i = -i
	}
	b := []byte{}
	for i > 0 {
		b = append([]byte{byte('0' + i%10)}, b...)
		i /= 10
	}
	if neg {
		return "-" + string(b)
	}
	return string(b)
}

func newLinter() *actionlint.Linter {
	l, err := actionlint.NewLinter(io.Discard, &actionlint.LinterOptions{})
	if err != nil {
		panic(err)
	}
	return l
}
