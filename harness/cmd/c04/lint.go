package main

// Linter-level oracle: "rejected text yields exactly one syntax diagnostic
// positioned within the placeholder".  The text is embedded after `${{` in a
// one-line plain scalar of a minimal workflow and linted with Linter.Lint;
// when ExprParser rejects the text there must be exactly one diagnostic, of
// kind "expression", carrying the parser's message, at the column of the
// offending character inside the placeholder; when it accepts the text no
// lexer/parser diagnostic may appear.

import (
	"io"
	"strings"
	"unicode/utf8"

	"github.com/rhysd/actionlint"
)

const lintPrefix = "on: push\njobs:\n  j:\n    runs-on: ubuntu-latest\n    steps:\n      - run: echo\n        env:\n          X: ${{"
const lintLine = 8
const lintValueCol = 14 // column of `$` in the line `          X: ${{...`

// embeddable: the text survives as the tail of a one-line plain YAML scalar
func embeddable(src string) bool {
	if !strings.HasSuffix(src, "}}") || !utf8.ValidString(src) {
		return false
	}
	for _, r := range src {
		if r < 32 || r == 127 || r == '#' || r == ':' || r == 0xfeff || r == 0x2028 || r == 0x85 || r == 0xa0 {
			return false
		}
	}
	return !strings.Contains(src, "${{")
}

// embeddableOpen: a placeholder that is never closed (no `}}` up to the end of the scalar): the
// lexer reaches the end of the text, which is one syntax diagnostic like any other
func embeddableOpen(src string) bool {
	if strings.Contains(src, "}}") || !utf8.ValidString(src) || src != strings.TrimRight(src, " ") {
		return false
	}
	for _, r := range src {
		if r < 32 || r == 127 || r == '#' || r == ':' || r == 0xfeff || r == 0x2028 || r == 0x85 || r == 0xa0 {
			return false
		}
	}
	return !strings.Contains(src, "${{")
}

// the same text as an `if:` condition written without ${{ }} (rule_expression.go
// appends the end marker itself)
const ifPrefix = "on: push\njobs:\n  j:\n    runs-on: ubuntu-latest\n    steps:\n      - run: echo\n        if: "
const ifLine = 7
const ifValueCol = 13

var yamlSpecial = map[string]bool{"true": true, "false": true, "null": true, "yes": true, "no": true, "on": true, "off": true, "y": true, "n": true, "~": true}

// ifEmbeddable: src = text + "}}" where text is a one-line plain YAML scalar that
// yaml.v3 resolves to a string
func ifEmbeddable(src string) (string, bool) {
	if !embeddable(src) || strings.Count(src, "}}") != 1 {
		return "", false
	}
	text := strings.TrimSuffix(src, "}}")
	if text == "" || text != strings.TrimSpace(text) || yamlSpecial[strings.ToLower(text)] {
		return "", false
	}
	c := text[0]
	if !(c >= 'a' && c <= 'z' || c >= 'A' && c <= 'Z' || c == '(' || c == '_') {
		return "", false
	}
	if strings.ContainsAny(text, "{}\"") || strings.HasSuffix(text, ":") {
		return "", false
	}
	return text, true
}

// ifQuoted: texts that cannot be written as a plain scalar (leading / trailing / only
// white space, a leading digit or operator ...) are written single-quoted (” for ').
// Returns the scalar, the text and whether the column of a diagnostic at byte offset
// off of the text is still off + 1 columns after the opening quote.
func ifQuoted(src string) (scalar, text string, ok bool) {
	if !embeddable(src) || strings.Count(src, "}}") != 1 {
		return "", "", false
	}
	text = strings.TrimSuffix(src, "}}")
	if text == "" || strings.ContainsAny(text, "{}") {
		return "", "", false
	}
	return "'" + strings.ReplaceAll(text, "'", "''") + "'", text, true
}

func ifOracle(l *actionlint.Linter, src string, ir implResult) lintResult {
	text, ok := ifEmbeddable(src)
	valueCol := ifValueCol
	scalar := text
	exactCol := true
	if !ok {
		var okq bool
		scalar, text, okq = ifQuoted(src)
		if !okq {
			return lintResult{ok: true}
		}
		valueCol = ifValueCol + 1
		if !ir.accepted && ir.err != nil {
			upto := ir.err.Offset
			if upto > len(text) {
				upto = len(text)
			}
			exactCol = !strings.Contains(text[:upto], "'")
		}
	}
	errs, err := l.Lint("<stdin>", []byte(ifPrefix+scalar+"\n"), nil)
	if err != nil {
		return lintResult{false, "Linter.Lint failed: " + err.Error(), ""}
	}
	var sb strings.Builder
	for _, e := range errs {
		sb.WriteString(e.Kind + "@" + itoa(e.Line) + ":" + itoa(e.Column) + " " + e.Message + " | ")
	}
	got := sb.String()
	if ir.accepted {
		for _, e := range errs {
			if c, _ := parseErrClass(e.Message); lexErrClass(e.Message) >= 0 || c >= 0 {
				return lintResult{false, "accepted text produces a syntax diagnostic as an if: condition", got}
			}
		}
		return lintResult{true, "", got}
	}
	wantCol := valueCol + ir.err.Column - 1
	if len(errs) != 1 || errs[0].Kind != "expression" || errs[0].Message != ir.err.Message || errs[0].Line != ifLine || (exactCol && errs[0].Column != wantCol) {
		return lintResult{false, "rejected text used as an if: condition does not yield exactly the parser's diagnostic at the offending character (want line " + itoa(ifLine) + " column " + itoa(wantCol) + ")", got}
	}
	return lintResult{true, "", got}
}

type lintResult struct {
	ok   bool
	what string
	got  string
}

// other positions of a placeholder: first element of an array nested in a matrix row value, an
// include assignment, a `with:` input — "exactly one syntax diagnostic" holds at each of them
var lintSites = []struct {
	name, prefix, suffix string
	line, col            int // position of `$`
}{
	{"matrix-nested-array", "on: push\njobs:\n  j:\n    runs-on: ubuntu-latest\n    strategy:\n      matrix:\n        a:\n          - - ${{", "\n            - x\n    steps:\n      - run: echo\n", 8, 15},
	{"matrix-include-array", "on: push\njobs:\n  j:\n    runs-on: ubuntu-latest\n    strategy:\n      matrix:\n        a: [1]\n        include:\n          - b:\n              - ${{", "\n              - y\n    steps:\n      - run: echo\n", 10, 17},
	{"closing-braces-before", "on: push\njobs:\n  j:\n    runs-on: ubuntu-latest\n    steps:\n      - run: echo\n        env:\n          X: a }} b ${{", "\n", 8, 21},
	{"with-input", "on: push\njobs:\n  j:\n    runs-on: ubuntu-latest\n    steps:\n      - uses: actions/checkout@v4\n        with:\n          ref: ${{", "\n", 8, 16},
	// `args` / `entrypoint` of a step that does not run a Docker image
	{"with-args-of-repo-action", "on: push\njobs:\n  j:\n    runs-on: ubuntu-latest\n    steps:\n      - uses: golangci/golangci-lint-action@v6\n        with:\n          args: ${{", "\n", 8, 17},
	{"with-entrypoint-of-local-action", "on: push\njobs:\n  j:\n    runs-on: ubuntu-latest\n    steps:\n      - uses: ./no/such/action\n        with:\n          entrypoint: ${{", "\n", 8, 23},
	// a strategy section without a matrix
	{"fail-fast-no-matrix", "on: push\njobs:\n  j:\n    runs-on: ubuntu-latest\n    strategy:\n      fail-fast: ${{", "\n    steps:\n      - run: echo\n", 6, 18},
	{"max-parallel-no-matrix", "on: push\njobs:\n  j:\n    runs-on: ubuntu-latest\n    strategy:\n      max-parallel: ${{", "\n    steps:\n      - run: echo\n", 6, 21},
}

// siteOracle: the count and the position of syntax diagnostics at the other sites
func siteOracle(l *actionlint.Linter, src string, ir implResult) lintResult {
	for _, st := range lintSites {
		errs, err := l.Lint("<stdin>", []byte(st.prefix+src+st.suffix), nil)
		if err != nil {
			return lintResult{false, "Linter.Lint failed: " + err.Error(), ""}
		}
		var sb strings.Builder
		n := 0
		var first *actionlint.Error
		for _, e := range errs {
			sb.WriteString(e.Kind + "@" + itoa(e.Line) + ":" + itoa(e.Column) + " " + e.Message + " | ")
			if c, _ := parseErrClass(e.Message); lexErrClass(e.Message) >= 0 || c >= 0 {
				n++
				if first == nil {
					first = e
				}
			}
		}
		got := sb.String()
		if ir.accepted {
			if n > 0 {
				return lintResult{false, "accepted text produces a syntax diagnostic at site " + st.name, got}
			}
			continue
		}
		if n != 1 {
			return lintResult{false, "rejected text yields " + itoa(n) + " syntax diagnostics instead of exactly one at site " + st.name, got}
		}
		wantCol := st.col + 3 + ir.err.Column - 1
		if first.Message != ir.err.Message || first.Line != st.line || first.Column != wantCol {
			return lintResult{false, "the syntax diagnostic at site " + st.name + " is not the parser's diagnostic at the offending character (want line " + itoa(st.line) + " column " + itoa(wantCol) + ")", got}
		}
	}
	return lintResult{true, "", ""}
}

func lintOracle(l *actionlint.Linter, src string, ir implResult) lintResult {
	errs, err := l.Lint("<stdin>", []byte(lintPrefix+src+"\n"), nil)
	if err != nil {
		return lintResult{false, "Linter.Lint failed: " + err.Error(), ""}
	}
	var sb strings.Builder
	for _, e := range errs {
		sb.WriteString(e.Kind + "@" + itoa(e.Line) + ":" + itoa(e.Column) + " " + e.Message + " | ")
	}
	got := sb.String()
	if ir.accepted {
		for _, e := range errs {
			if c, _ := parseErrClass(e.Message); lexErrClass(e.Message) >= 0 || c >= 0 {
				return lintResult{false, "accepted text produces a syntax diagnostic through Linter.Lint", got}
			}
		}
		return lintResult{true, "", got}
	}
	if len(errs) != 1 {
		return lintResult{false, "rejected text does not yield exactly one diagnostic through Linter.Lint", got}
	}
	e := errs[0]
	wantCol := lintValueCol + 3 + ir.err.Column - 1
	if e.Kind != "expression" || e.Message != ir.err.Message || e.Line != lintLine || e.Column != wantCol || ir.err.Line != 1 {
		return lintResult{false, "the diagnostic of rejected text is not the parser's diagnostic at the offending character of the placeholder (want line " + itoa(lintLine) + " column " + itoa(wantCol) + ")", got}
	}
	// inside the placeholder: between `${{` and the end of the scalar
	if e.Column < lintValueCol+3 || e.Column > lintValueCol+3+utf8.RuneCountInString(src) {
		return lintResult{false, "the diagnostic lies outside the placeholder", got}
	}
	return lintResult{true, "", got}
}

func itoa(i int) string {
	return strings.TrimSpace(strings.Join([]string{"", fmtInt(i)}, ""))
}

func fmtInt(i int) string {
	if i == 0 {
		return "0"
	}
	neg := i < 0
	if neg {
		i = -i
	}
	b := []byte{}
	for i > 0 {
		b = append([]byte{byte('0' + i%10)}, b...)
		i /= 10
	}
	if neg {
		return "-" + string(b)
	}
	return string(b)
}

func newLinter() *actionlint.Linter {
	l, err := actionlint.NewLinter(io.Discard, &actionlint.LinterOptions{})
	if err != nil {
		panic(err)
	}
	return l
}
